#!/opt/veriftools/pyvenv/bin/python
import json, jsonschema, glob, sys
jsonschema.validate(json.load(open('/verif/MANIFEST.json')), json.load(open('/root/.vp/MANIFEST.schema.json')))
s = json.load(open('/root/.vp/EVIDENCE.schema.json'))
acc=set(open('/verif/accepted.txt').read().split())
for f in sorted(glob.glob('/verif/evidence/*.json')):
    if f.split('/')[-1][:-5] not in acc: continue
    try:
        jsonschema.validate(json.load(open(f)), s)
    except Exception as e:
        print("INVALID", f, str(e)[:300]); sys.exit(1)
print("valid")
