#!/bin/bash
# usage: sweep.sh <tier> <seed> [ids...]   — runs checks one after another, prints one line per verdict line
tier=$1; seed=$2; shift 2
ids="$@"
if [ -z "$ids" ]; then ids=$(cat accepted.txt); fi
for c in $ids; do
  VERIF_SEED=$seed ./check $c --tier $tier 2>&1 | cut -c1-400 | sed "s/^/[$c] /"
done
