#!/bin/bash
# usage: seedrun.sh <patch.diff> <Cxx> [more ids]  — applies a seeded defect to /repo, runs the quick checks, reverts.
set -u
patch=$(readlink -f "$1"); shift
cd "$(dirname "$0")"
if ! git -C /repo diff --quiet; then echo "/repo has uncommitted changes"; exit 3; fi
git -C /repo apply "$patch" || { echo "patch does not apply"; exit 3; }
trap 'git -C /repo apply -R "$patch"; git -C /repo status --short | grep -v "^??" ' EXIT
for c in "$@"; do
  out=$(./check $c 2>&1); rc=$?
  echo "[$c] rc=$rc $(echo "$out" | head -1 | cut -c1-160)"
  echo "$out" | grep -E "^(VIOLATION|INCONCLUSIVE)" | cut -c1-260 | head -4 | sed 's/^/    /'
done
