#!/bin/bash
# usage: seedconfirm.sh <id> <dest path of demo in worktree> <pkg> <run regex>
# confirms in a fresh scratch worktree: demo FAILS with patch, PASSES without.
id=$1; dest=$2; pkg=$3; run=$4
export GOFLAGS=-mod=mod GOPROXY=off GOSUMDB=off GOTOOLCHAIN=local
w=/tmp/seedconfirm/$id; rm -rf $w; git -C /repo worktree prune; git -C /repo worktree add -q --detach $w HEAD || exit 3
cp /tmp/seed/out/$id/demo_test.go $w/$dest
cd $w; git apply /tmp/seed/out/$id/patch.diff || { echo "PATCH DOES NOT APPLY"; exit 3; }
go build ./protocol/... ./database/... ./account/... ./wallet/... ./netsync/... >/dev/null 2>&1 || echo "BUILD FAILS"
go test $pkg -run "$run" -count=1 >/tmp/seedconfirm/$id.with.log 2>&1; with=$?
git apply -R /tmp/seed/out/$id/patch.diff
go test $pkg -run "$run" -count=1 >/tmp/seedconfirm/$id.without.log 2>&1; without=$?
echo "$id with_patch_rc=$with (want !=0) without_patch_rc=$without (want 0)"
cd /; git -C /repo worktree remove --force $w
