#!/usr/bin/env python3
"""Rewrites the generated parts of DESIGN.md (§5 hooks, §6 findings, §8 seeded table) from what is committed."""
import json, os, re, subprocess, glob
R = os.path.dirname(os.path.abspath(__file__))
s = open(os.path.join(R, "DESIGN.md")).read()

def section(title_re, body):
    global s
    m = re.search(r"^## " + title_re + r".*?$", s, re.M)
    assert m, title_re
    n = re.search(r"^---+\n\n## ", s[m.end():], re.M)
    end = m.end() + n.start() if n else len(s)
    s = s[:m.start()] + body.rstrip() + "\n\n" + s[end:]

# §5 hooks
log = subprocess.run(["git", "-C", "/repo", "log", "--format=%h %s"], stdout=subprocess.PIPE, text=True).stdout.splitlines()
hooks = [l for l in log if l.split(" ", 1)[1].startswith("verif hook:")]
files = subprocess.run("cd /repo && git ls-files | grep -E 'verif_|verifhook/'", shell=True, stdout=subprocess.PIPE, text=True).stdout.split()
sites = subprocess.run("cd /repo && grep -rn 'verifhook.Point(\\|verifStep(\\|verifRunEnd()\\|verifEpochSent()\\|verifEpochDone()' --include=*.go . | grep -v 'verif_\\|verifhook/'", shell=True, stdout=subprocess.PIPE, text=True).stdout.strip().splitlines()
b = "## 5. Hooks in Bytom/bytom (build tag `verif`, add-only) — as committed\n\n"
b += "All hooks are behind `//go:build verif`; call-site hooks call functions that are empty (`//go:build !verif` stubs) in a normal build. The patches only add lines. Hook commits (MANIFEST.hooks.source_commits):\n\n"
for l in reversed(hooks):
    b += "* `%s` %s\n" % tuple(l.split(" ", 1))
b += "\n**Export-only files** (new files, no existing line touched):\n\n"
for f in sorted(files):
    if "_off" in f or f.endswith("hook_off.go"):
        continue
    b += "* `%s`\n" % f
b += "\n**Call-site hooks** (one added line each):\n\n"
for l in sites:
    f, ln, code = l.split(":", 2)
    b += "* `%s:%s` `%s`\n" % (f.lstrip("./"), ln, code.strip())
b += """
The VM hook (`verifStep` / `verifRunEnd`) reports the executing frame at every instruction boundary (C06–C08).  The yield points (`verifhook.Point`) let the C37 monitor install seeded `Gosched`/sleeps *between* critical sections, never inside a lock.  `verifEpochSent/Done` count the epoch notifications sent to and fully processed by casper's cached-vote loop: `chainkit.Node.Settle` waits for `done == sent`, an exact quiescence condition (the first design polled the vote cache; see §11).

gofail is not used: it needs the package rewritten on a scratch copy on every run, while checks must build `/repo`'s working tree; the tagged yield points give the same delay injection in place.

---------------------------------------------------------------------------
"""
section(r"5\. Hooks", b)

# §6 findings
kf = json.load(open(os.path.join(R, "known_findings.json")))["findings"]
b = "## 6. Defects found by the monitors (generated from known_findings.json)\n\n"
b += "Every entry was first reproduced by the named monitor against the real code (witness in the replay file at the time), then either repaired by one `fix:` commit in `/repo` (the existing suites still pass) or, where the repair would change consensus hashes / rules / gas, is pinned by the repository's own tests, lies outside the repository, or is not a small patch, recorded as a known finding.  `fixed` entries suppress nothing; `known` entries print a `KNOWN-FINDING:` line and are matched by exact violation key only.\n\n"
fx = [f for f in kf if f["status"] == "fixed"]
kn = [f for f in kf if f["status"] == "known"]
b += "**Repaired (%d entries, %d fix commits)**\n\n| prop | commit | what failed |\n|---|---|---|\n" % (len(fx), len([l for l in log if l.split(' ',1)[1].startswith('fix:')]))
for f in sorted(fx, key=lambda x: x["property"]):
    w = f["what"]
    w = re.sub(r"^fixed: property=\S+ \S+ ", "", w)
    b += "| %s | `%s` | %s |\n" % (f["property"], f.get("commit", ""), w.replace("|", "\\|")[:420])
b += "\n**Known findings (%d, not repaired)**\n\n| prop | key | what and why not repaired |\n|---|---|---|\n" % len(kn)
for f in sorted(kn, key=lambda x: x["property"]):
    b += "| %s | `%s` | %s |\n" % (f["property"], f["key"].replace("|", "\\|"), f["what"].replace("|", "\\|")[:520])
b += "\n---------------------------------------------------------------------------\n"
section(r"6\. ", b)

# §8 seeded defects
rows = []
for mf in sorted(glob.glob(os.path.join(R, "seeded", "*", "meta.json"))):
    m = json.load(open(mf))
    rows.append(m)
b = open(os.path.join(R, "design_s8_head.md")).read()
b += "\n| seeded defect | breaks | needs to manifest | caught by (quick) | notes |\n|---|---|---|---|---|\n"
for m in rows:
    b += "| `seeded/%s` | %s | %s | %s | %s |\n" % (m["id"], m["property"], m["needs"].replace("|", "\\|")[:260], m.get("caught_by", "?"), m.get("notes", "").replace("|", "\\|")[:260])
b += "\n---------------------------------------------------------------------------\n"
section(r"8\. ", b)
open(os.path.join(R, "DESIGN.md"), "w").write(s)
print("DESIGN.md regenerated: hooks %d, fixed %d, known %d, seeded %d" % (len(hooks), len(fx), len(kn), len(rows)))
