#!/bin/bash
# Offline build warm-up: compiles /repo (tag verif) and every monitor package once so that
# the per-check builds hit the Go build cache.  Nothing is fetched.
set -e
cd "$(dirname "$0")/harness"
export GOFLAGS=-mod=mod GOPROXY=off GOSUMDB=off GOTOOLCHAIN=local
mkdir -p ../.work ../evidence ../replay
go build -tags verif ./... 
go test -tags verif -vet=off -count=1 -run '^$' ./... >/dev/null
# race-instrumented packages (only the monitors that use the race detector)
RACE_PKGS=$(python3 -c "
import json
import glob
c={}
[c.update(json.load(open(p))) for p in glob.glob('p*/check.json')]
print(' '.join(sorted({'./'+v['pkg'] for v in c.values() if v.get('race')})))")
if [ -n "$RACE_PKGS" ]; then go test -race -tags verif -vet=off -count=1 -run '^$' $RACE_PKGS >/dev/null; fi
echo setup ok
