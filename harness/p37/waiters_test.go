package p37

import (
	"fmt"
	"runtime"
	"sync"
	"sync/atomic"
	"time"

	"verif/internal/chainkit"
	"verif/internal/ev"
)

// waiterStorm: Chain.BlockWaiter(h) is how the wallet updater, the contract tracer and the websocket
// notifier follow the chain.  For every block of a chain, 48 goroutines register a waiter for that
// block's height at staggered moments AROUND the block's connection; when ProcessBlock has returned
// (best height >= h) every one of them must fire.  A waiter that is still blocked then has lost its
// wake-up: it stays blocked until some later block happens to arrive.  The check runs after every
// block, before the next one could rescue a stuck waiter.  The 20 s bound is a watchdog (waiters
// need microseconds); a waiter that has not fired is re-examined after the bound and reported only if
// it is still blocked while the chain is at or above its height.
func waiterStorm(c *ev.Case, net *chainkit.Net, g *chainkit.Genesis, base string) {
	rng := c.Rand
	procs := []int{2, 4, 8, 16}[c.Index%4]
	defer runtime.GOMAXPROCS(runtime.GOMAXPROCS(procs))
	tr := net.NewTree(g)
	nd, err := net.NewNode(fmt.Sprintf("%s/w%d", base, c.Index), g)
	if err != nil {
		c.Inconclusive("node: %v", err)
		return
	}
	defer nd.Destroy()
	// widen the windows right after the chain-state lock is released: a goroutine that checks the height
	// under the lock, releases it and takes it again to wait has a gap there; one that checks and waits
	// under one lock has none
	var unlocks int64
	seed := rng.Uint64()
	nd.Chain.VerifWrapStateLock(func(l sync.Locker) sync.Locker {
		return yieldLocker{l, func() {
			k := atomic.AddInt64(&unlocks, 1)
			switch x := (uint64(k) + seed) * 0x9e3779b97f4a7c15 >> 60; {
			case x < 4:
				runtime.Gosched()
			default:
				time.Sleep(time.Duration(20+x*25) * time.Microsecond)
			}
		}}
	})
	const waiters = 48
	p := tr.Root
	n := rng.Range(20, 30)
	for h := 1; h <= n; h++ {
		b, err := tr.Build(p, nil, chainkit.BlockOpt{})
		if err != nil {
			c.Inconclusive("build: %v", err)
			return
		}
		p = b
		var fired int64
		var wg sync.WaitGroup
		chans := make([]<-chan struct{}, waiters)
		var mu sync.Mutex
		start := make(chan struct{})
		for w := 0; w < waiters; w++ {
			w := w
			d := time.Duration(rng.Intn(400)) * time.Microsecond
			wg.Add(1)
			go func() {
				defer wg.Done()
				<-start
				time.Sleep(d)
				ch := nd.Chain.BlockWaiter(b.Height)
				mu.Lock()
				chans[w] = ch
				mu.Unlock()
			}()
		}
		close(start)
		time.Sleep(time.Duration(rng.Intn(300)) * time.Microsecond)
		if _, err := nd.Chain.ProcessBlock(chainkit.CloneBlock(b.B)); err != nil {
			c.Inconclusive("case %d: block h%d refused: %v", c.Index, b.Height, err)
			return
		}
		wg.Wait()
		if nd.Chain.BestBlockHeight() < b.Height {
			c.Inconclusive("case %d: best height %d after block %d", c.Index, nd.Chain.BestBlockHeight(), b.Height)
			return
		}
		deadline := time.Now().Add(20 * time.Second)
		pending := map[int]bool{}
		for w := range chans {
			pending[w] = true
		}
		for len(pending) > 0 && time.Now().Before(deadline) {
			for w := range pending {
				select {
				case <-chans[w]:
					delete(pending, w)
					atomic.AddInt64(&fired, 1)
				default:
				}
			}
			if len(pending) > 0 {
				time.Sleep(200 * time.Microsecond)
			}
		}
		c.Count("block_waiters_registered", waiters)
		c.Count("block_waiters_fired", fired)
		c.Eval(1)
		if len(pending) > 0 {
			c.Violation("stall:BlockWaiter:lost-wake-up", "goroutines waiting in Chain.BlockWaiter(h) are still blocked 20 s after ProcessBlock returned with the best height at h",
				map[string]interface{}{"height": b.Height, "best_height": nd.Chain.BestBlockHeight(), "waiters_still_blocked": len(pending), "of": waiters, "gomaxprocs": procs})
			return
		}
	}
	c.Count("waiter_storm_chains", 1)
	c.Distinct("waiter-storm procs=%d", procs)
}

// yieldLocker calls after() after every Unlock of the wrapped lock.
type yieldLocker struct {
	sync.Locker
	after func()
}

func (y yieldLocker) Unlock() {
	y.Locker.Unlock()
	y.after()
}
