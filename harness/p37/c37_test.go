// C37 — concurrent block, vote and transaction processing neither races nor deadlocks.
//
// A real node (chain + finality engine + pool + dispatcher) is driven by block
// feeders on competing branches, vote senders (including votes that change the
// best chain and votes for targets not yet known), transaction submitters and
// readers, with seeded delays at the node's yield points.  Oracles: the Go race
// detector (reports collected by the driver), a stall detector (no operation
// completes and the in-flight operations stay blocked at identical frames), and at
// quiescence the fork-choice / index invariants of C11.
package p37

import (
	"fmt"
	"os"
	"regexp"
	"runtime"
	"sort"
	"strings"
	"sync"
	"sync/atomic"
	"testing"
	"time"

	"github.com/bytom/bytom/protocol/bc"
	"github.com/bytom/bytom/protocol/bc/types"
	"github.com/bytom/bytom/protocol/state"
	"github.com/bytom/bytom/verifhook"

	"verif/internal/chainkit"
	"verif/internal/ev"
)

var trailingArgs = regexp.MustCompile(`\([^()]*\)$`)

var hexAddr = regexp.MustCompile(`0x[0-9a-f]+|\+0x[0-9a-f]+|goroutine \d+|\d+ minutes`)

// blockedFrames extracts, for goroutines that are inside a harness operation, a
// normalised description of where they are blocked.
func blockedFrames() []string { return blockedFramesOf("verif/p37.(*driver).op") }

func blockedFramesOf(marker string) []string {
	buf := make([]byte, 4<<20)
	n := runtime.Stack(buf, true)
	var out []string
	for _, g := range strings.Split(string(buf[:n]), "\n\n") {
		if !strings.Contains(g, marker) {
			continue
		}
		lines := strings.Split(g, "\n")
		var fr []string
		for _, l := range lines[1:] {
			if !strings.HasPrefix(l, "\t") {
				fr = append(fr, trailingArgs.ReplaceAllString(l, ""))
			}
			if len(fr) >= 8 {
				break
			}
		}
		state := lines[0][strings.Index(lines[0], "["):]
		if i := strings.IndexAny(state, ",]"); i > 0 {
			state = state[:i] + "]" // drop the "N minutes" part: it changes between dumps
		}
		out = append(out, state+" < "+strings.Join(fr, " < "))
	}
	sort.Strings(out)
	return out
}

type driver struct {
	c        *ev.Case
	done     int64 // completed operations
	inflight int64
	sig      uint64 // running hash of the order of yield-point events
	sigMu    sync.Mutex
}

// op runs one client operation and counts its completion.
func (d *driver) op(kind string, f func()) {
	atomic.AddInt64(&d.inflight, 1)
	f()
	atomic.AddInt64(&d.inflight, -1)
	atomic.AddInt64(&d.done, 1)
	d.c.Count("ops_completed:"+kind, 1)
}

func forkChoice(tr *chainkit.Tree, nd *chainkit.Node, stored map[bc.Hash]bool, epoch uint64) *chainkit.Blk {
	status, nodes := nd.EngineStatus()
	root := tr.ByHash[nodes[0].Hash]
	if root == nil {
		return nil
	}
	var best *chainkit.Blk
	var bestJ uint64
	for _, b := range tr.All {
		if !stored[b.Hash] || !root.IsAncestorOf(b) {
			continue
		}
		j := root.Height
		for x := b; x != nil && x.Height > root.Height; x = x.Parent {
			if x.Height%epoch == 0 && status[x.Hash] == state.Justified && x.Height > j {
				j = x.Height
			}
		}
		if best == nil || j > bestJ || (j == bestJ && (b.Height > best.Height || (b.Height == best.Height && b.Hash.String() > best.Hash.String()))) {
			best, bestJ = b, j
		}
	}
	return best
}

func TestC37(t *testing.T) {
	r := ev.Start(t, "C37")
	defer r.Finish()
	net := chainkit.Configure(chainkit.Params{Epoch: 4, Fed: 4, Local: -1, VotePending: 3, NKeys: 5})
	g := net.NewGenesis(30, 2)
	base, _ := os.MkdirTemp("", "c37")
	defer os.RemoveAll(base)
	r.Rule("per run: a forked tree of 20-36 blocks and the protocol-following votes of 4 validators are split over 2 block feeders (competing branches), 3 vote senders, 2 transaction submitters and 4 readers running concurrently against one real node, GOMAXPROCS in {2,4,16}, seeded Gosched/sleeps at five yield points inside chain, casper and txpool; distinct = interleaving signature (hash of the order of yield-point events)")
	r.Assume("the race detector only sees the interleavings that occurred; the stall detector needs 30 s without any completed operation and two identical dumps of the in-flight operations 10 s apart")

	r.Cases("waiter-storm", r.N(20, 300), func(c *ev.Case) { waiterStorm(c, net, g, base) })
	r.Floor("block_waiters_fired", 10000)

	r.Cases("runs", r.N(60, 1200), func(c *ev.Case) {
		rng := c.Rand
		procs := []int{2, 4, 16}[c.Index%3]
		old := runtime.GOMAXPROCS(procs)
		defer runtime.GOMAXPROCS(old)
		tr := net.NewTree(g)
		var steps []chainkit.Step
		if c.Index%3 == 2 {
			// crafted: a long branch A and a short branch B from genesis; every validator votes for B's first
			// checkpoint, so a verification message moves the best chain to the shorter branch while blocks,
			// transactions and reads are in flight
			la, lb := rng.Range(6, 11), rng.Range(4, 7)
			p := tr.Root
			for i := 0; i < la; i++ {
				b, err := tr.Build(p, tr.GenTxs(rng, p, chainkit.GenOpt{MaxTxs: 1}), chainkit.BlockOpt{})
				if err != nil {
					c.Violation("harness:build", "cannot build", err.Error())
					return
				}
				steps = append(steps, chainkit.Step{Blk: b})
				p = b
			}
			p = tr.Root
			var cpB *chainkit.Blk
			for i := 0; i < lb; i++ {
				bo := chainkit.BlockOpt{}
				if i == 0 {
					bo.SkipSlots = 1
				}
				b, err := tr.Build(p, []*types.Tx{}, bo)
				if err != nil {
					c.Violation("harness:build", "cannot build", err.Error())
					return
				}
				steps = append(steps, chainkit.Step{Blk: b})
				if b.Height == net.P.Epoch {
					cpB = b
				}
				p = b
			}
			for k := 0; k < 4; k++ {
				steps = append(steps, chainkit.Step{Vote: &chainkit.VoteSpec{Key: k, Source: tr.Root, Target: cpB}})
			}
			c.Count("crafted_vote_reorg_runs", 1)
		} else {
			o := chainkit.DefaultGen(rng.Range(20, 36))
			o.Votes, o.Vetoes = false, false
			o.ForkPct = 35
			o.MaxTxs = 1
			if _, err := tr.Grow(rng, o); err != nil {
				c.Violation("harness:grow", "tree generator failed", err.Error())
				return
			}
			steps, _ = tr.GenScheduleFFG(rng, chainkit.FFGOpt{Byzantine: 3, VotePct: 90, EarlyVotePct: 25, GarbagePct: 5, BlockOrder: 0, Duplicates: true, ByzExtra: 1, NodeKey: -1, PreferLight: c.Index%2 == 0})
		}
		c.Journal(map[string]interface{}{"shape": tr.Shape(), "steps": len(steps), "gomaxprocs": procs})
		nd, err := net.NewNode(fmt.Sprintf("%s/n%d", base, c.Index), g)
		if err != nil {
			c.Inconclusive("node: %v", err)
			return
		}
		defer nd.Destroy()
		d := &driver{c: c}
		// seeded perturbation at the node's yield points
		var ymu sync.Mutex
		yr := rng.Fork()
		verifhook.SetYield(func(name string) {
			ymu.Lock()
			v := yr.Intn(16)
			d.sig = d.sig*1099511628211 + uint64(len(name)) + uint64(name[len(name)-3])
			ymu.Unlock()
			c.Count("yield:"+name, 1)
			switch {
			case v < 8:
				runtime.Gosched()
			case v < 11:
				time.Sleep(time.Duration(50+v*40) * time.Microsecond)
			}
		})
		defer verifhook.SetYield(nil)

		// split the schedule
		var blockSteps [2][]chainkit.Step
		var voteSteps [3][]chainkit.Step
		for _, s := range steps {
			if s.Blk != nil {
				// branch by the first block above genesis on the path: competing subtrees go to different feeders
				top := s.Blk
				for top.Parent != nil && top.Parent.Height > 0 {
					top = top.Parent
				}
				k := int(top.Hash.V0 % 2)
				blockSteps[k] = append(blockSteps[k], s)
			} else {
				k := s.Vote.Key % 3
				voteSteps[k] = append(voteSteps[k], s)
			}
		}
		// transactions spending genesis funds not used by the tree generator (the last ones)
		var txs []*types.Tx
		for i := 20; i < 30 && i < len(g.Funds); i++ {
			txs = append(txs, chainkit.PayTx([]*chainkit.UTXO{g.Funds[i]}, chainkit.TrueProg, 2, chainkit.DefaultFee))
		}
		// two followers wait for one height after the other through Chain.BlockWaiter, the way the wallet
		// updater, the contract tracer and the websocket notifier follow the chain
		var reached [2]int64
		waitersStop := make(chan struct{})
		defer close(waitersStop)
		for w := 0; w < 2; w++ {
			w := w
			go func() {
				for h := uint64(1); ; h++ {
					select {
					case <-nd.Chain.BlockWaiter(h):
						atomic.StoreInt64(&reached[w], int64(h))
					case <-waitersStop:
						return
					}
				}
			}()
		}
		var wg sync.WaitGroup
		stop := make(chan struct{})
		start := func(f func(r *ev.Rand)) {
			wg.Add(1)
			fr := rng.Fork()
			go func() { defer wg.Done(); f(fr) }()
		}
		var refused int64
		var refMu sync.Mutex
		var refusedErrs []string
		for k := 0; k < 2; k++ {
			ss := blockSteps[k]
			start(func(fr *ev.Rand) {
				for _, s := range ss {
					s := s
					d.op("block", func() {
						if _, err := nd.Chain.ProcessBlock(chainkit.CloneBlock(s.Blk.B)); err != nil {
							atomic.AddInt64(&refused, 1)
							refMu.Lock()
							refusedErrs = append(refusedErrs, fmt.Sprintf("h%d %s: %v", s.Blk.Height, chainkit.HashShort(s.Blk.Hash), err))
							refMu.Unlock()
						}
					})
					if fr.Chance(1, 3) {
						runtime.Gosched()
					}
				}
			})
		}
		for k := 0; k < 3; k++ {
			ss := voteSteps[k]
			start(func(fr *ev.Rand) {
				for _, s := range ss {
					s := s
					d.op("vote", func() { nd.Chain.ProcessBlockVerification(net.Msg(s.Vote, fr)) })
					if fr.Chance(1, 2) {
						time.Sleep(time.Duration(fr.Intn(300)) * time.Microsecond)
					}
				}
			})
		}
		for k := 0; k < 2; k++ {
			k := k
			start(func(fr *ev.Rand) {
				for i := k; i < len(txs); i += 2 {
					tx := txs[i]
					d.op("tx", func() { nd.Chain.ValidateTx(tx) })
					time.Sleep(time.Duration(fr.Intn(500)) * time.Microsecond)
				}
			})
		}
		var readers sync.WaitGroup
		for k := 0; k < 4; k++ {
			k := k
			readers.Add(1)
			fr := rng.Fork()
			go func() {
				defer readers.Done()
				for {
					select {
					case <-stop:
						return
					default:
					}
					d.op("read", func() {
						switch (k + fr.Intn(4)) % 7 {
						case 0:
							nd.Chain.BestBlockHeader()
							nd.Chain.BestBlockHeight()
						case 1:
							// as the sync layer answers get-headers / get-block: read and serialise
							if h, err := nd.Chain.GetHeaderByHeight(uint64(fr.Intn(30))); err == nil {
								h.MarshalText()
							}
							if cps := tr.Checkpoints(); len(cps) > 0 {
								ch := cps[fr.Intn(len(cps))].Hash
								if h, err := nd.Chain.GetHeaderByHash(&ch); err == nil {
									h.MarshalText()
									for _, l := range h.SupLinks {
										_ = l.IsMajority(4)
									}
								}
							}
						case 2:
							nd.Chain.InMainChain(tr.All[fr.Intn(len(tr.All))].Hash)
						case 3:
							nd.Chain.LastFinalizedHeader()
							nd.Chain.LastJustifiedHeader()
						case 4:
							b := tr.All[fr.Intn(len(tr.All))]
							nd.Chain.GetValidator(&b.Hash, b.B.Timestamp+chainkit.Interval)
						case 5:
							nd.Pool.GetTransactions()
							nd.Pool.IsTransactionInErrCache(&txs[fr.Intn(len(txs))].ID)
						case 6:
							nd.Chain.VerifCasper().VerifTree()
							h := tr.All[fr.Intn(len(tr.All))].Hash
							if b, err := nd.Chain.GetBlockByHash(&h); err == nil {
								b.MarshalText()
							}
						}
					})
					time.Sleep(time.Duration(100+fr.Intn(400)) * time.Microsecond)
				}
			}()
		}
		// progress watchdog
		finished := make(chan struct{})
		go func() { wg.Wait(); close(finished) }()
		last, lastChange := int64(-1), time.Now()
		stalled := false
	wait:
		for {
			select {
			case <-finished:
				break wait
			case <-time.After(2 * time.Second):
			}
			cur := atomic.LoadInt64(&d.done)
			if cur != last {
				last, lastChange = cur, time.Now()
				continue
			}
			if time.Since(lastChange) < 30*time.Second {
				continue
			}
			a := blockedFrames()
			time.Sleep(10 * time.Second)
			b := blockedFrames()
			if atomic.LoadInt64(&d.done) == cur && len(a) > 0 && strings.Join(a, "\n") == strings.Join(b, "\n") {
				site := "unknown"
				for _, l := range a {
					for _, part := range strings.Split(l, " < ") {
						if strings.Contains(part, "github.com/bytom/bytom") {
							site = strings.TrimSpace(part)
							break
						}
					}
					if site != "unknown" {
						break
					}
				}
				c.Violation("stall:"+site, "no operation completed for 40 s and every in-flight operation is blocked at the same frames in two dumps 10 s apart",
					map[string]interface{}{"blocked_operations": a, "completed_operations": cur, "shape": tr.Shape(), "gomaxprocs": procs})
				stalled = true
				break wait
			}
			lastChange = time.Now()
		}
		if stalled {
			// blocked goroutines cannot be cancelled: report and leave the process
			r.Finish()
			os.Exit(0)
		}
		close(stop)
		readers.Wait()
		c.Count("runs_completed", 1)
		// quiescence: C11 invariants over everything that was delivered
		if !nd.Settle(net, tr, nil) {
			// every client call returned but the engine's own vote-replay loop has not finished the
			// notifications it was sent: stalled (violation) or merely slow (inconclusive)?
			a := blockedFramesOf("casper.(*Casper).authVerificationLoop")
			time.Sleep(10 * time.Second)
			b := blockedFramesOf("casper.(*Casper).authVerificationLoop")
			if !nd.Chain.VerifCasper().VerifEpochLoopIdle() && len(a) > 0 && strings.Join(a, "\n") == strings.Join(b, "\n") && !strings.Contains(a[0], "[running") && !strings.Contains(a[0], "[runnable") {
				site := "unknown"
				for _, part := range strings.Split(a[0], " < ") {
					if strings.Contains(part, "github.com/bytom/bytom") {
						site = strings.TrimSpace(part)
						break
					}
				}
				c.Violation("stall:cached-vote-loop:"+site, "the engine's vote-replay loop is blocked at the same frames for 40 s with unprocessed epoch notifications: the votes parked for those checkpoints are never applied",
					map[string]interface{}{"blocked": a, "shape": tr.Shape(), "gomaxprocs": procs})
				return
			}
			c.Inconclusive("engine did not settle")
			return
		}
		// every follower must have been woken for every height up to the best height (a wake-up that is
		// lost leaves it waiting although the chain is there; 20 s is a watchdog, followers need microseconds)
		if bh := int64(nd.Chain.BestBlockHeight()); bh > 0 {
			okW := false
			for i := 0; i < 20000 && !okW; i++ {
				okW = atomic.LoadInt64(&reached[0]) >= bh && atomic.LoadInt64(&reached[1]) >= bh
				if !okW {
					time.Sleep(time.Millisecond)
				}
			}
			c.Count("block_waiter_heights_followed", bh)
			if !okW {
				c.Violation("stall:BlockWaiter:not-fired-although-best-height-reached", "a goroutine waiting in Chain.BlockWaiter(h) was not woken although the best block height is >= h and every operation has returned",
					map[string]interface{}{"best_height": bh, "follower_0_reached": atomic.LoadInt64(&reached[0]), "follower_1_reached": atomic.LoadInt64(&reached[1]), "shape": tr.Shape(), "gomaxprocs": procs})
				return
			}
		}
		ymu.Lock()
		sig := d.sig
		ymu.Unlock()
		c.Distinct("sig:%x|procs:%d", sig, procs)
		stored := map[bc.Hash]bool{}
		for _, b := range tr.All {
			h := b.Hash
			if _, err := nd.Chain.GetHeaderByHash(&h); err == nil {
				stored[b.Hash] = true
			}
		}
		want := forkChoice(tr, nd, stored, net.P.Epoch)
		got := nd.Best()
		ctx := map[string]interface{}{"shape": tr.Shape(), "gomaxprocs": procs, "blocks_refused": refused, "stored": len(stored), "of": len(tr.All)}
		if want == nil || want.Hash != got {
			// everything needed to tell a missed reorganisation from a block the engine never took
			refMu.Lock()
			ctx["refused_blocks"] = append([]string{}, refusedErrs...)
			refMu.Unlock()
			ctx["engine_best"] = chainkit.HashShort(nd.Chain.VerifCasper().VerifBestChain())
			var tl, missing []string
			for _, x := range nd.Chain.VerifCasper().VerifTree() {
				tl = append(tl, fmt.Sprintf("%*sh%d %s st=%d parent=%s", x.Depth*2, "", x.Height, chainkit.HashShort(x.Hash), x.Status, chainkit.HashShort(x.ParentHash)))
			}
			ctx["engine_tree"] = tl
			for _, b := range tr.All {
				if !stored[b.Hash] {
					missing = append(missing, fmt.Sprintf("h%d %s", b.Height, chainkit.HashShort(b.Hash)))
				}
			}
			ctx["not_stored"] = missing
			if want != nil {
				var path []string
				for x := want; x != nil; x = x.Parent {
					path = append(path, fmt.Sprintf("h%d %s", x.Height, chainkit.HashShort(x.Hash)))
				}
				ctx["want_path"] = path
			}
			if want != nil {
				ctx["want"] = fmt.Sprintf("h%d %s", want.Height, chainkit.HashShort(want.Hash))
			}
			if gb := tr.ByHash[got]; gb != nil {
				ctx["best"] = fmt.Sprintf("h%d %s", gb.Height, chainkit.HashShort(got))
			}
			c.Violation("quiescent:best!=fork-choice", "after the concurrent workload finished the best block is not the fork choice over the stored blocks", ctx)
			return
		}
		for h := uint64(0); h <= want.Height; h++ {
			hdr, err := nd.Chain.GetHeaderByHeight(h)
			if err != nil || hdr.Hash() != want.Ancestor(h).Hash {
				ctx["height"] = h
				c.Violation("quiescent:height-index", "after the concurrent workload finished a height does not map to the best block's ancestor", ctx)
				return
			}
		}
		for _, b := range tr.All {
			if in, w := nd.Chain.InMainChain(b.Hash), stored[b.Hash] && b.IsAncestorOf(want); in != w {
				ctx["block"] = fmt.Sprintf("h%d %s", b.Height, chainkit.HashShort(b.Hash))
				c.Violation("quiescent:InMainChain", "after the concurrent workload finished InMainChain disagrees with 'ancestor of best'", ctx)
				return
			}
		}
		for _, td := range nd.Pool.GetTransactions() {
			for x := want; x != nil; x = x.Parent {
				for _, btx := range x.B.Transactions {
					if btx.ID == td.Tx.ID {
						c.Violation("quiescent:pool-contains-confirmed-tx", "a pooled transaction is on the main chain", ctx)
						return
					}
				}
			}
		}
		if c.WantSample() {
			c.Sample(map[string]interface{}{"tree_shape": tr.Shape(), "steps": len(steps), "gomaxprocs": procs, "operations_completed": atomic.LoadInt64(&d.done), "interleaving_signature": fmt.Sprintf("%x", sig)})
		}
	})
	r.Floor("runs_completed", 5)
	r.Floor("ops_completed:block", 100)
	r.Floor("ops_completed:vote", 100)
	r.Floor("ops_completed:tx", 20)
	r.Floor("ops_completed:read", 500)
	r.Floor("block_waiter_heights_followed", 300)
	r.Floor("yield:casper.AuthVerification:before-rollback-request", 3)
	r.Floor("yield:chain.processBlock:saved-before-reorganize", 100)
}
