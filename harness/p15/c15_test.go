// C15 — the validator set and the block-proposer schedule are deterministic.
//
// (a) state.Checkpoint values with vote maps over up to 16 keys (ties, more than
// ten candidates, tallies just below / at the minimum, empty maps, every status)
// are ranked by the real code twenty times each and compared with a reference
// ranking; every timestamp of three full rotations (or every slot boundary ±1 ms
// for long intervals) must be given to exactly the validator whose order is
// ((t − start) / interval) mod n.
// (b) Real nodes receive forked chains with vote / veto histories (more than ten
// voted keys, the same key voted on two branches, vetoes of genesis vote outputs
// that exceed the tally); Chain.GetValidator and Chain.AllValidators must equal
// the reference along every branch.
package p15

import (
	"encoding/hex"
	"fmt"
	"math"
	"sort"
	"strings"
	"testing"

	"github.com/bytom/bytom/consensus"
	"github.com/bytom/bytom/crypto/ed25519/chainkd"
	"github.com/bytom/bytom/protocol/bc"
	"github.com/bytom/bytom/protocol/bc/types"
	"github.com/bytom/bytom/protocol/state"

	"verif/internal/chainkit"
	"verif/internal/ev"
)

// ---------------------------------------------------------------------------
// reference, from the property statement

type refVal struct {
	Pub   string
	Votes uint64
	Order int
}

// rank: keys whose tally meets the minimum, by votes then key, both descending.
func rank(votes map[string]uint64, min uint64) []refVal {
	var vs []refVal
	for k, v := range votes {
		if v >= min {
			vs = append(vs, refVal{Pub: k, Votes: v})
		}
	}
	sort.Slice(vs, func(i, j int) bool {
		if vs[i].Votes != vs[j].Votes {
			return vs[i].Votes > vs[j].Votes
		}
		return vs[i].Pub > vs[j].Pub
	})
	for i := range vs {
		vs[i].Order = i
	}
	return vs
}

// effective: the first ten of the ranking, or the federation in its configured order.
func effective(all []refVal, fed []string) []refVal {
	if len(all) == 0 {
		var vs []refVal
		for i, k := range fed {
			vs = append(vs, refVal{Pub: k, Order: i})
		}
		return vs
	}
	if len(all) > 10 {
		all = all[:10]
	}
	return all
}

func slotOrder(start, interval, ts uint64, n int) int {
	return int(((ts - start) / interval) % uint64(n))
}

func fmtVals(vs []refVal) []string {
	var out []string
	for _, v := range vs {
		out = append(out, fmt.Sprintf("%d:%s:%d", v.Order, v.Pub[:8], v.Votes))
	}
	return out
}

func fmtReal(m map[string]*state.Validator) []string {
	var out []string
	for k, v := range m {
		if v == nil {
			out = append(out, k[:8]+":nil")
			continue
		}
		out = append(out, fmt.Sprintf("%d:%s:%d(key %s)", v.Order, short(v.PubKey), v.VoteNum, short(k)))
	}
	sort.Strings(out)
	return out
}

func short(s string) string {
	if len(s) > 8 {
		return s[:8]
	}
	return s
}

func votesWitness(votes map[string]uint64) map[string]uint64 {
	o := map[string]uint64{}
	for k, v := range votes {
		o[k] = v
	}
	return o
}

// compareEffective reports "" or what differs.
func compareEffective(got map[string]*state.Validator, want []refVal) string {
	if len(got) != len(want) {
		return fmt.Sprintf("size %d, want %d", len(got), len(want))
	}
	for _, w := range want {
		g, ok := got[w.Pub]
		if !ok || g == nil {
			return "missing " + short(w.Pub)
		}
		if g.PubKey != w.Pub {
			return "entry under wrong key"
		}
		if g.Order != w.Order {
			return fmt.Sprintf("order of %s is %d, want %d", short(w.Pub), g.Order, w.Order)
		}
		if g.VoteNum != w.Votes {
			return fmt.Sprintf("votes of %s are %d, want %d", short(w.Pub), g.VoteNum, w.Votes)
		}
	}
	return ""
}

func compareAll(got []*state.Validator, want []refVal) string {
	if len(got) != len(want) {
		return fmt.Sprintf("length %d, want %d", len(got), len(want))
	}
	for i, w := range want {
		if got[i] == nil || got[i].PubKey != w.Pub || got[i].VoteNum != w.Votes {
			return fmt.Sprintf("rank %d differs", i)
		}
	}
	return ""
}

// tieClass: where equal tallies occur among the qualified keys.
func tieClass(all []refVal) string {
	inside, cut := false, false
	for i := 0; i+1 < len(all); i++ {
		if all[i].Votes == all[i+1].Votes {
			if i == 9 {
				cut = true
			} else if i < 9 {
				inside = true
			}
		}
	}
	switch {
	case cut && inside:
		return "tie-inside+at-cut"
	case cut:
		return "tie-at-cut"
	case inside:
		return "tie-inside-top10"
	}
	return "no-tie"
}

func candClass(n int) string {
	switch {
	case n == 0:
		return "0"
	case n == 1:
		return "1"
	case n <= 9:
		return "2-9"
	case n == 10:
		return "10"
	case n == 11:
		return "11"
	}
	return "12-16"
}

var statusName = map[state.CheckpointStatus]string{state.Growing: "growing", state.Unjustified: "unjustified", state.Justified: "justified", state.Finalized: "finalized"}

// ---------------------------------------------------------------------------

func pureCase(c *ev.Case, net *chainkit.Net) {
	rng := c.Rand
	// configuration of the case
	nf := 1 + rng.Intn(4)
	fedIdx := rng.Perm(16)[:nf]
	var fedPubs []chainkd.XPub
	var fed []string
	for _, i := range fedIdx {
		fedPubs = append(fedPubs, net.Pub[i])
		fed = append(fed, net.PubHex[i])
	}
	min := []uint64{1, 100000000, 500000000, 100000000000000}[rng.Intn(4)]
	interval := []uint64{1, 2, 3, 7, 1000, 6000}[rng.Intn(6)]
	consensus.ActiveNetParams.FederationXpubs = fedPubs
	consensus.ActiveNetParams.MinValidatorVoteNum = min
	consensus.ActiveNetParams.BlockTimeInterval = interval

	// vote map
	shape := []string{"empty", "all-below", "ties", "more-than-ten", "boundary", "random", "tie-at-cut"}[rng.Intn(7)]
	votes := map[string]uint64{}
	keys := rng.Perm(16)
	pick := func(n int) []int { return keys[:n] }
	above := func() uint64 { return min + uint64(rng.Intn(5))*100000000 + uint64(rng.Intn(3)) }
	switch shape {
	case "empty":
		if rng.Bool() {
			for _, k := range pick(rng.Intn(4)) {
				votes[net.PubHex[k]] = 0
			}
		}
	case "all-below":
		for _, k := range pick(1 + rng.Intn(16)) {
			votes[net.PubHex[k]] = uint64(rng.Intn(int(minU(min, 1<<40))))
		}
	case "ties":
		n := 2 + rng.Intn(9)
		groups := 1 + rng.Intn(3)
		vals := make([]uint64, groups)
		for i := range vals {
			vals[i] = above()
		}
		for _, k := range pick(n) {
			votes[net.PubHex[k]] = vals[rng.Intn(groups)]
		}
	case "more-than-ten":
		n := 11 + rng.Intn(6)
		for _, k := range pick(n) {
			votes[net.PubHex[k]] = above()
		}
	case "tie-at-cut":
		// ranks 10 and 11 (and maybe more) carry the same tally: the key decides who is in
		n := 11 + rng.Intn(6)
		tie := above()
		hi := 9 - rng.Intn(3)
		for i, k := range pick(n) {
			if i < hi {
				votes[net.PubHex[k]] = tie + 1 + uint64(rng.Intn(1000))
			} else {
				votes[net.PubHex[k]] = tie
			}
		}
	case "boundary":
		for _, k := range pick(1 + rng.Intn(16)) {
			switch rng.Intn(4) {
			case 0:
				votes[net.PubHex[k]] = min - 1
			case 1:
				votes[net.PubHex[k]] = min
			case 2:
				votes[net.PubHex[k]] = min + 1
			default:
				votes[net.PubHex[k]] = rng.U64Boundary()
			}
		}
	default:
		for _, k := range pick(rng.Intn(17)) {
			votes[net.PubHex[k]] = rng.Uint64() % (4 * min)
		}
	}
	status := []state.CheckpointStatus{state.Growing, state.Unjustified, state.Unjustified, state.Justified, state.Justified, state.Finalized}[rng.Intn(6)]
	cpTime := chainkit.GenesisTime + uint64(rng.Intn(100000000))
	if rng.Chance(1, 10) {
		cpTime = uint64(rng.Intn(5))
	}
	cp := &state.Checkpoint{Height: uint64(rng.Intn(1000)) * 4, Timestamp: cpTime, Status: status, Votes: votes, Rewards: map[string]uint64{}}

	all := rank(votes, min)
	eff := effective(all, fed)
	wit := func(extra map[string]interface{}) map[string]interface{} {
		m := map[string]interface{}{"votes": votesWitness(votes), "min": min, "interval": interval, "status": statusName[status], "federation": fed,
			"checkpoint_timestamp": cpTime, "reference_all": fmtVals(all), "reference_effective": fmtVals(eff)}
		for k, v := range extra {
			m[k] = v
		}
		return m
	}
	nearMin := false
	for _, v := range votes {
		if v == min || v+1 == min {
			nearMin = true
		}
	}

	if status == state.Growing {
		// The epoch of a growing checkpoint is not over: the property fixes no set for it.  The
		// code answers with the federation; only determinism is demanded here.
		first := ""
		for rep := 0; rep < 20; rep++ {
			got := strings.Join(fmtReal(cp.EffectiveValidators()), ",") + fmt.Sprint(len(cp.AllValidators()))
			if rep == 0 {
				first = got
			} else if got != first {
				c.Violation("growing:answers-differ-between-calls", "the same growing checkpoint gives different validator sets on repeated calls", wit(map[string]interface{}{"first": first, "later": got}))
				return
			}
		}
		if compareEffective(cp.EffectiveValidators(), effective(nil, fed)) == "" && len(cp.AllValidators()) == 0 {
			c.Count("growing_answers_federation", 1)
		} else {
			c.Count("growing_answers_something_else", 1)
		}
		c.Distinct("growing|cand%s|fed%d", candClass(len(all)), nf)
		return
	}

	// ranking, 20 times (every call iterates the vote map afresh)
	for rep := 0; rep < 20; rep++ {
		if d := compareAll(cp.AllValidators(), all); d != "" {
			kind := "ranking"
			if len(cp.AllValidators()) != len(all) {
				kind = "membership"
			}
			var got []string
			for _, v := range cp.AllValidators() {
				got = append(got, fmt.Sprintf("%s:%d", short(v.PubKey), v.VoteNum))
			}
			c.Violation("AllValidators:"+kind+":"+tieClass(all), "AllValidators differs from votes-then-key descending over the keys meeting the minimum: "+d, wit(map[string]interface{}{"got": got, "repetition": rep}))
			return
		}
		if d := compareEffective(cp.EffectiveValidators(), eff); d != "" {
			kind := "voted:" + tieClass(all)
			if len(all) == 0 {
				kind = "federation-fallback"
			}
			c.Violation("EffectiveValidators:"+kind, "EffectiveValidators differs from the reference (top ten by votes then key, order = rank; else the federation): "+d,
				wit(map[string]interface{}{"got": fmtReal(cp.EffectiveValidators()), "repetition": rep}))
			return
		}
	}
	c.Eval(40)
	c.Count("rankings_checked_20x", 1)
	c.Count("status_"+statusName[status], 1)
	c.Count("candidates_"+candClass(len(all)), 1)
	c.Count("ties_"+tieClass(all), 1)
	if len(all) == 0 {
		c.Count("federation_fallback", 1)
		if len(votes) > 0 {
			c.Count("federation_fallback_with_votes_below_minimum", 1)
		}
	}
	if nearMin {
		c.Count("tally_at_or_one_below_minimum", 1)
	}

	// schedule
	n := len(eff)
	start := cpTime + interval
	var stamps []uint64
	if interval <= 7 {
		for ts := start; ts <= start+3*uint64(n)*interval+interval; ts++ {
			stamps = append(stamps, ts)
		}
		c.Count("checkpoints_with_every_timestamp_of_3_rotations", 1)
	} else {
		for s := uint64(0); s <= 3*uint64(n); s++ {
			b := start + s*interval
			if s > 0 {
				stamps = append(stamps, b-1)
			}
			stamps = append(stamps, b, b+1, b+uint64(rng.Intn(int(interval))))
		}
		c.Count("checkpoints_with_slot_boundaries", 1)
	}
	stamps = append(stamps, math.MaxUint64, math.MaxUint64-1, 1<<63, start+uint64(rng.Intn(1<<40)))
	seen := map[int]bool{}
	for i, ts := range stamps {
		reps := 1
		if i%37 == 0 {
			reps = 20
		}
		want := slotOrder(start, interval, ts, n)
		for rep := 0; rep < reps; rep++ {
			v := cp.GetValidator(ts)
			bad := ""
			switch {
			case v == nil:
				bad = "nil"
			case v.Order != want:
				bad = fmt.Sprintf("order %d, want %d", v.Order, want)
			case v.PubKey != eff[want].Pub || v.VoteNum != eff[want].Votes:
				bad = fmt.Sprintf("validator %s, want %s", short(v.PubKey), short(eff[want].Pub))
			}
			if bad != "" {
				kind := "wrong-slot"
				if v == nil {
					kind = "nobody-scheduled"
				} else if v.Order == want {
					kind = "wrong-validator-for-order"
				}
				where := "slot-interior"
				if (ts-start)%interval == 0 {
					where = "slot-start"
				} else if (ts-start)%interval == interval-1 {
					where = "slot-end"
				}
				c.Violation("GetValidator:"+kind+":"+where, "the scheduled validator is not the one with order ((t-start)/interval) mod n: "+bad,
					wit(map[string]interface{}{"timestamp": ts, "start": start, "n": n}))
				return
			}
		}
		seen[want] = true
		c.Count("slots_checked", 1)
	}
	c.Eval(int64(len(stamps)))
	if len(seen) != n {
		c.Violation("harness:rotation-incomplete", "the timestamps of the case did not cover every order", wit(nil))
		return
	}

	// before the epoch start: outside the property (no block can carry such a time, see the report); observed only
	for _, d := range []uint64{1, 2, interval - 1, interval, interval + 1, uint64(n) * interval, uint64(1 + rng.Intn(int(5*uint64(n)*interval)))} {
		if d == 0 || d > start {
			continue
		}
		ts := start - d
		v := cp.GetValidator(ts)
		w := cp.GetValidator(ts)
		switch {
		case v == nil || w == nil:
			c.Count("before_start_nobody_scheduled", 1)
		case v.PubKey != w.PubKey:
			c.Violation("GetValidator:before-start:answers-differ-between-calls", "the same timestamp gives different validators", wit(map[string]interface{}{"timestamp": ts}))
			return
		default:
			// the schedule continued backwards would give this order
			back := (uint64(n) - ((d+interval-1)/interval)%uint64(n)) % uint64(n)
			if uint64(v.Order) == back {
				c.Count("before_start_equals_schedule_continued_backwards", 1)
			} else {
				c.Count("before_start_wraps_to_unrelated_slot", 1)
			}
		}
	}
	c.Distinct("%s|cand%s|%s|fed%d|int%d|min%d", statusName[status], candClass(len(all)), tieClass(all), nf, interval, min)
	if c.WantSample() && len(all) > 10 {
		c.Sample(map[string]interface{}{"shape": shape, "reference_effective": fmtVals(eff), "excluded": fmtVals(all[10:]), "interval": interval, "timestamps": len(stamps)})
	}
}

func minU(a, b uint64) uint64 {
	if a < b {
		return a
	}
	return b
}

// ---------------------------------------------------------------------------
// (b) real blocks

// tallyAlong recomputes the tally of the branch ending at cp from the raw blocks above
// genesis: vote outputs add, vetoes subtract, never below zero.  exceeded counts vetoes larger than the tally.
func tallyAlong(cp *chainkit.Blk) (map[string]uint64, int) {
	tally := map[string]uint64{}
	exceeded := 0
	for _, b := range cp.Path()[1:] {
		for _, tx := range b.B.Transactions {
			for _, in := range tx.Inputs {
				if v, ok := in.TypedInput.(*types.VetoInput); ok {
					k := hex.EncodeToString(v.Vote)
					if tally[k] < v.Amount {
						exceeded++
					}
					if tally[k] > v.Amount {
						tally[k] -= v.Amount
					} else {
						delete(tally, k)
					}
				}
			}
			for _, o := range tx.Outputs {
				if vo, ok := o.TypedOutput.(*types.VoteOutput); ok {
					tally[hex.EncodeToString(vo.Vote)] += o.Amount
				}
			}
		}
	}
	return tally, exceeded
}

func voteTxs(r *ev.Rand, net *chainkit.Net, p *chainkit.Blk, wide bool, hot []int) []*types.Tx {
	h := p.Height + 1
	var normal, votes []*chainkit.RefUtxo
	for _, u := range p.SortedUtxos() {
		if u.U.Asset != chainkit.BTM || !net.Spendable(u, h) {
			continue
		}
		switch {
		case u.Type == chainkit.UVote:
			votes = append(votes, u)
		case u.Type == chainkit.UNormal && u.U.Amount > 100000000000:
			normal = append(normal, u)
		}
	}
	used := map[bc.Hash]bool{}
	take := func(pool []*chainkit.RefUtxo) *chainkit.RefUtxo {
		for tries := 0; tries < 6 && len(pool) > 0; tries++ {
			u := pool[r.Intn(len(pool))]
			if !used[u.U.ID] {
				used[u.U.ID] = true
				return u
			}
		}
		return nil
	}
	var txs []*types.Tx
	ntx := r.Intn(3)
	if h <= 4 {
		ntx = 1 + r.Intn(3)
	}
	for i := 0; i < ntx; i++ {
		u := take(normal)
		if u == nil {
			break
		}
		ins := []*chainkit.UTXO{u.U}
		total := u.U.Amount
		for len(votes) > 0 && r.Chance(1, 2) {
			v := take(votes)
			if v == nil {
				break
			}
			ins = append(ins, v.U)
			total += v.U.Amount
		}
		left := total - chainkit.DefaultFee
		var outs []chainkit.Out
		nv := r.Intn(4)
		if wide {
			nv = 2 + r.Intn(4)
		}
		for j := 0; j < nv; j++ {
			key := hot[r.Intn(len(hot))]
			if wide {
				key = r.Intn(net.P.NKeys)
			}
			// amounts on a coarse grid so that equal tallies and tallies exactly at / just below the minimum are frequent
			amt := []uint64{100000000, 200000000, 400000000, 500000000, 500000000, 1000000000}[r.Intn(6)]
			outs = append(outs, chainkit.Out{Asset: chainkit.BTM, Amount: amt, Program: chainkit.RandProg(r), Vote: net.VoteKey(key)})
			left -= amt
		}
		outs = append(outs, chainkit.Out{Asset: chainkit.BTM, Amount: left, Program: chainkit.RandProg(r)})
		txs = append(txs, chainkit.MakeTx(ins, outs, 0))
	}
	return txs
}

func errClass(err error) string {
	s := err.Error()
	for _, k := range []string{"signature", "timestamp", "voting lock", "not ready for use", "fail to find utxo", "checkpoint", "dismatch"} {
		if strings.Contains(s, k) {
			return strings.ReplaceAll(k, " ", "-")
		}
	}
	if len(s) > 40 {
		s = s[:40]
	}
	return s
}

func historyCase(c *ev.Case, base string) {
	rng := c.Rand
	p := chainkit.Params{Epoch: 4, Fed: 1 + rng.Intn(4), Local: -1, VotePending: uint64(2 + rng.Intn(2)), MinVote: 500000000, NKeys: 14}
	net := chainkit.Configure(p)
	var amounts []uint64
	for i := 0; i < 24; i++ {
		amounts = append(amounts, chainkit.FundAmount)
	}
	// vote outputs that exist from genesis: the tally of the genesis checkpoint is empty, so
	// vetoing them asks for more than the branch ever tallied for the key
	var gv []chainkit.GenesisVote
	for i, n := 0, rng.Intn(5); i < n; i++ {
		gv = append(gv, chainkit.GenesisVote{Key: rng.Intn(p.NKeys), Amount: []uint64{300000000, 500000000, 700000000, 2000000000}[rng.Intn(4)]})
	}
	g := net.NewGenesisWith(amounts, 0, gv)
	tr := net.NewTree(g)
	wide := c.Index%2 == 0
	hot := rng.Perm(p.NKeys)[:2+rng.Intn(3)]
	nblocks := rng.Range(18, 40)
	po := chainkit.GenOpt{MaxBranch: 3, ForkPct: 30, DeepForks: true}
	for i := 0; i < nblocks; i++ {
		parent := tr.PickParent(rng, po)
		bo := chainkit.BlockOpt{}
		if rng.Chance(1, 4) {
			bo.SkipSlots = 1 + rng.Intn(12)
		}
		if _, err := tr.Build(parent, voteTxs(rng, net, parent, wide, hot), bo); err != nil {
			c.Violation("harness:build", "reference ledger rejects a generated block", err.Error())
			return
		}
	}
	c.Journal(map[string]interface{}{"shape": tr.Shape(), "fed": p.Fed, "wide": wide})
	nd, err := net.NewNode(fmt.Sprintf("%s/n%d", base, c.Index), g)
	if err != nil {
		c.Inconclusive("node: %v", err)
		return
	}
	defer func() { nd.Destroy() }()
	// in half of the histories the node is stopped and started again once or twice while the blocks
	// arrive (and, in some, once more after the last block): the validator sets and the schedule it
	// answers with afterwards are those of the uninterrupted reference
	restartAt := map[int]bool{}
	nRestarts := 0
	if c.Index%2 == 1 {
		for i, n := 0, 1+rng.Intn(2); i < n; i++ {
			restartAt[rng.Range(2, len(tr.All)-1)] = true
		}
		if rng.Chance(1, 2) {
			restartAt[len(tr.All)-1] = true
		}
	}
	restart := func() bool {
		nd2, rerr := net.Reopen(nd, g)
		if rerr != nil {
			c.Violation("restart-failed", "the node does not start from its own store after a clean stop", map[string]interface{}{"error": rerr.Error(), "shape": tr.Shape()})
			return false
		}
		nd = nd2
		nRestarts++
		c.Count("restarts", 1)
		return true
	}
	for i, b := range tr.All[1:] {
		if restartAt[i] && !restart() {
			return
		}
		if _, err := nd.Chain.ProcessBlock(chainkit.CloneBlock(b.B)); err != nil {
			c.Violation("valid-block-rejected:"+errClass(err), "a block proposed by the validator the reference schedules (valid on its branch) is rejected",
				map[string]interface{}{"height": b.Height, "error": err.Error(), "shape": tr.Shape(), "timestamp": b.B.Timestamp, "node_restarts_before": nRestarts,
					"reference_validators": net.Validators(b.Parent.CP(p.Epoch))})
			return
		}
	}
	c.Count("blocks_accepted", int64(len(tr.All)-1))
	if restartAt[len(tr.All)-1] && !restart() {
		return
	}
	if len(restartAt) > 0 {
		c.Count("histories_with_restarts", 1)
	}
	var fed []string
	for i := 0; i < p.Fed; i++ {
		fed = append(fed, net.PubHex[i])
	}
	type cpRef struct {
		all, eff []refVal
		tally    map[string]uint64
	}
	refs := map[bc.Hash]*cpRef{}
	refOf := func(cp *chainkit.Blk) *cpRef {
		if r, ok := refs[cp.Hash]; ok {
			return r
		}
		tally, exceeded := tallyAlong(cp)
		all := rank(tally, p.MinVote)
		r := &cpRef{all: all, eff: effective(all, fed), tally: tally}
		refs[cp.Hash] = r
		c.Count("checkpoints", 1)
		c.Count("checkpoint_candidates_"+candClass(len(all)), 1)
		c.Count("checkpoint_ties_"+tieClass(all), 1)
		if strings.Contains(tieClass(all), "at-cut") {
			c.Count("checkpoint_ties_involving_the_cut", 1)
		}
		if exceeded > 0 {
			c.Count("checkpoints_after_veto_exceeding_tally", 1)
		}
		if len(all) == 0 {
			c.Count("checkpoint_federation_fallback", 1)
		}
		for _, v := range tally {
			if v == p.MinVote || v+100000000 == p.MinVote {
				c.Count("checkpoint_tally_at_or_just_below_minimum", 1)
				break
			}
		}
		return r
	}
	// same key, different tallies on two branches at the same height
	byHeight := map[uint64][]*chainkit.Blk{}
	for _, b := range tr.All {
		if b.Height%p.Epoch == 0 && b.Height > 0 {
			byHeight[b.Height] = append(byHeight[b.Height], b)
		}
	}
	for _, bs := range byHeight {
		for i := 1; i < len(bs); i++ {
			a, b := refOf(bs[0]).tally, refOf(bs[i]).tally
			for k, v := range a {
				if w, ok := b[k]; ok && w != v {
					c.Count("keys_with_different_tally_on_two_branches", 1)
					break
				}
			}
		}
	}
	maxCand := 0
	for _, b := range tr.All {
		cp := b.CP(p.Epoch)
		r := refOf(cp)
		if len(r.all) > maxCand {
			maxCand = len(r.all)
		}
		// harness consistency: chainkit built the blocks with this set
		ck := net.Validators(cp)
		same := len(ck) == len(r.eff)
		for i := 0; same && i < len(ck); i++ {
			same = ck[i].PubHex == r.eff[i].Pub && ck[i].Votes == r.eff[i].Votes
		}
		if !same {
			c.Violation("harness:reference-validators-disagree", "chainkit's validator set and the monitor's own derivation differ (harness defect)",
				map[string]interface{}{"chainkit": ck, "own": fmtVals(r.eff)})
			return
		}
		ctx := func(extra map[string]interface{}) map[string]interface{} {
			m := map[string]interface{}{"block_height": b.Height, "block": chainkit.HashShort(b.Hash), "checkpoint_height": cp.Height, "tally": r.tally,
				"reference_effective": fmtVals(r.eff), "shape": tr.Shape(), "federation": p.Fed, "node_restarts": nRestarts}
			for k, v := range extra {
				m[k] = v
			}
			return m
		}
		// AllValidators(blockHash) answers for the checkpoint that fixes the validators of that block itself
		if b.Parent != nil {
			pr := refOf(b.Parent.CP(p.Epoch))
			h := b.Hash
			for rep := 0; rep < 3; rep++ {
				got, err := nd.Chain.AllValidators(&h)
				if err != nil {
					c.Violation("Chain.AllValidators:error", "AllValidators fails for a stored block", ctx(map[string]interface{}{"error": err.Error()}))
					return
				}
				if d := compareAll(got, pr.all); d != "" {
					c.Violation("Chain.AllValidators:differs:"+tieClass(pr.all), "AllValidators of a stored block differs from the reference ranking of its branch: "+d,
						ctx(map[string]interface{}{"reference_all": fmtVals(pr.all)}))
					return
				}
			}
			c.Count("all_validators_checked", 1)
		}
		// GetValidator(prevHash = b, ts): two rotations from the epoch start, slot boundaries ±1, and the first block times after b
		n := len(r.eff)
		start := cp.B.Timestamp + chainkit.Interval
		var stamps []uint64
		for s := uint64(0); s <= 2*uint64(n); s++ {
			t0 := start + s*chainkit.Interval
			if s > 0 {
				stamps = append(stamps, t0-1)
			}
			stamps = append(stamps, t0, t0+1, t0+uint64(rng.Intn(chainkit.Interval)))
		}
		for s := uint64(1); s <= uint64(n)+1; s++ {
			stamps = append(stamps, b.B.Timestamp+s*chainkit.Interval)
		}
		h := b.Hash
		for _, ts := range stamps {
			want := r.eff[slotOrder(start, chainkit.Interval, ts, n)]
			v, err := nd.Chain.GetValidator(&h, ts)
			if err != nil {
				c.Violation("Chain.GetValidator:error", "GetValidator fails for a stored block", ctx(map[string]interface{}{"error": err.Error()}))
				return
			}
			if v == nil || v.PubKey != want.Pub || v.Order != want.Order || v.VoteNum != want.Votes {
				kind := "voted:" + tieClass(r.all)
				if len(r.all) == 0 {
					kind = "federation-fallback"
				}
				got := "nil"
				if v != nil {
					got = fmt.Sprintf("%d:%s:%d", v.Order, short(v.PubKey), v.VoteNum)
				}
				c.Violation("Chain.GetValidator:differs:"+kind, "the validator the node schedules differs from the reference of the branch",
					ctx(map[string]interface{}{"timestamp": ts, "start": start, "got": got, "want": fmt.Sprintf("%d:%s:%d", want.Order, short(want.Pub), want.Votes)}))
				return
			}
			c.Count("chain_slots_checked", 1)
		}
		c.Eval(int64(len(stamps)))
	}
	forks := 0
	for _, b := range tr.All {
		if len(b.Children) > 1 {
			forks++
		}
	}
	if forks > 0 {
		c.Count("histories_with_forks", 1)
	}
	c.Distinct("%s|fed%d|wide%v|gv%d|cand%d|restarts%d", tr.Shape(), p.Fed, wide, len(gv), maxCand, len(restartAt))
	if c.WantSample() {
		c.Sample(map[string]interface{}{"tree_shape": tr.Shape(), "blocks": len(tr.All) - 1, "forks": forks, "genesis_votes": len(gv), "max_candidates": maxCand, "federation": p.Fed})
	}
}

func TestC15(t *testing.T) {
	r := ev.Start(t, "C15")
	defer r.Finish()
	base := t.TempDir()
	r.Rule("(a) checkpoints with vote maps over <= 16 keys in seven shapes (empty, all below, ties, more than ten, tie at the cut, tallies around the minimum, random) x status x federation of 1-4 x minimum x interval {1,2,3,7,1000,6000} ms: ranking 20x, every timestamp of three rotations for short intervals, slot boundaries +-1 ms otherwise, extreme timestamps; (b) forked chains of 18-40 blocks with vote / veto histories over 14 keys (narrow or wide), genesis vote outputs vetoed beyond the tally, delivered to a real node; GetValidator / AllValidators for every stored block. distinct (a) = (status, #candidates class, tie class, federation size, interval, minimum); (b) = (tree shape, federation, width, genesis votes, max candidates)")
	r.Assume("the reference is the property statement: keys whose tally meets the minimum ranked by votes then key (descending), first ten, order = rank, else the federation in configured order; slot = ((t - start)/interval) mod n with start = checkpoint time + interval. A growing checkpoint and timestamps before the epoch start are outside the property and only observed")

	net := chainkit.Configure(chainkit.Params{Epoch: 4, Fed: 4, Local: -1, VotePending: 3, NKeys: 16})
	r.Cases("checkpoints", r.N(5000, 500000), func(c *ev.Case) { pureCase(c, net) })
	r.Cases("histories", r.N(40, 4000), func(c *ev.Case) { historyCase(c, base) })

	r.Floor("rankings_checked_20x", 3000)
	r.Floor("slots_checked", 200000)
	r.Floor("checkpoints_with_every_timestamp_of_3_rotations", 1500)
	r.Floor("checkpoints_with_slot_boundaries", 800)
	for _, k := range []string{"ties_tie-inside-top10", "ties_tie-at-cut", "ties_tie-inside+at-cut", "ties_no-tie", "candidates_0", "candidates_1", "candidates_2-9", "candidates_10", "candidates_11", "candidates_12-16",
		"federation_fallback", "federation_fallback_with_votes_below_minimum", "tally_at_or_one_below_minimum", "status_unjustified", "status_justified", "status_finalized"} {
		r.Floor(k, 50)
	}
	r.Floor("growing_answers_federation", 200)
	r.Floor("blocks_accepted", 800)
	r.Floor("chain_slots_checked", 20000)
	r.Floor("all_validators_checked", 800)
	r.Floor("histories_with_forks", 30)
	r.Floor("histories_with_restarts", 15)
	r.Floor("restarts", 20)
	r.Floor("checkpoints_after_veto_exceeding_tally", 5)
	r.Floor("checkpoint_candidates_11", 1)
	r.Floor("checkpoint_candidates_12-16", 5)
	r.Floor("checkpoint_candidates_2-9", 20)
	r.Floor("checkpoint_federation_fallback", 5)
	r.Floor("checkpoint_ties_tie-inside-top10", 10)
	r.Floor("checkpoint_ties_involving_the_cut", 5)
	r.Floor("checkpoint_tally_at_or_just_below_minimum", 10)
	r.Floor("keys_with_different_tally_on_two_branches", 10)
}
