package p15

import "testing"

// Self-tests of the reference (not run by ./check).
func TestSelfRank(t *testing.T) {
	votes := map[string]uint64{"aa": 5, "bb": 5, "cc": 7, "dd": 4, "ee": 0}
	all := rank(votes, 5)
	want := []string{"cc", "bb", "aa"}
	if len(all) != 3 {
		t.Fatalf("got %v", all)
	}
	for i, w := range want {
		if all[i].Pub != w || all[i].Order != i {
			t.Fatalf("rank %d: %v", i, all)
		}
	}
	if tieClass(all) != "tie-inside-top10" {
		t.Fatal(tieClass(all))
	}
	eff := effective(nil, []string{"f0", "f1"})
	if len(eff) != 2 || eff[1].Pub != "f1" || eff[1].Order != 1 {
		t.Fatalf("fallback %v", eff)
	}
	twelve := map[string]uint64{}
	for i := 0; i < 12; i++ {
		twelve[string(rune('a'+i))] = 9
	}
	a := rank(twelve, 1)
	e := effective(a, nil)
	if len(e) != 10 || e[0].Pub != "l" || e[9].Pub != "c" || tieClass(a) != "tie-inside+at-cut" {
		t.Fatalf("%v %s", e, tieClass(a))
	}
}

func TestSelfSlot(t *testing.T) {
	// start 1000, interval 10, 3 validators: 1000..1009 -> 0, 1010 -> 1, 1029 -> 2, 1030 -> 0
	for ts, want := range map[uint64]int{1000: 0, 1009: 0, 1010: 1, 1029: 2, 1030: 0, 1059: 2} {
		if got := slotOrder(1000, 10, ts, 3); got != want {
			t.Fatalf("ts %d: %d want %d", ts, got, want)
		}
	}
}
