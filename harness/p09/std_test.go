package p09

import (
	"bytes"
	"crypto/ed25519"
	"fmt"
	"strings"

	"github.com/bytom/bytom/consensus/bcrp"
	"github.com/bytom/bytom/consensus/segwit"
	"github.com/bytom/bytom/protocol/vm"
	"github.com/bytom/bytom/protocol/vm/vmutil"

	"verif/internal/ev"
)

// stdLengths: {0…80, 255, 256, 257, 65535, 65536, 65537} — around every push
// encoding switch (75/76, 255/256, 65535/65536) = the BCRP length classes.
func stdLengths() []int {
	var l []int
	for i := 0; i <= 80; i++ {
		l = append(l, i)
	}
	return append(l, 255, 256, 257, 65535, 65536, 65537)
}

func lenClass(n int) string {
	switch {
	case n == 0:
		return "0"
	case n <= 75:
		return "1-75"
	case n <= 255:
		return "76-255"
	case n <= 65535:
		return "256-65535"
	}
	return "65536+"
}

const nPatterns = 4

// pattern fills n bytes: random, zeros, 0xff, or opcode-looking bytes.
func pattern(r *ev.Rand, n, kind int) []byte {
	b := make([]byte, n)
	switch kind {
	case 0:
		copy(b, r.Bytes(n))
	case 1:
	case 2:
		for i := range b {
			b[i] = 0xff
		}
	default:
		for i := range b {
			b[i] = biasedByte(r)
		}
	}
	return b
}

// wantInst: what a builder is documented to emit, in terms of the property's
// instruction equality (push of given bytes / plain opcode).
type wantInst struct {
	push bool
	data []byte
	op   byte
}

func wPush(d []byte) wantInst { return wantInst{push: true, data: d} }
func wOp(op vm.Op) wantInst   { return wantInst{op: byte(op)} }

// leBytes: minimal little-endian encoding of n (the VM's number format).
func leBytes(n uint64) []byte {
	var b []byte
	for ; n > 0; n >>= 8 {
		b = append(b, byte(n))
	}
	return b
}

// checkBuilt: the builder's output parses (checkAll: parts 1 and 2) into
// exactly the instructions the builder was asked for.
func checkBuilt(t *tally, s *subject, name string, prog []byte, err error, want []wantInst, lc string) bool {
	t.Count("built_"+name, 1)
	if err != nil {
		t.Violation(name+":error", "a standard-program builder returned an error", map[string]interface{}{"err": err.Error()})
		return false
	}
	pr, _ := checkAll(t, s, prog, nil)
	if !pr.ok {
		if strings.HasPrefix(pr.class, "fail:") && pr.class != "fail:spurious" {
			t.Violation(name+":unparsable:len="+lc, "a standard-program builder produced a program that does not parse", map[string]interface{}{"program": hx(prog)})
		}
		return false // otherwise a parser inconsistency, already reported by part (1)
	}
	bad := len(pr.insts) != len(want)
	for k := 0; !bad && k < len(want); k++ {
		in := pr.insts[k]
		if want[k].push {
			bad = !isPushOp(byte(in.Op)) || !bytes.Equal(in.Data, want[k].data)
		} else {
			bad = byte(in.Op) != want[k].op
		}
	}
	if bad {
		t.Violation(name+":parse-is-not-inverse:len="+lc, "parsing the builder's program does not give back the instructions it was built from", map[string]interface{}{"program": hx(prog), "instructions": len(pr.insts), "want": len(want)})
		return false
	}
	return true
}

// stdHashProgram: P2WPKH / P2WSH / call-contract, one hash of length n.
func stdHashProgram(t *tally, s *subject, r *ev.Rand, kind string, n, pat int) {
	h := pattern(r, n, pat)
	w := func(prog []byte) map[string]interface{} {
		return map[string]interface{}{"hash": hx(h), "hash_len": n, "program": hx(prog)}
	}
	size := 32
	if kind == "P2WPKH" {
		size = 20
	}
	lc := fmt.Sprintf("≠%d", size) // the witness carries the exact length
	if n == size {
		lc = fmt.Sprint(size)
	}
	switch kind {
	case "P2WPKH", "P2WSH":
		build, is := vmutil.P2WPKHProgram, s.isP2WPKH
		if kind == "P2WSH" {
			build, is = vmutil.P2WSHProgram, s.isP2WSH
		}
		prog, err := build(h)
		if !checkBuilt(t, s, kind+"Program", prog, err, []wantInst{wPush(nil), wPush(h)}, lc) {
			return
		}
		got := is(prog)
		if got != (n == size) {
			t.Violation(fmt.Sprintf("Is%sScript(%sProgram(h)):len=%s:%v", kind, kind, lc, got), "recogniser disagrees with the builder: it must hold exactly for the standard hash length", w(prog))
			return
		}
		t.Count(fmt.Sprintf("std_%s_recognised_%v", kind, got), 1)
		if got {
			if !segwit.IsP2WScript(prog) {
				t.Violation("IsP2WScript("+kind+"Program(h))", "IsP2WScript rejects a standard witness program", w(prog))
			}
			back, err := segwit.GetHashFromStandardProg(prog)
			if err != nil || !bytes.Equal(back, h) {
				t.Violation("GetHashFromStandardProg("+kind+"Program(h))", "the hash read back from the program differs from the one it was built from", w(prog))
			}
		}
	case "CallContract":
		prog, err := vmutil.CallContractProgram(h)
		if !checkBuilt(t, s, "CallContractProgram", prog, err, []wantInst{wPush([]byte("bcrp")), wPush(h)}, lc) {
			return
		}
		got := s.isCall(prog)
		if got != (n == 32) {
			t.Violation(fmt.Sprintf("IsCallContractScript(CallContractProgram(h)):len=%s:%v", lc, got), "recogniser disagrees with the builder: it must hold exactly for 32-byte hashes", w(prog))
			return
		}
		t.Count(fmt.Sprintf("std_CallContract_recognised_%v", got), 1)
		if got {
			back, err := bcrp.ParseContractHash(prog)
			if err != nil || !bytes.Equal(back[:], h) {
				t.Violation("ParseContractHash(CallContractProgram(h))", "the hash read back from the program differs from the one it was built from", w(prog))
			}
		}
	}
}

// stdBytesProgram: register-contract / retire, payload of length n.
func stdBytesProgram(t *tally, s *subject, r *ev.Rand, kind string, n, pat int) {
	c := pattern(r, n, pat)
	lc := lenClass(n)
	w := func(prog []byte) map[string]interface{} {
		return map[string]interface{}{"payload": hx(c), "payload_len": n, "program": hx(prog)}
	}
	switch kind {
	case "Register":
		prog, err := vmutil.RegisterProgram(c)
		if !checkBuilt(t, s, "RegisterProgram", prog, err, []wantInst{wOp(vm.OP_FAIL), wPush([]byte("bcrp")), wPush([]byte{1}), wPush(c)}, lc) {
			return
		}
		got := s.isBCRP(prog)
		if got != (n > 0) {
			t.Violation(fmt.Sprintf("IsBCRPScript(RegisterProgram(c)):len=%s:%v", lc, got), "recogniser disagrees with the builder: it must hold exactly for non-empty contracts", w(prog))
			return
		}
		t.Count(fmt.Sprintf("std_Register_recognised_%v", got), 1)
		back, err := bcrp.ParseContract(prog)
		if err != nil || !bytes.Equal(back, c) {
			t.Violation("ParseContract(RegisterProgram(c)):len="+lc, "the contract read back from the program differs from the one it was built from", w(prog))
		}
	case "Retire":
		prog, err := vmutil.RetireProgram(c)
		want := []wantInst{wOp(vm.OP_FAIL)}
		if n > 0 {
			want = append(want, wPush(c))
		}
		if !checkBuilt(t, s, "RetireProgram", prog, err, want, lc) {
			return
		}
		if !vmutil.IsUnspendable(prog) {
			t.Violation("IsUnspendable(RetireProgram(c)):len="+lc, "a retire program is not recognised as unspendable", w(prog))
			return
		}
		t.Count("std_Retire_unspendable", 1)
		if n == 0 && !segwit.IsStraightforward(prog) {
			t.Violation("IsStraightforward(RetireProgram(empty))", "the bare OP_FAIL program is not recognised", w(prog))
		}
	}
}

var stdHeights = []uint64{0, 1, 2, 15, 16, 17, 75, 76, 127, 128, 255, 256, 65535, 65536, 1<<31 - 1, 1 << 31, 1<<32 - 1, 1 << 32,
	1<<63 - 1, 1 << 63, 1<<64 - 1}

// stdMultisig: P2SPMultiSigProgram(WithHeight) over key lengths, key counts,
// quorums and heights; GetIssuanceProgramRestrictHeight must return the height.
func stdMultisig(t *tally, s *subject, r *ev.Rand, n, variant int) {
	nkeys := []int{1, 2, 3, 0}[variant%4]
	if n > 257 && nkeys > 1 {
		nkeys = 1
	}
	var keys []ed25519.PublicKey
	for i := 0; i < nkeys; i++ {
		keys = append(keys, ed25519.PublicKey(pattern(r, n, r.Intn(nPatterns))))
	}
	quorum := 0
	if nkeys > 0 {
		quorum = r.Range(1, nkeys)
	}
	height := stdHeights[r.Intn(len(stdHeights))]
	if r.Chance(1, 3) {
		height = r.U64Boundary()
	}
	withHeight := variant%8 < 6
	var prog []byte
	var err error
	var want []wantInst
	name := "P2SPMultiSigProgram"
	if withHeight {
		name = "P2SPMultiSigProgramWithHeight"
		prog, err = vmutil.P2SPMultiSigProgramWithHeight(keys, quorum, height)
		if height > 0 {
			want = append(want, wPush(leBytes(height)), wOp(vm.OP_BLOCKHEIGHT), wOp(vm.OP_GREATERTHAN), wOp(vm.OP_VERIFY))
		}
	} else {
		height = 0
		prog, err = vmutil.P2SPMultiSigProgram(keys, quorum)
	}
	want = append(want, wOp(vm.OP_TXSIGHASH))
	for _, k := range keys {
		want = append(want, wPush(k))
	}
	want = append(want, wPush(leBytes(uint64(quorum))), wPush(leBytes(uint64(nkeys))), wOp(vm.OP_CHECKMULTISIG))
	if !checkBuilt(t, s, name, prog, err, want, lenClass(n)) {
		return
	}
	hc := "0"
	switch {
	case height == 0:
	case height <= 16:
		hc = "1-16"
	case height < 1<<63:
		hc = "17-2^63"
	default:
		hc = ">=2^63"
	}
	t.Count("std_multisig_height_"+hc, 1)
	if got := vmutil.GetIssuanceProgramRestrictHeight(prog); got != height {
		t.Violation("GetIssuanceProgramRestrictHeight("+name+"):height="+hc, "the restrict height read back differs from the height the program was built with", map[string]interface{}{"height": height, "got": got, "keys": nkeys, "key_len": n, "quorum": quorum, "program": hx(prog)})
	}
}

func stdP2Hash(t *tally, s *subject, r *ev.Rand, kind string, n, pat int) {
	h := pattern(r, n, pat)
	if kind == "P2PKHSig" {
		prog, err := vmutil.P2PKHSigProgram(h)
		checkBuilt(t, s, "P2PKHSigProgram", prog, err, []wantInst{wOp(vm.OP_DUP), wOp(vm.OP_HASH160), wPush(h), wOp(vm.OP_EQUALVERIFY), wOp(vm.OP_TXSIGHASH), wOp(vm.OP_SWAP), wOp(vm.OP_CHECKSIG)}, lenClass(n))
		return
	}
	prog, err := vmutil.P2SHProgram(h)
	checkBuilt(t, s, "P2SHProgram", prog, err, []wantInst{wOp(vm.OP_DUP), wOp(vm.OP_SHA3), wPush(h), wOp(vm.OP_EQUALVERIFY), wPush(nil), wOp(vm.OP_SWAP), wPush(nil), wOp(vm.OP_CHECKPREDICATE)}, lenClass(n))
}

// ---------------------------------------------------------------- near misses of the canonical forms

// reencodePush returns every alternative encoding of "push data".
func altPushes(data []byte) [][]byte {
	var out [][]byte
	n := len(data)
	if n >= 1 && n <= 75 {
		out = append(out, pushEnc(nil, 0, data))
	}
	if n <= 255 {
		out = append(out, pushEnc(nil, 1, data))
	}
	if n <= 65535 {
		out = append(out, pushEnc(nil, 2, data))
	}
	out = append(out, pushEnc(nil, 4, data))
	if n == 0 {
		out = append(out, []byte{0})
	}
	if n == 1 && data[0] >= 1 && data[0] <= 16 {
		out = append(out, []byte{0x50 + data[0]})
	}
	return out
}

// nearMiss builds one variant of a standard form: same pushes with another
// encoding, other lengths, extra / missing / changed bytes.
func nearMiss(r *ev.Rand) ([]byte, string) {
	kind := []string{"p2wpkh", "p2wsh", "call", "register"}[r.Intn(4)]
	var parts [][]byte // the pushes of the form, as data
	prefix := []byte{}
	size := 32
	switch kind {
	case "p2wpkh":
		size = 20
		parts = [][]byte{{}, nil}
	case "p2wsh":
		parts = [][]byte{{}, nil}
	case "call":
		parts = [][]byte{[]byte("bcrp"), nil}
	case "register":
		prefix = []byte{opFAIL}
		parts = [][]byte{[]byte("bcrp"), {1}, nil}
		size = []int{1, 2, 16, 32, 75, 76, 255, 256}[r.Intn(8)]
	}
	mut := r.Intn(9)
	if mut == 1 { // other payload length
		size += []int{-1, 1, -size, 12, -12}[r.Intn(5)]
		if size < 0 {
			size = 0
		}
	}
	payload := r.Bytes(size)
	if kind == "register" && size == 1 && r.Bool() {
		payload[0] = byte(r.Range(1, 16)) // OP_N is another way to push it
	}
	parts[len(parts)-1] = payload
	canonical := func(d []byte) []byte {
		switch {
		case len(d) == 0:
			return []byte{0}
		case len(d) <= 75:
			return pushEnc(nil, 0, d)
		case len(d) <= 255:
			return pushEnc(nil, 1, d)
		}
		return pushEnc(nil, 2, d)
	}
	var enc [][]byte
	for _, d := range parts {
		enc = append(enc, canonical(d))
	}
	name := "canonical"
	switch mut {
	case 0:
	case 1:
		name = "payload-length"
	case 2: // one push in another encoding
		i := r.Intn(len(parts))
		alts := altPushes(parts[i])
		enc[i] = alts[r.Intn(len(alts))]
		name = "push-reencoded"
	case 3:
		enc = append(enc, []byte{[]byte{0x00, 0x51, 0x61, 0x6a, 0x75, 0xff}[r.Intn(6)]})
		name = "trailing-instruction"
	case 4:
		prefix = append([]byte{[]byte{0x00, 0x51, 0x61, 0x6a, 0x75}[r.Intn(5)]}, prefix...)
		name = "leading-instruction"
	case 5:
		name = "truncated"
	case 6: // first opcode replaced
		i := 0
		enc[i] = []byte{[]byte{0x51, 0x61, 0x4f, 0x01, 0x6a, 0x00}[r.Intn(6)]}
		name = "first-push-replaced"
	case 7: // the payload push as a jump (4 bytes of "data") or small int
		enc[len(enc)-1] = [][]byte{{opJUMP, 1, 2, 3, 4}, {0x55}, {opJUMPIF, 0, 0, 0, 0}}[r.Intn(3)]
		name = "payload-not-a-data-push"
	case 8:
		name = "byte-flipped"
	}
	p := append([]byte{}, prefix...)
	for _, e := range enc {
		p = append(p, e...)
	}
	switch mut {
	case 5:
		p = p[:len(p)-r.Range(1, 3)]
	case 8:
		p[r.Intn(len(p))] ^= byte(1 << r.Intn(8))
	}
	return p, kind + "/" + name
}
