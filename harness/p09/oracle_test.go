// C09 — program parsing and assembly are consistent: oracles.
//
// Everything in this file is independent of the tables of protocol/vm: the
// reference parser and the opcode classes are written from the instruction
// format (1-byte opcode; DATA_n, PUSHDATA1/2/4, JUMP/JUMPIF carry operands).
package p09

import (
	"bufio"
	"bytes"
	"encoding/binary"
	"encoding/hex"
	"fmt"
	"strings"

	"github.com/bytom/bytom/consensus/bcrp"
	"github.com/bytom/bytom/consensus/segwit"
	"github.com/bytom/bytom/errors"
	"github.com/bytom/bytom/math/checked"
	"github.com/bytom/bytom/protocol/vm"
	"github.com/bytom/bytom/protocol/vm/vmutil"

	"verif/internal/ev"
)

// subject is the code under test; the self-test plugs in deliberately wrong
// variants to show that the oracles notice them.
type subject struct {
	parseProgram func([]byte) ([]vm.Instruction, error)
	parseOp      func([]byte, uint32) (vm.Instruction, error)
	assemble     func(string) ([]byte, error)
	disassemble  func([]byte) (string, error)
	isP2WPKH     func([]byte) bool
	isP2WSH      func([]byte) bool
	isCall       func([]byte) bool
	isBCRP       func([]byte) bool
}

func realSubject() *subject {
	return &subject{vm.ParseProgram, vm.ParseOp, vm.Assemble, vm.Disassemble,
		segwit.IsP2WPKHScript, segwit.IsP2WSHScript, bcrp.IsCallContractScript, bcrp.IsBCRPScript}
}

// tally buffers counters / distinct keys of one case (one lock round-trip per
// case instead of one per program) and forwards violations.
type tally struct {
	c        *ev.Case // nil in the self-test
	counts   map[string]int64
	distinct map[string]struct{}
	viol     map[string]string
	evals    int64

	thinRecognisers bool
}

func newTally(c *ev.Case) *tally {
	return &tally{c: c, counts: map[string]int64{}, distinct: map[string]struct{}{}, viol: map[string]string{}}
}
func (t *tally) Count(name string, n int64) { t.counts[name] += n }
func (t *tally) Distinct(k string)          { t.distinct[k] = struct{}{} }
func (t *tally) Violation(key, what string, w interface{}) {
	if _, ok := t.viol[key]; !ok {
		t.viol[key] = what
	}
	if t.c != nil {
		t.c.Violation(key, what, w)
	}
}
func (t *tally) flush() {
	if t.c == nil {
		return
	}
	for k, v := range t.counts {
		t.c.Count(k, v)
	}
	for k := range t.distinct {
		t.c.Distinct(k)
	}
	if t.evals > 1 {
		t.c.Eval(t.evals - 1) // ev counted 1 for the case itself
	}
}

// ---------------------------------------------------------------- opcode classes

const (
	opPUSHDATA1 = 0x4c
	opPUSHDATA2 = 0x4d
	opPUSHDATA4 = 0x4e
	opJUMP      = 0x63
	opJUMPIF    = 0x64
	opFAIL      = 0x6a
)

// namedPlain: opcodes without operand that have a mnemonic (from the VM1
// opcode list); every other operand-less opcode is an expansion opcode.
var namedPlain = buildNamedPlain()

func buildNamedPlain() (namedPlain [256]bool) {
	set := func(lo, hi int) {
		for i := lo; i <= hi; i++ {
			namedPlain[i] = true
		}
	}
	set(0x61, 0x61) // NOP
	set(0x69, 0x7d) // VERIFY FAIL, stack ops
	set(0x7e, 0x89) // CAT..SIZE, bitwise, EQUAL(VERIFY), CATPUSHDATA
	set(0x8b, 0x8e) // 1ADD 1SUB 2MUL 2DIV
	set(0x91, 0xa5) // NOT .. WITHIN
	set(0xa8, 0xa8) // SHA256
	set(0xaa, 0xae) // SHA3 HASH160 CHECKSIG CHECKMULTISIG TXSIGHASH
	set(0xc0, 0xc4) // CHECKPREDICATE CHECKOUTPUT ASSET AMOUNT PROGRAM
	set(0xc9, 0xcb) // INDEX ENTRYID OUTPUTID
	set(0xcd, 0xcd) // BLOCKHEIGHT
	return namedPlain
}

func isPushOp(op byte) bool { return op <= opPUSHDATA4 || (op >= 0x51 && op <= 0x60) }
func isJumpOp(op byte) bool { return op == opJUMP || op == opJUMPIF }
func isExpansionOp(op byte) bool {
	return !isPushOp(op) && !isJumpOp(op) && !namedPlain[op]
}

func opClass(op byte) string {
	switch {
	case op == 0:
		return "OP_0"
	case op <= 75:
		return "DATA_n"
	case op == opPUSHDATA1:
		return "PUSHDATA1"
	case op == opPUSHDATA2:
		return "PUSHDATA2"
	case op == opPUSHDATA4:
		return "PUSHDATA4"
	case op >= 0x51 && op <= 0x60:
		return "OP_N"
	case op == opJUMP:
		return "JUMP"
	case op == opJUMPIF:
		return "JUMPIF"
	case namedPlain[op]:
		return "plain"
	}
	return "expansion"
}

// ---------------------------------------------------------------- reference parser

type refInst struct {
	op     byte
	length int    // whole instruction
	data   []byte // operand bytes, or the synthesised value of OP_1..OP_16
}

// refParseOp decodes one instruction at pc with plain int arithmetic.
// fail is "" or the reason ("past-end", "operand-header", "operand-data").
func refParseOp(p []byte, pc int) (in refInst, fail string) {
	if pc < 0 || pc >= len(p) {
		return in, "past-end"
	}
	op := p[pc]
	in.op = op
	hdr, n := 1, 0
	switch {
	case op >= 0x51 && op <= 0x60:
		in.length = 1
		in.data = []byte{op - 0x50}
		return in, ""
	case op >= 1 && op <= 75:
		n = int(op)
	case op == opPUSHDATA1, op == opPUSHDATA2, op == opPUSHDATA4:
		w := 1 << (op - opPUSHDATA1) // 1, 2, 4 length bytes
		if pc+1+w > len(p) {
			return in, "operand-header"
		}
		for i := w - 1; i >= 0; i-- {
			n = n<<8 | int(p[pc+1+i])
		}
		hdr = 1 + w
	case op == opJUMP, op == opJUMPIF:
		n = 4
	default:
		in.length = 1
		return in, ""
	}
	if pc+hdr+n > len(p) {
		return in, "operand-data"
	}
	in.length = hdr + n
	in.data = p[pc+hdr : pc+hdr+n]
	return in, ""
}

func refParse(p []byte) (insts []refInst, bounds []int, failAt int, fail string) {
	pc := 0
	for pc < len(p) {
		in, f := refParseOp(p, pc)
		if f != "" {
			return insts, bounds, pc, f
		}
		insts = append(insts, in)
		bounds = append(bounds, pc)
		pc += in.length
	}
	bounds = append(bounds, pc) // the end of the program is a boundary too
	return insts, bounds, -1, ""
}

// ---------------------------------------------------------------- witnesses

func hx(b []byte) string {
	if len(b) <= 160 {
		return hex.EncodeToString(b)
	}
	return fmt.Sprintf("%x…(%d bytes)…%x", b[:96], len(b), b[len(b)-16:])
}

func clip(s string) string {
	if len(s) <= 400 {
		return s
	}
	return s[:300] + fmt.Sprintf("…(%d chars)…", len(s)) + s[len(s)-40:]
}

func errClass(err error) string {
	switch errors.Root(err) {
	case nil:
		return "ok"
	case vm.ErrShortProgram:
		return "short"
	case checked.ErrOverflow:
		return "overflow"
	case vm.ErrLongProgram:
		return "long"
	}
	return "other"
}

func instWitness(in vm.Instruction) map[string]interface{} {
	return map[string]interface{}{"op": fmt.Sprintf("0x%02x", byte(in.Op)), "len": in.Len, "data": hx(in.Data)}
}

func sameAsRef(got vm.Instruction, want refInst) string {
	switch {
	case byte(got.Op) != want.op:
		return "op"
	case int64(got.Len) != int64(want.length):
		return "len"
	case !bytes.Equal(got.Data, want.data):
		return "data"
	}
	return ""
}

// ---------------------------------------------------------------- (1) parsing

type parsed struct {
	ok     bool
	insts  []vm.Instruction
	ref    []refInst
	bounds []int // len(insts)+1 entries
	class  string
}

// checkParse decides part (1) of the property for one byte string.
// extraPC: additional program counters (besides the boundaries) at which
// ParseOp is compared with the reference decoder.
func checkParse(t *tally, s *subject, p []byte, extraPC []int) parsed {
	t.Count("programs", 1)
	ref, bounds, failAt, fail := refParse(p)
	got, err := s.parseProgram(p)
	res := parsed{ref: ref, bounds: bounds}
	w := func(extra map[string]interface{}) map[string]interface{} {
		m := map[string]interface{}{"program": hx(p), "len": len(p), "ParseProgram_err": fmt.Sprint(err), "reference_fail": fail, "reference_fail_pc": failAt}
		for k, v := range extra {
			m[k] = v
		}
		return m
	}

	if err != nil {
		t.Count("parse_fail", 1)
		t.Count("parse_err_"+errClass(err), 1)
		if fail == "" {
			// which instruction does the real parser stumble on?
			cls := "none"
			for k, b := range bounds[:len(bounds)-1] {
				if _, e := s.parseOp(p, uint32(b)); e != nil {
					cls = opClass(ref[k].op)
					break
				}
			}
			t.Violation("ParseProgram:rejects-parsable:"+cls, "ParseProgram fails on a program that the instruction format decodes completely", w(nil))
			res.class = "fail:spurious"
		} else {
			cls := opClass(p[failAt])
			t.Count("parse_fail_"+cls+"_"+fail, 1)
			res.class = "fail:" + cls + "@" + fail + "/" + errClass(err)
		}
	} else {
		t.Count("parse_ok", 1)
		// tiling and data placement, stated without the reference parser
		pc, tiled := 0, true
		for k, in := range got {
			l := int(in.Len)
			if in.Len < 1 || in.Len > uint32(len(p)) || pc+l > len(p) {
				t.Violation("ParseProgram:tiling:"+opClass(byte(in.Op)), "instruction length is zero or runs past the end of the program", w(map[string]interface{}{"index": k, "pc": pc, "inst": instWitness(in)}))
				tiled = false
				break
			}
			if byte(in.Op) != p[pc] {
				t.Violation("ParseProgram:opcode-not-at-boundary", "instruction opcode differs from the program byte at its start", w(map[string]interface{}{"index": k, "pc": pc, "inst": instWitness(in)}))
			}
			if in.Op >= vm.OP_1 && in.Op <= vm.OP_16 {
				if l != 1 || !bytes.Equal(in.Data, []byte{byte(in.Op) - 0x50}) {
					t.Violation("ParseProgram:small-int", "OP_1..OP_16 must be one byte long and carry its number as data", w(map[string]interface{}{"index": k, "pc": pc, "inst": instWitness(in)}))
				}
			} else if len(in.Data) > l-1 || !bytes.Equal(in.Data, p[pc+l-len(in.Data):pc+l]) {
				t.Violation("ParseProgram:data-outside:"+opClass(byte(in.Op)), "instruction data is not the tail of the instruction's own bytes", w(map[string]interface{}{"index": k, "pc": pc, "inst": instWitness(in)}))
			}
			pc += l
		}
		if tiled && pc != len(p) {
			t.Violation("ParseProgram:tiling:total", "instruction lengths do not add up to the program length", w(map[string]interface{}{"sum": pc}))
		}
		if fail != "" {
			t.Violation("ParseProgram:accepts-unparsable:"+opClass(p[failAt])+":"+fail, "ParseProgram succeeds on a program with a truncated operand", w(nil))
			res.class = "ok:spurious"
		} else {
			res.class = "ok"
			if len(got) != len(ref) {
				t.Violation("ParseProgram:ref-mismatch:count", "number of instructions differs from the reference parser", w(map[string]interface{}{"got": len(got), "want": len(ref)}))
			} else {
				agree := true
				for k := range got {
					if a := sameAsRef(got[k], ref[k]); a != "" {
						agree = false
						t.Violation("ParseProgram:ref-mismatch:"+opClass(ref[k].op)+":"+a, "instruction differs from the reference parser", w(map[string]interface{}{"index": k, "got": instWitness(got[k]), "want_len": ref[k].length, "want_data": hx(ref[k].data)}))
						break
					}
				}
				if agree {
					res.ok, res.insts = true, got
				}
			}
		}
	}

	// ParseOp at every boundary the reference parser reaches (including the
	// failing one and the end), and at the extra program counters.
	checkOp := func(pc int, k int) {
		want, wf := refParseOp(p, pc)
		in, e := s.parseOp(p, uint32(pc))
		t.Count("parseop_calls", 1)
		cls := "past-end"
		if pc < len(p) {
			cls = opClass(p[pc])
		}
		ww := func() map[string]interface{} {
			return w(map[string]interface{}{"pc": pc, "ParseOp_err": fmt.Sprint(e), "ParseOp": instWitness(in), "reference_op_fail": wf, "want_len": want.length, "want_data": hx(want.data)})
		}
		if e != nil {
			t.Count("parseop_fail", 1)
			if wf == "" {
				t.Violation("ParseOp:rejects-decodable:"+cls, "ParseOp fails where the instruction format decodes an instruction", ww())
			}
			return
		}
		t.Count("parseop_ok", 1)
		if wf != "" {
			t.Violation("ParseOp:accepts-undecodable:"+cls+":"+wf, "ParseOp succeeds where no complete instruction exists", ww())
			return
		}
		if a := sameAsRef(in, want); a != "" {
			t.Violation("ParseOp:ref-mismatch:"+cls+":"+a, "ParseOp differs from the reference decoder", ww())
			return
		}
		if k >= 0 && res.ok {
			g := res.insts[k]
			if g.Op != in.Op || g.Len != in.Len || !bytes.Equal(g.Data, in.Data) {
				t.Violation("ParseOp:disagrees-with-ParseProgram:"+cls, "ParseOp at an instruction boundary differs from the instruction ParseProgram reported there", ww())
			}
		}
	}
	for k, b := range bounds {
		if k < len(ref) {
			checkOp(b, k)
		} else {
			checkOp(b, -1) // the end of a parsable program: nothing to decode
		}
	}
	if fail != "" {
		checkOp(failAt, -1)
	}
	for _, pc := range extraPC {
		checkOp(pc, -1)
	}
	return res
}

// ---------------------------------------------------------------- (2) disassemble / assemble

// jump target classes of the ORIGINAL program
const (
	tBoundary = iota // start of instruction k (k < n)
	tEnd             // exactly the end of the program (falls off the end)
	tMid             // inside an instruction
	tBeyond          // past the end
)

func targetClass(bounds []int, addr uint32) (class int, index int) {
	end := bounds[len(bounds)-1]
	if int64(addr) > int64(end) {
		return tBeyond, -1
	}
	for k, b := range bounds {
		if int64(b) == int64(addr) {
			if k == len(bounds)-1 {
				return tEnd, k
			}
			return tBoundary, k
		}
	}
	return tMid, -1
}

type reasm struct {
	class     string // "ok", "ok-relayout", "fail:<why>", "mismatch"
	jumpClass string
}

// scannerLimit: bufio.Scanner's default token limit, which Assemble inherits.
const scannerLimit = 64 * 1024

// classifyAsmError names the defect class behind an Assemble failure from the
// error itself (the assembler reports the first token it cannot read; label
// errors come last), so that one defect maps to one key even when a program
// contains several unreadable constructs.
func classifyAsmError(err error, pr parsed) string {
	msg := err.Error()
	switch {
	case errors.Root(err) == vm.ErrToken:
		tok := strings.TrimSuffix(msg, ": "+vm.ErrToken.Error())
		switch {
		case strings.HasPrefix(tok, "NOPx"):
			return "expansion-opcode"
		case tok == "PUSHDATA1" || tok == "PUSHDATA2" || tok == "PUSHDATA4":
			return "pushdata-empty"
		}
		if len(tok) > 24 {
			tok = tok[:24]
		}
		return "unrecognized-token:" + tok
	case errors.Root(err) == bufio.ErrTooLong:
		for _, in := range pr.ref {
			if isPushOp(in.op) && 2+2*len(in.data) >= scannerLimit {
				return "token-over-64KiB"
			}
		}
		return "token-too-long-but-under-64KiB"
	case strings.HasPrefix(msg, "undefined label"):
		for _, in := range pr.ref {
			if isJumpOp(in.op) {
				if c, _ := targetClass(pr.bounds, binary.LittleEndian.Uint32(in.data)); c == tMid || c == tBeyond {
					return "jump-target-not-instruction-boundary"
				}
			}
		}
		return "undefined-label-for-boundary-target"
	}
	why := "unexplained:" + strings.ReplaceAll(fmt.Sprint(errors.Root(err)), " ", "-")
	if len(why) > 80 {
		why = why[:80]
	}
	return why
}

// checkReassemble decides part (2) for a program that parsed (pr.ok).
//
// "Same instruction sequence" means: same number of instructions and, index by
// index, (a) a push corresponds to a push of the same bytes, whatever the
// encoding (OP_1 / DATA_1 01 / PUSHDATA4 01000000 01 are the same push);
// (b) JUMP corresponds to JUMP and JUMPIF to JUMPIF, and a target that is the
// start of instruction k (or the end of the program, k = n) must again be the
// start of instruction k (the end) of the re-assembled program; (c) any other
// opcode is unchanged.  A target that is NOT an instruction boundary (inside an
// instruction, or past the end) has no instruction index: nothing is demanded
// of the new address, except when the re-assembled program has exactly the
// same layout (every instruction kept its length) — then addresses mean the
// same in both programs and the address must be unchanged.
func checkReassemble(t *tally, s *subject, p []byte, pr parsed) reasm {
	out := reasm{jumpClass: "none"}
	n := len(pr.ref)
	var seen [4]bool
	njumps := 0
	targets := map[uint32]bool{}
	for _, in := range pr.ref {
		if isJumpOp(in.op) {
			njumps++
			a := binary.LittleEndian.Uint32(in.data)
			targets[a] = true
			c, _ := targetClass(pr.bounds, a)
			seen[c] = true
			t.Count([]string{"jumps_to_boundary", "jumps_to_end", "jumps_to_mid_instruction", "jumps_beyond_end"}[c], 1)
		}
	}
	if njumps > 0 {
		out.jumpClass = ""
		for c, nm := range []string{"b", "e", "m", "x"} {
			if seen[c] {
				out.jumpClass += nm
			}
		}
		if len(targets) > 26 {
			t.Count("programs_with_over_26_labels", 1)
		}
	}

	w := func(extra map[string]interface{}) map[string]interface{} {
		m := map[string]interface{}{"program": hx(p), "len": len(p), "instructions": n}
		for k, v := range extra {
			m[k] = v
		}
		return m
	}

	text, err := s.disassemble(p)
	if err != nil {
		t.Violation("Disassemble:fails-on-parsable-program", "Disassemble fails although ParseProgram succeeds", w(map[string]interface{}{"err": err.Error()}))
		out.class = "fail:disassemble"
		return out
	}
	q, err := s.assemble(text)
	if err != nil {
		why := classifyAsmError(err, pr)
		t.Count("reassemble_fail_"+why, 1)
		t.Violation("Assemble(Disassemble):"+why, "the text produced by Disassemble is rejected by Assemble", w(map[string]interface{}{"text": clip(text), "Assemble_err": err.Error()}))
		out.class = "fail:" + why
		return out
	}
	w2 := func(extra map[string]interface{}) map[string]interface{} {
		m := w(map[string]interface{}{"text": clip(text), "reassembled": hx(q)})
		for k, v := range extra {
			m[k] = v
		}
		return m
	}
	// the re-assembled program is decoded by the reference parser (already
	// compared with ParseProgram on this very input class) and by ParseProgram
	insts2, err := s.parseProgram(q)
	ref2, bounds2, _, fail2 := refParse(q)
	if err != nil || fail2 != "" {
		t.Violation("Assemble(Disassemble):result-unparsable", "the re-assembled program does not parse", w2(map[string]interface{}{"ParseProgram_err": fmt.Sprint(err), "reference_fail": fail2}))
		out.class = "mismatch"
		return out
	}
	if len(insts2) == len(ref2) {
		for k := range ref2 {
			if a := sameAsRef(insts2[k], ref2[k]); a != "" {
				t.Violation("ParseProgram:ref-mismatch:"+opClass(ref2[k].op)+":"+a, "instruction differs from the reference parser (re-assembled program)", w2(map[string]interface{}{"index": k, "got": instWitness(insts2[k])}))
				out.class = "mismatch"
				return out
			}
		}
	}
	if len(insts2) != n || len(ref2) != n {
		t.Violation("Assemble(Disassemble):instruction-count", "the re-assembled program has a different number of instructions", w2(map[string]interface{}{"got": len(insts2)}))
		out.class = "mismatch"
		return out
	}
	sameLayout := true
	for k := 0; k <= n; k++ {
		if bounds2[k] != pr.bounds[k] {
			sameLayout = false
		}
	}
	good := true
	for k := 0; k < n && good; k++ {
		a, b := pr.ref[k], insts2[k]
		bop := byte(b.Op)
		wk := func(extra map[string]interface{}) map[string]interface{} {
			m := w2(map[string]interface{}{"index": k, "orig_op": fmt.Sprintf("0x%02x", a.op), "orig_data": hx(a.data), "new": instWitness(b)})
			for kk, v := range extra {
				m[kk] = v
			}
			return m
		}
		switch {
		case isPushOp(a.op):
			if !isPushOp(bop) {
				t.Violation("Assemble(Disassemble):push-became-"+opClass(bop), "a push instruction is re-assembled as a non-push", wk(nil))
				good = false
			} else if !bytes.Equal(a.data, b.Data) {
				t.Violation("Assemble(Disassemble):push-bytes:"+opClass(a.op), "a push instruction is re-assembled as a push of different bytes", wk(nil))
				good = false
			} else if a.op != bop {
				t.Count("pushes_reencoded", 1)
			}
		case isJumpOp(a.op):
			if bop != a.op {
				t.Violation("Assemble(Disassemble):jump-opcode:"+opClass(a.op), "JUMP/JUMPIF is re-assembled as a different opcode", wk(nil))
				good = false
				break
			}
			oa, na := binary.LittleEndian.Uint32(a.data), binary.LittleEndian.Uint32(b.Data)
			c, idx := targetClass(pr.bounds, oa)
			switch c {
			case tBoundary, tEnd:
				if int64(na) != int64(bounds2[idx]) {
					t.Violation("Assemble(Disassemble):jump-target-index", "a jump to the start of instruction k no longer targets the start of instruction k", wk(map[string]interface{}{"orig_addr": oa, "target_index": idx, "new_addr": na, "new_addr_of_index": bounds2[idx]}))
					good = false
				}
			default:
				if sameLayout && na != oa {
					t.Violation("Assemble(Disassemble):jump-address-changed-in-identical-layout", "a jump to a non-boundary address got another address although no instruction changed its length", wk(map[string]interface{}{"orig_addr": oa, "new_addr": na}))
					good = false
				}
			}
		default:
			if bop != a.op || b.Len != 1 {
				t.Violation("Assemble(Disassemble):opcode:"+opClass(a.op), "an operand-less opcode is re-assembled as a different instruction", wk(nil))
				good = false
			}
		}
	}
	switch {
	case !good:
		out.class = "mismatch"
	case bytes.Equal(p, q):
		t.Count("reassemble_ok", 1)
		t.Count("reassemble_ok_identical_bytes", 1)
		out.class = "ok"
	default:
		t.Count("reassemble_ok", 1)
		if !sameLayout {
			t.Count("reassemble_ok_layout_changed", 1)
			if njumps > 0 {
				t.Count("reassemble_ok_layout_changed_with_jumps", 1)
			}
		}
		out.class = "ok-reencoded"
	}
	return out
}

func bucket(n int) string {
	switch {
	case n <= 2:
		return fmt.Sprint(n)
	case n <= 4:
		return "3-4"
	case n <= 8:
		return "5-8"
	case n <= 16:
		return "9-16"
	case n <= 32:
		return "17-32"
	}
	return "33+"
}

// ---------------------------------------------------------------- (3) recogniser ⇒ builder

// checkRecognisers: whenever a recogniser of a canonical form accepts p, the
// builder fed with the extracted hash must give back p.
func checkRecognisers(t *tally, s *subject, p []byte, pr parsed) {
	w := func(extra map[string]interface{}) map[string]interface{} {
		m := map[string]interface{}{"program": hx(p)}
		for k, v := range extra {
			m[k] = v
		}
		return m
	}
	t.Count("recogniser_inputs", 1)
	if !pr.ok {
		t.Count("recogniser_inputs_unparsable", 1)
	}
	if s.isP2WPKH(p) {
		t.Count("recognised_p2wpkh", 1)
		h, err := segwit.GetHashFromStandardProg(p)
		q, _ := vmutil.P2WPKHProgram(h)
		if err != nil || len(h) != 20 || !bytes.Equal(p, q) {
			t.Violation("IsP2WPKHScript:accepts-non-builder-form", "IsP2WPKHScript accepts a program that P2WPKHProgram(extracted hash) does not produce", w(map[string]interface{}{"hash": hx(h), "builder": hx(q), "err": fmt.Sprint(err)}))
		}
	}
	if s.isP2WSH(p) {
		t.Count("recognised_p2wsh", 1)
		h, err := segwit.GetHashFromStandardProg(p)
		q, _ := vmutil.P2WSHProgram(h)
		if err != nil || len(h) != 32 || !bytes.Equal(p, q) {
			t.Violation("IsP2WSHScript:accepts-non-builder-form", "IsP2WSHScript accepts a program that P2WSHProgram(extracted hash) does not produce", w(map[string]interface{}{"hash": hx(h), "builder": hx(q), "err": fmt.Sprint(err)}))
		}
	}
	if s.isCall(p) {
		t.Count("recognised_call_contract", 1)
		h, err := bcrp.ParseContractHash(p)
		q, _ := vmutil.CallContractProgram(h[:])
		if err != nil || !bytes.Equal(p, q) {
			t.Violation("IsCallContractScript:accepts-non-builder-form", "IsCallContractScript accepts a program that CallContractProgram(extracted hash) does not produce", w(map[string]interface{}{"hash": hx(h[:]), "builder": hx(q), "err": fmt.Sprint(err)}))
		}
	}
	// observation only (DESIGN: recogniser ⇒ builder is demanded of P2WPKH,
	// P2WSH and call-contract; IsBCRPScript only asks for non-empty data in the
	// fourth instruction, whatever its opcode)
	if s.isBCRP(p) {
		c, err := bcrp.ParseContract(p)
		q, _ := vmutil.RegisterProgram(c)
		if err == nil && bytes.Equal(p, q) {
			t.Count("recognised_bcrp_builder_form", 1)
		} else {
			t.Count("recognised_bcrp_other_form", 1)
		}
	}
	if segwit.IsStraightforward(p) {
		t.Count("recognised_straightforward", 1)
	}
	if vmutil.IsUnspendable(p) {
		t.Count("recognised_unspendable", 1)
	}
}

// checkAll runs (1), (2) and recogniser ⇒ builder on one byte string and
// records the distinct key.
func checkAll(t *tally, s *subject, p []byte, extraPC []int) (parsed, reasm) {
	t.evals++
	pr := checkParse(t, s, p, extraPC)
	ra := reasm{class: "n/a", jumpClass: "n/a"}
	if pr.ok {
		ra = checkReassemble(t, s, p, pr)
	}
	// every recogniser starts by parsing: on the bulk groups the unparsable
	// strings (no recogniser may accept them) are passed to them 1 time in 8
	if pr.ok || !t.thinRecognisers || t.evals%8 == 0 {
		checkRecognisers(t, s, p, pr)
	}
	t.Distinct(fmt.Sprintf("parse=%s n=%s jumps=%s reasm=%s", pr.class, bucket(len(pr.ref)), ra.jumpClass, ra.class))
	return pr, ra
}
