package p09

import (
	"encoding/binary"
	"encoding/hex"
	"fmt"
	"sort"
	"strings"
	"testing"

	"github.com/bytom/bytom/protocol/vm"

	"verif/internal/ev"
)

// The oracles are exercised against deliberately wrong variants of the code
// under test (wrappers around the real functions that reproduce realistic
// one-line bugs) and against variants that are RIGHT in a different way
// (legitimate re-encodings, the repairs suggested for the known findings).
// `go test ./p09` runs this; ./check runs only TestC09.

var knownKeys = map[string]bool{
	"Assemble(Disassemble):expansion-opcode":                     true,
	"Assemble(Disassemble):pushdata-empty":                       true,
	"Assemble(Disassemble):jump-target-not-instruction-boundary": true,
	"Assemble(Disassemble):token-over-64KiB":                     true,
}

// miniWorkload: a cut of TestC09's workload, same generators and oracles.
func miniWorkload(s *subject) map[string]string {
	t := newTally(nil)
	all := func(p []byte) []int {
		pcs := []int{len(p) + 1, 0xffffffff}
		for i := range p {
			pcs = append(pcs, i)
		}
		return pcs
	}
	for _, h := range corpus {
		p, _ := hex.DecodeString(h)
		checkAll(t, s, p, all(p))
	}
	checkAll(t, s, nil, nil)
	for a := 0; a < 256; a++ {
		checkAll(t, s, []byte{byte(a)}, all([]byte{byte(a)}))
		for b := 0; b < 256; b += 1 {
			p := []byte{byte(a), byte(b)}
			checkAll(t, s, p, all(p))
		}
	}
	for a := 0; a < 256; a++ {
		for _, b := range dense {
			for _, c := range dense {
				p := []byte{byte(a), b, c}
				checkAll(t, s, p, all(p))
			}
		}
	}
	for i := 0; i < 300; i++ {
		r := ev.NewRand(1, "C09", "random", i)
		for j := 0; j < 60; j++ {
			p, _ := genRandom(r)
			checkAll(t, s, p, extraPCs(r, p))
		}
	}
	lens := stdLengths()
	for i := 0; i < len(lens)*nPatterns; i++ {
		n, pat := lens[i/nPatterns], i%nPatterns
		if n > 257 && pat > 0 {
			continue
		}
		for _, k := range []string{"P2WPKH", "P2WSH", "CallContract"} {
			stdHashProgram(t, s, ev.NewRand(1, "C09", "std-"+k, i), k, n, pat)
		}
		for _, k := range []string{"Register", "Retire"} {
			stdBytesProgram(t, s, ev.NewRand(1, "C09", "std-"+k, i), k, n, pat)
		}
		if n <= 257 {
			stdMultisig(t, s, ev.NewRand(1, "C09", "std-multisig", i), n, i)
		}
	}
	for i := 0; i < 100; i++ {
		r := ev.NewRand(1, "C09", "near-miss", i)
		for j := 0; j < 50; j++ {
			p, _ := nearMiss(r)
			checkAll(t, s, p, nil)
		}
	}
	return t.viol
}

func progFromOp(parseOp func([]byte, uint32) (vm.Instruction, error)) func([]byte) ([]vm.Instruction, error) {
	return func(p []byte) ([]vm.Instruction, error) {
		var out []vm.Instruction
		for pc := uint32(0); pc < uint32(len(p)); {
			in, err := parseOp(p, pc)
			if err != nil {
				return nil, err
			}
			if in.Len == 0 {
				return nil, fmt.Errorf("stuck")
			}
			out = append(out, in)
			pc += in.Len
		}
		return out, nil
	}
}

// patchJumps rewrites the address of every jump of a (parsable) program.
func patchJumps(q []byte, f func(addr uint32) uint32) []byte {
	ref, bounds, _, fail := refParse(q)
	if fail != "" {
		return q
	}
	out := append([]byte{}, q...)
	for k, in := range ref {
		if isJumpOp(in.op) {
			binary.LittleEndian.PutUint32(out[bounds[k]+1:], f(binary.LittleEndian.Uint32(in.data)))
		}
	}
	return out
}

// mapInstTokens applies f to the token of instruction k of a disassembly.
func mapInstTokens(text string, f func(k int, tok string) string) string {
	if text == "" {
		return text
	}
	toks := strings.Split(text, " ")
	k := 0
	for i, tk := range toks {
		if strings.HasPrefix(tk, "$") {
			continue
		}
		toks[i] = f(k, tk)
		k++
	}
	return strings.Join(toks, " ")
}

type mutant struct {
	name   string
	mutate func(s *subject)
	expect []string // at least one new key must start with one of these
}

func mutants() []mutant {
	withParseOp := func(s *subject, f func(p []byte, pc uint32, in vm.Instruction, err error) (vm.Instruction, error)) {
		real := s.parseOp
		s.parseOp = func(p []byte, pc uint32) (vm.Instruction, error) {
			in, err := real(p, pc)
			return f(p, pc, in, err)
		}
		s.parseProgram = progFromOp(s.parseOp)
	}
	return []mutant{
		{"PUSHDATA2 length off by one", func(s *subject) {
			withParseOp(s, func(p []byte, pc uint32, in vm.Instruction, err error) (vm.Instruction, error) {
				if err == nil && in.Op == vm.OP_PUSHDATA2 && int(pc+in.Len) < len(p) {
					in.Len++
				}
				return in, err
			})
		}, []string{"ParseProgram:", "ParseOp:"}},
		{"truncated JUMP accepted", func(s *subject) {
			withParseOp(s, func(p []byte, pc uint32, in vm.Instruction, err error) (vm.Instruction, error) {
				if err != nil && int(pc) < len(p) && isJumpOp(p[pc]) {
					return vm.Instruction{Op: vm.Op(p[pc]), Len: uint32(len(p)) - pc, Data: p[pc+1:]}, nil
				}
				return in, err
			})
		}, []string{"ParseProgram:accepts-unparsable:JUMP", "ParseOp:accepts-undecodable:JUMP"}},
		{"PUSHDATA1 as last byte accepted", func(s *subject) {
			withParseOp(s, func(p []byte, pc uint32, in vm.Instruction, err error) (vm.Instruction, error) {
				if err != nil && int(pc) == len(p)-1 && p[pc] == opPUSHDATA1 {
					return vm.Instruction{Op: vm.OP_PUSHDATA1, Len: 1}, nil
				}
				return in, err
			})
		}, []string{"ParseProgram:accepts-unparsable:PUSHDATA1", "ParseOp:accepts-undecodable:PUSHDATA1"}},
		{"DATA_75 treated as operand-less", func(s *subject) {
			withParseOp(s, func(p []byte, pc uint32, in vm.Instruction, err error) (vm.Instruction, error) {
				if int(pc) < len(p) && p[pc] == 75 {
					return vm.Instruction{Op: vm.OP_DATA_75, Len: 1}, nil
				}
				return in, err
			})
		}, []string{"ParseProgram:", "ParseOp:"}},
		{"OP_16 carries 15", func(s *subject) {
			withParseOp(s, func(p []byte, pc uint32, in vm.Instruction, err error) (vm.Instruction, error) {
				if err == nil && in.Op == vm.OP_16 {
					in.Data = []byte{15}
				}
				return in, err
			})
		}, []string{"ParseProgram:small-int", "ParseOp:ref-mismatch:OP_N"}},
		{"data slice shifted by one", func(s *subject) {
			withParseOp(s, func(p []byte, pc uint32, in vm.Instruction, err error) (vm.Instruction, error) {
				if err == nil && in.Op == vm.OP_PUSHDATA1 && len(in.Data) > 0 {
					in.Data = p[pc+1 : pc+in.Len-1]
				}
				return in, err
			})
		}, []string{"ParseProgram:data-outside:PUSHDATA1", "ParseOp:ref-mismatch:PUSHDATA1"}},
		{"ParseProgram drops the last instruction", func(s *subject) {
			real := s.parseProgram
			s.parseProgram = func(p []byte) ([]vm.Instruction, error) {
				in, err := real(p)
				if err == nil && len(in) > 1 {
					in = in[:len(in)-1]
				}
				return in, err
			}
		}, []string{"ParseProgram:tiling:total"}},
		{"ParseProgram and ParseOp disagree", func(s *subject) {
			realOp := s.parseOp
			s.parseOp = func(p []byte, pc uint32) (vm.Instruction, error) {
				in, err := realOp(p, pc)
				if err == nil && pc > 0 && in.Op == vm.OP_DATA_2 {
					in.Len, in.Data = 2, in.Data[:1]
				}
				return in, err
			}
		}, []string{"ParseOp:"}},
		{"labels resolve one byte late", func(s *subject) {
			real := s.assemble
			s.assemble = func(t string) ([]byte, error) {
				q, err := real(t)
				if err != nil || !strings.Contains(t, "$") {
					return q, err
				}
				return patchJumps(q, func(a uint32) uint32 { return a + 1 }), nil
			}
		}, []string{"Assemble(Disassemble):jump-target-index"}},
		{"labels resolve to the original address", func(s *subject) {
			// a disassembler/assembler pair that keeps raw addresses although pushes are re-encoded
			var orig []uint32
			realD, realA := s.disassemble, s.assemble
			s.disassemble = func(p []byte) (string, error) {
				orig = orig[:0]
				if ref, _, _, fail := refParse(p); fail == "" {
					for _, in := range ref {
						if isJumpOp(in.op) {
							orig = append(orig, binary.LittleEndian.Uint32(in.data))
						}
					}
				}
				return realD(p)
			}
			s.assemble = func(t string) ([]byte, error) {
				q, err := realA(t)
				if err != nil {
					return q, err
				}
				i := 0
				return patchJumps(q, func(a uint32) uint32 {
					if i < len(orig) {
						a = orig[i]
					}
					i++
					return a
				}), nil
			}
		}, []string{"Assemble(Disassemble):jump-target-index"}},
		{"76-byte push assembled with the DATA_n form", func(s *subject) {
			real := s.assemble
			s.assemble = func(t string) ([]byte, error) {
				q, err := real(t)
				if err != nil {
					return q, err
				}
				ref, bounds, _, fail := refParse(q)
				if fail != "" {
					return q, err
				}
				var out []byte
				for k, in := range ref {
					b := q[bounds[k]:bounds[k+1]]
					if in.op == opPUSHDATA1 && len(in.data) == 76 {
						b = b[1:] // 0x4c followed by the data: the length byte is lost
					}
					out = append(out, b...)
				}
				return out, nil
			}
		}, []string{"Assemble(Disassemble):"}},
		{"JUMPIF disassembled as JUMP", func(s *subject) {
			real := s.disassemble
			s.disassemble = func(p []byte) (string, error) {
				t, err := real(p)
				return strings.ReplaceAll(t, "JUMPIF:", "JUMP:"), err
			}
		}, []string{"Assemble(Disassemble):jump-opcode:JUMPIF"}},
		{"last data byte lost in the text", func(s *subject) {
			real := s.disassemble
			s.disassemble = func(p []byte) (string, error) {
				t, err := real(p)
				return mapInstTokens(t, func(k int, tok string) string {
					if strings.HasPrefix(tok, "0x") && len(tok) > 40 {
						return tok[:len(tok)-2]
					}
					return tok
				}), err
			}
		}, []string{"Assemble(Disassemble):push-bytes"}},
		{"an opcode name maps to its neighbour", func(s *subject) {
			real := s.disassemble
			s.disassemble = func(p []byte) (string, error) {
				t, err := real(p)
				return mapInstTokens(t, func(k int, tok string) string {
					if tok == "LESSTHANOREQUAL" {
						return "LESSTHAN"
					}
					return tok
				}), err
			}
		}, []string{"Assemble(Disassemble):opcode:plain"}},
		{"a label definition is dropped", func(s *subject) {
			real := s.disassemble
			s.disassemble = func(p []byte) (string, error) {
				t, err := real(p)
				return strings.Replace(t, " $bravo ", " ", 1), err
			}
		}, []string{"Assemble(Disassemble):undefined-label-for-boundary-target"}},
		{"IsP2WPKHScript ignores the push opcode", func(s *subject) {
			s.isP2WPKH = func(p []byte) bool {
				in, err := vm.ParseProgram(p)
				return err == nil && len(in) == 2 && in[0].Op == vm.OP_0 && len(in[1].Data) == 20
			}
		}, []string{"IsP2WPKHScript:accepts-non-builder-form"}},
		{"IsP2WSHScript ignores the version opcode", func(s *subject) {
			s.isP2WSH = func(p []byte) bool {
				in, err := vm.ParseProgram(p)
				return err == nil && len(in) == 2 && in[1].Op == vm.OP_DATA_32
			}
		}, []string{"IsP2WSHScript:accepts-non-builder-form"}},
		{"IsCallContractScript ignores the tag", func(s *subject) {
			s.isCall = func(p []byte) bool {
				in, err := vm.ParseProgram(p)
				return err == nil && len(in) == 2 && in[0].Op == vm.OP_DATA_4 && in[1].Op == vm.OP_DATA_32
			}
		}, []string{"IsCallContractScript:accepts-non-builder-form"}},
		{"IsP2WSHScript wants 20 bytes", func(s *subject) {
			real := s.isP2WPKH
			s.isP2WSH = real
		}, []string{"IsP2WSHScript(P2WSHProgram(h))"}},
		{"IsBCRPScript accepts an empty contract", func(s *subject) {
			s.isBCRP = func(p []byte) bool {
				in, err := vm.ParseProgram(p)
				return err == nil && len(in) == 4 && in[0].Op == vm.OP_FAIL
			}
		}, []string{"IsBCRPScript(RegisterProgram(c)):len=0:true"}},
	}
}

// rightInAnotherWay: variants the oracle must accept.
func controls() []mutant {
	return []mutant{
		{"small numbers assembled as OP_N", func(s *subject) {
			real := s.disassemble
			s.disassemble = func(p []byte) (string, error) {
				t, err := real(p)
				return mapInstTokens(t, func(k int, tok string) string {
					if len(tok) == 4 && strings.HasPrefix(tok, "0x") {
						if b, e := hex.DecodeString(tok[2:]); e == nil && b[0] >= 1 && b[0] <= 16 {
							return fmt.Sprint(b[0])
						}
					}
					return tok
				}), err
			}
		}, nil},
		{"suggested repairs: numeric address for off-boundary jumps, 0x for empty PUSHDATA", func(s *subject) {
			real := s.disassemble
			s.disassemble = func(p []byte) (string, error) {
				t, err := real(p)
				ref, bounds, _, fail := refParse(p)
				if err != nil || fail != "" {
					return t, err
				}
				return mapInstTokens(t, func(k int, tok string) string {
					if k >= len(ref) {
						return tok
					}
					if isJumpOp(ref[k].op) {
						a := binary.LittleEndian.Uint32(ref[k].data)
						if c, _ := targetClass(bounds, a); c == tMid || c == tBeyond {
							return fmt.Sprintf("%s:%d", tok[:strings.Index(tok, ":")], a)
						}
					}
					if strings.HasPrefix(tok, "PUSHDATA") {
						return "0x"
					}
					return tok
				}), nil
			}
		}, nil},
	}
}

func newKeys(v map[string]string) []string {
	var out []string
	for k := range v {
		if !knownKeys[k] {
			out = append(out, k)
		}
	}
	sort.Strings(out)
	return out
}

func TestOracleSelfTest(t *testing.T) {
	base := miniWorkload(realSubject())
	if nk := newKeys(base); len(nk) > 0 {
		t.Logf("unchanged code, keys beyond the four recorded ones: %v", nk)
	}
	for _, m := range mutants() {
		s := realSubject()
		m.mutate(s)
		got := newKeys(miniWorkload(s))
		hit := false
		for _, k := range got {
			for _, e := range m.expect {
				if strings.HasPrefix(k, e) {
					hit = true
				}
			}
		}
		if !hit {
			t.Errorf("mutant %q not caught as expected (%v); keys: %v", m.name, m.expect, got)
		} else {
			t.Logf("mutant %q caught: %v", m.name, got)
		}
	}
	for _, m := range controls() {
		s := realSubject()
		m.mutate(s)
		v := miniWorkload(s)
		if got := newKeys(v); len(got) > 0 {
			t.Errorf("control %q raised alarms: %v", m.name, got)
		}
		var still []string
		for k := range v {
			still = append(still, k)
		}
		sort.Strings(still)
		t.Logf("control %q: remaining known keys %v", m.name, still)
	}
}
