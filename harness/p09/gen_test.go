package p09

import (
	"encoding/binary"

	"verif/internal/ev"
)

// interesting bytes for the dense length-3/4 sample: operand-carrying opcodes,
// their neighbours, small lengths, expansion opcodes.
var dense = []byte{0x00, 0x01, 0x02, 0x03, 0x04, 0x05, 0x14, 0x20, 0x4b, 0x4c, 0x4d, 0x4e, 0x4f, 0x50,
	0x51, 0x60, 0x61, 0x63, 0x64, 0x65, 0x6a, 0x87, 0xfe, 0xff}

var plainOps, expansionOps = buildOpLists()

func buildOpLists() (plainOps, expansionOps []byte) {
	for i := 0; i < 256; i++ {
		switch {
		case namedPlain[i]:
			plainOps = append(plainOps, byte(i))
		case isExpansionOp(byte(i)):
			expansionOps = append(expansionOps, byte(i))
		}
	}
	return
}

// biased byte: the opcodes with operands dominate
func biasedByte(r *ev.Rand) byte {
	switch r.Intn(10) {
	case 0, 1:
		return []byte{opPUSHDATA1, opPUSHDATA2, opPUSHDATA4}[r.Intn(3)]
	case 2:
		return []byte{opJUMP, opJUMPIF}[r.Intn(2)]
	case 3:
		return byte(r.Intn(6)) // OP_0, tiny DATA_n, tiny length bytes
	case 4:
		return byte(r.Range(1, 75))
	case 5:
		return byte(0x51 + r.Intn(16))
	case 6:
		return plainOps[r.Intn(len(plainOps))]
	case 7:
		return []byte{0x00, 0xff, 0x80, 0x7f, 0xfe, 0xfb, 0xfa}[r.Intn(7)]
	}
	return byte(r.Intn(256))
}

type gopt struct {
	maxLen     int
	clean      bool // no expansion opcode, no empty PUSHDATA, jumps to boundaries only
	manyJumps  bool
	expansion  bool
	emptyPush  bool
	offTargets bool // jumps into instructions / past the end
}

type ginst struct {
	b    []byte
	jump bool
}

func pushEnc(r *ev.Rand, enc int, data []byte) []byte {
	n := len(data)
	switch enc {
	case 1:
		return append([]byte{opPUSHDATA1, byte(n)}, data...)
	case 2:
		return append([]byte{opPUSHDATA2, byte(n), byte(n >> 8)}, data...)
	case 4:
		var l [4]byte
		binary.LittleEndian.PutUint32(l[:], uint32(n))
		return append(append([]byte{opPUSHDATA4}, l[:]...), data...)
	}
	return append([]byte{byte(n)}, data...) // DATA_n, 1 <= n <= 75
}

// dataBytes: random operand bytes, sometimes made of opcodes so that operands
// look like code (a parser that loses track would decode them).
func dataBytes(r *ev.Rand, n int) []byte {
	b := r.Bytes(n)
	if r.Chance(1, 3) {
		for i := range b {
			b[i] = biasedByte(r)
		}
	}
	return b
}

func genStructured(r *ev.Rand, o gopt) []byte {
	if o.clean {
		o.expansion, o.emptyPush, o.offTargets = false, false, false
	}
	if o.manyJumps && o.maxLen < 200 {
		o.maxLen = r.Range(200, 300) // room for more than 26 distinct labels
	}
	var list []ginst
	total := 0
	for total < o.maxLen {
		var in ginst
		k := r.Intn(100)
		if o.manyJumps && k < 60 {
			k = 90
		}
		switch {
		case k < 18:
			in.b = []byte{plainOps[r.Intn(len(plainOps))]}
		case k < 24:
			if o.expansion {
				in.b = []byte{expansionOps[r.Intn(len(expansionOps))]}
			} else {
				in.b = []byte{0x00}
			}
		case k < 34:
			in.b = []byte{byte(0x51 + r.Intn(16))}
		case k < 38:
			in.b = []byte{0x00}
		case k < 52:
			n := r.Range(1, 75)
			if r.Chance(2, 3) {
				n = r.Range(1, 6)
			}
			in.b = pushEnc(r, 0, dataBytes(r, n))
		case k < 64: // PUSHDATA1: empty, non-canonical short, canonical
			n := []int{0, r.Range(1, 4), r.Range(1, 75), r.Range(76, 120), r.Range(76, 255)}[r.Intn(5)]
			if n == 0 && !o.emptyPush {
				n = 1
			}
			in.b = pushEnc(r, 1, dataBytes(r, n))
		case k < 74:
			n := []int{0, r.Range(1, 4), r.Range(1, 75), r.Range(76, 255), r.Range(256, 290)}[r.Intn(5)]
			if n == 0 && !o.emptyPush {
				n = 2
			}
			in.b = pushEnc(r, 2, dataBytes(r, n))
		case k < 82:
			n := []int{0, r.Range(1, 4), r.Range(1, 75), r.Range(76, 255), r.Range(256, 290)}[r.Intn(5)]
			if n == 0 && !o.emptyPush {
				n = 3
			}
			in.b = pushEnc(r, 4, dataBytes(r, n))
		default:
			in.b = []byte{[]byte{opJUMP, opJUMPIF}[r.Intn(2)], 0, 0, 0, 0}
			in.jump = true
		}
		if total+len(in.b) > o.maxLen && len(list) > 0 {
			break
		}
		list = append(list, in)
		total += len(in.b)
	}
	// resolve jump targets against the final layout
	bounds := make([]int, 0, len(list)+1)
	pc := 0
	for _, in := range list {
		bounds = append(bounds, pc)
		pc += len(in.b)
	}
	bounds = append(bounds, pc)
	var out []byte
	order := r.Perm(len(bounds)) // many-jumps mode: as many distinct targets (labels) as possible
	nj := 0
	for _, in := range list {
		if in.jump {
			var addr uint32
			k := r.Intn(10)
			if !o.offTargets {
				k = r.Intn(7)
			}
			nj++
			switch {
			case o.manyJumps:
				addr = uint32(bounds[order[nj%len(order)]])
			case k < 6:
				addr = uint32(bounds[r.Intn(len(bounds))])
			case k < 7:
				addr = uint32(pc) // fall off the end
			case k < 9: // inside an instruction (if there is a long one)
				addr = uint32(r.Intn(pc + 1))
				for try := 0; try < 8; try++ {
					j := r.Intn(len(list))
					if len(list[j].b) > 1 {
						addr = uint32(bounds[j] + r.Range(1, len(list[j].b)-1))
						break
					}
				}
			default: // past the end
				addr = []uint32{uint32(pc + 1), uint32(pc + r.Range(1, 12)), 0xffffffff, 0x80000000, 0x7fffffff, uint32(pc) + uint32(r.Uint64()>>40)}[r.Intn(6)]
			}
			binary.LittleEndian.PutUint32(in.b[1:], addr)
		}
		out = append(out, in.b...)
	}
	return out
}

// truncatedTail: an instruction whose operand is cut short.
func truncatedTail(r *ev.Rand) []byte {
	switch r.Intn(9) {
	case 0:
		return []byte{opPUSHDATA1}
	case 1:
		n := r.Range(1, 255)
		return append([]byte{opPUSHDATA1, byte(n)}, r.Bytes(r.Intn(n))...)
	case 2:
		return append([]byte{opPUSHDATA2}, r.Bytes(r.Intn(2))...)
	case 3:
		n := r.Range(1, 400)
		if r.Chance(1, 4) {
			n = 0xffff - r.Intn(3)
		}
		return append([]byte{opPUSHDATA2, byte(n), byte(n >> 8)}, r.Bytes(r.Intn(min(n, 40)))...)
	case 4:
		return append([]byte{opPUSHDATA4}, r.Bytes(r.Intn(4))...)
	case 5: // length near 2^32: the 32-bit length arithmetic must not wrap
		var l [4]byte
		binary.LittleEndian.PutUint32(l[:], 0xffffffff-uint32(r.Intn(12)))
		return append(append([]byte{opPUSHDATA4}, l[:]...), r.Bytes(r.Intn(12))...)
	case 6:
		var l [4]byte
		binary.LittleEndian.PutUint32(l[:], []uint32{uint32(r.Range(1, 400)), 0x80000000, 0x7fffffff, 0x10000, uint32(r.Uint64())}[r.Intn(5)])
		return append(append([]byte{opPUSHDATA4}, l[:]...), r.Bytes(r.Intn(8))...)
	case 7:
		return append([]byte{[]byte{opJUMP, opJUMPIF}[r.Intn(2)]}, r.Bytes(r.Intn(4))...)
	}
	n := r.Range(1, 75)
	return append([]byte{byte(n)}, r.Bytes(r.Intn(n))...)
}

// genRandom returns one program of the random group and the name of its mode.
func genRandom(r *ev.Rand) ([]byte, string) {
	maxLen := []int{r.Range(0, 12), r.Range(5, 40), r.Range(20, 120), r.Range(100, 300)}[r.Pick([]int{3, 3, 2, 2})]
	switch r.Pick([]int{2, 3, 6, 3, 5, 2}) {
	case 0:
		return r.Bytes(maxLen), "uniform"
	case 1:
		b := make([]byte, maxLen)
		for i := range b {
			b[i] = biasedByte(r)
		}
		return b, "biased"
	case 2:
		return genStructured(r, gopt{maxLen: maxLen, clean: true, manyJumps: r.Chance(1, 4)}), "clean"
	case 3:
		return genStructured(r, gopt{maxLen: maxLen, expansion: r.Bool(), emptyPush: r.Bool(), offTargets: r.Bool()}), "structured"
	case 4:
		p := genStructured(r, gopt{maxLen: maxLen, clean: r.Bool(), expansion: r.Chance(1, 4), emptyPush: r.Chance(1, 4), offTargets: r.Chance(1, 4)})
		switch r.Intn(3) {
		case 0:
			if len(p) > 0 {
				p = p[:len(p)-r.Range(1, min(len(p), 6))]
			}
		case 1:
			p = append(p, truncatedTail(r)...)
		default:
			tl := truncatedTail(r)
			at := r.Intn(len(p) + 1)
			p = append(append(append([]byte{}, p[:at]...), tl...), p[at:]...)
		}
		return p, "truncated"
	}
	p := genStructured(r, gopt{maxLen: maxLen, clean: r.Bool(), offTargets: true})
	for i, n := 0, r.Range(1, 3); i < n && len(p) > 0; i++ {
		p[r.Intn(len(p))] = biasedByte(r)
	}
	return p, "byte-mutated"
}

// extraPCs: program counters that are not necessarily boundaries.
func extraPCs(r *ev.Rand, p []byte) []int {
	pcs := []int{len(p) + 1, 0xffffffff}
	if len(p) <= 8 {
		for i := 0; i < len(p); i++ {
			pcs = append(pcs, i)
		}
		return pcs
	}
	for i := 0; i < 6; i++ {
		pcs = append(pcs, r.Intn(len(p)))
	}
	// the last bytes are where truncation checks matter
	for i := 1; i <= 5; i++ {
		pcs = append(pcs, len(p)-i)
	}
	return pcs
}
