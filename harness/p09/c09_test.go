// C09 — program parsing and assembly are consistent.
//
//  1. ParseProgram / ParseOp against an independent decoder of the instruction
//     format: fail, or tile the program exactly.
//  2. Assemble(Disassemble(p)) parses to the same instruction sequence (pushes
//     compared by pushed bytes, jumps by target instruction index).
//  3. Standard-program builders vs. recognisers / extractors.
package p09

import (
	"encoding/hex"
	"fmt"
	"runtime/debug"
	"testing"

	"github.com/bytom/bytom/consensus/segwit"
	"github.com/bytom/bytom/protocol/vm"
	"github.com/bytom/bytom/protocol/vm/vmutil"

	"verif/internal/ev"
)

// corpus: hand-written programs, among them the smallest member of every class
// the generators aim at (so that a violation's first witness is minimal).
var corpus = []string{
	"", "00", "51", "60", "61", "6a", "0100", "4c0100", "4d010000", "4e0100000000",
	"50", "ff", // expansion opcodes
	"4c00", "4d0000", "4e00000000", // PUSHDATA with no data
	"6300000000", "6305000000", "6401000000", "6306000000", "63ffffffff", // jump to self, end, own operand, past the end
	"630500000051", "630600000051", "630700000051",
	"5163070000005200", "4c01516308000000", // layout changes between the jump and its target
	"014c", "4c", "4c01", "4d", "4d00", "4d0100", "4e", "4e000000", "4e01000000", "4effffffff", "4efbffffff00", "4efaffffff00",
	"63", "63000000", "64000000", "02aa", "4b00",
	"0014" + "00112233445566778899aabbccddeeff00112233", // P2WPKH
	"6a046263727001010151",                              // BCRP register, contract = OP_1
}

func TestC09(t *testing.T) {
	r := ev.Start(t, "C09")
	defer r.Finish()
	// the code under test allocates a 4 KiB scanner buffer per Assemble and a
	// stack trace per error while the live heap stays tiny: collect once per
	// ~96 MiB instead of once per few MiB (no page release/fault churn)
	defer debug.SetGCPercent(debug.SetGCPercent(-1))
	defer debug.SetMemoryLimit(debug.SetMemoryLimit(96 << 20))
	r.Rule("byte strings: a fixed corpus; ALL strings of length ≤ 2; length 3 = every 2-byte prefix × a 24-value set of operand-relevant bytes (thorough: all 256, i.e. every string of length 3), length 4 = (24 | 256 first bytes) × 256 second bytes × set² with a 12- (quick) or 13-value (thorough) set that varies per case; random strings ≤ 300 B in six modes (uniform, opcode-biased, well-formed with boundary jumps, well-formed with expansion opcodes / empty PUSHDATA / off-boundary jumps, truncated operands, byte-mutated); every standard-program builder over lengths {0…80,255,256,257,65535,65536,65537} × 4 byte patterns; near misses of the canonical forms. distinct = (parse outcome: ok or failing opcode class @ reason / error class, #instructions bucket, jump-target classes present [b=boundary e=end m=mid-instruction x=beyond], re-assembly outcome)")
	r.Assume("the instruction format as written in the reference decoder of this package: opcodes 0x01–0x4b carry that many bytes, 0x4c/0x4d/0x4e a 1/2/4-byte little-endian length then the data, 0x63/0x64 a 4-byte address, 0x51–0x60 stand for the one-byte numbers 1–16, everything else has no operand")
	r.Assume("instruction equality for re-assembly: pushes by pushed bytes, jumps by opcode and target instruction index (end of program = index n); a jump target that is not an instruction boundary must merely survive re-assembly, and keep its address when no instruction changed length")
	r.Assume("standard-program builders other than the recognised forms are compared with their documented instruction lists")

	s := realSubject()
	// the opcode classes of this package must describe the VM under test
	for i := 0; i < 256; i++ {
		named := len(vm.Op(i).String()) < 4 || vm.Op(i).String()[:4] != "NOPx"
		if named == isExpansionOp(byte(i)) {
			r.Inconclusive("harness opcode table out of date: opcode 0x%02x is named %q", i, vm.Op(i).String())
		}
	}

	run := func(c *ev.Case, fn func(t *tally)) {
		tl := newTally(c)
		fn(tl)
		tl.flush()
	}
	allPC := func(p []byte) []int {
		pcs := []int{len(p) + 1, 0xffffffff}
		for i := range p {
			pcs = append(pcs, i)
		}
		return pcs
	}

	// one case, so that the first shard records the minimal witness of a finding
	r.Cases("corpus", 1, func(c *ev.Case) {
		run(c, func(t *tally) {
			for _, h := range corpus {
				p, _ := hex.DecodeString(h)
				pr, ra := checkAll(t, s, p, allPC(p))
				c.Sample(map[string]interface{}{"program": h, "parse": pr.class, "reassemble": ra.class})
			}
			// the longest push whose text the assembler still reads, and the next one
			for _, n := range []int{32766, 32767} {
				checkAll(t, s, pushEnc(nil, 2, make([]byte, n)), nil)
			}
			t.Count("corpus_programs", int64(len(corpus)+2))
		})
	})

	// ALL byte strings of length ≤ 2: case 0 = "" and the 256 one-byte
	// strings, case 1+a = the 256 strings a‖b.
	r.Cases("exhaustive-le2", 257, func(c *ev.Case) {
		run(c, func(t *tally) {
			if c.Index == 0 {
				checkAll(t, s, []byte{}, allPC(nil))
				for a := 0; a < 256; a++ {
					p := []byte{byte(a)}
					checkAll(t, s, p, allPC(p))
				}
				t.Count("exhaustive_len0_len1", 257)
				return
			}
			for b := 0; b < 256; b++ {
				p := []byte{byte(c.Index - 1), byte(b)}
				checkAll(t, s, p, allPC(p))
			}
			t.Count("exhaustive_len2", 256)
		})
	})

	set3 := dense
	if r.Thorough() {
		set3 = nil
		for i := 0; i < 256; i++ {
			set3 = append(set3, byte(i))
		}
	}
	r.Cases("dense-len3", 256, func(c *ev.Case) {
		run(c, func(t *tally) {
			t.thinRecognisers = true
			for b := 0; b < 256; b++ {
				for _, x := range set3 {
					p := []byte{byte(c.Index), byte(b), x}
					checkAll(t, s, p, allPC(p))
				}
			}
			t.Count("dense_len3", int64(256*len(set3)))
		})
	})

	// length 4: first byte from the dense set (quick) or any (thorough)
	first4 := len(dense)
	if r.Thorough() {
		first4 = 256
	}
	r.Cases("dense-len4", first4*256, func(c *ev.Case) {
		run(c, func(t *tally) {
			t.thinRecognisers = true
			a := byte(c.Index / 256)
			if !c.Thorough() {
				a = dense[c.Index/256]
			}
			// two extra per-case bytes widen the set beyond the fixed one
			set := append(append([]byte{}, dense[:10]...), dense[10+c.Rand.Intn(14)], byte(c.Rand.Intn(256)))
			if c.Thorough() {
				set = append(set, dense[10+c.Rand.Intn(14)])
			}
			for _, x := range set {
				for _, y := range set {
					p := []byte{a, byte(c.Index), x, y}
					checkAll(t, s, p, allPC(p))
				}
			}
			t.Count("dense_len4", int64(len(set)*len(set)))
		})
	})

	r.Cases("random", r.N(3000, 120000), func(c *ev.Case) {
		run(c, func(t *tally) {
			t.thinRecognisers = true
			for i := 0; i < 60; i++ {
				p, mode := genRandom(c.Rand)
				t.Count("random_mode_"+mode, 1)
				pr, ra := checkAll(t, s, p, extraPCs(c.Rand, p))
				if i == 0 && c.WantSample() {
					c.Sample(map[string]interface{}{"mode": mode, "program": hx(p), "parse": pr.class, "reassemble": ra.class})
				}
			}
		})
	})

	// (3) builders ⇒ recognisers and extractors, every length × byte pattern
	lens := stdLengths()
	for _, kind := range []string{"P2WPKH", "P2WSH", "CallContract"} {
		kind := kind
		r.Cases("std-"+kind, len(lens)*nPatterns, func(c *ev.Case) {
			run(c, func(t *tally) { stdHashProgram(t, s, c.Rand, kind, lens[c.Index/nPatterns], c.Index%nPatterns) })
		})
	}
	for _, kind := range []string{"Register", "Retire"} {
		kind := kind
		r.Cases("std-"+kind, len(lens)*nPatterns, func(c *ev.Case) {
			run(c, func(t *tally) { stdBytesProgram(t, s, c.Rand, kind, lens[c.Index/nPatterns], c.Index%nPatterns) })
		})
	}
	for _, kind := range []string{"P2PKHSig", "P2SH"} {
		kind := kind
		r.Cases("std-"+kind, len(lens)*nPatterns, func(c *ev.Case) {
			run(c, func(t *tally) { stdP2Hash(t, s, c.Rand, kind, lens[c.Index/nPatterns], c.Index%nPatterns) })
		})
	}
	r.Cases("std-multisig", len(lens)*r.N(16, 64), func(c *ev.Case) {
		run(c, func(t *tally) { stdMultisig(t, s, c.Rand, lens[c.Index%len(lens)], c.Index/len(lens)) })
	})
	r.Cases("std-coinbase", 1, func(c *ev.Case) {
		run(c, func(t *tally) {
			prog, err := vmutil.DefaultCoinbaseProgram()
			if checkBuilt(t, s, "DefaultCoinbaseProgram", prog, err, []wantInst{wPush([]byte{1})}, "n/a") {
				if !segwit.IsStraightforward(prog) {
					t.Violation("IsStraightforward(DefaultCoinbaseProgram())", "the default coinbase program is not recognised", map[string]interface{}{"program": hx(prog)})
				}
			}
		})
	})

	// recogniser ⇒ builder on near misses of the canonical forms
	r.Cases("near-miss", r.N(400, 20000), func(c *ev.Case) {
		run(c, func(t *tally) {
			for i := 0; i < 50; i++ {
				p, what := nearMiss(c.Rand)
				t.Count("near_miss_programs", 1)
				before := t.counts["recognised_p2wpkh"] + t.counts["recognised_p2wsh"] + t.counts["recognised_call_contract"] + t.counts["recognised_bcrp_builder_form"] + t.counts["recognised_bcrp_other_form"]
				checkAll(t, s, p, extraPCs(c.Rand, p))
				after := t.counts["recognised_p2wpkh"] + t.counts["recognised_p2wsh"] + t.counts["recognised_call_contract"] + t.counts["recognised_bcrp_builder_form"] + t.counts["recognised_bcrp_other_form"]
				verdict := "rejected"
				if after > before {
					verdict = "recognised"
				}
				t.Count("near_miss_"+verdict, 1)
				t.Distinct(fmt.Sprintf("near-miss %s %s", what, verdict))
				if i == 0 && c.WantSample() {
					c.Sample(map[string]interface{}{"variant": what, "program": hx(p), "verdict": verdict})
				}
			}
		})
	})

	// what the verdict needs to have seen
	for _, f := range []struct {
		name string
		min  int64
	}{
		{"parse_ok", 50000}, {"parse_fail", 50000},
		{"parse_fail_DATA_n_operand-data", 1000},
		{"parse_fail_PUSHDATA1_operand-header", 100}, {"parse_fail_PUSHDATA1_operand-data", 1000},
		{"parse_fail_PUSHDATA2_operand-header", 100}, {"parse_fail_PUSHDATA2_operand-data", 1000},
		{"parse_fail_PUSHDATA4_operand-header", 100}, {"parse_fail_PUSHDATA4_operand-data", 1000},
		{"parse_fail_JUMP_operand-data", 500}, {"parse_fail_JUMPIF_operand-data", 500},
		{"parse_err_short", 10000}, {"parse_err_overflow", 50},
		{"parseop_ok", 100000}, {"parseop_fail", 100000},
		{"reassemble_ok", 20000}, {"reassemble_ok_layout_changed_with_jumps", 1000}, {"pushes_reencoded", 10000},
		{"jumps_to_boundary", 5000}, {"jumps_to_end", 500}, {"jumps_to_mid_instruction", 500}, {"jumps_beyond_end", 500},
		{"programs_with_over_26_labels", 20},
		{"exhaustive_len0_len1", 257}, {"exhaustive_len2", 65536},
		{"std_P2WPKH_recognised_true", 4}, {"std_P2WPKH_recognised_false", 300},
		{"std_P2WSH_recognised_true", 4}, {"std_P2WSH_recognised_false", 300},
		{"std_CallContract_recognised_true", 4}, {"std_CallContract_recognised_false", 300},
		{"std_Register_recognised_true", 300}, {"std_Register_recognised_false", 4},
		{"std_Retire_unspendable", 300}, {"built_P2PKHSigProgram", 300}, {"built_P2SHProgram", 300},
		{"built_P2SPMultiSigProgramWithHeight", 500}, {"built_P2SPMultiSigProgram", 100},
		{"std_multisig_height_0", 50}, {"std_multisig_height_1-16", 50}, {"std_multisig_height_17-2^63", 50}, {"std_multisig_height_>=2^63", 50},
		{"near_miss_recognised", 2000}, {"near_miss_rejected", 2000},
		{"recogniser_inputs", 100000}, {"recogniser_inputs_unparsable", 100000},
		{"recognised_p2wpkh", 300}, {"recognised_p2wsh", 300}, {"recognised_call_contract", 300},
	} {
		r.Floor(f.name, f.min)
	}
}
