// C14 — coinbase rewards are exact and create no extra money.
//
// A real node is fed chains of several epochs whose blocks are proposed by the
// scheduled validators (federation of 1–4, or 1–6 keys that qualify through vote
// outputs), with random fees, retirements, vetoes and vote totals that put the
// pledge rate far below, just below, exactly at, just above and far above the
// reward threshold.  At every position the block that pays exactly the reference
// reward table must be accepted and every single-rule coinbase mutant must stay
// out of the main chain; blocks produced by proposal.NewBlockTemplate with the
// node's own key must pay exactly the table and be accepted; after every block
// the BTM the store reports unspent must equal genesis + minted − fees − retired
// and the amount minted must equal the reward tables paid out.
package p14

import (
	"encoding/hex"
	"fmt"
	"sort"
	"strings"
	"testing"
	"time"

	"github.com/bytom/bytom/consensus"
	"github.com/bytom/bytom/proposal"
	"github.com/bytom/bytom/protocol/bc"
	"github.com/bytom/bytom/protocol/bc/types"
	"github.com/bytom/bytom/protocol/state"

	"verif/internal/chainkit"
	"verif/internal/ev"
)

// whales: funding outputs large enough to move the pledge rate (votes / supply) across
// the threshold of one half.  The genesis total stays below consensus.InitBTMSupply.
var whaleAmounts = []uint64{90000000000000000, 40000000000000000, 20000000000000000, 10000000000000000}

const whaleMin = uint64(1000000000000000) // outputs at least this large are only spent by planned whale operations

func genesisAmounts() []uint64 {
	var a []uint64
	for i := 0; i < 14; i++ {
		a = append(a, chainkit.FundAmount)
	}
	return append(a, whaleAmounts...)
}

// ---------------------------------------------------------------------------
// second, independent computation of the reward table (first is chainkit's ledger)

type blockFacts struct {
	Height  uint64
	Program string
	Fees    uint64
	Votes   uint64 // Σ tallies after the block
	Rate    float64
	Subsidy uint64
	Class   string
}

func pledgeClass(rate float64) string {
	switch {
	case rate == 0.5:
		return "at-threshold"
	case rate < 0.01:
		return "far-below"
	case rate < 0.4999:
		return "below"
	case rate < 0.5:
		return "just-below"
	case rate <= 0.5001:
		return "just-above"
	}
	return "far-above"
}

// epochFacts walks genesis..p over the raw blocks only: vote tally (vote outputs minus
// vetoes, never below zero), and for the blocks of the epoch that p closes: the proposer
// program (first coinbase output), the fees (BTM in − BTM out of every other
// transaction) and the subsidy (block reward scaled by pledge rate + 1/2 up to the
// threshold of 1/2, the full block reward above it; supply grows by half a block reward
// per block).
func epochFacts(epoch uint64, p *chainkit.Blk) []blockFacts {
	if p.Height == 0 || p.Height%epoch != 0 {
		return nil
	}
	tally := map[string]uint64{}
	var facts []blockFacts
	for _, b := range p.Path()[1:] {
		var fees uint64
		for ti, tx := range b.B.Transactions {
			var in, out uint64
			for _, inp := range tx.Inputs {
				if v, ok := inp.TypedInput.(*types.VetoInput); ok {
					k := hex.EncodeToString(v.Vote)
					if tally[k] > v.Amount {
						tally[k] -= v.Amount
					} else {
						delete(tally, k)
					}
				}
				if inp.AssetID() == chainkit.BTM {
					in += inp.Amount()
				}
			}
			for _, o := range tx.Outputs {
				if vo, ok := o.TypedOutput.(*types.VoteOutput); ok {
					tally[hex.EncodeToString(vo.Vote)] += o.Amount
				}
				if *o.AssetId == chainkit.BTM {
					out += o.Amount
				}
			}
			if ti > 0 && in > out {
				fees += in - out
			}
		}
		if b.Height+epoch <= p.Height {
			continue
		}
		var total uint64
		for _, v := range tally {
			total += v
		}
		supply := b.Height*consensus.BlockReward/2 + consensus.InitBTMSupply
		rate := float64(total) / float64(supply)
		sub := consensus.BlockReward
		if rate <= 0.5 {
			sub = uint64((rate + 0.5) * float64(consensus.BlockReward))
		}
		facts = append(facts, blockFacts{Height: b.Height, Program: hex.EncodeToString(b.B.Transactions[0].Outputs[0].ControlProgram),
			Fees: fees, Votes: total, Rate: rate, Subsidy: sub, Class: pledgeClass(rate)})
	}
	return facts
}

func tableOf(facts []blockFacts) map[string]uint64 {
	t := map[string]uint64{}
	for _, f := range facts {
		t[f.Program] += f.Fees + f.Subsidy
	}
	return t
}

func sameTable(a, b map[string]uint64) bool {
	if len(a) != len(b) {
		return false
	}
	for k, v := range a {
		if w, ok := b[k]; !ok || w != v {
			return false
		}
	}
	return true
}

func tableSum(t map[string]uint64) uint64 {
	var s uint64
	for _, v := range t {
		s += v
	}
	return s
}

func sortedKeys(t map[string]uint64) []string {
	var ks []string
	for k := range t {
		ks = append(ks, k)
	}
	sort.Strings(ks)
	return ks
}

// ---------------------------------------------------------------------------
// coinbase construction

type pay struct {
	Prog   []byte
	Amount uint64
	Asset  *bc.AssetID // nil = BTM
	Vote   []byte      // non-nil = vote-typed output
}

var cbNonce int

func coinbase(height uint64, pays []pay) *types.Tx {
	cbNonce++
	d := &types.TxData{Version: 1, Inputs: []*types.TxInput{types.NewCoinbaseInput([]byte(fmt.Sprintf("\x00%d/c14/%d", height, cbNonce)))}}
	for _, p := range pays {
		asset := chainkit.BTM
		if p.Asset != nil {
			asset = *p.Asset
		}
		if p.Vote != nil {
			d.Outputs = append(d.Outputs, types.NewVoteOutput(asset, p.Amount, p.Prog, p.Vote, [][]byte{}))
		} else {
			d.Outputs = append(d.Outputs, types.NewOriginalTxOutput(asset, p.Amount, p.Prog, [][]byte{}))
		}
	}
	return chainkit.Finish(d)
}

// exactPays is the canonical coinbase: own program first (its reward, or zero), then the
// other recipients of the table in program order.
func exactPays(own []byte, table map[string]uint64) []pay {
	ownHex := hex.EncodeToString(own)
	pays := []pay{{Prog: own, Amount: table[ownHex]}}
	for _, k := range sortedKeys(table) {
		if k == ownHex {
			continue
		}
		pb, _ := hex.DecodeString(k)
		pays = append(pays, pay{Prog: pb, Amount: table[k]})
	}
	return pays
}

func clonePays(p []pay) []pay { return append([]pay{}, p...) }

type mutant struct {
	Class string
	Pays  []pay
}

// rewardMutants: every single-rule deviation from the table at a block that opens an epoch.
func rewardMutants(net *chainkit.Net, own []byte, table, stale map[string]uint64) []mutant {
	base := exactPays(own, table)
	ownHex := hex.EncodeToString(own)
	_, ownIn := table[ownHex]
	foreign := chainkit.ValidatorProg(200)
	var ms []mutant
	for i := range base {
		if i == 0 && !ownIn {
			continue
		}
		p := clonePays(base)
		p[i].Amount++
		ms = append(ms, mutant{"amount+1", p})
		p = clonePays(base)
		p[i].Amount--
		ms = append(ms, mutant{"amount-1", p})
		// missing recipient
		p = clonePays(base)
		if i == 0 {
			p[0].Amount = 0
		} else {
			p = append(p[:i:i], p[i+1:]...)
		}
		ms = append(ms, mutant{"missing-recipient", p})
		// paid in another asset / as a vote output
		a := chainkit.AssetN(1)
		p = clonePays(base)
		p[i].Asset = &a
		ms = append(ms, mutant{"non-btm-reward", p})
		p = clonePays(base)
		p[i].Vote = net.VoteKey(0)
		ms = append(ms, mutant{"vote-typed-reward", p})
	}
	if !ownIn {
		p := clonePays(base)
		p[0].Amount = 1
		ms = append(ms, mutant{"extra-recipient", p})
	}
	for _, amt := range []uint64{1, consensus.BlockReward} {
		p := append(clonePays(base), pay{Prog: foreign, Amount: amt})
		ms = append(ms, mutant{"extra-recipient", p})
	}
	a := chainkit.AssetN(0)
	ms = append(ms, mutant{"non-btm-extra-output", append(clonePays(base), pay{Prog: foreign, Amount: 1, Asset: &a})})
	if len(table) > 0 {
		ms = append(ms, mutant{"reward-not-paid", []pay{{Prog: own, Amount: 0}}})
		p := clonePays(base)
		for i := range p {
			p[i].Amount *= 2
		}
		ms = append(ms, mutant{"table-doubled", p})
	}
	// same total, wrong distribution
	first := 0
	if !ownIn {
		first = 1
	}
	if len(base)-first >= 2 {
		if base[first].Amount != base[first+1].Amount {
			p := clonePays(base)
			p[first].Amount, p[first+1].Amount = p[first+1].Amount, p[first].Amount
			ms = append(ms, mutant{"amounts-swapped", p})
		}
		p := clonePays(base)
		p[first].Amount += p[first+1].Amount
		p = append(p[:first+1:first+1], p[first+2:]...)
		ms = append(ms, mutant{"recipients-merged", p})
		p = clonePays(base)
		p[first].Amount++
		p[first+1].Amount--
		ms = append(ms, mutant{"one-unit-moved", p})
		// one entry paid twice in place of another: the count and every single amount match the table
		for _, ij := range [][2]int{{first, first + 1}, {first + 1, first}} {
			p = clonePays(base)
			p[ij[1]].Prog, p[ij[1]].Amount = p[ij[0]].Prog, p[ij[0]].Amount
			ms = append(ms, mutant{"entry-paid-twice-another-missing", p})
		}
	}
	if len(base)-first >= 1 && base[len(base)-1].Amount > 0 {
		// every entry paid, one of them twice
		ms = append(ms, mutant{"entry-paid-twice", append(clonePays(base), base[len(base)-1])})
	}
	if len(stale) > 0 && !sameTable(stale, table) {
		ms = append(ms, mutant{"stale-table", exactPays(own, stale)})
	}
	return ms
}

// offEpochMutants: a block that does not open an epoch pays something.
func offEpochMutants(own []byte, height, epoch uint64, accumulating, previous map[string]uint64) []mutant {
	foreign := chainkit.ValidatorProg(200)
	ms := []mutant{
		{"off-epoch:amount-1", []pay{{Prog: own, Amount: 1}}},
		{"off-epoch:block-reward", []pay{{Prog: own, Amount: consensus.BlockReward}}},
		{"off-epoch:second-output", []pay{{Prog: own, Amount: 0}, {Prog: foreign, Amount: 1}}},
	}
	if height%epoch == 0 && len(accumulating) > 0 {
		// one block early: the table accumulated so far in this epoch
		ms = append(ms, mutant{"paid-one-block-early", exactPays(own, accumulating)})
	}
	if height%epoch == 2%epoch && len(previous) > 0 {
		// one block late: the table the previous block had to pay
		ms = append(ms, mutant{"paid-one-block-late", exactPays(own, previous)})
	}
	return ms
}

// ---------------------------------------------------------------------------

func errClass(err error) string {
	if err == nil {
		return "nil"
	}
	s := err.Error()
	for _, k := range []string{"dismatch output number or amount", "dismatch output number", "dismatch output amount", "dismatch output type or asset",
		"validate of transaction", "block timestamp", "signature", "checkpoint"} {
		if strings.Contains(s, k) {
			return strings.ReplaceAll(k, " ", "-")
		}
	}
	if len(s) > 48 {
		s = s[:48]
	}
	return s
}

type scenario struct {
	Epoch    uint64
	Fed      int
	NKeys    int
	Pending  uint64
	Voted    bool // validators qualify through votes (MinVote reachable)
	KTarget  int  // keys that get qualifying votes
	Local    int
	Epochs   int
	Pledge   string // low | mid | at | above | cross
	Fork     bool
	AtHeight uint64
}

func (s scenario) String() string {
	return fmt.Sprintf("epoch=%d fed=%d voted=%v k=%d local=%d epochs=%d pledge=%s fork=%v", s.Epoch, s.Fed, s.Voted, s.KTarget, s.Local, s.Epochs, s.Pledge, s.Fork)
}

type world struct {
	c      *ev.Case
	rng    *ev.Rand
	sc     scenario
	net    *chainkit.Net
	g      *chainkit.Genesis
	tr     *chainkit.Tree
	nd     *chainkit.Node
	outs   []*chainkit.UTXO // every output the harness ever created (mutants and side branches included)
	genBTM uint64
	// reward tables paid on the way to a block (own derivation), by block hash
	paid map[bc.Hash]uint64
	// vote targets
	targets  []int
	maxVals  int
	classes  map[string]bool
	whaleOps map[uint64]string
	voteSeq  int
}

func (w *world) track(tx *types.Tx) {
	w.outs = append(w.outs, chainkit.Outputs(tx)...)
}

func feeChoice(r *ev.Rand) uint64 {
	switch r.Intn(5) {
	case 0:
		return chainkit.DefaultFee
	case 1:
		return chainkit.DefaultFee + uint64(r.Intn(1000000))
	case 2:
		return 10000000 + uint64(r.Intn(990000000))
	case 3:
		return 10000000000 + r.Uint64()%90000000000
	}
	return chainkit.DefaultFee + uint64(r.Intn(7))
}

// sumVotes is the tally total of the reference ledger after p.
func sumVotes(p *chainkit.Blk) uint64 {
	var s uint64
	for _, v := range p.Votes {
		s += v
	}
	return s
}

// exactHalf finds a vote total T with float64(T)/float64(supply(h)) == 0.5 exactly.
func exactHalf(h uint64) (uint64, bool) {
	supply := h*consensus.BlockReward/2 + consensus.InitBTMSupply
	for d := uint64(0); d < 128; d++ {
		for _, t := range []uint64{supply/2 - d, supply/2 + d} {
			if float64(t)/float64(supply) == 0.5 {
				return t, true
			}
		}
	}
	return 0, false
}

// genTxs builds ledger-valid transactions on parent p.  quiet = no votes / vetoes besides the planned whale operation.
func (w *world) genTxs(p *chainkit.Blk) []*types.Tx {
	r, net := w.rng, w.net
	h := p.Height + 1
	var normal, cbs, votes, whales []*chainkit.RefUtxo
	for _, u := range p.SortedUtxos() {
		if u.U.Asset != chainkit.BTM || !net.Spendable(u, h) {
			continue
		}
		switch {
		case u.Type == chainkit.UVote:
			votes = append(votes, u)
		case u.Type == chainkit.UCoinbase:
			cbs = append(cbs, u)
		case u.U.Amount >= whaleMin:
			whales = append(whales, u)
		case u.U.Amount > 200000000000:
			normal = append(normal, u)
		}
	}
	used := map[bc.Hash]bool{}
	take := func(pool []*chainkit.RefUtxo) *chainkit.RefUtxo {
		for tries := 0; tries < 6 && len(pool) > 0; tries++ {
			u := pool[r.Intn(len(pool))]
			if !used[u.U.ID] {
				used[u.U.ID] = true
				return u
			}
		}
		return nil
	}
	var txs []*types.Tx
	op := w.whaleOps[h]
	quiet := op == "exact-half"
	// planned whale operation
	switch op {
	case "vote-mid", "vote-big", "vote-second", "exact-half", "top-up":
		var src *chainkit.RefUtxo
		sort.Slice(whales, func(i, j int) bool { return whales[i].U.Amount > whales[j].U.Amount })
		if len(whales) > 0 {
			src = whales[0]
			if op == "vote-second" && len(whales) > 1 {
				src = whales[1]
			}
		}
		if op == "top-up" {
			src = take(normal)
		}
		if src != nil {
			used[src.U.ID] = true
			fee := feeChoice(r)
			var amt uint64
			switch op {
			case "vote-mid":
				amt = 10000000000000000 + r.Uint64()%50000000000000000
			case "vote-big", "vote-second":
				amt = src.U.Amount - fee - uint64(r.Intn(1000))
			case "top-up":
				amt = 1000000000 + uint64(r.Intn(1000000000))
			case "exact-half":
				t, ok := exactHalf(h)
				cur := sumVotes(p)
				if ok && t > cur+consensus.MinVoteOutputAmount && t-cur+fee < src.U.Amount {
					amt = t - cur
				}
			}
			if amt >= consensus.MinVoteOutputAmount && amt+fee <= src.U.Amount {
				key := w.targets[r.Intn(len(w.targets))]
				outs := []chainkit.Out{{Asset: chainkit.BTM, Amount: amt, Program: chainkit.RandProg(r), Vote: net.VoteKey(key)}}
				if left := src.U.Amount - amt - fee; left > 0 {
					outs = append(outs, chainkit.Out{Asset: chainkit.BTM, Amount: left, Program: chainkit.RandProg(r)})
				}
				txs = append(txs, chainkit.MakeTx([]*chainkit.UTXO{src.U}, outs, 0))
				w.c.Count("whale_op_"+op, 1)
			}
		}
	case "veto-whale":
		// veto the largest spendable vote output
		sort.Slice(votes, func(i, j int) bool { return votes[i].U.Amount > votes[j].U.Amount })
		if len(votes) > 0 && votes[0].U.Amount >= whaleMin {
			v := votes[0]
			used[v.U.ID] = true
			fee := feeChoice(r)
			txs = append(txs, chainkit.MakeTx([]*chainkit.UTXO{v.U}, []chainkit.Out{{Asset: chainkit.BTM, Amount: v.U.Amount - fee, Program: chainkit.RandProg(r)}}, 0))
			w.c.Count("whale_op_"+op, 1)
		}
	}
	ntx := r.Intn(4)
	seeding := h <= w.sc.Epoch && w.sc.Voted && len(w.targets) > 0 && !quiet
	if seeding && ntx < 2 {
		ntx = 2 // the first epoch casts the votes that qualify the target keys
	}
	for i := 0; i < ntx; i++ {
		u := take(normal)
		if u == nil {
			break
		}
		ins := []*chainkit.UTXO{u.U}
		total := u.U.Amount
		if len(cbs) > 0 && r.Chance(1, 2) {
			if cb := take(cbs); cb != nil {
				ins = append(ins, cb.U)
				total += cb.U.Amount
				w.c.Count("reward_outputs_spent", 1)
			}
		}
		if !quiet && len(votes) > 0 && r.Chance(1, 2) {
			if v := take(votes); v != nil && v.U.Amount < whaleMin {
				ins = append(ins, v.U)
				total += v.U.Amount
				w.c.Count("vetoes", 1)
			}
		}
		fee := feeChoice(r)
		left := total - fee
		var outs []chainkit.Out
		if !quiet && (seeding || r.Chance(2, 5)) {
			// small votes: some keys pass MinVote, some do not
			amt := consensus.MinVoteOutputAmount * uint64(1+r.Intn(6))
			key := r.Intn(net.P.NKeys)
			if seeding {
				key = w.targets[w.voteSeq%len(w.targets)]
				w.voteSeq++
				amt = 500000000 + consensus.MinVoteOutputAmount*uint64(r.Intn(3)) // ties are frequent
			}
			outs = append(outs, chainkit.Out{Asset: chainkit.BTM, Amount: amt, Program: chainkit.RandProg(r), Vote: net.VoteKey(key)})
			left -= amt
			w.c.Count("vote_outputs", 1)
		}
		if r.Chance(1, 6) {
			amt := uint64(1 + r.Intn(1000000))
			outs = append(outs, chainkit.Out{Asset: chainkit.BTM, Amount: amt, Program: []byte{0x6a}})
			left -= amt
			w.c.Count("retirements", 1)
		}
		k := 1 + r.Intn(2)
		for j := 0; j < k; j++ {
			v := left / uint64(k)
			if j == k-1 {
				v = left - (left/uint64(k))*uint64(k-1)
			}
			outs = append(outs, chainkit.Out{Asset: chainkit.BTM, Amount: v, Program: chainkit.RandProg(r)})
		}
		txs = append(txs, chainkit.MakeTx(ins, outs, 0))
	}
	for _, tx := range txs {
		w.track(tx)
	}
	return txs
}

// proposerProgram: usually one program per validator; sometimes two validators share a
// program, sometimes one validator uses a second program.
func (w *world) proposerProgram(idx int) []byte {
	switch w.rng.Intn(8) {
	case 0:
		return chainkit.ValidatorProg(100)
	case 1:
		return chainkit.ValidatorProg(50 + idx)
	}
	return chainkit.ValidatorProg(idx)
}

// deliverMutant sends a block that must not enter the main chain.  It returns false if the case must stop.
func (w *world) deliverMutant(p *chainkit.Blk, ts uint64, signer int, txs []*types.Tx, m mutant, where string) bool {
	cb := coinbase(p.Height+1, m.Pays)
	w.track(cb)
	b, err := w.net.RawBlock(p, ts, cb, txs, signer)
	if err != nil {
		w.c.Inconclusive("mutant build: %v", err)
		return false
	}
	before := w.nd.Best()
	_, perr := w.nd.Chain.ProcessBlock(chainkit.CloneBlock(b))
	h := b.Hash()
	in := w.nd.Chain.InMainChain(h)
	after := w.nd.Best()
	w.c.Eval(1)
	if in || after == h || after != before {
		var desc []string
		for _, o := range cb.Outputs {
			desc = append(desc, fmt.Sprintf("%x:%d(asset %s, type %d)", o.ControlProgram, o.Amount, chainkit.HashShort(bc.Hash(*o.AssetId)), o.OutputType()))
		}
		w.c.Violation("mutant-accepted:"+m.Class, "a block whose coinbase does not pay exactly the reward table entered the main chain",
			map[string]interface{}{"scenario": w.sc.String(), "where": where, "height": b.Height, "coinbase_outputs": desc, "expected_table": w.net.ExpectedCoinbase(p),
				"process_block_error": fmt.Sprint(perr), "in_main_chain": in, "best_is_mutant": after == h})
		return false
	}
	if perr == nil {
		// not in the main chain although no error: stored as a side block?  (must not happen for a tip extension)
		if _, gerr := w.nd.Chain.GetHeaderByHash(&h); gerr == nil {
			w.c.Violation("mutant-stored:"+m.Class, "a block with a wrong coinbase was stored by the node (ProcessBlock returned no error)",
				map[string]interface{}{"scenario": w.sc.String(), "where": where, "height": b.Height})
			return false
		}
	}
	w.c.Count("mutant_rejected:"+m.Class, 1)
	w.c.Count("reject_error:"+errClass(perr), 1)
	return true
}

// conservation: Σ BTM the store reports unspent == genesis + minted − fees − retired, minted == tables paid.
func (w *world) conservation(best *chainkit.Blk, where string) bool {
	var sum uint64
	seen := map[bc.Hash]bool{}
	count := func(u *chainkit.UTXO) {
		if u.Asset != chainkit.BTM || seen[u.ID] {
			return
		}
		seen[u.ID] = true
		id := u.ID
		e, err := w.nd.Store.GetUtxo(&id)
		if err != nil || e == nil || e.Spent {
			return
		}
		sum += u.Amount
	}
	for _, u := range w.g.Blk.Utxo {
		count(u.U)
	}
	for _, u := range w.outs {
		count(u)
	}
	want := w.genBTM + best.Minted - best.Fees - best.Retired
	w.c.Count("conservation_checks", 1)
	if sum != want {
		dir := "more"
		if sum < want {
			dir = "less"
		}
		w.c.Violation("conservation:unspent-btm-"+dir+"-than-genesis+minted-fees-retired", "BTM in outputs the store reports unspent differs from genesis + coinbase outputs − fees − retired",
			map[string]interface{}{"scenario": w.sc.String(), "where": where, "height": best.Height, "store_unspent_btm": sum, "expected": want,
				"genesis": w.genBTM, "minted": best.Minted, "fees": best.Fees, "retired": best.Retired})
		return false
	}
	paid := w.paidUpTo(best)
	if best.Minted != paid {
		w.c.Violation("conservation:minted!=reward-tables-paid", "Σ coinbase outputs of the main chain differs from Σ reward tables of the completed epochs",
			map[string]interface{}{"scenario": w.sc.String(), "where": where, "height": best.Height, "minted": best.Minted, "reward_tables": paid})
		return false
	}
	if sum > w.genBTM+paid {
		w.c.Violation("conservation:unspent-btm>genesis+rewards", "unspent BTM exceeds genesis supply plus rewards paid",
			map[string]interface{}{"scenario": w.sc.String(), "where": where, "height": best.Height, "store_unspent_btm": sum, "genesis": w.genBTM, "rewards": paid})
		return false
	}
	return true
}

// paidUpTo: Σ of the reward tables (own derivation) the blocks up to b had to pay.
func (w *world) paidUpTo(b *chainkit.Blk) uint64 {
	if b == nil || b.Height == 0 {
		return 0
	}
	if v, ok := w.paid[b.Hash]; ok {
		return v
	}
	v := w.paidUpTo(b.Parent)
	if b.Height%w.sc.Epoch == 1%w.sc.Epoch && b.Height > 1 {
		v += tableSum(tableOf(epochFacts(w.sc.Epoch, b.Parent)))
	}
	w.paid[b.Hash] = v
	return v
}

// tables returns the reward table the block after p must pay, checked between the two independent computations.
func (w *world) tables(p *chainkit.Blk, countClasses bool) (map[string]uint64, bool) {
	ref := w.net.ExpectedCoinbase(p)
	facts := epochFacts(w.sc.Epoch, p)
	own := tableOf(facts)
	if (p.Height+1)%w.sc.Epoch != 1%w.sc.Epoch || p.Height == 0 {
		own = map[string]uint64{}
		facts = nil
	}
	if !sameTable(ref, own) {
		w.c.Violation("harness:reference-tables-disagree", "chainkit's reward table and the monitor's own derivation differ (harness defect)",
			map[string]interface{}{"scenario": w.sc.String(), "height": p.Height + 1, "chainkit": ref, "own": own})
		return nil, false
	}
	if countClasses {
		for _, f := range facts {
			w.c.Count("blocks_pledge_"+f.Class, 1)
			w.classes[f.Class] = true
		}
	}
	return own, true
}

func (w *world) validatorsAfter(p *chainkit.Blk) []chainkit.RefValidator {
	return w.net.Validators(p.CP(w.sc.Epoch))
}

// templateCheck: proposal.NewBlockTemplate with the node's own key in its own slot.
func (w *world) templateCheck(p *chainkit.Blk, ts uint64, txs []*types.Tx, table map[string]uint64) (*chainkit.Blk, bool) {
	for _, tx := range txs {
		if _, err := w.nd.Chain.ValidateTx(tx); err != nil {
			w.c.Count("template_pool_refusals", 1)
		}
	}
	val := &state.Validator{PubKey: w.net.PubHex[w.sc.Local]}
	blk, err := proposal.NewBlockTemplate(w.nd.Chain, val, nil, ts, 30*time.Second, 60*time.Second)
	kind := "off-epoch-block"
	if (p.Height+1)%w.sc.Epoch == 1%w.sc.Epoch {
		kind = "first-epoch-block"
	}
	if err != nil {
		w.c.Violation("template:error:"+kind, "NewBlockTemplate failed on a healthy chain", map[string]interface{}{"scenario": w.sc.String(), "height": p.Height + 1, "error": err.Error()})
		return nil, false
	}
	w.track(blk.Transactions[0])
	got := map[string]uint64{}
	ok := true
	for i, o := range blk.Transactions[0].Outputs {
		if o.OutputType() != types.OriginalOutputType || *o.AssetId != chainkit.BTM {
			ok = false
		}
		if i == 0 && o.Amount == 0 {
			continue
		}
		k := hex.EncodeToString(o.ControlProgram)
		if _, dup := got[k]; dup {
			w.c.Count("template_split_payments", 1)
		}
		got[k] += o.Amount
	}
	var desc []string
	for _, o := range blk.Transactions[0].Outputs {
		desc = append(desc, fmt.Sprintf("%x:%d", o.ControlProgram, o.Amount))
	}
	wit := map[string]interface{}{"scenario": w.sc.String(), "height": blk.Height, "template_coinbase": desc, "expected_table": table, "txs_in_template": len(blk.Transactions) - 1}
	if !ok || !sameTable(got, table) {
		w.c.Violation("template:coinbase!=reward-table:"+kind, "the proposer's coinbase does not pay exactly the reward table", wit)
		return nil, false
	}
	w.c.Count("template_"+kind+"_exact", 1)
	if len(table) > 0 {
		w.c.Count("template_paying_nonempty_table", 1)
		if _, own := table["51"]; own {
			w.c.Count("template_own_program_in_table", 1)
		}
	}
	if len(blk.Transactions) > 1 {
		w.c.Count("template_blocks_with_fees", 1)
	}
	_, perr := w.nd.Chain.ProcessBlock(chainkit.CloneBlock(blk))
	if perr != nil || w.nd.Best() != blk.Hash() {
		wit["error"] = fmt.Sprint(perr)
		w.c.Violation("template:block-rejected-by-own-node:"+errClass(perr), "the node rejects the block its own proposer built", wit)
		return nil, false
	}
	nb, aerr := w.tr.Adopt(p, blk)
	if aerr != nil {
		wit["error"] = aerr.Error()
		w.c.Violation("template:reference-ledger-rejects", "the reference ledger rejects a template block the node accepted", wit)
		return nil, false
	}
	return nb, true
}

// step extends tip p by one block (mutants first), returns the new block.
func (w *world) step(p *chainkit.Blk, side bool, otherBranch map[string]uint64) (*chainkit.Blk, bool) {
	r, net, c := w.rng, w.net, w.c
	epoch := w.sc.Epoch
	h := p.Height + 1
	vals := w.validatorsAfter(p)
	if len(vals) > w.maxVals {
		w.maxVals = len(vals)
	}
	skip := 0
	if r.Chance(1, 4) {
		skip = 1 + r.Intn(3)
	}
	useTemplate := false
	if !side && w.sc.Local >= 0 && r.Chance(3, 5) {
		for s := 0; s < len(vals); s++ {
			if net.ProposerAt(p, p.B.Timestamp+chainkit.Interval*uint64(1+s)).PubHex == net.PubHex[w.sc.Local] {
				skip, useTemplate = s, true
				break
			}
		}
	}
	ts := p.B.Timestamp + chainkit.Interval*uint64(1+skip)
	idx := net.KeyIndex(net.ProposerAt(p, ts).PubHex)
	if idx < 0 {
		c.Violation("harness:proposer-not-a-harness-key", "scheduled proposer unknown", w.sc.String())
		return nil, false
	}
	own := w.proposerProgram(idx)
	if useTemplate {
		own = chainkit.TrueProg
	}
	table, ok := w.tables(p, !side)
	if !ok {
		return nil, false
	}
	txs := w.genTxs(p)
	where := "tip"
	if side {
		where = "side-branch"
	}
	// mutants
	var ms []mutant
	reward := h%epoch == 1%epoch
	if reward {
		var stale map[string]uint64
		if p.Height >= 2*epoch {
			stale = tableOf(epochFacts(epoch, p.Ancestor(p.Height-epoch)))
		}
		ms = rewardMutants(net, own, table, stale)
		if len(otherBranch) > 0 && !sameTable(otherBranch, table) {
			ms = append(ms, mutant{"other-branch-table", exactPays(own, otherBranch)})
		}
	} else {
		var prev map[string]uint64
		if p.Parent != nil {
			prev = net.ExpectedCoinbase(p.Parent)
		}
		ms = offEpochMutants(own, h, epoch, p.Rewards, prev)
	}
	for _, m := range ms {
		if !w.deliverMutant(p, ts, idx, txs, m, where) {
			return nil, false
		}
	}
	// the exact block
	var nb *chainkit.Blk
	if useTemplate {
		var ok bool
		nb, ok = w.templateCheck(p, ts, txs, table)
		if !ok {
			return nil, false
		}
	} else {
		pays := exactPays(own, table)
		split := false
		if reward && len(table) > 0 && r.Chance(1, 4) {
			// the same amounts, one recipient paid in two outputs (the validator sums per program)
			i := len(pays) - 1
			if pays[i].Amount >= 2 {
				a := 1 + r.Uint64()%(pays[i].Amount-1)
				pays = append(pays, pay{Prog: pays[i].Prog, Amount: pays[i].Amount - a})
				pays[i].Amount = a
				split = true
			}
		}
		build := func(pays []pay) (*chainkit.Blk, error) {
			cb := coinbase(h, pays)
			w.track(cb)
			before := w.nd.Best()
			b, err := w.tr.Build(p, txs, chainkit.BlockOpt{Timestamp: ts, Coinbase: cb})
			if err != nil {
				c.Violation("harness:build", "reference ledger rejects a generated block", err.Error())
				return nil, nil
			}
			_, perr := w.nd.Chain.ProcessBlock(chainkit.CloneBlock(b.B))
			if perr == nil {
				if _, gerr := w.nd.Chain.GetHeaderByHash(&b.Hash); gerr != nil {
					perr = fmt.Errorf("no error but block not stored: %v", gerr)
				} else if !side && w.nd.Best() != b.Hash {
					perr = fmt.Errorf("no error but best stayed %s", chainkit.HashShort(before))
				}
			}
			return b, perr
		}
		b, perr := build(pays)
		if b == nil {
			return nil, false
		}
		if split {
			c.Count("split_payment_same_program_tried", 1)
			if perr == nil {
				c.Count("split_payment_same_program_accepted", 1)
			} else {
				// equivalent payment refused: legitimate either way; deliver the canonical form
				c.Count("split_payment_same_program_rejected", 1)
				b, perr = build(exactPays(own, table))
				if b == nil {
					return nil, false
				}
			}
		}
		if perr != nil {
			kind := "off-epoch-block"
			if reward {
				kind = "first-epoch-block"
			}
			c.Violation("exact-block-rejected:"+kind+":"+errClass(perr), "a block whose coinbase pays exactly the reward table is rejected",
				map[string]interface{}{"scenario": w.sc.String(), "where": where, "height": h, "error": perr.Error(), "table": table})
			return nil, false
		}
		nb = b
	}
	if reward && len(table) > 0 {
		c.Count("reward_blocks_accepted", 1)
		c.Count(fmt.Sprintf("reward_blocks_with_%d_recipients", min(len(table), 4)), 1)
	} else if reward {
		c.Count("first_epoch_blocks_with_empty_table_accepted", 1)
	} else {
		c.Count("off_epoch_blocks_accepted", 1)
	}
	if len(vals) > 0 {
		c.Count(fmt.Sprintf("blocks_with_%d_validators", len(vals)), 1)
	}
	best := w.tr.ByHash[w.nd.Best()]
	if best == nil {
		c.Violation("harness:best-not-in-tree", "best block unknown to the harness", chainkit.HashShort(w.nd.Best()))
		return nil, false
	}
	if !w.conservation(best, where) {
		return nil, false
	}
	return nb, true
}

func min(a, b int) int {
	if a < b {
		return a
	}
	return b
}

func TestC14(t *testing.T) {
	r := ev.Start(t, "C14")
	defer r.Finish()
	base := t.TempDir()
	r.Rule("chains of 3-8 epochs (epoch length 4, sometimes 3/5/6) on a real node: federation of 1-4 or 1-6 validators qualified by vote outputs propose in (sometimes skipped) slots with per-validator, shared or alternating coinbase programs; random fees, retirements, vetoes, reward spends; whale votes put the pledge rate far below / below / just below / exactly at / just above / far above one half; optional fork across an epoch boundary. At every position all coinbase mutants are delivered before the exact block. distinct = (federation, max validators, epoch length, epochs, pledge classes seen, fork)")
	r.Assume("chainkit's reference ledger and the monitor's own derivation of the reward table (they must agree) state the property; the harness genesis (written through the public store API, never validated) holds 1.607e17 BTM, below consensus.InitBTMSupply")

	r.Cases("chains", r.N(30, 3000), func(c *ev.Case) {
		rng := c.Rand
		sc := scenario{Epoch: uint64([]int{4, 4, 4, 4, 4, 3, 5, 6}[rng.Intn(8)]), Fed: 1 + rng.Intn(4), NKeys: 8, Pending: uint64(2 + rng.Intn(2)),
			Voted: c.Index%3 != 2, KTarget: 1 + rng.Intn(6), Epochs: rng.Range(3, 8), Pledge: []string{"low", "mid", "at", "above", "cross"}[c.Index%5], Fork: rng.Chance(1, 3)}
		perm := rng.Perm(sc.NKeys)
		targets := perm[:sc.KTarget]
		switch {
		case rng.Chance(1, 8):
			sc.Local = -1
		case sc.Voted && rng.Chance(2, 3):
			sc.Local = targets[rng.Intn(len(targets))]
		default:
			sc.Local = rng.Intn(sc.Fed)
		}
		minVote := uint64(500000000)
		if !sc.Voted {
			minVote = 200000000000000000 // nobody can qualify: the federation stays, votes only move the pledge rate
		}
		net := chainkit.Configure(chainkit.Params{Epoch: sc.Epoch, Fed: sc.Fed, Local: sc.Local, VotePending: sc.Pending, MinVote: minVote, NKeys: sc.NKeys})
		g := net.NewGenesisWith(genesisAmounts(), 0, nil)
		w := &world{c: c, rng: rng, sc: sc, net: net, g: g, tr: net.NewTree(g), genBTM: g.GenesisBTM(), paid: map[bc.Hash]uint64{}, targets: targets,
			classes: map[string]bool{}, whaleOps: map[uint64]string{}}
		// whale plan
		e := sc.Epoch
		switch sc.Pledge {
		case "mid":
			w.whaleOps[uint64(rng.Range(2, int(e)+1))] = "vote-mid"
		case "above":
			h := uint64(rng.Range(2, int(e)+1))
			w.whaleOps[h] = "vote-big"
			w.whaleOps[h+1+uint64(rng.Intn(3))] = "vote-second"
		case "at":
			// the pledge rate is exactly one half after each of these blocks, and just below it after the
			// blocks in between (the supply grows); a later top-up puts it just above
			h := uint64(rng.Range(2, int(2*e)))
			w.whaleOps[h] = "exact-half"
			w.whaleOps[h+1] = "exact-half"
			w.whaleOps[h+3] = "exact-half"
			w.whaleOps[h+4+uint64(rng.Intn(int(e)))] = "top-up"
		case "cross":
			h := uint64(rng.Range(2, int(e)+1))
			w.whaleOps[h] = "vote-big"
			w.whaleOps[h+sc.Pending+uint64(rng.Intn(int(e)))] = "veto-whale"
		}
		c.Journal(map[string]interface{}{"scenario": sc.String(), "whale_ops": fmt.Sprint(w.whaleOps)})
		nd, err := net.NewNode(fmt.Sprintf("%s/n%d", base, c.Index), g)
		if err != nil {
			c.Inconclusive("node: %v", err)
			return
		}
		defer func() { nd.Destroy() }()
		w.nd = nd
		total := uint64(sc.Epochs)*e + 2
		restarts := map[uint64]bool{}
		if c.Index%2 == 1 {
			for i, n := 0, 1+rng.Intn(2); i < n; i++ {
				restarts[uint64(rng.Range(int(e)+1, int(total)-1))] = true
			}
		}
		cur := w.tr.Root
		forked := !sc.Fork
		for cur.Height < total {
			var other map[string]uint64
			if !forked && cur.Height%e == 0 && cur.Height >= 2*e {
				// fork inside the epoch that just ended; the side branch is grown up to the same boundary
				forked = true
				d := uint64(1 + rng.Intn(int(e)))
				sideTip := cur.Ancestor(cur.Height - d)
				okSide := true
				for sideTip.Height < cur.Height {
					nb, ok := w.step(sideTip, true, nil)
					if !ok {
						okSide = false
						break
					}
					sideTip = nb
				}
				if !okSide {
					return
				}
				c.Count("side_branches", 1)
				mainTable, ok1 := w.tables(cur, false)
				sideTable, ok2 := w.tables(sideTip, false)
				if !ok1 || !ok2 {
					return
				}
				if !sameTable(mainTable, sideTable) {
					c.Count("side_branches_with_different_table", 1)
				}
				// first block of the next epoch on the side branch: must pay the side branch's table
				if _, ok := w.step(sideTip, true, mainTable); !ok {
					return
				}
				other = sideTable
				best := w.tr.ByHash[nd.Best()]
				if best == nil {
					c.Violation("harness:best-not-in-tree", "best block unknown to the harness", chainkit.HashShort(nd.Best()))
					return
				}
				if best.Hash != cur.Hash && !cur.IsAncestorOf(best) {
					c.Count("reorganisations_to_side_branch", 1)
				}
				if best.Height > cur.Height {
					// the side branch won: go on from there
					cur = best
					continue
				}
				// equal heights were decided by hash; go on from the node's best
				if best.Hash != cur.Hash {
					cur, other = best, mainTable
				}
			}
			if restarts[cur.Height] {
				// clean stop and start; afterwards every key votes for the last completed checkpoint of the chain
				// (the node saves the checkpoints whose status a vote changes).  The next blocks, reward block
				// included, are judged as before: the table is the one of the uninterrupted reference
				nd2, rerr := net.Reopen(w.nd, g)
				if rerr != nil {
					c.Violation("restart-failed", "the node does not start from its own store after a clean stop", map[string]interface{}{"scenario": sc.String(), "height": cur.Height, "error": rerr.Error()})
					return
				}
				nd, w.nd = nd2, nd2
				c.Count("restarts", 1)
				if cp := cur.CP(e); cp.Height > 0 && rng.Chance(2, 3) {
					for k := 0; k < sc.NKeys; k++ {
						if k == sc.Local {
							continue
						}
						if err := nd.Chain.ProcessBlockVerification(net.VoteMsg(k, w.tr.Root.Hash, cp.Hash)); err == nil {
							c.Count("votes_after_restart_accepted", 1)
						}
					}
				}
				if b := w.tr.ByHash[nd.Best()]; b != nil && b.Hash != cur.Hash {
					cur = b
				}
			}
			nb, ok := w.step(cur, false, other)
			if !ok {
				return
			}
			cur = nb
			if b := w.tr.ByHash[nd.Best()]; b != nil && b.Hash != cur.Hash {
				cur = b
			}
		}
		var cls []string
		for k := range w.classes {
			cls = append(cls, k)
		}
		sort.Strings(cls)
		c.Distinct("fed%d|voted%v|maxvals%d|epoch%d|epochs%d|%s|fork%v|restarts%d", sc.Fed, sc.Voted, w.maxVals, sc.Epoch, sc.Epochs, strings.Join(cls, "+"), sc.Fork, len(restarts))
		c.Count("chains_completed", 1)
		c.Count("chains_pledge_plan_"+sc.Pledge, 1)
		if c.WantSample() {
			c.Sample(map[string]interface{}{"scenario": sc.String(), "final_height": cur.Height, "minted": cur.Minted, "fees": cur.Fees, "retired": cur.Retired,
				"pledge_classes": cls, "max_validators": w.maxVals, "last_table": cur.Rewards})
		}
	})
	r.Floor("chains_completed", 20)
	r.Floor("reward_blocks_accepted", 80)
	r.Floor("conservation_checks", 400)
	for _, cl := range []string{"amount+1", "amount-1", "missing-recipient", "extra-recipient", "non-btm-reward", "non-btm-extra-output", "vote-typed-reward",
		"reward-not-paid", "table-doubled", "amounts-swapped", "recipients-merged", "one-unit-moved", "stale-table",
		"off-epoch:amount-1", "off-epoch:block-reward", "off-epoch:second-output", "paid-one-block-early", "paid-one-block-late"} {
		r.Floor("mutant_rejected:"+cl, 20)
	}
	for _, cl := range []string{"far-below", "below", "just-below", "at-threshold", "just-above", "far-above"} {
		r.Floor("blocks_pledge_"+cl, 5)
	}
	r.Floor("mutant_rejected:other-branch-table", 3)
	r.Floor("reorganisations_to_side_branch", 3)
	r.Floor("restarts", 10)
	r.Floor("votes_after_restart_accepted", 10)
	r.Floor("template_first-epoch-block_exact", 10)
	r.Floor("template_off-epoch-block_exact", 20)
	r.Floor("template_paying_nonempty_table", 8)
	r.Floor("template_blocks_with_fees", 10)
	r.Floor("split_payment_same_program_tried", 1) // accepted or refused: both pay the table exactly, the property does not choose
	r.Floor("reward_blocks_with_1_recipients", 5)
	r.Floor("reward_blocks_with_2_recipients", 5)
	r.Floor("reward_blocks_with_3_recipients", 5)
	for i := 1; i <= 6; i++ {
		r.Floor(fmt.Sprintf("blocks_with_%d_validators", i), 8)
	}
	r.Floor("retirements", 10)
	r.Floor("vetoes", 5)
	r.Floor("reward_outputs_spent", 5)
}
