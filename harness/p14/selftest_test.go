package p14

import (
	"testing"

	"github.com/bytom/bytom/consensus"

	"verif/internal/chainkit"
)

// Self-tests of the oracle pieces (not run by ./check): the mutant generator must
// never emit the exact table, exactHalf must hit the threshold exactly, and the
// pledge classes must be separated the way the reward formula separates them.
func TestSelfMutantsDifferFromTable(t *testing.T) {
	net := chainkit.Configure(chainkit.Params{Epoch: 4, Fed: 2, Local: -1, NKeys: 4})
	own := chainkit.ValidatorProg(0)
	tables := []map[string]uint64{
		{"00": 5},
		{"0100": 285388130, "0101": 570776255},
		{"01007551": 7, "0101": 9, "0102": 9},
	}
	for _, tb := range tables {
		for _, m := range rewardMutants(net, own, tb, map[string]uint64{"aa": 1}) {
			got := map[string]uint64{}
			pure := true
			for i, p := range m.Pays {
				if p.Asset != nil || p.Vote != nil {
					pure = false
				}
				if i == 0 && p.Amount == 0 {
					continue
				}
				got[string(hexOf(p.Prog))] += p.Amount
			}
			if pure && sameTable(got, tb) {
				t.Fatalf("mutant %s pays exactly the table %v", m.Class, tb)
			}
		}
	}
}

func hexOf(b []byte) string {
	const d = "0123456789abcdef"
	o := make([]byte, 0, 2*len(b))
	for _, x := range b {
		o = append(o, d[x>>4], d[x&15])
	}
	return string(o)
}

func TestSelfExactHalf(t *testing.T) {
	for h := uint64(1); h < 200; h++ {
		v, ok := exactHalf(h)
		if !ok {
			t.Fatalf("no exact half at height %d", h)
		}
		supply := h*consensus.BlockReward/2 + consensus.InitBTMSupply
		if pledgeClass(float64(v)/float64(supply)) != "at-threshold" {
			t.Fatalf("height %d: %d is not at the threshold", h, v)
		}
		if pledgeClass(float64(v-200000000)/float64(supply)) != "just-below" || pledgeClass(float64(v+200000000)/float64(supply)) != "just-above" {
			t.Fatalf("height %d: neighbours misclassified", h)
		}
	}
}
