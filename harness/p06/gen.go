package p06

import (
	"math/big"

	"verif/internal/ev"
	"verif/internal/refvm"
	"verif/internal/refvm/vmdiff"
)

// The grammar is biased to aliasing hazards: an item is copied (DUP, OVER,
// PICK, TUCK, 2DUP ...) or comes from the caller (argument, state, PROGRAM,
// ASSET, ENTRYID, OUTPUTID, TXSIGHASH), is cut (LEFT, RIGHT, SUBSTR) and then
// extended (CAT, CATPUSHDATA) while the other copy is still around; items move
// through the alt stack and into CHECKPREDICATE children.
//
// Programs are grown one instruction at a time against the reference
// interpreter, so that sizes and positions fit the stack as it will be.

const (
	opPICK = 0x79
	opROLL = 0x7a
)

func num(n int) []byte { return refvm.EncodeNum(big.NewInt(int64(n))) }

func push(b []byte) []byte { return refvm.PushData(b) }

type gen struct {
	r *ev.Rand
}

func (g *gen) bytesItem() []byte {
	r := g.r
	switch r.Intn(8) {
	case 0:
		return []byte{}
	case 1:
		return r.Bytes(1)
	case 2:
		// 32 bytes: the widest number; with the top bit set it is out of range for the numeric instructions
		b := r.Bytes(32)
		if r.Bool() {
			b[31] |= 0x80
		}
		return b
	}
	return r.Bytes(r.Range(1, 24))
}

// child predicates: what a CHECKPREDICATE child does with the items it is handed
func (g *gen) predicate() []byte {
	r := g.r
	x := push(r.Bytes(r.Range(1, 6)))
	cat := byte(0x7e)
	if r.Chance(1, 4) {
		cat = 0x89
	}
	var p []byte
	switch r.Intn(9) {
	case 7: // a numeric instruction on the top item of a copy: the child may fail on it (out of range), the parent goes on
		p = append(p, 0x76, []byte{0x8b, 0x8c, 0x8f, 0x90, 0x91}[r.Intn(5)], 0x75)
	case 8: // arithmetic on the two top items
		p = append(p, 0x6e, []byte{0x93, 0x94, 0x9c, 0xa3, 0xa4}[r.Intn(5)], 0x75)
	case 0: // extend the top item
		p = append(append(p, x...), cat)
	case 1: // cut then extend
		p = append(append(append(p, 0x51, 0x80), x...), cat)
	case 2: // copy, cut, extend, drop
		p = append(append(append(p, 0x76, 0x51, 0x80), x...), cat, 0x75)
	case 3: // join the two top items
		p = append(p, cat)
	case 4: // through the alt stack
		p = append(append(append(p, 0x6b), x...), 0x6c, 0x7c, cat)
	case 5:
		p = []byte{0x51}
	default: // cut from the right, extend
		p = append(append(append(p, 0x51, 0x81), x...), cat)
	}
	if r.Chance(1, 3) {
		p = append(p, 0x51) // leave TRUE on top
	}
	return p
}

// next proposes one instruction (possibly with pushes of its small operands)
// given the current stacks of the reference.
func (g *gen) next(data, alt [][]byte) []byte {
	r := g.r
	d := len(data)
	topLen := 0
	if d > 0 {
		topLen = len(data[d-1])
	}
	// weights: source, copy, cut, join, move, alt, child, other
	w := []int{16, 18, 18, 22, 10, 6, 5, 5}
	if d == 0 {
		w = []int{1, 0, 0, 0, 0, 0, 0, 0}
	}
	switch r.Pick(w) {
	case 0: // a new item from the program or the context
		switch r.Intn(8) {
		case 0:
			return []byte{0xc4} // PROGRAM
		case 1:
			return []byte{0xc2} // ASSET
		case 2:
			return []byte{0xca} // ENTRYID
		case 3:
			return []byte{0xcb} // OUTPUTID
		case 4:
			return []byte{0xae} // TXSIGHASH
		}
		return push(g.bytesItem())
	case 1: // copies
		switch r.Intn(8) {
		case 0, 1:
			return []byte{0x76} // DUP
		case 2:
			return []byte{0x78} // OVER
		case 3:
			return append(push(num(r.Intn(d))), opPICK)
		case 4:
			return []byte{0x7d} // TUCK
		case 5:
			return []byte{0x6e} // 2DUP
		case 6:
			return []byte{[]byte{0x6f, 0x70}[r.Intn(2)]} // 3DUP / 2OVER
		}
		return []byte{0x73} // IFDUP
	case 2: // cuts of the top item
		n := 0
		if topLen > 0 {
			n = r.Intn(topLen + 1)
			if r.Chance(1, 2) && topLen > 1 {
				n = r.Range(1, topLen-1) // a proper prefix: spare capacity behind it
			}
		}
		switch r.Intn(5) {
		case 0, 1:
			return append(push(num(n)), 0x80) // LEFT
		case 2:
			return append(push(num(n)), 0x81) // RIGHT
		}
		off := 0
		if topLen-n > 0 {
			off = r.Intn(topLen - n + 1)
		}
		return append(append(push(num(off)), push(num(n))...), 0x7f) // SUBSTR
	case 3: // joins
		var p []byte
		if r.Chance(2, 3) || d < 2 {
			p = push(r.Bytes(r.Range(1, 12)))
		}
		if r.Chance(1, 4) {
			return append(p, 0x89) // CATPUSHDATA
		}
		return append(p, 0x7e) // CAT
	case 4: // moves
		switch r.Intn(7) {
		case 0, 1:
			return []byte{0x7c} // SWAP
		case 2:
			return []byte{0x7b} // ROT
		case 3:
			return append(push(num(r.Intn(d))), opROLL)
		case 4:
			return []byte{0x72} // 2SWAP
		case 5:
			return []byte{0x77} // NIP
		}
		return []byte{0x75} // DROP
	case 5: // alt stack
		if len(alt) > 0 && r.Bool() {
			return []byte{0x6c}
		}
		return []byte{0x6b}
	case 6: // a child works on the top n items (n > 0: 0 would mean all)
		n := r.Range(1, d)
		limit := []int{0, 2000, 5000}[r.Intn(3)]
		p := push(num(n))
		p = append(p, push(g.predicate())...)
		p = append(p, push(num(limit))...)
		p = append(p, 0xc0)
		if r.Chance(1, 2) {
			p = append(p, 0x75) // drop the child's verdict
		}
		return p
	}
	switch r.Intn(8) {
	case 6, 7:
		// numeric instructions read the top item(s) as numbers (and may refuse them as out of range):
		// reading is not writing
		return []byte{[]byte{0x8b, 0x8c, 0x8f, 0x90, 0x91, 0x92, 0x93, 0x94, 0x95, 0x9c, 0x9f, 0xa3, 0xa4, 0xa5}[r.Intn(14)]}
	case 0:
		return []byte{0x83} // INVERT
	case 1:
		return []byte{0x86} // XOR
	case 2:
		return []byte{0x82} // SIZE
	case 3:
		return []byte{0xa8} // SHA256
	case 4:
		return []byte{0x87} // EQUAL
	}
	return []byte{0x84} // AND
}

// program grows a program of up to n proposals; spec.Code is set on return.
func (g *gen) program(spec *vmdiff.Spec, n int, gas int64) {
	r := g.r
	var code []byte
	run := func(c []byte) *refvm.Result {
		spec.Code = c
		return refvm.Run(spec.Ref(), gas, 0)
	}
	cur := run(code)
	for i := 0; i < n; i++ {
		ins := g.next(cur.DataStack, cur.AltStack)
		cand := append(append([]byte{}, code...), ins...)
		res := run(cand)
		failed := res.Class != refvm.OK && res.Class != refvm.FalseResult
		if failed {
			if r.Chance(1, 12) { // keep a failing end now and then
				code = cand
				break
			}
			continue
		}
		code, cur = cand, res
	}
	if r.Chance(1, 2) && len(cur.DataStack) > 0 {
		code = append(code, 0x51) // end with TRUE so that the spend is valid
	}
	spec.Code = code
}
