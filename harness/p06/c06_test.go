// C06 — VM values behave as immutable byte strings.
//
// Every generated spend runs in four memory layouts: (A) every buffer fresh with
// cap == len, straight into vm.Verify; (B) program, state data, arguments and
// context byte strings carved out of ONE buffer, each slice keeping the rest
// of the buffer as spare capacity (what encoding/blockchain.ReadVarstr31 hands
// out), canary bytes in the gaps; (C1) the spend serialised into a transaction,
// decoded with Tx.UnmarshalText and validated with validation.ValidateTx;
// (C2) the same transaction built in memory and validated.
// Oracle: (1) same error class and gas in all layouts; (2) caller buffers and
// canaries unchanged, checked after every instruction; (3) at every step hook
// event both stacks equal the reference interpreter's.
package p06

import (
	"bytes"
	"encoding/hex"
	"fmt"
	"io"
	"os"
	"testing"

	"github.com/sirupsen/logrus"

	"github.com/bytom/bytom/consensus"
	"github.com/bytom/bytom/consensus/bcrp"
	"github.com/bytom/bytom/consensus/segwit"
	"github.com/bytom/bytom/errors"
	"github.com/bytom/bytom/protocol/bc"
	"github.com/bytom/bytom/protocol/bc/types"
	"github.com/bytom/bytom/protocol/validation"
	"github.com/bytom/bytom/protocol/vm"

	"verif/internal/ev"
	"verif/internal/refvm"
	"verif/internal/refvm/vmdiff"
)

func TestMain(m *testing.M) {
	logrus.SetLevel(logrus.PanicLevel)
	logrus.SetOutput(io.Discard)
	os.Exit(m.Run())
}

const (
	keepEvents = 600
	vmGas      = 100000 // gas the spend's program gets
	inAmount   = uint64(50000000000)
	height     = uint64(1234)
)

// splitKeys (debugging aid, never set by ./check): one key per manifestation.
var splitKeys = os.Getenv("VERIF_P06_SPLIT") != ""

// ---- memory layouts ----

type region struct {
	role   string
	i      int
	off, n int
}

// tracker watches caller-owned memory.
type tracker struct {
	bufs     [][]byte // full capacity views
	pristine [][]byte
	names    []string
	regions  [][]region // per buffer, for naming what was hit
}

func (t *tracker) watch(name string, full []byte, regs []region) {
	t.bufs = append(t.bufs, full)
	t.pristine = append(t.pristine, append([]byte{}, full...))
	t.names = append(t.names, name)
	t.regions = append(t.regions, regs)
}

// changed returns a description of the first changed byte, or "".
func (t *tracker) changed() string {
	for k, b := range t.bufs {
		if bytes.Equal(b, t.pristine[k]) {
			continue
		}
		for j := range b {
			if b[j] != t.pristine[k][j] {
				where := "canary/gap"
				for _, r := range t.regions[k] {
					if j >= r.off && j < r.off+r.n {
						where = fmt.Sprintf("%s[%d] byte %d", r.role, r.i, j-r.off)
					}
				}
				end := j + 24
				if end > len(b) {
					end = len(b)
				}
				return fmt.Sprintf("%s offset %d (%s): was %x now %x", t.names[k], j, where, t.pristine[k][j:end], b[j:end])
			}
		}
	}
	return ""
}

// freshAlloc: layout A.
func freshAlloc(t *tracker) vmdiff.Alloc {
	return func(role string, i int, b []byte) []byte {
		s := append(make([]byte, 0, len(b)), b...)
		t.watch(fmt.Sprintf("%s[%d]", role, i), s[:cap(s)], []region{{role, i, 0, len(b)}})
		return s
	}
}

// sharedAlloc: layout B.  All byte strings of the spec live in one buffer.
func sharedAlloc(s *vmdiff.Spec, r *ev.Rand, t *tracker) vmdiff.Alloc {
	type item struct {
		role string
		i    int
		b    []byte
	}
	items := []item{{"code", 0, s.Code}}
	for i, b := range s.State {
		items = append(items, item{"state", i, b})
	}
	for i, b := range s.Args {
		items = append(items, item{"arg", i, b})
	}
	items = append(items, item{"entryid", 0, s.EntryID})
	if s.HasAssetID {
		items = append(items, item{"assetid", 0, s.AssetID})
	}
	if s.HasSpentOutputID {
		items = append(items, item{"outputid", 0, s.SpentOutputID})
	}
	if s.SigHash != nil {
		items = append(items, item{"sighash", 0, s.SigHash})
	}
	if r.Chance(1, 2) {
		r.Shuffle(len(items), func(a, b int) { items[a], items[b] = items[b], items[a] })
	}
	var buf []byte
	var regs []region
	canary := func(n int) {
		for k := 0; k < n; k++ {
			buf = append(buf, 0xC5^byte(len(buf)))
		}
	}
	canary(r.Range(0, 4))
	for _, it := range items {
		regs = append(regs, region{it.role, it.i, len(buf), len(it.b)})
		buf = append(buf, it.b...)
		canary(r.Range(1, 6)) // like the length prefix of the next string
	}
	canary(r.Range(0, 40))
	buf = append(make([]byte, 0, len(buf)), buf...) // cap == len: the whole buffer is watched
	t.watch("shared buffer", buf, regs)
	return func(role string, i int, b []byte) []byte {
		for _, g := range regs {
			if g.role == role && g.i == i {
				return buf[g.off : g.off+g.n] // keeps the rest of the buffer as capacity
			}
		}
		panic("p06: unknown region " + role)
	}
}

// ---- the transaction of layout C ----

var sourceID = bc.NewHash([32]byte{0xc0, 0x6, 1, 2, 3, 4, 5, 6, 7, 8, 9})

func cpAll(s [][]byte) [][]byte {
	var out [][]byte
	for _, b := range s {
		out = append(out, append(make([]byte, 0, len(b)), b...))
	}
	return out
}

// buildTx returns the transaction built in memory (every buffer fresh) and its text encoding.
func buildTx(prog []byte, state, args [][]byte) (*types.Tx, []byte, error) {
	in := types.NewSpendInput(cpAll(args), sourceID, *consensus.BTMAssetID, inAmount, 0, append(make([]byte, 0, len(prog)), prog...), cpAll(state))
	out := types.NewOriginalTxOutput(*consensus.BTMAssetID, inAmount-uint64(vmGas*consensus.VMGasRate), []byte{0x51}, nil)
	td := types.TxData{Version: 1, Inputs: []*types.TxInput{in}, Outputs: []*types.TxOutput{out}}
	text, err := td.MarshalText()
	if err != nil {
		return nil, nil, err
	}
	td.SerializedSize = uint64(len(text) / 2)
	return types.NewTx(td), text, nil
}

func noContract(prog []byte) ([]byte, error) { return nil, errors.New("no contract store") }

// validate runs ValidateTx under the step hook.  gasKnown: the VM's gas left can be derived.
func validate(tx *types.Tx, run *vmdiff.RealRun, onStep func(*vm.VerifStep)) (gasKnown bool) {
	block := &bc.Block{BlockHeader: &bc.BlockHeader{Version: 1, Height: height}}
	var gs *validation.GasState
	vmdiff.Observe(run, keepEvents, onStep, func() { gs, run.Err = validation.ValidateTx(tx.Tx, block, noContract) })
	run.Class = vmdiff.Classify(run.Err)
	if run.Err == nil && gs != nil {
		run.GasLeft = gs.GasLeft + gs.StorageGas
		return true
	}
	return false
}

// ---- one layout run and its findings ----

type finding struct {
	key, what string
	manifest  string
	witness   map[string]interface{}
}

type layoutRun struct {
	name     string
	shared   bool
	run      *vmdiff.RealRun
	gasKnown bool
	findings []finding
}

func isCat(op byte) bool { return op == 0x7e || op == 0x89 }

func aliasKey(op byte) string { return vmdiff.AliasKey(op) }

const aliasWhat = vmdiff.AliasText

// analyse applies oracle (2) and (3) to one layout run.
func analyse(lr *layoutRun, s *vmdiff.Spec, ref *refvm.Result, bufAt int, bufOp byte, bufHasOp bool, bufDetail string) {
	base := func() map[string]interface{} {
		w := map[string]interface{}{"layout": lr.name, "program": hex.EncodeToString(s.Code), "args": vmdiff.Hex(s.Args), "state": vmdiff.Hex(s.State)}
		if dis, err := vm.Disassemble(s.Code); err == nil {
			w["disassembly"] = dis
		}
		return w
	}
	if bufAt >= 0 {
		w := base()
		w["changed"] = bufDetail
		w["noticed_at_event"] = bufAt
		f := finding{manifest: "caller-buffer", witness: w}
		switch {
		case bufHasOp && isCat(bufOp):
			f.key, f.what = aliasKey(bufOp), aliasWhat+" (a buffer owned by the caller changed while "+refvm.Name(bufOp)+" ran)"
		case bufHasOp:
			f.key, f.what = refvm.Name(bufOp)+":caller-buffer-overwritten", "a buffer owned by the caller changed while "+refvm.Name(bufOp)+" ran"
		default:
			f.key, f.what = "caller-buffer-overwritten:before-first-instruction", "a buffer owned by the caller changed before any instruction ran"
		}
		lr.findings = append(lr.findings, f)
	}
	if lr.run.TrueConstHit {
		key, what := lr.run.TrueConstKey()
		w := base()
		w["noticed_at_event"] = lr.run.TrueConstAt
		w["true_is_now"] = fmt.Sprintf("%02x", lr.run.TrueConstVal)
		lr.findings = append(lr.findings, finding{key: key, what: what, manifest: "true-constant", witness: w})
	}
	m := vmdiff.Compare(ref, lr.run)
	if m == nil {
		return
	}
	if !lr.gasKnown && m.Kind == "result-gas" {
		return
	}
	w := m.Witness(s, vmGas)
	w["layout"] = lr.name
	f := finding{witness: w, manifest: "stack"}
	if lr.run.TrueConstHit && m.At >= lr.run.TrueConstAt {
		return // every boolean after that point is wrong: consequence of what is already reported
	}
	switch {
	case m.HasOp && isCat(m.Culprit) && (m.AliasSignature() || (bufAt >= 0 && bufAt <= m.At)):
		f.key, f.what = aliasKey(m.Culprit), aliasWhat
		if m.Kind == "control" {
			f.manifest = "program-bytes"
		}
	case bufAt >= 0 && bufAt <= m.At:
		return // consequence of the overwrite already reported
	default:
		f.key, f.what = m.KeyWithHistory(ref.Events)
		if _, later := m.LaterAliasDamage(ref.Events); later {
			f.manifest = "stack-later"
		}
	}
	lr.findings = append(lr.findings, f)
}

func tagName(t byte) string {
	switch {
	case t == refvm.TagArg:
		return "ARG"
	case t == refvm.TagState:
		return "STATE"
	case t <= 0x4e || (t >= 0x51 && t <= 0x60):
		return "PUSH"
	}
	return refvm.Name(t)
}

var cutOps = map[string]bool{"LEFT": true, "RIGHT": true, "SUBSTR": true}
var callerOps = map[string]bool{"ARG": true, "STATE": true, "PROGRAM": true, "ASSET": true, "ENTRYID": true, "OUTPUTID": true, "TXSIGHASH": true}
var copyOps = map[string]bool{"DUP": true, "OVER": true, "PICK": true, "TUCK": true, "2DUP": true, "3DUP": true, "2OVER": true, "IFDUP": true}

func TestC06(t *testing.T) {
	r := ev.Start(t, "C06")
	defer r.Finish()
	r.Rule("one case = one spend: 0-4 arguments and 0-2 state items of 0-24 bytes, a program of up to 14 instructions grown against the reference interpreter from a grammar biased to aliasing hazards " +
		"(copy: DUP/OVER/PICK/TUCK/2DUP/3DUP/2OVER/IFDUP; caller items: arguments, state, PROGRAM, ASSET, ENTRYID, OUTPUTID, TXSIGHASH; cut: LEFT/RIGHT/SUBSTR; extend: CAT/CATPUSHDATA; moves, alt stack, CHECKPREDICATE children that cut and extend), " +
		"executed in four layouts: fresh buffers, one shared buffer with spare capacity and canaries, decoded transaction through ValidateTx, in-memory transaction through ValidateTx. " +
		"distinct = (opcode or source that produced an item, opcode that consumed it, shared/unshared layout)")
	r.Assume("the reference interpreter refvm (fresh copy for every value) defines the expected stacks, class and gas; bc/types.MapTx, Tx.SigHash and the serialiser are trusted to derive the context values (entry id, output id, signature hash) used by all layouts")

	r.Cases("idioms", len(idioms), func(c *ev.Case) { idiomCase(c) })
	r.Cases("spend", r.N(20000, 1000000), func(c *ev.Case) { spendCase(c) })

	r.Floor("idioms", int64(len(idioms)))
	r.Floor("programs", 1000)
	r.Floor("runs:fresh", 1000)
	r.Floor("runs:shared-buffer", 1000)
	r.Floor("runs:decoded-tx", 1000)
	r.Floor("runs:memory-tx", 1000)
	r.Floor("steps_compared", 50000)
	r.Floor("extend_of_cut_item", 300)
	r.Floor("extend_of_caller_item", 300)
	r.Floor("extend_of_copied_item", 300)
	r.Floor("child_frames", 300)
	r.Floor("outcome:ok", 300)
	r.Floor("outcome:false-result", 100)
	r.Floor("buffer_checks", 50000)
}

// idioms: the shortest programs for each way a value can be changed behind the VM's back; they run in every
// shard-independent case list so that a defect of this kind is reported under the same keys at every seed.
var idioms = []struct{ name, asm string }{
	{"copy, cut, extend (CAT)", "0xa1a2a3a4 DUP 1 LEFT 0xffff CAT"},
	{"copy, cut, extend (CATPUSHDATA)", "0xa1a2a3a4 DUP 1 LEFT 0xffff CATPUSHDATA"},
	{"argument cut and extended", "2 LEFT 0xeeee CAT"},
	{"boolean result cut to nothing, extended by one byte (CAT)", "1 1 EQUAL 0 LEFT 0x07 CAT 1 1 EQUAL"},
	{"boolean result cut to nothing, extended by an empty push (CATPUSHDATA)", "1 1 EQUAL 0 LEFT 0 CATPUSHDATA DROP 1 1 EQUAL"},
}

func newSpec(rng *ev.Rand) *vmdiff.Spec {
	one := uint64(1)
	h := height
	amount := inAmount
	zero := uint64(0)
	return &vmdiff.Spec{VMVersion: 1, TxVersion: &one, BlockHeight: &h, Amount: &amount, DestPos: &zero,
		HasAssetID: true, AssetID: consensus.BTMAssetID.Bytes(), HasSpentOutputID: true,
		// placeholders of the right length while the program is grown
		EntryID: rng.Bytes(32), SpentOutputID: rng.Bytes(32), SigHash: rng.Bytes(32)}
}

func idiomCase(c *ev.Case) {
	it := idioms[c.Index%len(idioms)]
	code, err := vm.Assemble(it.asm)
	if err != nil {
		c.Inconclusive("idiom %q does not assemble: %v", it.name, err)
		return
	}
	spec := newSpec(c.Rand)
	spec.Args = [][]byte{{0xb1, 0xb2, 0xb3, 0xb4, 0xb5}}
	spec.Code = code
	c.Count("idioms", 1)
	runSpend(c, spec)
}

func spendCase(c *ev.Case) {
	rng := c.Rand
	g := &gen{r: rng}
	spec := newSpec(rng)
	for i := rng.Intn(5); i > 0; i-- {
		spec.Args = append(spec.Args, g.bytesItem())
	}
	for i := rng.Intn(3); i > 0; i-- {
		spec.State = append(spec.State, g.bytesItem())
	}
	g.program(spec, rng.Range(3, 14), vmGas)
	runSpend(c, spec)
}

// runSpend executes one spend in the four layouts and applies the three oracles.
func runSpend(c *ev.Case, spec *vmdiff.Spec) {
	rng := c.Rand
	if len(spec.Code) == 0 || segwit.IsP2WScript(spec.Code) || bcrp.IsBCRPScript(spec.Code) || bcrp.IsCallContractScript(spec.Code) || spec.Code[0] == byte(vm.OP_FAIL) {
		c.Count("skipped_special_program", 1)
		return
	}
	mem, text, err := buildTx(spec.Code, spec.State, spec.Args)
	if err != nil {
		c.Count("skipped_unserialisable", 1)
		return
	}
	spend, ok := mem.Entries[mem.InputIDs[0]].(*bc.Spend)
	if !ok {
		c.Count("skipped_unserialisable", 1)
		return
	}
	sigHash := mem.SigHash(0)
	spec.EntryID, spec.SpentOutputID, spec.SigHash = mem.InputIDs[0].Bytes(), spend.SpentOutputId.Bytes(), sigHash.Bytes()
	spec.DestPos = &spend.WitnessDestination.Position

	ref := refvm.Run(spec.Ref(), vmGas, keepEvents)
	c.Count("programs", 1)
	c.Count("outcome:"+string(ref.Class), 1)
	c.Max("max_program_bytes", int64(len(spec.Code)))
	if c.WantSample() && c.Index%53 == 0 {
		dis, _ := vm.Disassemble(spec.Code)
		c.Sample(map[string]interface{}{"program": dis, "args": vmdiff.Hex(spec.Args), "state": vmdiff.Hex(spec.State), "class": ref.Class, "gas_left": ref.GasLeft, "steps": ref.Steps})
	}

	var layouts []*layoutRun
	direct := func(name string, shared bool) {
		tr := &tracker{}
		var alloc vmdiff.Alloc
		if shared {
			alloc = sharedAlloc(spec, rng, tr)
		} else {
			alloc = freshAlloc(tr)
		}
		lr := &layoutRun{name: name, shared: shared, run: &vmdiff.RealRun{}, gasKnown: true}
		ctx := spec.Real(alloc, lr.run)
		bufAt, bufOp, bufHas, bufDetail := watchRun(c, lr, tr, func(on func(*vm.VerifStep)) { vmdiff.Run(lr.run, ctx, vmGas, keepEvents, on) })
		analyse(lr, spec, ref, bufAt, bufOp, bufHas, bufDetail)
		layouts = append(layouts, lr)
	}
	direct("fresh", false)
	direct("shared-buffer", true)

	// C1: decoded transaction.  Everything the decoder hands out aliases one buffer.
	dec := &types.Tx{}
	if err := dec.UnmarshalText(text); err != nil {
		c.Violation("decode-own-serialisation", "a transaction serialised by MarshalText is rejected by UnmarshalText", map[string]interface{}{"tx": string(text), "error": err.Error()})
		return
	}
	{
		tr := &tracker{}
		si := dec.Inputs[0].TypedInput.(*types.SpendInput)
		var widest []byte
		for _, b := range append(append([][]byte{si.ControlProgram}, si.StateData...), si.Arguments...) {
			if cap(b) > cap(widest) {
				widest = b
			}
		}
		if widest != nil {
			tr.watch("decoded transaction buffer (from the first program/state/argument byte to its end)", widest[:cap(widest)], nil)
		}
		lr := &layoutRun{name: "decoded-tx", shared: true, run: &vmdiff.RealRun{}}
		bufAt, bufOp, bufHas, bufDetail := watchRun(c, lr, tr, func(on func(*vm.VerifStep)) { lr.gasKnown = validate(dec, lr.run, on) })
		analyse(lr, spec, ref, bufAt, bufOp, bufHas, bufDetail)
		layouts = append(layouts, lr)
	}
	// C2: the same transaction built in memory
	{
		tr := &tracker{}
		si := mem.Inputs[0].TypedInput.(*types.SpendInput)
		tr.watch("program", si.ControlProgram[:cap(si.ControlProgram)], nil)
		for i, b := range si.StateData {
			tr.watch(fmt.Sprintf("state[%d]", i), b[:cap(b)], nil)
		}
		for i, b := range si.Arguments {
			tr.watch(fmt.Sprintf("arg[%d]", i), b[:cap(b)], nil)
		}
		lr := &layoutRun{name: "memory-tx", run: &vmdiff.RealRun{}}
		bufAt, bufOp, bufHas, bufDetail := watchRun(c, lr, tr, func(on func(*vm.VerifStep)) { lr.gasKnown = validate(mem, lr.run, on) })
		analyse(lr, spec, ref, bufAt, bufOp, bufHas, bufDetail)
		layouts = append(layouts, lr)
	}

	for _, lr := range layouts {
		if lr.run.Cut || ref.Cut {
			c.Count("cut_after_max_steps", 1)
			return
		}
	}
	// report
	any := false
	var firstKey string
	for _, lr := range layouts {
		c.Count("runs:"+lr.name, 1)
		c.Eval(1)
		for _, f := range lr.findings {
			any = true
			key := f.key
			if firstKey == "" {
				firstKey = key
			}
			if splitKeys {
				key += ":" + f.manifest + ":" + lr.name
			}
			c.Violation(key, f.what, f.witness)
			c.Count("findings:"+f.manifest+":"+lr.name, 1)
		}
	}
	// oracle (1): class and gas do not depend on the layout
	a := layouts[0]
	for _, lr := range layouts[1:] {
		same := lr.run.Class == a.run.Class && (!lr.gasKnown || !a.gasKnown || lr.run.GasLeft == a.run.GasLeft)
		if same {
			continue
		}
		c.Count("layout_dependent_results", 1)
		w := map[string]interface{}{"program": hex.EncodeToString(spec.Code), "args": vmdiff.Hex(spec.Args), "state": vmdiff.Hex(spec.State),
			a.name: fmt.Sprintf("class=%s gas=%d", a.run.Class, a.run.GasLeft), lr.name: fmt.Sprintf("class=%s gas=%d (gas known: %v)", lr.run.Class, lr.run.GasLeft, lr.gasKnown),
			"reference": fmt.Sprintf("class=%s gas=%d", ref.Class, ref.GasLeft)}
		if dis, err := vm.Disassemble(spec.Code); err == nil {
			w["disassembly"] = dis
		}
		switch {
		case !any:
			c.Violation("result-depends-on-layout", "error class or gas differ between memory layouts of the same spend although every step matched the reference", w)
		case splitKeys:
			c.Violation(firstKey+":result-depends-on-layout:"+lr.name, "error class or gas differ between memory layouts of the same spend", w)
		}
		if c.WantSample() {
			c.Sample(map[string]interface{}{"layout_dependent_result": w})
		}
	}
	if any {
		c.Count("programs_with_findings", 1)
	}
	// evidence: who produced what an instruction consumed (a property of the program, the same in every layout)
	for _, e := range ref.Events {
		if !e.PrevExecuted {
			continue
		}
		record(c, e.PrevOp, e.PrevConsumed)
	}
	c.Count("steps_compared", int64(4*len(ref.Events)))
	for _, x := range ref.Executed {
		if x.Depth > 0 {
			c.Count("child_frames", 1)
			break
		}
	}
}

func record(c *ev.Case, op byte, consumed []byte) {
	name := refvm.Name(op)
	for _, tg := range consumed {
		c.Distinct("%s->%s shared", tagName(tg), name)
		c.Distinct("%s->%s unshared", tagName(tg), name)
	}
	if isCat(op) && len(consumed) == 2 {
		first := tagName(consumed[1]) // the operand that is extended
		switch {
		case cutOps[first]:
			c.Count("extend_of_cut_item", 1)
		case callerOps[first]:
			c.Count("extend_of_caller_item", 1)
		case copyOps[first]:
			c.Count("extend_of_copied_item", 1)
		default:
			c.Count("extend_of_other_item", 1)
		}
	}
}

// watchRun runs fn with a step callback that checks the caller's memory after
// every instruction; it reports where a change was first noticed.
func watchRun(c *ev.Case, lr *layoutRun, tr *tracker, fn func(on func(*vm.VerifStep))) (at int, op byte, hasOp bool, detail string) {
	at = -1
	var prev *vm.VerifStep
	n := 0
	check := func() {
		c.Count("buffer_checks", 1)
		if at >= 0 {
			return
		}
		if d := tr.changed(); d != "" {
			at, detail = n, d
			if prev != nil && !prev.End {
				op, hasOp = byte(prev.Op), true
			}
		}
	}
	fn(func(s *vm.VerifStep) {
		check()
		if !s.End {
			prev = s
		}
		n++
	})
	check()
	return
}
