// C24 — the wallet's unspent outputs depend only on the main chain.
//
// A real wallet (account manager + walletUpdater) follows a real node through
// block trees whose branches contain wallet-owned normal / coinbase / vote
// outputs, signed spends and vetoes.  At every quiescent point of the updater
// the raw UTXO records of the wallet store and every GetAccountUtxos view must
// equal an independent block-by-block scan of the current main chain from
// genesis: identity, source, asset, amount, program, owning account, vote key.
package p24

import (
	"bytes"
	"encoding/hex"
	"fmt"
	"sort"
	"testing"

	"github.com/bytom/bytom/account"
	"github.com/bytom/bytom/protocol/bc"

	"verif/internal/ev"
	"verif/internal/walletkit"
)

type oracle struct{}

func recView(u *account.UTXO) map[string]interface{} {
	return map[string]interface{}{"output": u.OutputID.String(), "asset": u.AssetID.String(), "amount": u.Amount, "program": hex.EncodeToString(u.ControlProgram),
		"account_id": u.AccountID, "vote": hex.EncodeToString(u.Vote), "valid_height": u.ValidHeight, "source": u.SourceID.String(), "source_pos": u.SourcePos}
}

// At compares the wallet with the scan of the main chain.
func (oracle) At(p *walletkit.Point) {
	c := p.C
	s := p.S
	trans := p.Transition()
	if p.Undecodable > 0 {
		c.Violation("wallet-utxo:undecodable-record", "a UTXO record of the wallet store cannot be decoded", trans)
	}
	got := map[bc.Hash]*account.UTXO{}
	for _, u := range p.Std {
		got[u.OutputID] = u
	}
	for _, u := range p.Con {
		// the wallet only tracks P2W programs: a record under the contract prefix is never expected here
		c.Violation("wallet-utxo:extra:contract-prefix-record", "a record appeared under the smart-contract UTXO prefix although the wallet owns only P2WPKH programs",
			map[string]interface{}{"record": recView(u), "transition": trans})
	}
	ok := true
	// extra records
	for _, u := range p.Std {
		if _, want := p.Expected[u.OutputID]; want {
			continue
		}
		ok = false
		oi := s.Ix.Out[u.OutputID]
		key := "wallet-utxo:extra:unknown-output"
		if oi != nil {
			switch {
			case !oi.Created.IsAncestorOf(p.Best):
				key = fmt.Sprintf("wallet-utxo:extra:%s-output-of-detached-block", oi.Type)
			default:
				key = fmt.Sprintf("wallet-utxo:extra:%s-output-spent-on-main-chain", oi.Type)
			}
		}
		c.Violation(key, "the wallet holds an unspent output that a scan of the current main chain from genesis does not yield",
			map[string]interface{}{"record": recView(u), "output_history": s.Ix.Describe(u.OutputID, p.Best), "transition": trans})
	}
	// missing records and field mismatches
	ids := make([]bc.Hash, 0, len(p.Expected))
	for id := range p.Expected {
		ids = append(ids, id)
	}
	sort.Slice(ids, func(i, j int) bool { return bytes.Compare(ids[i].Bytes(), ids[j].Bytes()) < 0 })
	for _, id := range ids {
		e := p.Expected[id]
		u := got[id]
		c.Count("expected_outputs_compared:"+e.Type.String(), 1)
		if s.Restored[id] {
			c.Count("expected_outputs_compared:restored-by-detach:"+e.Type.String(), 1)
		}
		if u == nil {
			ok = false
			why := "created-on-main-chain"
			if s.Restored[id] {
				why = "spend-rolled-back"
			}
			c.Violation(fmt.Sprintf("wallet-utxo:missing:%s:%s", e.Type, why), "the wallet misses an output that is unspent on the current main chain and pays one of its programs",
				map[string]interface{}{"output_history": s.Ix.Describe(id, p.Best), "account": e.Prog.Alias, "transition": trans})
			continue
		}
		bad := ""
		switch {
		case u.AssetID != e.U.Asset:
			bad = "asset"
		case u.Amount != e.U.Amount:
			bad = "amount"
		case !bytes.Equal(u.ControlProgram, e.U.Program):
			bad = "program"
		case u.AccountID != e.Prog.AccountID:
			bad = "account"
		case !bytes.Equal(u.Vote, e.U.Vote):
			bad = "vote-key"
		case u.SourceID != e.U.SourceID || u.SourcePos != e.U.Pos:
			bad = "source"
		}
		if bad != "" {
			ok = false
			origin := "attached"
			if s.Restored[id] {
				origin = "restored-by-detach"
			}
			c.Violation(fmt.Sprintf("wallet-utxo:field:%s:%s:%s", bad, e.Type, origin), "a wallet UTXO record differs from the output on the main chain",
				map[string]interface{}{"record": recView(u), "expected": map[string]interface{}{"asset": e.U.Asset.String(), "amount": e.U.Amount, "program": hex.EncodeToString(e.U.Program),
					"account_id": e.Prog.AccountID, "vote": hex.EncodeToString(e.U.Vote), "source": e.U.SourceID.String(), "source_pos": e.U.Pos}, "transition": trans})
		}
	}
	if ok {
		c.Count("points_wallet_equals_scan", 1)
	}
	// GetAccountUtxos views must be exactly the matching subsets of the records
	// (after every walk with detached blocks, at the end, and at every third other point)
	if len(p.Detached) > 0 || p.Final || p.Step%3 == 0 {
		views(p)
	}
}

func idsOf(us []*account.UTXO) []string {
	var s []string
	for _, u := range us {
		s = append(s, u.OutputID.String())
	}
	sort.Strings(s)
	return s
}

func same(a, b []string) bool {
	if len(a) != len(b) {
		return false
	}
	for i := range a {
		if a[i] != b[i] {
			return false
		}
	}
	return true
}

func views(p *walletkit.Point) {
	c := p.C
	w := p.W
	filter := func(f func(u *account.UTXO) bool) []string {
		var s []string
		for _, u := range p.Std {
			if f(u) {
				s = append(s, u.OutputID.String())
			}
		}
		sort.Strings(s)
		return s
	}
	check := func(name string, have []*account.UTXO, want []string) {
		c.Count("api_views_checked", 1)
		if h := idsOf(have); !same(h, want) {
			c.Violation("GetAccountUtxos:"+name+":differs-from-records", "a GetAccountUtxos view is not the matching subset of the stored records",
				map[string]interface{}{"returned": h, "records_matching": want, "transition": p.Transition()})
		}
	}
	check("all", w.W.GetAccountUtxos("", "", false, false, false), filter(func(*account.UTXO) bool { return true }))
	check("vote-only", w.W.GetAccountUtxos("", "", false, false, true), filter(func(u *account.UTXO) bool { return u.Vote != nil }))
	check("smart-contract", w.W.GetAccountUtxos("", "", false, true, false), idsOf(p.Con))
	for _, a := range w.Accounts {
		id := a.ID
		check("by-account", w.W.GetAccountUtxos(id, "", false, false, false), filter(func(u *account.UTXO) bool { return u.AccountID == id }))
		check("by-account-vote-only", w.W.GetAccountUtxos(id, "", false, false, true), filter(func(u *account.UTXO) bool { return u.AccountID == id && u.Vote != nil }))
	}
	if len(p.Std) > 0 {
		u := p.Std[p.Step%len(p.Std)]
		check("by-output-id", w.W.GetAccountUtxos("", u.OutputID.String(), false, false, false), []string{u.OutputID.String()})
	}
	// with unconfirmed=true the confirmed records must still all be there
	have := map[string]bool{}
	for _, u := range w.W.GetAccountUtxos("", "", true, false, false) {
		have[u.OutputID.String()] = true
	}
	for _, u := range p.Std {
		if !have[u.OutputID.String()] {
			c.Violation("GetAccountUtxos:with-unconfirmed:misses-confirmed-record", "GetAccountUtxos(unconfirmed=true) misses a confirmed record", map[string]interface{}{"output": u.OutputID.String(), "transition": p.Transition()})
			break
		}
	}
}

func TestC24(t *testing.T) {
	r := ev.Start(t, "C24")
	defer r.Finish()
	env := walletkit.Setup()
	base := t.TempDir()
	r.Rule("a real wallet follows a real node; history class 'tree': random block trees (26-44 blocks, forks mostly near the top) with receipts of normal / vote / other-asset outputs and coinbase rewards to wallet programs, signed spends, vetoes at the lock boundary, matured-reward spends and chained spends, delivered in creation / random / branch-by-branch / locally-swapped order; history class 'mini-fork': a 4-block common chain, one block with a chosen wallet content (vote receipt / spend / veto / chained spend) overtaken by a 2-block branch and brought back; history class 'rollback-restart': the federation justifies a shorter branch below a spend of a wallet vote output / coinbase reward and the wallet is restarted on its persisted store so that its updater walks the rollback. At every quiescent point of the updater the wallet's records and GetAccountUtxos views are compared with a block-by-block scan of the main chain. distinct = (history class, tree shape, delivery order)")
	r.Assume("output ids / spent output ids are those computed by the transaction mapping (C03); the harness's scan of its own tree path genesis..best defines 'scanning the current main chain from genesis'; points where the chain moved to a block that is not higher than the wallet's work height are not judged (the updater has not been woken yet: counted as points_wallet_not_woken)")
	obs := oracle{}
	r.Cases("mini-fork", r.N(8, 80), func(c *ev.Case) {
		walletkit.RunMini(c, env, fmt.Sprintf("%s/m%d", base, c.Index), obs)
	})
	r.Cases("tree", r.N(24, 1000), func(c *ev.Case) {
		walletkit.RunTree(c, env, fmt.Sprintf("%s/t%d", base, c.Index), obs)
	})
	r.Cases("rollback-restart", r.N(16, 250), func(c *ev.Case) {
		walletkit.RunRollback(c, env, fmt.Sprintf("%s/r%d", base, c.Index), obs)
	})
	// a wallet restored from its keys: an address recovery is in progress while the blocks arrive, and the wallet is
	// restarted on its own store in between (walletkit/recovery.go)
	r.Cases("recovery", r.N(24, 600), func(c *ev.Case) {
		walletkit.RunRecovery(c, env, fmt.Sprintf("%s/v%d", base, c.Index), func(p *walletkit.RecPoint) bool {
			have := map[bc.Hash]*account.UTXO{}
			for _, u := range p.Std {
				have[u.OutputID] = u
			}
			c.Eval(1)
			for id, e := range p.Expected {
				branch := "receive"
				if e.Change {
					branch = "change"
				}
				c.Count("recovery_expected_outputs_compared:"+branch, 1)
				u := have[id]
				after := "no-restart"
				if p.Restarts > 0 {
					after = "after-restart"
				}
				if u == nil {
					c.Violation("recovery:wallet-utxo:missing:"+branch+"-address:"+after,
						"a wallet restored from its keys lacks an unspent output of the main chain that pays an address the account owns (a scan of the main chain from genesis yields it)",
						map[string]interface{}{"output": id.String(), "amount": e.U.Amount, "paid_in_block_height": e.Height, "address": fmt.Sprintf("acct%d/%s#%d", e.Account, branch, e.Index),
							"main_chain_tip": walletkit.BlkName(p.Best), "wallet_restarts_so_far": p.Restarts, "history": p.Trail})
					return false
				}
				if u.Amount != e.U.Amount || u.AssetID != e.U.Asset || !bytes.Equal(u.ControlProgram, e.U.Program) {
					c.Violation("recovery:wallet-utxo:field-differs", "a record of the restored wallet differs from the output on the main chain",
						map[string]interface{}{"output": id.String(), "history": p.Trail})
					return false
				}
			}
			for id := range have {
				if p.Expected[id] == nil {
					c.Violation("recovery:wallet-utxo:extra", "the restored wallet holds an unspent output that the scan of the main chain does not yield",
						map[string]interface{}{"output": id.String(), "history": p.Trail})
					return false
				}
			}
			return true
		})
	})
	r.Floor("recovery_histories", 18)
	r.Floor("recovery_histories_with_restart", 10)
	r.Floor("recovery_expected_outputs_compared:receive", 200)
	r.Floor("recovery_expected_outputs_compared:change", 200)
	r.Floor("quiescent_points", 300)
	r.Floor("reorganisation_walks", 30)
	r.Floor("reorganisation_walks_by_restarted_wallet", 8)
	r.Floor("detached_blocks_with_wallet_vote_outputs", 15)
	r.Floor("detached_blocks_with_wallet_receipts", 15)
	r.Floor("detached_blocks_with_wallet_spends", 10)
	r.Floor("detached_blocks_with_wallet_vetoes", 8)
	r.Floor("detached_blocks_with_wallet_coinbase_rewards", 3)
	r.Floor("expected_outputs_compared:vote", 100)
	r.Floor("expected_outputs_compared:coinbase", 50)
	r.Floor("expected_outputs_compared:restored-by-detach:normal", 5)
	r.Floor("expected_outputs_compared:restored-by-detach:vote", 4)
	r.Floor("expected_outputs_compared:restored-by-detach:coinbase", 2)
	r.Floor("api_views_checked", 500)
}
