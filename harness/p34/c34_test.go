// C34 — the DHT routing table keeps its invariants.
//
// Drives the real (*Table).add / stuff / delete / deleteReplace and
// (*bucket).bump through the verif export on small node populations that
// collide in few buckets, and after EVERY operation checks the invariants of
// the property on a copy of the table state:
//
//	each bucket holds at most 16 entries, all distinct, each at the bucket's
//	log-distance from the local node (recomputed here with sha3 + math/big);
//	the local node is never in the table; count == number of bucket entries.
package p34

import (
	"crypto/ed25519"
	"encoding/hex"
	"fmt"
	"io"
	"math/big"
	"net"
	"runtime/debug"
	"sort"
	"testing"

	"golang.org/x/crypto/sha3"

	"github.com/bytom/bytom/p2p/discover/dht"

	"verif/internal/ev"
)

const (
	kAdd = iota
	kStuff
	kDelete
	kDeleteReplace
	kBump
	nKinds
)

var kindName = [nKinds]string{"add", "stuff", "delete", "deleteReplace", "bump"}

// selfIdx in an op's node list denotes the local node's own id.
const selfIdx = -1

type op struct {
	Kind  int
	Nodes []int // indices into the population (selfIdx = local node); one element except for stuff
	Fresh bool  // use a freshly allocated *Node (same id, other pointer)
}

type world struct {
	self dht.NodeID
	pop  []dht.NodeID
	dist map[dht.NodeID]int // reference bucket index of every population id
}

// refLogDist is the reference bucket index: bit length of sha3-256(a) XOR
// sha3-256(b) as a big-endian integer (0 for equal hashes, 256 when the first
// bit differs) — "log2(a ^ b)" of the table's documentation.
func refLogDist(a, b dht.NodeID) int { return hashLogDist(sha(a), sha(b)) }

func hashLogDist(ha, hb [32]byte) int {
	var x [32]byte
	for i := range x {
		x[i] = ha[i] ^ hb[i]
	}
	return new(big.Int).SetBytes(x[:]).BitLen()
}

// sha is sha3-256 on one reusable sponge (reading the sponge output directly
// avoids the two state allocations of sha3.Sum256; the monitor is single-threaded).
var sponge = sha3.New256()

func sha(id dht.NodeID) (out [32]byte) {
	sponge.Reset()
	sponge.Write(id[:])
	sponge.(io.Reader).Read(out[:])
	return out
}

func short(id dht.NodeID) string { return hex.EncodeToString(id[:4]) }

// buildWorld draws a local id and a population whose members fall into the
// requested buckets (brute force over seeded random ids).
func buildWorld(rng *ev.Rand, want map[int]int) *world {
	w := &world{dist: map[dht.NodeID]int{}}
	copy(w.self[:], rng.Bytes(32))
	selfSha := sha(w.self)
	need := 0
	for _, n := range want {
		need += n
	}
	for tries := 0; need > 0 && tries < 200000; tries++ {
		var id dht.NodeID
		copy(id[:], rng.Bytes(32))
		d := hashLogDist(selfSha, sha(id))
		if want[d] > 0 {
			if _, dup := w.dist[id]; dup || id == w.self {
				continue
			}
			want[d]--
			need--
			w.pop = append(w.pop, id)
			w.dist[id] = d
		}
	}
	// mix the population so that indices do not reveal the bucket
	rng.Shuffle(len(w.pop), func(i, j int) { w.pop[i], w.pop[j] = w.pop[j], w.pop[i] })
	return w
}

func (w *world) id(i int) dht.NodeID {
	if i == selfIdx {
		return w.self
	}
	return w.pop[i]
}

type finding struct {
	key, what string
	at        int // index of the op after which the state violated the invariants
	detail    map[string]interface{}
}

// observer receives pre/post snapshots of the main run (not used while shrinking).
type observer func(i int, o op, pre, post *dht.VerifSnapshot, pv, qv map[int]*bucketView, contested bool, bumped bool)

// execute runs ops on a fresh real table and checks the invariants after every
// op.  It stops at the first violating state.
func execute(w *world, ops []op, obs observer) *finding {
	tab := dht.VerifNewTable(w.self, &net.UDPAddr{IP: net.IP{10, 0, 0, 1}, Port: 30303})
	nodes := make([]*dht.Node, len(w.pop))
	mk := func(i int) *dht.Node {
		id := w.id(i)
		return dht.NewNode(id, net.IP{10, 1, byte(i >> 8), byte(i)}, 30303, 30303)
	}
	get := func(i int, fresh bool) *dht.Node {
		if i == selfIdx || fresh {
			return mk(i)
		}
		if nodes[i] == nil {
			nodes[i] = mk(i)
		}
		return nodes[i]
	}
	// provenance of "id is in entries and in replacements of its bucket": which op kind created it
	overlapSince := map[dht.NodeID]string{}
	pre := tab.Snapshot()
	if f := checkState(w, &pre, "newTable", overlapSince); f != nil {
		f.at = -1
		return f
	}
	var pv map[int]*bucketView
	if obs != nil {
		pv = view(&pre)
	}
	for i, o := range ops {
		var contested, bumped bool
		switch o.Kind {
		case kAdd:
			contested = tab.Add(get(o.Nodes[0], o.Fresh)) != nil
		case kStuff:
			l := make([]*dht.Node, len(o.Nodes))
			for k, ix := range o.Nodes {
				l[k] = get(ix, o.Fresh)
			}
			tab.Stuff(l)
		case kDelete:
			tab.Delete(get(o.Nodes[0], o.Fresh))
		case kDeleteReplace:
			tab.DeleteReplace(get(o.Nodes[0], o.Fresh))
		case kBump:
			bumped = tab.Bump(get(o.Nodes[0], o.Fresh))
		}
		post := tab.Snapshot()
		if obs != nil {
			qv := view(&post)
			obs(i, o, &pre, &post, pv, qv, contested, bumped)
			pv = qv
		}
		if f := checkState(w, &post, kindName[o.Kind], overlapSince); f != nil {
			f.at = i
			return f
		}
		pre = post
	}
	return nil
}

// checkState is the oracle.  opName is the operation that produced the state.
func checkState(w *world, s *dht.VerifSnapshot, opName string, overlapSince map[dht.NodeID]string) *finding {
	total := 0
	var zero dht.NodeID
	state := func() interface{} { return describe(s) }
	for _, b := range s.Buckets {
		total += len(b.Entries)
		if len(b.Entries) > 16 {
			return &finding{key: "bucket-overfull:" + opName, what: "a bucket holds more than 16 entries",
				detail: map[string]interface{}{"bucket": b.Index, "entries": len(b.Entries), "state": state()}}
		}
		for ei, id := range b.Entries {
			if id == s.Self || id == w.self {
				return &finding{key: "self-present:entries:" + opName, what: "the local node is an entry of its own table",
					detail: map[string]interface{}{"bucket": b.Index, "state": state()}}
			}
			if id == zero {
				return &finding{key: "nil-entry:" + opName, what: "a bucket entry is nil",
					detail: map[string]interface{}{"bucket": b.Index, "state": state()}}
			}
			if has(b.Entries[:ei], id) {
				since, ok := overlapSince[id]
				if !ok {
					since = "never"
				}
				return &finding{key: fmt.Sprintf("duplicate-entry:%s:node-in-entries-and-replacements-since:%s", opName, since),
					what:   "a bucket holds the same node twice",
					detail: map[string]interface{}{"bucket": b.Index, "node": short(id), "state": state()}}
			}
			d, known := w.dist[id]
			if !known {
				d = refLogDist(w.self, id)
			}
			if d != b.Index {
				return &finding{key: "wrong-bucket:" + opName, what: "an entry is not at its bucket's log-distance from the local node",
					detail: map[string]interface{}{"bucket": b.Index, "node": short(id), "reference_distance": d, "state": state()}}
			}
		}
		for _, id := range b.Replacements {
			if id == s.Self || id == w.self {
				return &finding{key: "self-present:replacements:" + opName, what: "the local node is in a replacement list of its own table",
					detail: map[string]interface{}{"bucket": b.Index, "state": state()}}
			}
			if has(b.Entries, id) {
				if _, ok := overlapSince[id]; !ok {
					overlapSince[id] = opName
				}
			}
		}
	}
	// forget overlaps that no longer exist
	for id := range overlapSince {
		still := false
		for _, b := range s.Buckets {
			inE, inR := false, false
			for _, e := range b.Entries {
				inE = inE || e == id
			}
			for _, e := range b.Replacements {
				inR = inR || e == id
			}
			still = still || (inE && inR)
		}
		if !still {
			delete(overlapSince, id)
		}
	}
	if s.Count != total {
		return &finding{key: "count-mismatch:" + opName, what: "count differs from the number of bucket entries",
			detail: map[string]interface{}{"count": s.Count, "entries": total, "state": state()}}
	}
	if s.Self != w.self {
		return &finding{key: "self-id-changed:" + opName, what: "the table's local node id changed",
			detail: map[string]interface{}{"state": state()}}
	}
	return nil
}

func describe(s *dht.VerifSnapshot) interface{} {
	out := []map[string]interface{}{}
	for _, b := range s.Buckets {
		e, r := []string{}, []string{}
		for _, id := range b.Entries {
			e = append(e, short(id))
		}
		for _, id := range b.Replacements {
			r = append(r, short(id))
		}
		out = append(out, map[string]interface{}{"bucket": b.Index, "entries": e, "replacements": r})
	}
	return map[string]interface{}{"count": s.Count, "buckets": out}
}

func (w *world) describeOps(ops []op) []string {
	out := make([]string, len(ops))
	for i, o := range ops {
		s := kindName[o.Kind] + "("
		for k, ix := range o.Nodes {
			if k > 0 {
				s += ","
			}
			if ix == selfIdx {
				s += "SELF"
			} else {
				s += fmt.Sprintf("%s@%d", short(w.pop[ix]), w.dist[w.pop[ix]])
			}
		}
		out[i] = s + ")"
	}
	return out
}

// shrink removes ops (and members of stuff lists) while the same violation key
// is still produced: the witness is a locally minimal history.
func shrink(w *world, ops []op, key string) []op {
	same := func(cand []op) bool {
		f := execute(w, cand, nil)
		return f != nil && f.key == key
	}
	cur := append([]op(nil), ops...)
	for changed := true; changed; {
		changed = false
		for i := len(cur) - 1; i >= 0; i-- {
			cand := append(append([]op(nil), cur[:i]...), cur[i+1:]...)
			if same(cand) {
				cur, changed = cand, true
			}
		}
		for i := range cur {
			if cur[i].Kind != kStuff {
				continue
			}
			for k := len(cur[i].Nodes) - 1; k >= 0 && len(cur[i].Nodes) > 1; k-- {
				cand := append([]op(nil), cur...)
				nl := append(append([]int(nil), cur[i].Nodes[:k]...), cur[i].Nodes[k+1:]...)
				cand[i] = op{Kind: kStuff, Nodes: nl, Fresh: cur[i].Fresh}
				if same(cand) {
					cur, changed = cand, true
				}
			}
		}
	}
	return cur
}

func fillClass(n int) string {
	switch {
	case n == 0:
		return "empty"
	case n < 16:
		return "partial"
	case n == 16:
		return "full"
	}
	return "over"
}

func has(l []dht.NodeID, id dht.NodeID) bool {
	for i := range l {
		if l[i] == id {
			return true
		}
	}
	return false
}

type bucketView struct {
	nE, nR int
	e, r   []dht.NodeID
}

func (v *bucketView) inE(id dht.NodeID) bool { return has(v.e, id) }
func (v *bucketView) inR(id dht.NodeID) bool { return has(v.r, id) }

func view(s *dht.VerifSnapshot) map[int]*bucketView {
	m := make(map[int]*bucketView, len(s.Buckets))
	for i := range s.Buckets {
		b := &s.Buckets[i]
		m[b.Index] = &bucketView{nE: len(b.Entries), nR: len(b.Replacements), e: b.Entries, r: b.Replacements}
	}
	return m
}

var emptyView = &bucketView{}

// population profiles: how many ids per bucket (offsets below the top bucket 256)
var profiles = []struct {
	name string
	off  []int // bucket = 256 - off[i]
	cnt  []int
}{
	{"22+14+4", []int{0, 1, 2}, []int{22, 14, 4}},
	{"40-in-one", []int{0}, []int{40}},
	{"18+18+4", []int{1, 3, 5}, []int{18, 18, 4}},
	{"natural", []int{0, 1, 2, 3, 4, 5}, []int{20, 10, 5, 3, 1, 1}},
	{"17+17+6", []int{2, 4, 0}, []int{17, 17, 6}},
	{"34+6", []int{3, 0}, []int{34, 6}},
	// ids whose hash shares its first byte (and more) with the local node's: buckets 248 and below
	{"deep", []int{0, 8, 9, 10, 12}, []int{18, 17, 3, 1, 1}},
}

// op mixes: weights for add, stuff, delete, deleteReplace, bump
var mixes = [][]int{
	{35, 15, 15, 20, 15},
	{50, 5, 10, 25, 10},
	{20, 35, 15, 20, 10},
	{25, 10, 30, 25, 10},
}

func genOps(rng *ev.Rand, w *world, n int) []op {
	mix := mixes[rng.Intn(len(mixes))]
	pickNode := func() int {
		if rng.Chance(1, 25) {
			return selfIdx
		}
		return rng.Intn(len(w.pop))
	}
	ops := make([]op, 0, n)
	for len(ops) < n {
		k := rng.Pick(mix)
		o := op{Kind: k, Fresh: rng.Chance(1, 3)}
		if k == kStuff {
			m := rng.Range(1, 20)
			if rng.Chance(1, 6) {
				m = rng.Range(20, 45)
			}
			for j := 0; j < m; j++ {
				if j > 0 && rng.Chance(1, 10) {
					o.Nodes = append(o.Nodes, o.Nodes[rng.Intn(j)]) // repeated node inside one list
				} else {
					o.Nodes = append(o.Nodes, pickNode())
				}
			}
		} else {
			o.Nodes = []int{pickNode()}
		}
		ops = append(ops, o)
	}
	return ops
}

func TestC34(t *testing.T) {
	r := ev.Start(t, "C34")
	defer r.Finish()
	// the monitor allocates a snapshot per operation and keeps almost nothing: collect less often
	defer debug.SetGCPercent(debug.SetGCPercent(800))
	r.Rule("per case: random local id, 40 node ids brute-forced into 1-6 buckets (6 population profiles), 80 random ops add/stuff(list 1-45, repeats)/delete/deleteReplace/bump (4 op mixes), local id used as operand with chance 1/25; invariants checked after every op. distinct = (op kind, fill class of the operand's bucket before the op, fill class of its replacement list, operand in entries/replacements/both/absent/self)")
	r.Assume("the verif export returns a faithful copy of count, buckets and replacement lists; bucket index of a node = bit length of sha3-256(self) XOR sha3-256(node) (the documented log-distance), recomputed with x/crypto/sha3 and math/big")

	reported := map[string]bool{}
	r.Cases("sequences", r.N(5000, 500000), func(c *ev.Case) {
		rng := c.Rand
		p := profiles[rng.Intn(len(profiles))]
		want := map[int]int{}
		for i, off := range p.off {
			want[256-off] += p.cnt[i]
		}
		w := buildWorld(rng, want)
		if len(w.pop) < 30 {
			c.Inconclusive("population search found only %d ids (profile %s)", len(w.pop), p.name)
			return
		}
		ops := genOps(rng, w, 80)
		c.Count("profile_"+p.name, 1)

		obs := func(i int, o op, pre, post *dht.VerifSnapshot, pv, qv map[int]*bucketView, contested, bumped bool) {
			c.Count("op_"+kindName[o.Kind], 1)
			c.Count("states_checked", 1)
			for k, ix := range o.Nodes {
				if k > 0 && o.Kind != kStuff {
					break
				}
				id := w.id(ix)
				pres := "absent"
				var bv *bucketView
				if ix == selfIdx {
					pres, bv = "self", pv[0]
					c.Count("self_operand", 1)
				} else {
					bv = pv[w.dist[id]]
				}
				if bv == nil {
					bv = emptyView
				}
				if ix != selfIdx {
					switch {
					case bv.inE(id) && bv.inR(id):
						pres = "both"
					case bv.inE(id):
						pres = "entries"
					case bv.inR(id):
						pres = "replacements"
					}
				}
				c.Distinct("%s %s %s %s", kindName[o.Kind], fillClass(bv.nE), fillClass(bv.nR), pres)
				if o.Kind == kStuff {
					c.Count("stuff_nodes", 1)
					if bv.nE >= 16 && pres != "entries" && pres != "both" {
						c.Count("stuff_into_full_bucket", 1)
					}
				}
				if o.Kind == kDeleteReplace && ix != selfIdx {
					q := qv[w.dist[id]]
					if q == nil {
						q = emptyView
					}
					removed := 0
					if bv.inE(id) {
						removed = 1
					}
					if q.nE == bv.nE-removed+1 {
						c.Count("deleteReplace_refilled", 1)
					}
				}
			}
			if o.Kind == kAdd {
				if contested {
					c.Count("add_contested_full_bucket", 1)
				} else if post.Count > pre.Count {
					c.Count("add_inserted", 1)
				}
			}
			if bumped {
				c.Count("bump_hit", 1)
			}
			full, overlap := false, false
			maxR := 0
			for _, b := range post.Buckets {
				full = full || len(b.Entries) == 16
				if len(b.Replacements) > maxR {
					maxR = len(b.Replacements)
				}
				for _, e := range b.Replacements {
					overlap = overlap || has(b.Entries, e)
				}
			}
			if full {
				c.Count("states_with_full_bucket", 1)
			}
			if overlap {
				c.Count("states_with_node_in_entries_and_replacements", 1)
			}
			c.Max("max_replacements", int64(maxR))
			c.Max("max_count", int64(post.Count))
		}

		c.Journal(map[string]interface{}{"self": hex.EncodeToString(w.self[:]), "profile": p.name})
		f := execute(w, ops, obs)
		if c.WantSample() {
			d := w.describeOps(ops)
			if len(d) > 12 {
				d = d[:12]
			}
			c.Sample(map[string]interface{}{"profile": p.name, "first_ops": d, "violated": f != nil})
		}
		if f == nil {
			c.Count("sequences_completed", 1)
			return
		}
		c.Count("sequences_stopped_at_violation", 1)
		hist := ops[:f.at+1]
		if f.at < 0 {
			hist = nil
		}
		wit := map[string]interface{}{"self": hex.EncodeToString(w.self[:]), "detail": f.detail, "ops_until_violation": len(hist)}
		if !reported[f.key] {
			// first occurrence in this process: attach a locally minimal history
			reported[f.key] = true
			min := shrink(w, hist, f.key)
			wit["minimal_history"] = w.describeOps(min)
			if mf := execute(w, min, nil); mf != nil {
				wit["detail"] = mf.detail
			}
			ids := map[string]string{}
			for _, o := range min {
				for _, ix := range o.Nodes {
					if ix != selfIdx {
						ids[short(w.pop[ix])] = hex.EncodeToString(w.pop[ix][:])
					}
				}
			}
			keys := make([]string, 0, len(ids))
			for k := range ids {
				keys = append(keys, k)
			}
			sort.Strings(keys)
			full := []string{}
			for _, k := range keys {
				full = append(full, ids[k])
			}
			wit["node_ids"] = full
		}
		c.Violation(f.key, f.what, wit)
	})

	// The table as the Network drives it: seeds of a refresh (fallback nodes,
	// no database) are force-added by the Network loop; the snapshot is taken
	// on that loop.  The transport sends nothing, so no answer ever arrives.
	r.Cases("network", r.N(400, 20000), func(c *ev.Case) {
		rng := c.Rand
		pub := ed25519.PublicKey(rng.Bytes(32))
		w := &world{dist: map[dht.NodeID]int{}}
		copy(w.self[:], pub)
		nw, err := dht.VerifNewNetwork(pub, &net.UDPAddr{IP: net.IP{10, 0, 0, 1}, Port: 30303})
		if err != nil {
			c.Inconclusive("network not started: %v", err)
			return
		}
		defer nw.Close()
		overlap := map[dht.NodeID]string{}
		rounds := rng.Range(1, 3)
		for round := 0; round < rounds; round++ {
			var nodes []*dht.Node
			n := rng.Range(1, 40)
			for i := 0; i < n; i++ {
				var id dht.NodeID
				switch {
				case len(w.pop) > 0 && rng.Chance(1, 8):
					id = w.pop[rng.Intn(len(w.pop))] // a node handed over before / twice in one list
				case rng.Chance(1, 30):
					id = w.self
				default:
					copy(id[:], rng.Bytes(32))
				}
				if _, ok := w.dist[id]; !ok && id != w.self {
					w.pop = append(w.pop, id)
					w.dist[id] = refLogDist(w.self, id)
				}
				port := uint16(rng.Range(1024, 65000))
				nodes = append(nodes, dht.NewNode(id, net.IP{10, 0, byte(rng.Intn(250)), byte(1 + rng.Intn(250))}, port, port))
			}
			if err := nw.SetFallbackNodes(nodes); err != nil {
				c.Inconclusive("fallback nodes refused: %v", err)
				return
			}
			c.Count("network_fallback_nodes", int64(n))
			s, ok := nw.VerifSnapshot()
			if !ok {
				c.Inconclusive("network closed before the snapshot")
				return
			}
			c.Count("network_states_checked", 1)
			entries := 0
			for _, b := range s.Buckets {
				entries += len(b.Entries)
			}
			c.Count("network_entries_seen", int64(entries))
			if f := checkState(w, &s, "network-refresh", overlap); f != nil {
				ids := []string{}
				for _, nd := range nodes {
					ids = append(ids, hex.EncodeToString(nd.ID[:]))
				}
				c.Violation(f.key, f.what, map[string]interface{}{"self": hex.EncodeToString(w.self[:]), "round": round,
					"fallback_nodes": ids, "detail": f.detail})
				return
			}
		}
		c.Count("network_cases_completed", 1)
	})

	r.Floor("op_add", 50000)
	r.Floor("network_entries_seen", 2000)
	r.Floor("op_stuff", 15000)
	r.Floor("op_delete", 30000)
	r.Floor("op_deleteReplace", 40000)
	r.Floor("op_bump", 20000)
	r.Floor("states_with_full_bucket", 20000)
	r.Floor("add_contested_full_bucket", 5000)
	r.Floor("deleteReplace_refilled", 2000)
	r.Floor("stuff_into_full_bucket", 1000)
	r.Floor("self_operand", 5000)
	r.Floor("bump_hit", 2000)
}
