package p34

import (
	"golang.org/x/crypto/sha3"

	"strings"
	"testing"

	"github.com/bytom/bytom/p2p/discover/dht"

	"verif/internal/ev"
)

// The oracle must flag each broken invariant on hand-made snapshots (what a
// wrong table would produce) and accept a correct one.  Not run by ./check.
func TestOracleSelfTest(t *testing.T) {
	rng := ev.NewRand(1, "C34", "selftest", 0)
	w := buildWorld(rng, map[int]int{256: 20, 255: 4})
	var in256, in255 []dht.NodeID
	for _, id := range w.pop {
		if w.dist[id] == 256 {
			in256 = append(in256, id)
		} else {
			in255 = append(in255, id)
		}
	}
	good := func() *dht.VerifSnapshot {
		return &dht.VerifSnapshot{Count: 18, Self: w.self, Buckets: []dht.VerifBucket{
			{Index: 255, Entries: append([]dht.NodeID(nil), in255[:2]...)},
			{Index: 256, Entries: append([]dht.NodeID(nil), in256[:16]...), Replacements: append([]dht.NodeID(nil), in256[16:19]...)},
		}}
	}
	cases := []struct {
		name   string
		mutate func(s *dht.VerifSnapshot)
		prefix string
	}{
		{"good", func(s *dht.VerifSnapshot) {}, ""},
		{"overfull", func(s *dht.VerifSnapshot) { s.Buckets[1].Entries = append(s.Buckets[1].Entries, in256[16]); s.Count++ }, "bucket-overfull:"},
		{"dup", func(s *dht.VerifSnapshot) { s.Buckets[1].Entries[15] = s.Buckets[1].Entries[0] }, "duplicate-entry:"},
		{"wrong-bucket", func(s *dht.VerifSnapshot) { s.Buckets[0].Entries[1] = in256[17] }, "wrong-bucket:"},
		{"self", func(s *dht.VerifSnapshot) { s.Buckets[0].Entries[1] = w.self }, "self-present:entries:"},
		{"self-repl", func(s *dht.VerifSnapshot) { s.Buckets[1].Replacements[0] = w.self }, "self-present:replacements:"},
		{"count", func(s *dht.VerifSnapshot) { s.Count-- }, "count-mismatch:"},
	}
	for _, tc := range cases {
		s := good()
		tc.mutate(s)
		f := checkState(w, s, "op", map[dht.NodeID]string{})
		switch {
		case tc.prefix == "" && f != nil:
			t.Errorf("%s: oracle flagged a correct state: %s", tc.name, f.key)
		case tc.prefix != "" && f == nil:
			t.Errorf("%s: oracle accepted a broken state", tc.name)
		case tc.prefix != "" && !strings.HasPrefix(f.key, tc.prefix):
			t.Errorf("%s: key %q, want prefix %q", tc.name, f.key, tc.prefix)
		}
	}
}

// the reusable-sponge hash must equal sha3.Sum256
func TestShaHelper(t *testing.T) {
	rng := ev.NewRand(3, "C34", "sha", 0)
	for i := 0; i < 1000; i++ {
		var id dht.NodeID
		copy(id[:], rng.Bytes(32))
		if sha(id) != sha3.Sum256(id[:]) {
			t.Fatalf("sha helper differs from sha3.Sum256 for %x", id)
		}
	}
}
