// C36 — RPC access control admits only authorised callers.
//
// Drives the real authn.API.Authenticate on a real accesstoken.CredentialStore
// (LevelDB in a temp dir) with histories of token creation / deletion / cache
// ageing and requests of every origin, path and credential class, and decides
// for each request from an independent model of "who is authorised":
//
//	a request from a non-loopback origin to a non-exempt path is admitted only
//	if its Basic credentials are exactly (id, secret) of a token that is live,
//	or whose last successful store check is at most tokenExpiry (5 min) old;
//	non-loopback requests to /backup-wallet, /restore-wallet and
//	/list-access-tokens are always refused.
//
// The 5-minute window is crossed by ageing the cache through the verif export,
// never by sleeping.  /repo/api does not build here, so api.AuthHandler and the
// mux behind it are not driven; the path rules live in authn.Authenticate
// itself and are covered there.
package p36

import (
	"bytes"
	"encoding/base64"
	"encoding/hex"
	"fmt"
	"io"
	"net"
	"net/http"
	"net/netip"
	"net/url"
	"os"
	"regexp"
	"strings"
	"testing"
	"time"

	"github.com/sirupsen/logrus"

	"github.com/bytom/bytom/accesstoken"
	dbm "github.com/bytom/bytom/database/leveldb"
	"github.com/bytom/bytom/net/http/authn"

	"verif/internal/ev"
)

const window = 5 * time.Minute

const (
	kCreate = iota
	kDelete
	kAge
	kRequest
)

type cred struct {
	Class string // generator's class; the oracle does not use it, the violation key does
	Tok   string // token reference "id#generation"
	Tok2  string // second token (other-token-secret)
	K     int    // boundary shift
	Hex   string // pre-drawn random material
	Raw   string // literal Authorization header for the malformed classes
}

type step struct {
	Kind   int
	ID     string // create / delete
	Age    time.Duration
	Remote string
	Path   string
	Cred   cred
}

func (s step) String() string {
	switch s.Kind {
	case kCreate:
		return fmt.Sprintf("create-token(%q)", s.ID)
	case kDelete:
		return fmt.Sprintf("delete-token(%q)", s.ID)
	case kAge:
		return fmt.Sprintf("age-cache(%s)", s.Age)
	}
	c := s.Cred.Class
	if s.Cred.Tok != "" {
		c += " of " + s.Cred.Tok
	}
	if s.Cred.Tok2 != "" {
		c += " with secret of " + s.Cred.Tok2
	}
	if s.Cred.K != 0 {
		c += fmt.Sprintf(" k=%d", s.Cred.K)
	}
	return fmt.Sprintf("request(from %q, path %q, credentials: %s)", s.Remote, s.Path, c)
}

// ---- oracle side classification ------------------------------------------------

// originClass: "loopback", "nonloopback" or "ambiguous".  A well-formed ip:port
// is decided by net/netip.  A malformed address is "ambiguous" (nothing is
// demanded) when some reading of it yields a loopback literal — the bare
// address without port, extra port fields, a zone, surrounding blanks, the
// name localhost, inet_aton short forms like 127.1 — and non-loopback otherwise
// (e.g. a host name that merely starts with 127.0.0.1).
func originClass(remote string) string {
	if ap, err := netip.ParseAddrPort(remote); err == nil && ap.Addr().Zone() == "" {
		if ap.Addr().Unmap().IsLoopback() {
			return "loopback"
		}
		return "nonloopback"
	}
	s := strings.TrimSpace(remote)
	cands := []string{s}
	if h, _, err := net.SplitHostPort(s); err == nil {
		cands = append(cands, h)
	}
	if i := strings.LastIndex(s, ":"); i >= 0 {
		cands = append(cands, s[:i])
	}
	if i := strings.Index(s, ":"); i >= 0 {
		cands = append(cands, s[:i])
	}
	for _, c := range cands {
		c = strings.ToLower(strings.Trim(strings.TrimSpace(c), "[]"))
		if i := strings.Index(c, "%"); i >= 0 {
			c = c[:i]
		}
		if c == "localhost" || c == "localhost." || shortLoopback.MatchString(c) {
			return "ambiguous"
		}
		if a, err := netip.ParseAddr(c); err == nil && a.Unmap().IsLoopback() {
			return "ambiguous"
		}
	}
	return "nonloopback"
}

var shortLoopback = regexp.MustCompile(`^0*127(\.[0-9]{1,8}){0,3}$`)

var protectedPaths = []string{"/backup-wallet", "/restore-wallet", "/list-access-tokens"}

// pathClass: "protected" (exactly a local-only route), "exempt" (dashboard /
// equity static prefixes, documented as always admitted), "ordinary".
func pathClass(p string) string {
	for _, q := range protectedPaths {
		if p == q {
			return "protected"
		}
	}
	if p == "/dashboard" || strings.HasPrefix(p, "/dashboard/") || p == "/equity" || strings.HasPrefix(p, "/equity/") {
		return "exempt"
	}
	return "ordinary"
}

// parseBasic is the oracle's own reading of an Authorization header (RFC 7617).
func parseBasic(h string) (user, pw string, ok bool) {
	if len(h) < 6 || !strings.EqualFold(h[:6], "basic ") {
		return "", "", false
	}
	b, err := base64.StdEncoding.DecodeString(h[6:])
	if err != nil {
		return "", "", false
	}
	i := bytes.IndexByte(b, ':')
	if i < 0 {
		return "", "", false
	}
	return string(b[:i]), string(b[i+1:]), true
}

func basic(user, pw string) string {
	return "Basic " + base64.StdEncoding.EncodeToString([]byte(user+":"+pw))
}

// ---- the history runner ---------------------------------------------------------

type tokenRec struct{ id, secret string }

type finding struct {
	key, what string
	at        int
	detail    map[string]interface{}
}

type hooks struct {
	count    func(string)
	distinct func(string, ...interface{})
}

type pairKey struct{ user, pw string }

// runHistory executes steps against a fresh store + authenticator and returns
// the findings.  Token references that do not resolve (e.g. while shrinking)
// make the step a no-op.
func runHistory(dir string, disable bool, steps []step, h *hooks) (out []*finding, err error) {
	return runHistoryOn(realAuth, dir, disable, steps, h)
}

// authenticator is what the monitor needs from authn.API (the self-test of the
// oracle substitutes deliberately wrong implementations).
type authenticator interface {
	Authenticate(req *http.Request) (*http.Request, error)
	VerifAgeTokenCache(d time.Duration) int
}

func realAuth(store *accesstoken.CredentialStore, disable bool) authenticator {
	return authn.NewAPI(store, disable)
}

func runHistoryOn(mk func(*accesstoken.CredentialStore, bool) authenticator, dir string, disable bool, steps []step, h *hooks) (out []*finding, err error) {
	d, err := os.MkdirTemp(dir, "tok")
	if err != nil {
		return nil, err
	}
	defer os.RemoveAll(d)
	db := dbm.NewDB("accesstoken", "leveldb", d)
	defer db.Close()
	store := accesstoken.NewStore(db)
	api := mk(store, disable)

	cnt := func(n string) {
		if h != nil {
			h.count(n)
		}
	}
	issued := map[string]tokenRec{} // "id#gen" -> record
	gens := map[string]int{}
	live := map[string]string{}           // id -> secret
	lastOK := map[pairKey]time.Duration{} // exact pair -> virtual time of its last successful store check
	var now time.Duration                 // virtual clock = total ageing applied
	started := time.Now()

	for i, st := range steps {
		if time.Since(started) > 3*time.Second {
			// the model ignores real elapsed time (milliseconds per history); give up rather than judge a stalled run
			cnt("history_abandoned_slow_run")
			return out, nil
		}
		switch st.Kind {
		case kCreate:
			tok, err := store.Create(st.ID, "client")
			if err != nil {
				cnt("create_refused")
				continue
			}
			if _, exists := live[st.ID]; exists {
				cnt("create_replaced_live_token") // not part of this property; the old pair simply becomes a superseded one
			}
			parts := strings.SplitN(tok.Token, ":", 2)
			if len(parts) != 2 || parts[0] != st.ID {
				cnt("create_odd_token_format")
				continue
			}
			gens[st.ID]++
			issued[fmt.Sprintf("%s#%d", st.ID, gens[st.ID])] = tokenRec{st.ID, parts[1]}
			live[st.ID] = parts[1]
			cnt("create_ok")
		case kDelete:
			store.Delete(st.ID)
			if _, ok := live[st.ID]; ok {
				cnt("delete_live")
			} else {
				cnt("delete_absent")
			}
			delete(live, st.ID)
		case kAge:
			dd := st.Age
			// keep every cached pair clear of the last 5 s before expiry (the model does not see real elapsed time)
			for bump := true; bump; {
				bump = false
				for _, l := range lastOK {
					if a := now + dd - l; a > window-5*time.Second && a <= window {
						dd += 7 * time.Second
						bump = true
					}
				}
			}
			api.VerifAgeTokenCache(dd)
			now += dd
			cnt("age")
		case kRequest:
			hdr, ok := resolve(st.Cred, issued)
			if !ok {
				continue
			}
			spoof := st.Cred.Class == "forwarded-for-loopback"
			got, aerr := api.Authenticate(mkReq(st.Remote, st.Path, hdr, spoof))
			admitted := aerr == nil

			// ---- model: is this credential pair authorised right now? ----
			user, pw, has := "", "", false
			if hdr != "" {
				user, pw, has = parseBasic(hdr)
			}
			authorised, how := false, "no-credentials"
			if has {
				how = "unknown-pair"
				pk := pairKey{user, pw}
				sec, isLive := live[user]
				l, cached := lastOK[pk]
				switch {
				case cached && now-l <= window:
					authorised, how = true, "cached-live"
					if !(isLive && sec == pw) {
						how = "cached-deleted-within-window"
					}
				case isLive && sec == pw:
					authorised, how = true, "live-store-check"
					if !disable {
						lastOK[pk] = now // the store is consulted and the lookup recorded
					}
				case cached:
					how = "deleted-after-window"
				}
			}
			oc, pc := originClass(st.Remote), pathClass(st.Path)
			res := "refused"
			if admitted {
				res = "admitted"
			}
			cnt("request")
			cnt("origin_" + oc)
			cnt(fmt.Sprintf("%s_%s_%s", oc, pc, res))
			if h != nil {
				h.distinct("%s %s %s %s %s", oc, pc, st.Cred.Class, how, res)
			}
			det := func() map[string]interface{} {
				m := map[string]interface{}{"remote_addr": st.Remote, "path": st.Path, "credential_class": st.Cred.Class,
					"authorization": hdr, "presented_user": user, "presented_password": pw, "model": how, "admitted": admitted,
					"virtual_clock": now.String()}
				if aerr != nil {
					m["error"] = aerr.Error()
				}
				if got != nil {
					m["context_token"] = authn.Token(got.Context())
					m["context_localhost"] = authn.Localhost(got.Context())
				}
				ls := []string{}
				for id, s := range live {
					ls = append(ls, id+":"+s)
				}
				m["live_tokens"] = ls
				return m
			}
			if got == nil {
				out = append(out, &finding{key: "authenticate:nil-request-returned", what: "Authenticate returned a nil request", at: i, detail: det()})
				return out, nil
			}
			if oc != "nonloopback" {
				continue // nothing is demanded for loopback (or unclassifiable) origins
			}
			if authn.Localhost(got.Context()) {
				out = append(out, &finding{key: "localhost-flag-set:non-loopback-origin", what: "the returned context flags a non-loopback request as localhost", at: i, detail: det()})
			}
			if pc == "protected" {
				cnt("nonloopback_protected_" + how + "_" + res)
				if admitted {
					out = append(out, &finding{key: "protected-path-admitted:" + st.Path, what: "a non-loopback request to a local-only route was admitted", at: i, detail: det()})
				}
				continue
			}
			if pc == "exempt" {
				continue
			}
			if disable {
				continue // authentication switched off: only the local-only routes are demanded
			}
			cnt("nonloopback_presented_" + st.Cred.Class)
			cnt(fmt.Sprintf("nonloopback_cred_%s_%s", st.Cred.Class, res))
			cnt(fmt.Sprintf("nonloopback_model_%s_%s", how, res))
			if admitted && !authorised {
				cls := st.Cred.Class
				switch {
				case how == "deleted-after-window":
					cls = "deleted-token-after-cache-window"
				case strings.HasPrefix(cls, "boundary-shifted-"):
					cls = "id-secret-boundary-shifted" // one class whichever way the boundary moved
				case cls == "none" || cls == "malformed-header":
					cls = "no-credentials"
				}
				// Which part of the request is to blame?  Ask again with the other parts made canonical
				// (an unauthorised pair cannot enter the cache of a correct implementation, "no header" never does).
				const canonRemote, canonPath = "203.0.113.7:60000", "/create-key"
				key := "admitted-unauthorised:" + cls
				if _, e := api.Authenticate(mkReq(canonRemote, canonPath, hdr, spoof)); e != nil {
					if _, e := api.Authenticate(mkReq(st.Remote, canonPath, "", false)); e == nil {
						key = "admitted-without-credentials:origin=" + st.Remote
					} else if _, e := api.Authenticate(mkReq(canonRemote, st.Path, "", false)); e == nil {
						key = "admitted-without-credentials:path=" + st.Path
					}
				}
				out = append(out, &finding{key: key,
					what: "a non-loopback request was admitted although its credentials are not (id, secret) of a live token nor of one checked successfully within the last 5 minutes", at: i, detail: det()})
			}
		}
	}
	return out, nil
}

func mkReq(remote, path, authorization string, spoofForwarding bool) *http.Request {
	req := &http.Request{Method: "POST", URL: &url.URL{Path: path}, Header: http.Header{}, RemoteAddr: remote, Proto: "HTTP/1.1", ProtoMajor: 1, ProtoMinor: 1}
	if authorization != "" {
		req.Header.Set("Authorization", authorization)
	}
	if spoofForwarding {
		req.Header.Set("X-Forwarded-For", "127.0.0.1")
		req.Header.Set("X-Real-IP", "127.0.0.1")
		req.Header.Set("Forwarded", "for=127.0.0.1")
	}
	return req
}

// resolve turns a symbolic credential into the Authorization header ("" = no header).
func resolve(c cred, issued map[string]tokenRec) (string, bool) {
	switch c.Class {
	case "none", "forwarded-for-loopback":
		return "", true
	case "malformed-header":
		return c.Raw, true
	case "never-issued":
		return basic("u"+c.Hex[:6], c.Hex), true
	}
	t, ok := issued[c.Tok]
	if !ok {
		return "", false
	}
	switch c.Class {
	case "exact", "deleted-or-superseded":
		return basic(t.id, t.secret), true
	case "wrong-secret":
		return basic(t.id, c.Hex), true
	case "secret-truncated":
		return basic(t.id, t.secret[:len(t.secret)-1]), true
	case "secret-extended":
		return basic(t.id, t.secret+"0"), true
	case "secret-uppercase":
		u := strings.ToUpper(t.secret)
		if u == t.secret {
			return "", false
		}
		return basic(t.id, u), true
	case "empty-secret":
		return basic(t.id, ""), true
	case "empty-user":
		return basic("", t.secret), true
	case "id-case-changed":
		u := strings.ToUpper(t.id)
		if u == t.id {
			u = strings.ToLower(t.id)
		}
		if u == t.id {
			return "", false
		}
		return basic(u, t.secret), true
	case "id-trailing-space":
		return basic(t.id+" ", t.secret), true
	case "colon-in-password":
		return basic(t.id, ":"+t.secret), true
	case "secret-as-user":
		return basic(t.secret, t.id), true
	case "other-token-secret":
		t2, ok := issued[c.Tok2]
		if !ok || t2.secret == t.secret {
			return "", false
		}
		return basic(t.id, t2.secret), true
	case "boundary-shifted-right": // first k characters of the secret moved to the user name
		k := 1 + c.K%(len(t.secret)-1)
		return basic(t.id+t.secret[:k], t.secret[k:]), true
	case "boundary-shifted-left": // last k characters of the id moved to the password
		if len(t.id) < 2 {
			return "", false
		}
		k := 1 + c.K%(len(t.id)-1)
		return basic(t.id[:len(t.id)-k], t.id[len(t.id)-k:]+t.secret), true
	}
	return "", false
}

// ---- generator --------------------------------------------------------------------

var idPool = []string{"a", "ab", "abc", "abcd", "alice", "Alice", "bob", "a-b", "a_b", "0", "00", "deadbeef", "ab0", "x"}
var badIDs = []string{"", "bad:id", "a b", "a/b", "é"}

var remotes = map[string][]string{
	"loopback":    {"127.0.0.1:51000", "127.0.0.1:1", "127.255.255.254:80", "127.8.9.10:65535", "[::1]:51000", "[::ffff:127.0.0.1]:443"},
	"private":     {"10.0.0.1:51000", "10.1.2.3:80", "192.168.1.10:4000", "172.16.0.9:1234", "169.254.1.1:9", "100.64.0.1:1"},
	"public":      {"8.8.8.8:443", "1.1.1.1:53", "203.0.113.7:60000", "[2001:db8::1]:8080", "[2606:4700::1111]:443", "[::ffff:10.0.0.1]:80", "[fe80::1]:80"},
	"nearloop":    {"128.0.0.1:80", "126.255.255.255:80", "[::2]:80", "0.0.0.0:80", "[::]:80", "12.7.0.1:80", "1.127.0.1:80", "[::1:0]:80", "[1::1]:80", "127.0.0.1.evil.example:80", "1270.0.0.1:80", "127evil:80", "127.0.0.1x:80", "x127.0.0.1:80", "[::11]:80"},
	"malformed":   {"", "garbage", "10.0.0.1", "8.8.8.8", ":80", "10.0.0.1:80:80", "[10.0.0.1]:80", "example.com:80", "10.0.0.256:80", "[::g]:80", "10.0.0.1:", "unix", "@"},
	"ambiguousLo": {"127.0.0.1", "localhost:80", " 127.0.0.1:80", "127.1:80", "[::1]", "::1", "[::1%lo]:80", "127.0.0.1:80:80", "0:0:0:0:0:0:0:1:80"},
}
var remoteWeights = []struct {
	k string
	w int
}{{"loopback", 12}, {"private", 30}, {"public", 25}, {"nearloop", 12}, {"malformed", 13}, {"ambiguousLo", 8}}

var paths = map[string][]string{
	"ordinary":   {"/create-key", "/list-transactions", "/", "/net-info", "/get-block", "/create-access-token", "/delete-access-token", "/check-access-token", "/sign-transaction", "/wallet-info", ""},
	"protected":  {"/backup-wallet", "/restore-wallet", "/list-access-tokens"},
	"variants":   {"/backup-wallets", "/backup-wallet/", "//backup-wallet", "/Backup-Wallet", "/./list-access-tokens", "/list-access-tokens/x", "/restore-wallet.json", "/x/backup-wallet", "backup-wallet", "/list-access-token", "/restore-walle"},
	"exempt":     {"/dashboard", "/dashboard/", "/dashboard/index.html", "/equity", "/equity/", "/equity/x.js", "/dashboard/../create-key"},
	"nearexempt": {"/dashboardx", "/dashboards/", "/Dashboard/", "/equityx", "/x/dashboard/", "/dashboar", "dashboard/", "//dashboard/", "/equit/y"},
}
var pathWeights = []struct {
	k string
	w int
}{{"ordinary", 50}, {"protected", 18}, {"variants", 10}, {"exempt", 10}, {"nearexempt", 12}}

var malformedHeaders = []string{
	"Basic", "Basic ", "Basic !!!!", "Basic " + base64.StdEncoding.EncodeToString([]byte("nocolon")), "Bearer " + base64.StdEncoding.EncodeToString([]byte("a:b")),
	"Basic  " + base64.StdEncoding.EncodeToString([]byte("a:b")), "Digest username=\"a\"", "a:b", "Basic YTpi=", "Basicx YTpi",
}

var credWeights = []struct {
	k string
	w int
}{
	{"none", 8}, {"forwarded-for-loopback", 3}, {"malformed-header", 5}, {"never-issued", 5},
	{"exact", 22}, {"deleted-or-superseded", 14}, {"wrong-secret", 5}, {"secret-truncated", 3}, {"secret-extended", 3},
	{"secret-uppercase", 2}, {"empty-secret", 2}, {"empty-user", 2}, {"id-case-changed", 3}, {"id-trailing-space", 2},
	{"colon-in-password", 2}, {"secret-as-user", 2}, {"other-token-secret", 4}, {"boundary-shifted-right", 8}, {"boundary-shifted-left", 5},
}

var ages = []time.Duration{time.Second, 30 * time.Second, 2 * time.Minute, 4*time.Minute + 50*time.Second, 4*time.Minute + 59*time.Second,
	5 * time.Minute, 5*time.Minute + time.Second, 5*time.Minute + 10*time.Second, 10 * time.Minute, time.Hour}

func pickW(rng *ev.Rand, n int, w func(i int) int) int {
	ws := make([]int, n)
	for i := range ws {
		ws[i] = w(i)
	}
	return rng.Pick(ws)
}

type genState struct {
	gens    map[string]int
	live    map[string]bool
	liveL   []string // refs of live tokens
	deadL   []string // refs of deleted / superseded tokens
	recentL []string // refs used in an exact request since the last long ageing (likely cached)
}

func (g *genState) refsLive() []string { return g.liveL }

func genHistory(rng *ev.Rand, n int) []step {
	g := &genState{gens: map[string]int{}, live: map[string]bool{}}
	pool := idPool
	if rng.Bool() { // a small id population makes delete / re-create of the same id frequent
		pool = idPool[:4+rng.Intn(4)]
	}
	var steps []step
	create := func() {
		id := pool[rng.Intn(len(pool))]
		if rng.Chance(1, 12) {
			id = badIDs[rng.Intn(len(badIDs))]
			steps = append(steps, step{Kind: kCreate, ID: id})
			return
		}
		steps = append(steps, step{Kind: kCreate, ID: id})
		if !g.live[id] {
			g.gens[id]++
			g.live[id] = true
			g.liveL = append(g.liveL, fmt.Sprintf("%s#%d", id, g.gens[id]))
		}
	}
	del := func() {
		var id string
		if len(g.liveL) > 0 && rng.Chance(4, 5) {
			ref := g.liveL[rng.Intn(len(g.liveL))]
			id = ref[:strings.LastIndex(ref, "#")]
		} else {
			id = pool[rng.Intn(len(pool))]
		}
		steps = append(steps, step{Kind: kDelete, ID: id})
		if g.live[id] {
			g.live[id] = false
			ref := fmt.Sprintf("%s#%d", id, g.gens[id])
			for i, r := range g.liveL {
				if r == ref {
					g.liveL = append(g.liveL[:i], g.liveL[i+1:]...)
					break
				}
			}
			g.deadL = append(g.deadL, ref)
		}
	}
	request := func() {
		rk := remoteWeights[pickW(rng, len(remoteWeights), func(i int) int { return remoteWeights[i].w })].k
		pk := pathWeights[pickW(rng, len(pathWeights), func(i int) int { return pathWeights[i].w })].k
		ck := credWeights[pickW(rng, len(credWeights), func(i int) int { return credWeights[i].w })].k
		st := step{Kind: kRequest, Remote: remotes[rk][rng.Intn(len(remotes[rk]))], Path: paths[pk][rng.Intn(len(paths[pk]))]}
		c := cred{Class: ck, Hex: hex.EncodeToString(rng.Bytes(32)), K: rng.Intn(1000)}
		any := append(append([]string(nil), g.liveL...), g.deadL...)
		switch ck {
		case "none", "forwarded-for-loopback", "never-issued":
		case "malformed-header":
			c.Raw = malformedHeaders[rng.Intn(len(malformedHeaders))]
		case "deleted-or-superseded":
			if len(g.deadL) == 0 {
				return
			}
			c.Tok = g.deadL[rng.Intn(len(g.deadL))]
			if len(g.deadL) > 3 && rng.Chance(2, 3) { // prefer recently deleted ones: their cache entry may still be inside the window
				c.Tok = g.deadL[len(g.deadL)-1-rng.Intn(3)]
			}
		case "exact":
			if len(g.liveL) == 0 {
				return
			}
			c.Tok = g.liveL[rng.Intn(len(g.liveL))]
			g.recentL = append(g.recentL, c.Tok)
		case "boundary-shifted-right", "boundary-shifted-left":
			// most interesting right after the genuine pair was used (it is then in the cache)
			if len(g.recentL) > 0 && rng.Chance(3, 4) {
				c.Tok = g.recentL[len(g.recentL)-1-rng.Intn(min(3, len(g.recentL)))]
			} else if len(any) > 0 {
				c.Tok = any[rng.Intn(len(any))]
			} else {
				return
			}
		case "other-token-secret":
			if len(any) < 2 {
				return
			}
			c.Tok, c.Tok2 = any[rng.Intn(len(any))], any[rng.Intn(len(any))]
		default:
			if len(any) == 0 {
				return
			}
			c.Tok = any[rng.Intn(len(any))]
			if len(g.liveL) > 0 && rng.Chance(2, 3) {
				c.Tok = g.liveL[rng.Intn(len(g.liveL))]
			}
		}
		st.Cred = c
		steps = append(steps, st)
	}
	for i := 0; i < 3; i++ {
		create()
	}
	for len(steps) < n {
		switch k := rng.Intn(100); {
		case k < 8:
			create()
		case k < 14:
			del()
		case k < 22:
			a := ages[rng.Intn(len(ages))]
			steps = append(steps, step{Kind: kAge, Age: a})
			if a > 4*time.Minute {
				g.recentL = nil
			}
		default:
			request()
		}
	}
	return steps
}

func describe(steps []step) []string {
	out := make([]string, len(steps))
	for i, s := range steps {
		out[i] = s.String()
	}
	return out
}

func hasKey(fs []*finding, key string) *finding {
	for _, f := range fs {
		if f.key == key {
			return f
		}
	}
	return nil
}

func shrink(dir string, disable bool, steps []step, key string) []step {
	cur := append([]step(nil), steps...)
	same := func(cand []step) bool {
		fs, err := runHistory(dir, disable, cand, nil)
		return err == nil && hasKey(fs, key) != nil
	}
	// coarse pass first (histories are long and every run opens a LevelDB), then single steps
	for chunk := len(cur) / 2; chunk >= 1; chunk /= 2 {
		for i := len(cur) - chunk; i >= 0; i -= chunk {
			if i+chunk > len(cur) {
				continue
			}
			cand := append(append([]step(nil), cur[:i]...), cur[i+chunk:]...)
			if same(cand) {
				cur = cand
			}
		}
	}
	return cur
}

// directed histories: the smallest scenarios of each credential class.
func directedHistories() []struct {
	name  string
	steps []step
} {
	rq := func(remote, path string, c cred) step {
		return step{Kind: kRequest, Remote: remote, Path: path, Cred: c}
	}
	ex := func(tok string) cred { return cred{Class: "exact", Tok: tok} }
	pub := "203.0.113.7:60000"
	return []struct {
		name  string
		steps []step
	}{
		{"exact-then-wrong", []step{{Kind: kCreate, ID: "alice"}, rq(pub, "/create-key", ex("alice#1")), rq(pub, "/create-key", cred{Class: "wrong-secret", Tok: "alice#1", Hex: strings.Repeat("0", 64)}), rq(pub, "/create-key", cred{Class: "none"})}},
		{"boundary-shift-after-genuine-use", []step{{Kind: kCreate, ID: "ab"}, rq("10.0.0.1:51000", "/create-key", ex("ab#1")), rq("10.0.0.1:51000", "/create-key", cred{Class: "boundary-shifted-right", Tok: "ab#1", K: 0}), rq("10.0.0.1:51000", "/create-key", cred{Class: "boundary-shifted-left", Tok: "ab#1", K: 0})}},
		{"boundary-shift-without-genuine-use", []step{{Kind: kCreate, ID: "ab"}, rq("10.0.0.1:51000", "/create-key", cred{Class: "boundary-shifted-right", Tok: "ab#1", K: 2}), rq("10.0.0.1:51000", "/create-key", cred{Class: "boundary-shifted-left", Tok: "ab#1", K: 0})}},
		{"deleted-inside-and-after-window", []step{{Kind: kCreate, ID: "bob"}, rq(pub, "/net-info", ex("bob#1")), {Kind: kDelete, ID: "bob"}, {Kind: kAge, Age: 4 * time.Minute}, rq(pub, "/net-info", cred{Class: "deleted-or-superseded", Tok: "bob#1"}), {Kind: kAge, Age: 70 * time.Second}, rq(pub, "/net-info", cred{Class: "deleted-or-superseded", Tok: "bob#1"})}},
		{"deleted-never-used", []step{{Kind: kCreate, ID: "bob"}, {Kind: kDelete, ID: "bob"}, rq(pub, "/net-info", cred{Class: "deleted-or-superseded", Tok: "bob#1"})}},
		{"superseded-secret", []step{{Kind: kCreate, ID: "x"}, rq(pub, "/net-info", ex("x#1")), {Kind: kDelete, ID: "x"}, {Kind: kCreate, ID: "x"}, rq(pub, "/net-info", cred{Class: "deleted-or-superseded", Tok: "x#1"}), rq(pub, "/net-info", ex("x#2")), {Kind: kAge, Age: 6 * time.Minute}, rq(pub, "/net-info", cred{Class: "deleted-or-superseded", Tok: "x#1"}), rq(pub, "/net-info", ex("x#2"))}},
		{"window-not-sliding", []step{{Kind: kCreate, ID: "bob"}, rq(pub, "/net-info", ex("bob#1")), {Kind: kAge, Age: 3 * time.Minute}, rq(pub, "/net-info", ex("bob#1")), {Kind: kDelete, ID: "bob"}, {Kind: kAge, Age: 3 * time.Minute}, rq(pub, "/net-info", cred{Class: "deleted-or-superseded", Tok: "bob#1"})}},
		{"protected-with-valid-token", []step{{Kind: kCreate, ID: "alice"}, rq(pub, "/backup-wallet", ex("alice#1")), rq(pub, "/restore-wallet", ex("alice#1")), rq(pub, "/list-access-tokens", ex("alice#1")), rq("127.0.0.1:4000", "/list-access-tokens", cred{Class: "none"}), rq("[::1]:4000", "/backup-wallet", cred{Class: "none"})}},
		{"spoofed-forwarding-headers", []step{rq(pub, "/create-key", cred{Class: "forwarded-for-loopback"}), rq(pub, "/list-access-tokens", cred{Class: "forwarded-for-loopback"})}},
		{"near-loopback-origins", []step{rq("128.0.0.1:80", "/create-key", cred{Class: "none"}), rq("[::2]:80", "/create-key", cred{Class: "none"}), rq("127.0.0.1.evil.example:80", "/create-key", cred{Class: "none"}), rq("localhost:80", "/create-key", cred{Class: "none"}), rq("0.0.0.0:80", "/create-key", cred{Class: "none"})}},
	}
}

func TestMain(m *testing.M) {
	logrus.SetOutput(io.Discard)
	logrus.SetLevel(logrus.PanicLevel)
	os.Exit(m.Run())
}

func TestC36(t *testing.T) {
	r := ev.Start(t, "C36")
	defer r.Finish()
	dir := t.TempDir()
	r.Rule("per case one history of 200 steps on a fresh LevelDB token store and a fresh authn.API: create/delete tokens (ids from a small pool, re-creation of deleted ids, invalid ids), cache ageing by {1s..1h} through the verif hook, and requests = origin {loopback v4/v6/mapped, private, public, near-loopback, malformed, loopback-looking malformed} x path {ordinary, local-only exact, local-only variants, dashboard/equity exempt, near-exempt} x credentials {none, spoofed forwarding headers, malformed header, never issued, exact, deleted/superseded, wrong/truncated/extended/upper-cased/empty secret, empty user, id case/space, colon, swapped, other token's secret, id|secret boundary shifted right/left}. distinct = (origin class, path class, credential class, model state of the pair, admitted/refused)")
	r.Assume("oracle demands only: non-loopback (net/netip parses the address and it is not loopback, or no loopback literal is recognisable) AND path not under /dashboard, /equity => admitted only if the Basic pair (split at the first colon, RFC 7617) is exactly a live (id, secret) or its last successful store check is <= 5 min old on the aged clock; local-only routes (exact path) never admitted for non-loopback; refusals are never violations (floors make sure admissions are seen)")
	r.Assume("api.AuthHandler and the route mux of /repo/api are not executed (package does not build here): that Authenticate's verdict is honoured and which URL forms the mux maps to a local-only handler are not observed")

	reported := map[string]bool{}
	runCase := func(c *ev.Case, disable bool, steps []step) {
		h := &hooks{count: func(n string) { c.Count(n, 1) }, distinct: c.Distinct}
		if disable {
			h.count = func(n string) { c.Count("authdisabled_"+n, 1) }
			h.distinct = func(f string, a ...interface{}) { c.Distinct("auth-disabled "+f, a...) }
		}
		fs, err := runHistory(dir, disable, steps, h)
		if err != nil {
			c.Inconclusive("temp dir: %v", err)
			return
		}
		c.Eval(int64(len(steps)))
		for _, f := range fs {
			wit := map[string]interface{}{"detail": f.detail, "failing_step_index": f.at, "auth_disabled": disable}
			if !reported[f.key] {
				reported[f.key] = true
				min := shrink(dir, disable, steps[:f.at+1], f.key)
				wit["minimal_history"] = describe(min)
				if mfs, err := runHistory(dir, disable, min, nil); err == nil {
					if mf := hasKey(mfs, f.key); mf != nil {
						wit["detail"] = mf.detail
					}
				}
			}
			c.Violation(f.key, f.what, wit)
		}
	}

	dh := directedHistories()
	r.Cases("directed", len(dh), func(c *ev.Case) {
		c.Sample(map[string]interface{}{"name": dh[c.Index].name, "steps": describe(dh[c.Index].steps)})
		runCase(c, false, dh[c.Index].steps)
	})
	r.Cases("histories", r.N(60, 6000), func(c *ev.Case) {
		steps := genHistory(c.Rand, 200)
		if c.WantSample() {
			c.Sample(map[string]interface{}{"first_steps": describe(steps[:10])})
		}
		runCase(c, false, steps)
	})
	r.Cases("auth-disabled", r.N(6, 300), func(c *ev.Case) {
		runCase(c, true, genHistory(c.Rand, 200))
	})

	r.Floor("request", 8000)
	r.Floor("create_ok", 500)
	r.Floor("create_refused", 100)
	r.Floor("delete_live", 300)
	r.Floor("age", 500)
	r.Floor("origin_loopback", 500)
	r.Floor("origin_nonloopback", 5000)
	r.Floor("origin_ambiguous", 300)
	r.Floor("loopback_ordinary_admitted", 200)
	r.Floor("loopback_protected_admitted", 50)
	r.Floor("nonloopback_protected_refused", 500)
	r.Floor("nonloopback_exempt_admitted", 300)
	r.Floor("nonloopback_model_live-store-check_admitted", 200)
	r.Floor("nonloopback_model_cached-live_admitted", 200)
	r.Floor("nonloopback_model_cached-deleted-within-window_admitted", 30)
	r.Floor("nonloopback_model_deleted-after-window_refused", 30)
	r.Floor("nonloopback_model_no-credentials_refused", 300)
	r.Floor("nonloopback_model_unknown-pair_refused", 1000)
	for _, cw := range credWeights {
		switch cw.k {
		case "exact":
			r.Floor("nonloopback_cred_exact_admitted", 400)
		case "deleted-or-superseded":
			r.Floor("nonloopback_cred_deleted-or-superseded_refused", 100)
		case "boundary-shifted-right", "boundary-shifted-left":
			// admitted (a violation) or refused: the class must have been presented
			r.Floor("nonloopback_presented_"+cw.k, 100)
		default:
			r.Floor("nonloopback_cred_"+cw.k+"_refused", 20)
		}
	}
	r.Floor("authdisabled_nonloopback_protected_refused", 50)
	r.Floor("authdisabled_nonloopback_ordinary_admitted", 200)
}
