package p36

import (
	"context"
	"errors"
	"net"
	"net/http"
	"strings"
	"sync"
	"testing"
	"time"

	"github.com/bytom/bytom/accesstoken"

	"verif/internal/ev"
)

// fakeAuth re-implements the documented rule with switchable one-line bugs, to
// check that workload + oracle (a) accept a correct authenticator and (b) catch
// realistic mistakes within a few quick-tier histories.  Not run by ./check.
type fakeAuth struct {
	store   *accesstoken.CredentialStore
	disable bool
	bug     string
	mu      sync.Mutex
	cache   map[[2]string]time.Time
	concat  map[string]time.Time
}

type ctxKey int

func (a *fakeAuth) VerifAgeTokenCache(d time.Duration) int {
	a.mu.Lock()
	defer a.mu.Unlock()
	for k, v := range a.cache {
		a.cache[k] = v.Add(-d)
	}
	for k, v := range a.concat {
		a.concat[k] = v.Add(-d)
	}
	return len(a.cache)
}

func (a *fakeAuth) check(user, pw string) bool {
	a.mu.Lock()
	defer a.mu.Unlock()
	if a.bug == "concat-key" {
		if t, ok := a.concat[user+pw]; ok && !time.Now().After(t.Add(window)) {
			return true
		}
		if a.store.Check(user, pw) != nil {
			return false
		}
		a.concat[user+pw] = time.Now()
		return true
	}
	k := [2]string{user, pw}
	if t, ok := a.cache[k]; ok && (a.bug == "never-expires" || !time.Now().After(t.Add(window))) {
		if a.bug == "sliding-window" {
			a.cache[k] = time.Now()
		}
		return true
	}
	if a.bug == "id-only" {
		if a.store.DB.Get([]byte(user)) == nil {
			return false
		}
	} else if a.store.Check(user, pw) != nil {
		return false
	}
	a.cache[k] = time.Now()
	return true
}

func (a *fakeAuth) Authenticate(req *http.Request) (*http.Request, error) {
	local := false
	if h, _, err := net.SplitHostPort(req.RemoteAddr); err == nil {
		switch a.bug {
		case "loopback-by-prefix":
			local = strings.HasPrefix(h, "127") || h == "::1"
		case "trust-forwarded-for":
			local = net.ParseIP(h).IsLoopback() || req.Header.Get("X-Forwarded-For") == "127.0.0.1"
		default:
			local = net.ParseIP(h).IsLoopback()
		}
	}
	p := req.URL.Path
	out := req.WithContext(context.WithValue(req.Context(), ctxKey(0), local))
	if !local {
		for i, q := range protectedPaths {
			if strings.HasPrefix(p, q) && !(a.bug == "restore-unprotected" && i == 1) {
				return out, errors.New("local only")
			}
		}
	}
	if p == "/dashboard" || strings.HasPrefix(p, "/dashboard/") || p == "/equity" || strings.HasPrefix(p, "/equity/") {
		return out, nil
	}
	if a.bug == "dashboard-prefix-loose" && strings.HasPrefix(p, "/dashboard") {
		return out, nil
	}
	if local || a.disable {
		return out, nil
	}
	user, pw, ok := req.BasicAuth()
	if !ok {
		return out, errors.New("no token")
	}
	if !a.check(user, pw) {
		return out, errors.New("invalid token")
	}
	return out, nil
}

func TestOracleSelfTest(t *testing.T) {
	dir := t.TempDir()
	bugs := []string{"", "concat-key", "never-expires", "sliding-window", "id-only", "loopback-by-prefix", "trust-forwarded-for", "restore-unprotected", "dashboard-prefix-loose"}
	for _, bug := range bugs {
		mk := func(store *accesstoken.CredentialStore, disable bool) authenticator {
			return &fakeAuth{store: store, disable: disable, bug: bug, cache: map[[2]string]time.Time{}, concat: map[string]time.Time{}}
		}
		keys := map[string]int{}
		for i := 0; i < 15; i++ { // a quarter of the quick tier
			steps := genHistory(ev.NewRand(1, "C36", "histories", i), 200)
			fs, err := runHistoryOn(mk, dir, false, steps, nil)
			if err != nil {
				t.Fatal(err)
			}
			for _, f := range fs {
				keys[f.key]++
			}
		}
		for _, d := range directedHistories() {
			fs, _ := runHistoryOn(mk, dir, false, d.steps, nil)
			for _, f := range fs {
				keys[f.key]++
			}
		}
		t.Logf("bug %q: %v", bug, keys)
		if bug == "" && len(keys) != 0 {
			t.Errorf("false alarms on a correct authenticator: %v", keys)
		}
		if bug != "" && len(keys) == 0 {
			t.Errorf("bug %q not caught", bug)
		}
	}
}
