package p36

import (
	"fmt"
	"runtime"
	"strings"
	"sync"
	"sync/atomic"
	"testing"
	"time"

	"github.com/bytom/bytom/accesstoken"
	dbm "github.com/bytom/bytom/database/leveldb"
	"github.com/bytom/bytom/net/http/authn"

	"verif/internal/ev"
)

// TestC36Concurrent: the admission rule for requests that arrive AT THE SAME TIME.  The HTTP server
// runs every request on its own goroutine; a client (or an attacker who knows a token id, ids are
// not secret) fires bursts.  Between bursts the world is at rest: tokens are created / deleted and
// the lookup cache is aged beyond its window, so that every burst starts with store lookups.  Inside
// a burst nothing changes, so the model is a constant: a non-loopback request to an ordinary route is
// authorised iff it presents exactly a live (id, secret) (or a pair admitted as live since the cache
// was last expired: that one may be answered from the cache).  The token database pauses inside Get, as
// a disk does, so that the lookups of one burst overlap.  The driver runs this function in a
// race-detector build as an extra run of C36.

// slowDB pauses inside Get (a scheduling point, as a disk read is).
type slowDB struct {
	dbm.DB
	pause func()
	gets  int64
}

func (s *slowDB) Get(key []byte) []byte {
	atomic.AddInt64(&s.gets, 1)
	s.pause()
	v := s.DB.Get(key)
	s.pause()
	return v
}

func TestC36Concurrent(t *testing.T) {
	r := ev.Start(t, "C36")
	defer r.Finish()
	dir := t.TempDir()
	r.Cases("concurrent", r.N(30, 1500), func(c *ev.Case) {
		rng := c.Rand
		d := fmt.Sprintf("%s/c%d", dir, c.Index)
		raw := dbm.NewDB("accesstoken", "leveldb", d)
		defer raw.Close()
		mode := []string{"sleep", "gosched", "none"}[c.Index%3]
		var jit uint64
		seed := rng.Uint64()
		db := &slowDB{DB: raw, pause: func() {
			switch mode {
			case "sleep":
				x := (atomic.AddUint64(&jit, 1) + seed) * 0x9e3779b97f4a7c15
				time.Sleep(time.Duration(20+x>>57) * time.Microsecond)
			case "gosched":
				runtime.Gosched()
			}
		}}
		store := accesstoken.NewStore(db)
		api := authn.NewAPI(store, false)
		ids := []string{"alice", "bob", "carol"}
		live := map[string]string{}
		dead := map[string][]string{} // id -> secrets of deleted / superseded tokens
		create := func(id string) {
			if s, ok := live[id]; ok {
				store.Delete(id)
				dead[id] = append(dead[id], s)
				delete(live, id)
			}
			tok, err := store.Create(id, "client")
			if err != nil {
				return
			}
			parts := strings.SplitN(tok.Token, ":", 2)
			if len(parts) == 2 {
				live[id] = parts[1]
			}
		}
		for _, id := range ids[:2] {
			create(id)
		}
		const workers = 8
		type obs struct {
			class, user, pw string
			admitted        bool
			err             string
			worker, seq     int
		}
		rounds := rng.Range(6, 12)
		maybeCached := map[pairKey]bool{} // pairs admitted as live since the cache was last expired: may be admitted from the cache
		for rd := 0; rd < rounds; rd++ {
			// at rest: change the token set, expire the cache
			switch rng.Intn(4) {
			case 0:
				create(ids[rng.Intn(len(ids))])
			case 1:
				id := ids[rng.Intn(len(ids))]
				if s, ok := live[id]; ok {
					store.Delete(id)
					dead[id] = append(dead[id], s)
					delete(live, id)
				}
			}
			if len(live) == 0 {
				create(ids[rng.Intn(len(ids))])
			}
			if rng.Chance(3, 4) {
				api.VerifAgeTokenCache(6 * time.Minute) // beyond the window: nothing cached is valid any more
				maybeCached = map[pairKey]bool{}
				c.Count("concurrent_bursts_on_expired_cache", 1)
			}
			// the burst: most requests aim at ONE id
			hot := ids[rng.Intn(len(ids))]
			for k := range live {
				if rng.Chance(2, 3) {
					hot = k
					break
				}
			}
			snapshot := map[string]string{}
			for k, v := range live {
				snapshot[k] = v
			}
			var wg sync.WaitGroup
			start := make(chan struct{})
			results := make([][]obs, workers)
			for w := 0; w < workers; w++ {
				gr := rng.Fork()
				wg.Add(1)
				go func(w int) {
					defer wg.Done()
					<-start
					for q := 0; q < 6; q++ {
						id := hot
						if gr.Chance(1, 5) {
							id = ids[gr.Intn(len(ids))]
						}
						var class, pw string
						switch x := gr.Intn(10); {
						case x < 4 && snapshot[id] != "":
							class, pw = "exact", snapshot[id]
						case x < 7:
							class, pw = "wrong-secret", fmt.Sprintf("%064x", gr.Uint64())
						case x < 8 && len(dead[id]) > 0:
							class, pw = "deleted-or-superseded", dead[id][gr.Intn(len(dead[id]))]
						case x < 9:
							class, pw = "empty-secret", ""
						default:
							// the secret of another live token
							class, pw = "wrong-secret", fmt.Sprintf("%064x", gr.Uint64())
							for k, v := range snapshot {
								if k != id {
									class, pw = "other-tokens-secret", v
									break
								}
							}
						}
						remote := []string{"203.0.113.7:60000", "10.1.2.3:4444", "[2001:db8::1]:443"}[gr.Intn(3)]
						_, err := api.Authenticate(mkReq(remote, "/create-key", basic(id, pw), false))
						o := obs{class: class, user: id, pw: pw, admitted: err == nil, worker: w, seq: q}
						if err != nil {
							o.err = err.Error()
						}
						results[w] = append(results[w], o)
					}
				}(w)
			}
			close(start)
			wg.Wait()
			c.Count("concurrent_bursts", 1)
			for _, rs := range results {
				for _, o := range rs {
					c.Eval(1)
					authorised := snapshot[o.user] != "" && snapshot[o.user] == o.pw
					if authorised && o.admitted {
						maybeCached[pairKey{o.user, o.pw}] = true
					} else if maybeCached[pairKey{o.user, o.pw}] {
						authorised = true
						c.Count("concurrent_pairs_possibly_cached_not_judged", 1)
					}
					res := "refused"
					if o.admitted {
						res = "admitted"
					}
					c.Count("concurrent_request", 1)
					c.Count("concurrent_"+o.class+"_"+res, 1)
					c.Distinct("concurrent %s %s %s", mode, o.class, res)
					if o.admitted && !authorised {
						var all []string
						for _, rs2 := range results {
							for _, p := range rs2 {
								if p.user == o.user {
									all = append(all, fmt.Sprintf("w%d#%d %s:%s… -> admitted=%v", p.worker, p.seq, p.class, short8(p.pw), p.admitted))
								}
							}
						}
						c.Violation("concurrent:admitted-unauthorised:"+o.class,
							"a non-loopback request fired together with other requests was admitted although its credentials are not (id, secret) of a live token (the cache was expired or never held this pair)",
							map[string]interface{}{"presented_user": o.user, "presented_password": o.pw, "live_tokens_during_the_burst": snapshot, "burst_round": rd,
								"db_pause": mode, "requests_of_the_burst_with_this_id": all})
						return
					}
				}
			}
		}
		c.Count("concurrent_store_lookups", atomic.LoadInt64(&db.gets))
		if c.WantSample() {
			c.Sample(map[string]interface{}{"rounds": rounds, "workers": workers, "requests_per_worker_per_burst": 6, "db_pause": mode, "store_lookups": db.gets})
		}
	})
	r.Floor("concurrent_request", 8000)
	r.Floor("concurrent_bursts_on_expired_cache", 100)
	r.Floor("concurrent_exact_admitted", 1500)
	r.Floor("concurrent_wrong-secret_refused", 1500)
	r.Floor("concurrent_store_lookups", 3000)
}

func short8(s string) string {
	if len(s) > 8 {
		return s[:8]
	}
	return s
}
