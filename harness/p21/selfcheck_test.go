package p21

import (
	"fmt"
	"os"
	"strings"
	"testing"

	"github.com/bytom/bytom/database"
	dbm "github.com/bytom/bytom/database/leveldb"
	"github.com/bytom/bytom/protocol/bc"
	"github.com/bytom/bytom/protocol/bc/types"
	"github.com/bytom/bytom/protocol/state"

	"verif/internal/ev"
)

// staleStore is a real database.Store with one extra, deliberately wrong cache
// in front of one getter: the one-line invalidation bugs the monitor must catch.
type staleStore struct {
	*database.Store
	bug     string
	main    map[uint64]*bc.Hash
	hashes  map[uint64][]*bc.Hash
	cps     map[bc.Hash]*state.Checkpoint
	headers map[bc.Hash]*types.BlockHeader
	txs     map[bc.Hash][]*types.Tx
}

func newStale(db dbm.DB, bug string) *staleStore {
	return &staleStore{Store: database.NewStore(db), bug: bug, main: map[uint64]*bc.Hash{}, hashes: map[uint64][]*bc.Hash{},
		cps: map[bc.Hash]*state.Checkpoint{}, headers: map[bc.Hash]*types.BlockHeader{}, txs: map[bc.Hash][]*types.Tx{}}
}

func (s *staleStore) GetMainChainHash(h uint64) (*bc.Hash, error) {
	if s.bug != "mainchain-never-invalidated" && s.bug != "mainchain-only-last-height-invalidated" {
		return s.Store.GetMainChainHash(h)
	}
	if v, ok := s.main[h]; ok {
		return v, nil
	}
	v, err := s.Store.GetMainChainHash(h)
	if err == nil {
		s.main[h] = v
	}
	return v, err
}

func (s *staleStore) SaveChainStatus(bh *types.BlockHeader, main []*types.BlockHeader, v *state.UtxoViewpoint, c *state.ContractViewpoint, fh uint64, f *bc.Hash) error {
	err := s.Store.SaveChainStatus(bh, main, v, c, fh, f)
	if s.bug == "mainchain-only-last-height-invalidated" && len(main) > 0 {
		delete(s.main, main[len(main)-1].Height) // the loop-variable-capture bug: only the last height is cleared
	}
	return err
}

func (s *staleStore) GetBlockHashesByHeight(h uint64) ([]*bc.Hash, error) {
	if s.bug != "blockhashes-never-invalidated" {
		return s.Store.GetBlockHashesByHeight(h)
	}
	if v, ok := s.hashes[h]; ok {
		return v, nil
	}
	v, err := s.Store.GetBlockHashesByHeight(h)
	if err == nil {
		s.hashes[h] = v
	}
	return v, err
}

func (s *staleStore) GetCheckpoint(h *bc.Hash) (*state.Checkpoint, error) {
	if s.bug != "checkpoint-never-invalidated" {
		return s.Store.GetCheckpoint(h)
	}
	if v, ok := s.cps[*h]; ok {
		return v, nil
	}
	v, err := s.Store.GetCheckpoint(h)
	if err == nil {
		s.cps[*h] = v
	}
	return v, err
}

func (s *staleStore) GetBlockHeader(h *bc.Hash) (*types.BlockHeader, error) {
	if s.bug != "header-never-invalidated" {
		return s.Store.GetBlockHeader(h)
	}
	if v, ok := s.headers[*h]; ok {
		return v, nil
	}
	v, err := s.Store.GetBlockHeader(h)
	if err == nil {
		s.headers[*h] = v
	}
	return v, err
}

type collect struct {
	viol   map[string]int
	inconc []string
}

func (c *collect) Violation(key, what string, w interface{}) { c.viol[key]++ }
func (c *collect) Count(string, int64)                       {}
func (c *collect) Distinct(string, ...interface{})           {}
func (c *collect) Inconclusive(f string, a ...interface{}) {
	c.inconc = append(c.inconc, fmt.Sprintf(f, a...))
}

// TestC21OracleSelfCheck is not a monitor (./check runs ^TestC21$ only).  It
// shows that each injected invalidation bug yields its own violation key within
// a small fraction of the quick tier (3000 histories).
func TestC21OracleSelfCheck(t *testing.T) {
	const budget = 150 // histories
	dir := t.TempDir()
	expect := map[string]string{
		"":                                       "",
		"mainchain-never-invalidated":            "GetMainChainHash:after-SaveChainStatus:differs-from-fresh",
		"mainchain-only-last-height-invalidated": "GetMainChainHash:after-SaveChainStatus:differs-from-fresh",
		"blockhashes-never-invalidated":          "GetBlockHashesByHeight:after-SaveBlock:differs-from-fresh",
		"checkpoint-never-invalidated":           "GetCheckpoint:after-SaveCheckpoints:differs-from-fresh",
		"header-never-invalidated":               "GetBlockHeader:after-SaveBlockHeader:differs-from-fresh",
	}
	baseline := map[string]bool{}
	for _, bug := range []string{"", "mainchain-never-invalidated", "mainchain-only-last-height-invalidated", "blockhashes-never-invalidated", "checkpoint-never-invalidated", "header-never-invalidated"} {
		d, _ := os.MkdirTemp(dir, "s")
		db, err := dbm.NewGoLevelDB("x", d)
		if err != nil {
			t.Fatal(err)
		}
		c := &collect{viol: map[string]int{}}
		found := -1
		for i := 0; i < budget; i++ {
			clearDB(db)
			_, _ = runHistory(c, ev.NewRand(1, "C21", "selfcheck", i), db, newStale(db, bug), func(db dbm.DB) storeAPI { return database.NewStore(db) })
			if expect[bug] != "" && c.viol[expect[bug]] > 0 && found < 0 {
				found = i + 1
				break
			}
		}
		db.Close()
		os.RemoveAll(d)
		if len(c.inconc) > 0 {
			t.Errorf("bug %q: inconclusive: %s", bug, c.inconc[0])
		}
		if bug == "" {
			for k := range c.viol {
				baseline[k] = true
			}
			keys := []string{}
			for k := range c.viol {
				keys = append(keys, k)
			}
			t.Logf("unchanged store: keys %s", strings.Join(keys, "  "))
			continue
		}
		if baseline[expect[bug]] {
			t.Errorf("bug %q: expected key %s is already reported on the unchanged store", bug, expect[bug])
		}
		if found < 0 {
			t.Errorf("bug %q not detected as %s in %d histories (got %v)", bug, expect[bug], budget, c.viol)
		} else {
			t.Logf("bug %-42q detected after %3d histories as %s", bug, found, expect[bug])
		}
	}
}
