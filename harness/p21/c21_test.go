// C21 — store caches are transparent.
//
// A long-lived database.Store (its LRU caches fill up and are invalidated by
// its own write methods) is driven through random histories of writes and
// reads over a small universe of blocks and checkpoints on GoLevelDB.  At
// every read the same getter is evaluated
//
//	(1) on the long-lived store,
//	(2) on the long-lived store again,
//	(3) on a brand-new database.NewStore over the same DB (empty caches; for the
//	    cached getters also through the raw database.Get* functions),
//
// and the three deep snapshots (canonical encodings taken immediately, never
// pointer comparisons) must be equal: (1)==(3) "the cache shows what the
// database holds", (1)==(2) "reading does not change what a later read
// returns".  Every write goes through the long-lived store.  Objects obtained
// from the store are mutated only the way protocol/casper does it: a header
// gets a SupLink added and is saved at once (saveVerificationToHeader), a
// checkpoint gets its status changed and is saved at once (authVerification).
package p21

import (
	"crypto/sha256"
	"encoding/hex"
	"encoding/json"
	"fmt"
	"io"
	"os"
	"sort"
	"strings"
	"testing"

	"github.com/sirupsen/logrus"

	"github.com/bytom/bytom/database"
	dbm "github.com/bytom/bytom/database/leveldb"
	"github.com/bytom/bytom/database/storage"
	"github.com/bytom/bytom/protocol/bc"
	"github.com/bytom/bytom/protocol/bc/types"
	"github.com/bytom/bytom/protocol/state"

	"verif/internal/ev"
)

func TestMain(m *testing.M) {
	logrus.SetOutput(io.Discard)
	logrus.SetLevel(logrus.PanicLevel)
	os.Exit(m.Run())
}

// storeAPI is the complete method set of *database.Store used here (the
// self-check wraps a real store behind it to inject stale caches).
type storeAPI interface {
	GetBlockHeader(*bc.Hash) (*types.BlockHeader, error)
	BlockExist(*bc.Hash) bool
	GetBlock(*bc.Hash) (*types.Block, error)
	GetBlockTransactions(*bc.Hash) ([]*types.Tx, error)
	GetBlockHashesByHeight(uint64) ([]*bc.Hash, error)
	GetMainChainHash(uint64) (*bc.Hash, error)
	GetStoreStatus() *state.BlockStoreState
	GetUtxo(*bc.Hash) (*storage.UtxoEntry, error)
	GetContract([32]byte) ([]byte, error)
	GetTransactionsUtxo(*state.UtxoViewpoint, []*bc.Tx) error
	GetCheckpoint(*bc.Hash) (*state.Checkpoint, error)
	GetCheckpointsByHeight(uint64) ([]*state.Checkpoint, error)
	CheckpointsFromNode(uint64, *bc.Hash) ([]*state.Checkpoint, error)

	SaveBlock(*types.Block) error
	SaveBlockHeader(*types.BlockHeader) error
	SaveChainStatus(*types.BlockHeader, []*types.BlockHeader, *state.UtxoViewpoint, *state.ContractViewpoint, uint64, *bc.Hash) error
	SaveCheckpoints([]*state.Checkpoint) error
}

var _ storeAPI = (*database.Store)(nil)

type sink interface {
	Violation(key, what string, witness interface{})
	Count(name string, n int64)
	Distinct(format string, a ...interface{})
	Inconclusive(format string, a ...interface{})
}

// ---------------------------------------------------------------- snapshots

// part is one independently comparable piece of a getter result; sup is the
// in-memory SupLinks list of a checkpoint (merged from the header by the store).
type part struct {
	id   string // tracking id of the stored object the piece comes from: "hdr:<hash>", "txs:<hash>", "cp:<hash>", "height:<n>", "chain" ("" = the getter's own ids)
	hash string // block hash, for checkpoint pieces (SupLinks come from "hdr:<hash>", the body from "cp:<hash>")
	body string
	sup  []string
}

type obs struct {
	err   string
	parts []part
}

func (o obs) String() string {
	if o.err != "" {
		return "error: " + o.err
	}
	s := []string{}
	for _, p := range o.parts {
		t := p.body
		if p.sup != nil {
			t += fmt.Sprintf(" SupLinks(%d)=%v", len(p.sup), p.sup)
		}
		s = append(s, t)
	}
	return "[" + strings.Join(s, " | ") + "]"
}

func errObs(err error) obs { return obs{err: err.Error()} }

func short(h bc.Hash) string { return h.String()[:8] }

func renderSupLink(s *types.SupLink) string {
	if s == nil {
		return "<nil>"
	}
	sig := []string{}
	for i, g := range s.Signatures {
		if len(g) > 0 {
			d := sha256.Sum256(g) // full content is compared through the digest; keeps witnesses readable
			sig = append(sig, fmt.Sprintf("%d:%x..(%dB,#%x)", i, g[:2], len(g), d[:6]))
		}
	}
	return fmt.Sprintf("{src=%d/%s sigs=%s}", s.SourceHeight, short(s.SourceHash), strings.Join(sig, ","))
}

func renderMap(m map[string]uint64) string {
	if m == nil {
		return "nil"
	}
	ks := make([]string, 0, len(m))
	for k := range m {
		ks = append(ks, k)
	}
	sort.Strings(ks)
	s := []string{}
	for _, k := range ks {
		s = append(s, fmt.Sprintf("%s=%d", k, m[k]))
	}
	return "{" + strings.Join(s, ",") + "}"
}

func snapHeader(h *types.BlockHeader) part {
	enc, err := h.MarshalText()
	if err != nil {
		return part{body: "unencodable header: " + err.Error()}
	}
	hash := h.Hash()
	return part{id: "hdr:" + hash.String(), body: fmt.Sprintf("header %s h=%d witness=%x suplinks=%d enc=%s", short(hash), h.Height, []byte(h.BlockWitness), len(h.SupLinks), enc)}
}

func snapTxs(txs []*types.Tx) string {
	s := []string{}
	for _, tx := range txs {
		if tx == nil {
			s = append(s, "<nil>")
			continue
		}
		enc, err := tx.TxData.MarshalText()
		if err != nil {
			s = append(s, "unencodable tx: "+err.Error())
			continue
		}
		id := "<no bc.Tx>"
		if tx.Tx != nil {
			id = short(tx.ID)
		}
		s = append(s, id+":"+string(enc))
	}
	return fmt.Sprintf("txs(%d)[%s]", len(txs), strings.Join(s, ","))
}

func snapCheckpoint(c *state.Checkpoint) part {
	if c == nil {
		return part{body: "<nil checkpoint>"}
	}
	p := part{id: "cp:" + c.Hash.String(), hash: c.Hash.String(), sup: []string{}}
	p.body = fmt.Sprintf("checkpoint %s h=%d parent=%s ts=%d status=%d rewards=%s votes=%s parentptr=%v",
		short(c.Hash), c.Height, short(c.ParentHash), c.Timestamp, c.Status, renderMap(c.Rewards), renderMap(c.Votes), c.Parent != nil)
	for _, s := range c.SupLinks {
		p.sup = append(p.sup, renderSupLink(s))
	}
	return p
}

func snapCheckpoints(cs []*state.Checkpoint, err error) obs {
	if err != nil {
		return errObs(err)
	}
	o := obs{parts: []part{{body: fmt.Sprintf("%d checkpoints", len(cs))}}}
	for _, c := range cs {
		o.parts = append(o.parts, snapCheckpoint(c))
	}
	return o
}

// ---------------------------------------------------------------- getters

// getter evaluates one read on a store and snapshots the result at once.
type getter struct {
	name string
	arg  string               // rendered argument
	ids  []string             // tracking ids of the stored objects the result depends on (names the "preceding write")
	eval func(s storeAPI) obs // through the Store
	raw  func(db dbm.DB) *obs // through the raw database.Get* function, nil when there is none
}

func gHeader(h bc.Hash) getter {
	return getter{name: "GetBlockHeader", arg: short(h), ids: []string{"hdr:" + h.String()},
		eval: func(s storeAPI) obs {
			bh, err := s.GetBlockHeader(&h)
			if err != nil {
				return errObs(err)
			}
			return obs{parts: []part{snapHeader(bh)}}
		},
		raw: func(db dbm.DB) *obs {
			bh, err := database.GetBlockHeader(db, &h)
			if err != nil {
				o := errObs(err)
				return &o
			}
			return &obs{parts: []part{snapHeader(bh)}}
		}}
}

func gExist(h bc.Hash) getter {
	return getter{name: "BlockExist", arg: short(h), ids: []string{"hdr:" + h.String()}, eval: func(s storeAPI) obs {
		return obs{parts: []part{{body: fmt.Sprint(s.BlockExist(&h))}}}
	}}
}

func gBlock(h bc.Hash) getter {
	return getter{name: "GetBlock", arg: short(h), ids: []string{"hdr:" + h.String(), "txs:" + h.String()}, eval: func(s storeAPI) obs {
		b, err := s.GetBlock(&h)
		if err != nil {
			return errObs(err)
		}
		return obs{parts: []part{snapHeader(&b.BlockHeader), {id: "txs:" + h.String(), body: snapTxs(b.Transactions)}}}
	}}
}

func gTxs(h bc.Hash) getter {
	return getter{name: "GetBlockTransactions", arg: short(h), ids: []string{"txs:" + h.String()},
		eval: func(s storeAPI) obs {
			txs, err := s.GetBlockTransactions(&h)
			if err != nil {
				return errObs(err)
			}
			return obs{parts: []part{{body: snapTxs(txs)}}}
		},
		raw: func(db dbm.DB) *obs {
			txs, err := database.GetBlockTransactions(db, &h)
			if err != nil {
				o := errObs(err)
				return &o
			}
			return &obs{parts: []part{{body: snapTxs(txs)}}}
		}}
}

func snapHashes(hs []*bc.Hash) string {
	s := []string{}
	for _, h := range hs {
		if h == nil {
			s = append(s, "<nil>")
		} else {
			s = append(s, short(*h))
		}
	}
	return fmt.Sprintf("hashes(%d)%v", len(hs), s)
}

func heightID(h uint64) string { return fmt.Sprintf("height:%d", h) }

func gHashes(height uint64) getter {
	return getter{name: "GetBlockHashesByHeight", arg: fmt.Sprint(height), ids: []string{heightID(height)},
		eval: func(s storeAPI) obs {
			hs, err := s.GetBlockHashesByHeight(height)
			if err != nil {
				return errObs(err)
			}
			return obs{parts: []part{{body: snapHashes(hs)}}}
		},
		raw: func(db dbm.DB) *obs {
			hs, err := database.GetBlockHashesByHeight(db, height)
			if err != nil {
				o := errObs(err)
				return &o
			}
			return &obs{parts: []part{{body: snapHashes(hs)}}}
		}}
}

func gMain(height uint64) getter {
	return getter{name: "GetMainChainHash", arg: fmt.Sprint(height), ids: []string{"chain"},
		eval: func(s storeAPI) obs {
			h, err := s.GetMainChainHash(height)
			if err != nil {
				return errObs(err)
			}
			return obs{parts: []part{{body: "main " + short(*h)}}}
		},
		raw: func(db dbm.DB) *obs {
			h, err := database.GetMainChainHash(db, height)
			if err != nil {
				o := errObs(err)
				return &o
			}
			return &obs{parts: []part{{body: "main " + short(*h)}}}
		}}
}

func gStatus() getter {
	return getter{name: "GetStoreStatus", arg: "", ids: []string{"chain"}, eval: func(s storeAPI) obs {
		b, err := json.Marshal(s.GetStoreStatus())
		if err != nil {
			return errObs(err)
		}
		return obs{parts: []part{{body: string(b)}}}
	}}
}

func gUtxo(h bc.Hash) getter {
	return getter{name: "GetUtxo", arg: short(h), ids: []string{"chain"}, eval: func(s storeAPI) obs {
		u, err := s.GetUtxo(&h)
		if err != nil {
			return errObs(err)
		}
		return obs{parts: []part{{body: fmt.Sprintf("utxo type=%d height=%d spent=%v", u.Type, u.BlockHeight, u.Spent)}}}
	}}
}

func gContract(h [32]byte) getter {
	return getter{name: "GetContract", arg: hex.EncodeToString(h[:4]), ids: []string{"chain"}, eval: func(s storeAPI) obs {
		c, err := s.GetContract(h)
		if err != nil {
			return errObs(err)
		}
		return obs{parts: []part{{body: "contract " + hex.EncodeToString(c)}}}
	}}
}

func gTxUtxo(txs []*bc.Tx) getter {
	return getter{name: "GetTransactionsUtxo", arg: fmt.Sprintf("%d txs", len(txs)), ids: []string{"chain"}, eval: func(s storeAPI) obs {
		view := state.NewUtxoViewpoint()
		if err := s.GetTransactionsUtxo(view, txs); err != nil {
			return errObs(err)
		}
		es := []string{}
		for k, u := range view.Entries {
			es = append(es, fmt.Sprintf("%s:type=%d,height=%d,spent=%v", short(k), u.Type, u.BlockHeight, u.Spent))
		}
		sort.Strings(es)
		return obs{parts: []part{{body: fmt.Sprintf("view(%d)%v", len(es), es)}}}
	}}
}

func gCheckpoint(h bc.Hash) getter {
	return getter{name: "GetCheckpoint", arg: short(h), ids: []string{"cp:" + h.String(), "hdr:" + h.String()}, eval: func(s storeAPI) obs {
		c, err := s.GetCheckpoint(&h)
		if err != nil {
			return errObs(err)
		}
		return obs{parts: []part{snapCheckpoint(c)}}
	}}
}

func gCheckpointsByHeight(height uint64) getter {
	return getter{name: "GetCheckpointsByHeight", arg: fmt.Sprint(height), ids: []string{"cps"}, eval: func(s storeAPI) obs {
		return snapCheckpoints(s.GetCheckpointsByHeight(height))
	}}
}

func gCheckpointsFromNode(height uint64, h bc.Hash) getter {
	return getter{name: "CheckpointsFromNode", arg: fmt.Sprintf("%d,%s", height, short(h)), ids: []string{"cps"}, eval: func(s storeAPI) obs {
		return snapCheckpoints(s.CheckpointsFromNode(height, &h))
	}}
}

// compare classifies the difference between the snapshot a (long-lived store)
// and b (reference) of the same getter.  symptom "" = equal; ids = tracking ids
// of the stored objects the first differing piece comes from (nil = unknown).
//
// The verdict is only "equal or not".  To NAME the difference of a checkpoint's
// in-memory SupLinks list (which the store merges from the block header), the
// list is compared with hdrSup(hash): the SupLinks of the header as the
// long-lived store itself returns it.  Equal to that list: the checkpoint read
// is consistent with the store's header, so the header is what is stale
// ("differs", header id).  That list preceded by extra entries: the list kept
// growing inside a cached checkpoint object ("suplinks-accumulated").
func compare(a, b obs, hdrSup func(hash string) ([]string, bool)) (symptom string, ids []string) {
	if a.err != b.err || len(a.parts) != len(b.parts) {
		return "differs", nil
	}
	for i := range a.parts {
		p, q := a.parts[i], b.parts[i]
		if p.body != q.body {
			if p.id == "" {
				return "differs", nil
			}
			return "differs", []string{p.id}
		}
		if strings.Join(p.sup, ";") != strings.Join(q.sup, ";") {
			both := []string{"cp:" + p.hash, "hdr:" + p.hash}
			hs, ok := hdrSup(p.hash)
			switch n := len(p.sup) - len(hs); {
			case !ok:
				return "differs", both
			case strings.Join(p.sup, ";") == strings.Join(hs, ";"):
				return "differs", []string{"hdr:" + p.hash}
			case n > 0 && strings.Join(p.sup[n:], ";") == strings.Join(hs, ";"):
				return "suplinks-accumulated", both
			}
			return "differs", both
		}
	}
	return "", nil
}

// ---------------------------------------------------------------- universe

type blockInfo struct {
	block  *types.Block // the content last handed to SaveBlock / first content
	hash   bc.Hash
	saved  bool
	parent int // index, -1 for the root
}

type universe struct {
	rng       *ev.Rand
	blocks    []*blockInfo
	cps       []*state.Checkpoint // templates, (height, hash) of some block
	heights   uint64              // heights 0..heights
	outIDs    []bc.Hash
	contracts [][32]byte
	bcTxs     []*bc.Tx
}

func randHash(rng *ev.Rand) bc.Hash {
	var b [32]byte
	copy(b[:], rng.Bytes(32))
	return bc.NewHash(b)
}

func randSupLinks(rng *ev.Rand, n int) types.SupLinks {
	var sl types.SupLinks
	for i := 0; i < n; i++ {
		l := &types.SupLink{SourceHeight: uint64(rng.Intn(4)), SourceHash: randHash(rng)}
		for k := 0; k < 1+rng.Intn(3); k++ {
			l.Signatures[rng.Intn(len(l.Signatures))] = rng.Bytes(64)
		}
		sl = append(sl, l)
	}
	return sl
}

func (u *universe) makeTx(spend bool) *types.Tx {
	rng := u.rng
	var asset [32]byte
	copy(asset[:], rng.Bytes(32))
	aid := bc.NewAssetID(asset)
	var in *types.TxInput
	if spend {
		in = types.NewSpendInput([][]byte{rng.Bytes(1 + rng.Intn(8))}, randHash(rng), aid, uint64(1+rng.Intn(1000)), uint64(rng.Intn(3)), []byte{0x51}, nil)
	} else {
		in = types.NewCoinbaseInput(rng.Bytes(1 + rng.Intn(8)))
	}
	out := types.NewOriginalTxOutput(aid, uint64(1+rng.Intn(1000)), []byte{0x51}, nil)
	return types.NewTx(types.TxData{Version: 1, TimeRange: uint64(rng.Intn(5)), Inputs: []*types.TxInput{in}, Outputs: []*types.TxOutput{out}})
}

func newUniverse(rng *ev.Rand) *universe {
	u := &universe{rng: rng, heights: 3}
	nb := rng.Range(3, 8)
	for i := 0; i < nb; i++ {
		bi := &blockInfo{parent: -1}
		b := &types.Block{BlockHeader: types.BlockHeader{Version: 1, Timestamp: 1600000000000 + uint64(rng.Intn(1000000))}}
		if i > 0 {
			// parents among the earlier blocks of height < 3: forks at every height
			for try := 0; try < 20; try++ {
				p := rng.Intn(i)
				if u.blocks[p].block.Height < u.heights {
					bi.parent = p
					break
				}
			}
			if bi.parent < 0 {
				bi.parent = 0
			}
			pb := u.blocks[bi.parent]
			b.Height = pb.block.Height + 1
			b.PreviousBlockHash = pb.hash
		}
		for k := rng.Intn(3); k > 0; k-- {
			tx := u.makeTx(rng.Chance(1, 2))
			b.Transactions = append(b.Transactions, tx)
			u.bcTxs = append(u.bcTxs, tx.Tx)
			u.outIDs = append(u.outIDs, tx.Tx.SpentOutputIDs...)
			u.outIDs = append(u.outIDs, *tx.ResultIds[0])
		}
		b.TransactionsMerkleRoot = randHash(rng)
		if rng.Chance(2, 3) {
			b.BlockWitness = rng.Bytes(64)
		}
		b.SupLinks = randSupLinks(rng, rng.Pick([]int{3, 4, 2}))
		bi.block = b
		bi.hash = b.Hash()
		u.blocks = append(u.blocks, bi)
	}
	for len(u.outIDs) < 3 {
		u.outIDs = append(u.outIDs, randHash(rng))
	}
	for i := 0; i < 3; i++ {
		var c [32]byte
		copy(c[:], rng.Bytes(32))
		u.contracts = append(u.contracts, c)
	}
	// <= 6 checkpoints at <= 3 heights, each for one block of the universe
	cpHeights := map[uint64]bool{}
	perm := rng.Perm(len(u.blocks))
	for _, i := range perm {
		bi := u.blocks[i]
		if len(u.cps) >= 6 {
			break
		}
		if !cpHeights[bi.block.Height] && len(cpHeights) >= 3 {
			continue
		}
		cpHeights[bi.block.Height] = true
		u.cps = append(u.cps, u.checkpointFor(bi))
	}
	return u
}

func (u *universe) checkpointFor(bi *blockInfo) *state.Checkpoint {
	rng := u.rng
	c := &state.Checkpoint{Height: bi.block.Height, Hash: bi.hash, ParentHash: bi.block.PreviousBlockHash, Timestamp: bi.block.Timestamp,
		Status: state.CheckpointStatus(rng.Intn(4))}
	if rng.Bool() {
		c.Rewards = map[string]uint64{hex.EncodeToString(rng.Bytes(3)): uint64(rng.Intn(100))}
	}
	if rng.Bool() {
		c.Votes = map[string]uint64{hex.EncodeToString(rng.Bytes(3)): uint64(rng.Intn(100)), hex.EncodeToString(rng.Bytes(3)): uint64(rng.Intn(100))}
	}
	return c
}

// variant returns the same block (same hash: the hash commits to neither the
// witness, nor the SupLinks, nor transaction witnesses) with other uncommitted data.
func (u *universe) variant(b *types.Block) (*types.Block, string) {
	rng := u.rng
	nb := &types.Block{BlockHeader: b.BlockHeader, Transactions: b.Transactions}
	what := ""
	switch rng.Intn(3) {
	case 0:
		nb.SupLinks = randSupLinks(rng, 1+rng.Intn(2))
		what = "other SupLinks"
	case 1:
		nb.BlockWitness = rng.Bytes(64)
		what = "other witness"
	default:
		nb.SupLinks = randSupLinks(rng, rng.Intn(2))
		nb.BlockWitness = rng.Bytes(64)
		what = "other witness and SupLinks"
		// a transaction whose witness arguments differ keeps its ID
		for i, tx := range b.Transactions {
			if sp, ok := tx.Inputs[0].TypedInput.(*types.SpendInput); ok {
				in := types.NewSpendInput([][]byte{rng.Bytes(1 + rng.Intn(8))}, sp.SourceID, *sp.AssetId, sp.Amount, sp.SourcePosition, sp.ControlProgram, sp.StateData)
				ntx := types.NewTx(types.TxData{Version: tx.Version, TimeRange: tx.TimeRange, Inputs: []*types.TxInput{in}, Outputs: tx.Outputs})
				if ntx.ID == tx.ID {
					nb.Transactions = append(append(append([]*types.Tx{}, b.Transactions[:i]...), ntx), b.Transactions[i+1:]...)
					what += " and transaction arguments"
				}
				break
			}
		}
	}
	return nb, what
}

// ---------------------------------------------------------------- history

type history struct {
	s     sink
	rng   *ev.Rand
	u     *universe
	db    dbm.DB
	long  storeAPI
	fresh func(db dbm.DB) storeAPI
	trace []string
	last  map[string]lastWrite // tracking id -> the last write that touched it
	seq   int
	warm  map[string][]string // getter+arg read on the long-lived store since the last write touching its objects -> their ids
	reads int
}

func (h *history) logf(f string, a ...interface{}) { h.trace = append(h.trace, fmt.Sprintf(f, a...)) }

type lastWrite struct {
	kind string
	seq  int
}

// lastKind names the most recent write among the given tracking ids.
func (h *history) lastKind(ids []string) string {
	best := lastWrite{kind: "no-write", seq: -1}
	for _, id := range ids {
		if w, ok := h.last[id]; ok && w.seq > best.seq {
			best = w
		}
	}
	return best.kind
}

func (h *history) wrote(kind, style string, ids ...string) {
	h.seq++
	for _, id := range ids {
		h.last[id] = lastWrite{kind, h.seq}
	}
	// a write makes the cached reads of the touched objects "cold" again
	for k, deps := range h.warm {
		for _, d := range deps {
			for _, id := range ids {
				if d == id {
					delete(h.warm, k)
				}
			}
		}
	}
	h.s.Count("write:"+kind, 1)
	if style != "" {
		h.s.Count("write:"+kind+"["+style+"]", 1)
	}
}

func (h *history) fail(op string, err error) {
	h.s.Inconclusive("%s failed on a well-formed input: %v (ops=%v)", op, err, h.trace)
}

// read is the oracle.
func (h *history) read(g getter) {
	h.reads++
	h.logf("%s(%s)", g.name, g.arg)
	v1 := g.eval(h.long)
	v2 := g.eval(h.long)
	vf := g.eval(h.fresh(h.db))
	wkey := g.name + ":" + g.arg
	// first-after-write: nothing read this since the last write touching its objects (the
	// store's cache entry, if any, predates that write); repeat: served again without a write in between
	temp := "first-after-write"
	if _, ok := h.warm[wkey]; ok {
		temp = "repeat"
	}
	h.warm[wkey] = g.ids
	outcome := "ok"
	if vf.err != "" {
		outcome = "error"
	}
	h.s.Count("read:"+g.name, 1)
	h.s.Count("read_"+outcome, 1)
	h.s.Count("read_"+temp, 1)
	h.s.Count("read:"+g.name+":"+outcome, 1)
	h.s.Distinct("%s after-%s %s %s", g.name, h.lastKind(g.ids), temp, outcome)

	kindOf := func(culprit []string) string {
		if culprit != nil {
			return h.lastKind(culprit)
		}
		return h.lastKind(g.ids)
	}
	witness := func() map[string]interface{} {
		return map[string]interface{}{"ops": append([]string{}, h.trace...), "read": g.name + "(" + g.arg + ")",
			"long_lived_first_read": v1.String(), "long_lived_second_read": v2.String(), "fresh_store": vf.String()}
	}
	// the header as the long-lived store returns it (already cached by the reads above: no side effect)
	hdrSup := func(hash string) ([]string, bool) {
		var hh bc.Hash
		if err := hh.UnmarshalText([]byte(hash)); err != nil {
			return nil, false
		}
		bh, err := h.long.GetBlockHeader(&hh)
		if err != nil {
			return nil, false
		}
		out := []string{}
		for _, l := range bh.SupLinks {
			out = append(out, renderSupLink(l))
		}
		return out, true
	}
	if sym, culprit := compare(v1, vf, hdrSup); sym != "" {
		if sym == "differs" {
			sym = "differs-from-fresh"
		}
		h.s.Violation(fmt.Sprintf("%s:after-%s:%s", g.name, kindOf(culprit), sym),
			fmt.Sprintf("%s on the long-lived store differs from the same read on a new Store over the same DB (%s read)", g.name, temp), witness())
	}
	if sym, culprit := compare(v2, v1, hdrSup); sym != "" {
		if sym == "differs" {
			sym = "reread-differs"
		}
		h.s.Violation(fmt.Sprintf("%s:after-%s:%s", g.name, kindOf(culprit), sym),
			fmt.Sprintf("reading %s twice in a row on the long-lived store gives different values", g.name), witness())
	}
	if g.raw != nil {
		if vr := g.raw(h.db); vr != nil {
			if sym, _ := compare(vf, *vr, hdrSup); sym != "" {
				// a new Store IS the raw function behind an empty cache: a difference here is a harness problem
				h.s.Inconclusive("new Store and raw database.%s disagree: %s vs %s", g.name, vf.String(), vr.String())
			}
			h.s.Count("raw_compared", 1)
		}
	}
}

func (h *history) anyHash() bc.Hash {
	if h.rng.Chance(1, 12) {
		return randHash(h.rng) // never stored
	}
	return h.u.blocks[h.rng.Intn(len(h.u.blocks))].hash
}

func (h *history) anyHeight() uint64 { return uint64(h.rng.Intn(int(h.u.heights) + 2)) }

func (h *history) randomRead() {
	rng := h.rng
	switch rng.Pick([]int{4, 1, 3, 3, 4, 4, 2, 2, 1, 1, 8, 4, 4}) {
	case 0:
		h.read(gHeader(h.anyHash()))
	case 1:
		h.read(gExist(h.anyHash()))
	case 2:
		h.read(gBlock(h.anyHash()))
	case 3:
		h.read(gTxs(h.anyHash()))
	case 4:
		h.read(gHashes(h.anyHeight()))
	case 5:
		h.read(gMain(h.anyHeight()))
	case 6:
		h.read(gStatus())
	case 7:
		h.read(gUtxo(h.u.outIDs[rng.Intn(len(h.u.outIDs))]))
	case 8:
		h.read(gContract(h.u.contracts[rng.Intn(len(h.u.contracts))]))
	case 9:
		n := rng.Intn(len(h.u.bcTxs) + 1)
		h.read(gTxUtxo(h.u.bcTxs[:n]))
	case 10:
		if len(h.u.cps) > 0 && rng.Chance(5, 6) {
			h.read(gCheckpoint(h.u.cps[rng.Intn(len(h.u.cps))].Hash))
		} else {
			h.read(gCheckpoint(h.anyHash()))
		}
	case 11:
		h.read(gCheckpointsByHeight(h.anyHeight()))
	case 12:
		if len(h.u.cps) > 0 && rng.Chance(5, 6) {
			c := h.u.cps[rng.Intn(len(h.u.cps))]
			h.read(gCheckpointsFromNode(c.Height, c.Hash))
		} else {
			h.read(gCheckpointsFromNode(h.anyHeight(), h.anyHash()))
		}
	}
}

func (h *history) savedBlocks() []*blockInfo {
	var out []*blockInfo
	for _, b := range h.u.blocks {
		if b.saved {
			out = append(out, b)
		}
	}
	return out
}

func (h *history) wSaveBlock() {
	var unsaved []*blockInfo
	for _, b := range h.u.blocks {
		if !b.saved {
			unsaved = append(unsaved, b)
		}
	}
	saved := h.savedBlocks()
	if len(unsaved) == 0 || (len(saved) > 0 && h.rng.Chance(1, 5)) {
		if len(saved) == 0 {
			return
		}
		// the same block (same hash) is handed to SaveBlock again with other uncommitted data
		bi := saved[h.rng.Intn(len(saved))]
		nb, what := h.u.variant(bi.block)
		h.logf("SaveBlock(%s h=%d) AGAIN with %s", short(bi.hash), nb.Height, what)
		if err := h.long.SaveBlock(nb); err != nil {
			h.fail("SaveBlock", err)
			return
		}
		bi.block = nb
		h.wrote("SaveBlock(resave)", "", "hdr:"+bi.hash.String(), "txs:"+bi.hash.String(), heightID(nb.Height), "cps")
		return
	}
	bi := unsaved[h.rng.Intn(len(unsaved))]
	h.logf("SaveBlock(%s h=%d txs=%d suplinks=%d)", short(bi.hash), bi.block.Height, len(bi.block.Transactions), len(bi.block.SupLinks))
	if err := h.long.SaveBlock(bi.block); err != nil {
		h.fail("SaveBlock", err)
		return
	}
	bi.saved = true
	h.wrote("SaveBlock", "", "hdr:"+bi.hash.String(), "txs:"+bi.hash.String(), heightID(bi.block.Height), "cps")
}

func (h *history) wSaveBlockHeader() {
	saved := h.savedBlocks()
	if len(saved) == 0 {
		return
	}
	rng := h.rng
	bi := saved[rng.Intn(len(saved))]
	if rng.Bool() {
		// protocol/casper saveVerificationToHeader: the header object comes from the store
		bh, err := h.long.GetBlockHeader(&bi.hash)
		if err != nil {
			h.fail("GetBlockHeader of a saved block", err)
			return
		}
		src, how := randHash(rng), "new source"
		if len(bh.SupLinks) > 0 && rng.Bool() {
			src, how = bh.SupLinks[rng.Intn(len(bh.SupLinks))].SourceHash, "existing source"
		}
		bh.SupLinks.AddSupLink(uint64(rng.Intn(4)), src, rng.Bytes(64), rng.Intn(10))
		h.logf("h := GetBlockHeader(%s); h.SupLinks.AddSupLink(%s, %s); SaveBlockHeader(h)   [as casper]", short(bi.hash), how, short(src))
		if err := h.long.SaveBlockHeader(bh); err != nil {
			h.fail("SaveBlockHeader", err)
			return
		}
		h.wrote("SaveBlockHeader", "header-from-store", "hdr:"+bi.hash.String(), "cps")
		return
	}
	// a header object of the caller's own
	bh := bi.block.BlockHeader
	bh.SupLinks = randSupLinks(rng, rng.Intn(3))
	if rng.Bool() {
		bh.BlockWitness = rng.Bytes(64)
	}
	h.logf("SaveBlockHeader(own copy of %s with %d other SupLinks)", short(bi.hash), len(bh.SupLinks))
	if err := h.long.SaveBlockHeader(&bh); err != nil {
		h.fail("SaveBlockHeader", err)
		return
	}
	h.wrote("SaveBlockHeader", "own-header", "hdr:"+bi.hash.String(), "cps")
}

func (h *history) wSaveChainStatus() {
	saved := h.savedBlocks()
	if len(saved) == 0 {
		return
	}
	rng := h.rng
	best := saved[rng.Intn(len(saved))]
	// main chain = the path from best towards the root, as far as blocks are in the universe
	var main []*types.BlockHeader
	for bi := best; ; bi = h.u.blocks[bi.parent] {
		hd := bi.block.BlockHeader
		main = append(main, &hd)
		if bi.parent < 0 {
			break
		}
	}
	if rng.Chance(1, 4) && len(main) > 1 {
		main = main[:1+rng.Intn(len(main)-1)] // only the part that changed
	}
	view := state.NewUtxoViewpoint()
	for k := rng.Intn(4); k > 0; k-- {
		view.Entries[h.u.outIDs[rng.Intn(len(h.u.outIDs))]] = storage.NewUtxoEntry(uint32(rng.Intn(3)), uint64(rng.Intn(5)), rng.Chance(1, 3))
	}
	cv := state.NewContractViewpoint()
	for k := rng.Intn(3); k > 0; k-- {
		c := h.u.contracts[rng.Intn(len(h.u.contracts))]
		val := append(rng.Bytes(32), rng.Bytes(1+rng.Intn(4))...)
		if rng.Chance(1, 3) {
			if cur := h.db.Get(database.CalcContractKey(c)); cur != nil {
				cv.DetachEntries[c] = cur
				continue
			}
		}
		cv.AttachEntries[c] = val
	}
	var fin *bc.Hash
	finH := uint64(0)
	if rng.Chance(2, 3) {
		f := h.u.blocks[0].hash
		fin = &f
	}
	hd := best.block.BlockHeader
	h.logf("SaveChainStatus(best=%s h=%d, main=%d headers, utxo=%d, contracts=+%d/-%d)", short(best.hash), hd.Height, len(main), len(view.Entries), len(cv.AttachEntries), len(cv.DetachEntries))
	if err := h.long.SaveChainStatus(&hd, main, view, cv, finH, fin); err != nil {
		h.fail("SaveChainStatus", err)
		return
	}
	h.s.Count("main_chain_headers_written", int64(len(main)))
	h.wrote("SaveChainStatus", "", "chain")
}

func (h *history) wSaveCheckpoints() {
	if len(h.u.cps) == 0 {
		return
	}
	rng := h.rng
	n := 1 + rng.Intn(3)
	var list []*state.Checkpoint
	ids := []string{"cps"}
	styles := map[string]bool{}
	desc := []string{}
	for i := 0; i < n; i++ {
		t := h.u.cps[rng.Intn(len(h.u.cps))]
		var c *state.Checkpoint
		how := "own"
		if rng.Bool() {
			// protocol/casper: the checkpoint object comes from the store and is mutated before it is saved
			if got, err := h.long.GetCheckpoint(&t.Hash); err == nil {
				c, how = got, "from-store"
				c.Status = state.CheckpointStatus((int(c.Status) + 1 + rng.Intn(3)) % 4)
			}
		}
		if c == nil {
			cc := *t
			cc.Status = state.CheckpointStatus(rng.Intn(4))
			if rng.Bool() {
				cc.Votes = map[string]uint64{hex.EncodeToString(rng.Bytes(3)): uint64(rng.Intn(100))}
			}
			c = &cc
		}
		for _, bi := range h.u.blocks {
			if bi.hash == c.Hash && !bi.saved {
				// record without block header: GetCheckpoint fails, the list getters skip it
				h.s.Count("write:SaveCheckpoints[block-not-saved]", 1)
			}
		}
		list = append(list, c)
		ids = append(ids, "cp:"+c.Hash.String())
		styles[how] = true
		desc = append(desc, fmt.Sprintf("%s(h=%d,status=%d,%s)", short(c.Hash), c.Height, c.Status, how))
	}
	h.logf("SaveCheckpoints(%s)", strings.Join(desc, ", "))
	if err := h.long.SaveCheckpoints(list); err != nil {
		h.fail("SaveCheckpoints", err)
		return
	}
	for st := range styles {
		h.s.Count("write:SaveCheckpoints["+st+"]", 1)
	}
	h.wrote("SaveCheckpoints", "", ids...)
}

const opsPerHistory = 36

// runHistory is one history over an empty DB.
func runHistory(s sink, rng *ev.Rand, db dbm.DB, long storeAPI, fresh func(db dbm.DB) storeAPI) (reads int, sample []string) {
	h := &history{s: s, rng: rng, u: newUniverse(rng), db: db, long: long, fresh: fresh, last: map[string]lastWrite{}, warm: map[string][]string{}}
	// most histories start like a node: a first block, its checkpoint, a chain status
	if rng.Chance(3, 4) {
		h.wSaveBlock()
		h.wSaveCheckpoints()
		h.wSaveChainStatus()
	}
	for i := 0; i < opsPerHistory; i++ {
		switch rng.Pick([]int{5, 3, 3, 3, 22}) {
		case 0:
			h.wSaveBlock()
		case 1:
			h.wSaveBlockHeader()
		case 2:
			if rng.Bool() {
				// warm the whole main-chain index first: invalidation must cover every rewritten height
				for ht := uint64(0); ht <= h.u.heights; ht++ {
					h.read(gMain(ht))
				}
			}
			h.wSaveChainStatus()
		case 3:
			h.wSaveCheckpoints()
		default:
			h.randomRead()
		}
	}
	// closing sweep: every getter once more on everything
	for _, b := range h.u.blocks {
		h.read(gHeader(b.hash))
		h.read(gTxs(b.hash))
		h.read(gCheckpoint(b.hash))
	}
	for ht := uint64(0); ht <= h.u.heights; ht++ {
		h.read(gHashes(ht))
		h.read(gMain(ht))
		h.read(gCheckpointsByHeight(ht))
	}
	h.read(gStatus())
	s.Count("histories", 1)
	sample = h.trace
	if len(sample) > 16 {
		sample = sample[:16]
	}
	return h.reads, sample
}

func clearDB(db dbm.DB) {
	it := db.Iterator()
	var keys [][]byte
	for it.Next() {
		keys = append(keys, it.Key())
	}
	it.Release()
	b := db.NewBatch()
	for _, k := range keys {
		b.Delete(k)
	}
	b.Write()
}

const historiesPerCase = 8

func TestC21(t *testing.T) {
	r := ev.Start(t, "C21")
	defer r.Finish()
	r.Rule("one case = 8 histories on one GoLevelDB (emptied in between, new long-lived Store each); a history = a universe of 3..8 blocks forming a tree of height <= 3 (forks at every height, 0..2 transactions, 0..2 SupLinks) and <= 6 checkpoints at <= 3 heights, then ~36 operations: SaveBlock (new block, or the same hash again with other witness/SupLinks/tx arguments), SaveBlockHeader (casper style: header from the store + AddSupLink; or an own header copy), SaveChainStatus (random best block, its path as main chain, utxo and contract views), SaveCheckpoints (casper style: checkpoint from the store with another status; or own objects) interleaved with reads through all 13 getters on stored and never-stored arguments, then a closing sweep of reads. distinct = (getter, kind of the last write that touched the object read, first read after a write / repeated read on the long-lived store, ok/error)")
	r.Assume("a brand-new database.NewStore over the same dbm.DB has empty caches and therefore shows what the database holds (cross-checked against the raw database.Get* functions); results are compared through canonical encodings taken immediately after each call")
	r.Assume("objects returned by the store are not mutated by the harness except in the two patterns of protocol/casper (mutate, then save at once through the same store)")
	root := t.TempDir()
	fresh := func(db dbm.DB) storeAPI { return database.NewStore(db) }

	// quick 375 cases = 3000 histories, thorough 37500 cases = 300000 histories
	r.Cases("histories", r.N(375, 37500), func(c *ev.Case) {
		dir, err := os.MkdirTemp(root, "h")
		if err != nil {
			c.Inconclusive("temp dir: %v", err)
			return
		}
		defer os.RemoveAll(dir)
		db, err := dbm.NewGoLevelDB("c21", dir)
		if err != nil {
			c.Inconclusive("open GoLevelDB: %v", err)
			return
		}
		defer db.Close()
		c.Journal("8 random Store write/read histories on GoLevelDB (deterministic in the case index)")
		for q := 0; q < historiesPerCase; q++ {
			if q > 0 {
				clearDB(db)
			}
			n, sample := runHistory(c, c.Rand, db, database.NewStore(db), fresh)
			c.Eval(int64(n))
			if q == 0 && c.WantSample() {
				c.Sample(map[string]interface{}{"first_operations_of_the_history": sample, "reads_in_history": n})
			}
		}
	})

	for _, g := range []string{"GetBlockHeader", "BlockExist", "GetBlock", "GetBlockTransactions", "GetBlockHashesByHeight", "GetMainChainHash", "GetStoreStatus",
		"GetUtxo", "GetContract", "GetTransactionsUtxo", "GetCheckpoint", "GetCheckpointsByHeight", "CheckpointsFromNode"} {
		r.Floor("read:"+g, 100)
		r.Floor("read:"+g+":ok", 30)
	}
	// GetCheckpointsByHeight has no error path on well-formed records (records without header are skipped)
	for _, g := range []string{"GetBlockHeader", "GetBlock", "GetBlockTransactions", "GetMainChainHash", "GetUtxo", "GetContract", "GetCheckpoint", "CheckpointsFromNode"} {
		r.Floor("read:"+g+":error", 30)
	}
	for _, w := range []string{"SaveBlock", "SaveBlock(resave)", "SaveBlockHeader", "SaveBlockHeader[header-from-store]", "SaveBlockHeader[own-header]", "SaveChainStatus",
		"SaveCheckpoints", "SaveCheckpoints[from-store]", "SaveCheckpoints[own]", "SaveCheckpoints[block-not-saved]"} {
		r.Floor("write:"+w, 100)
	}
	r.Floor("read_repeat", 1000)
	r.Floor("read_first-after-write", 1000)
	r.Floor("raw_compared", 1000)
}
