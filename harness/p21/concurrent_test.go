package p21

import (
	"fmt"
	"runtime"
	"sync"
	"sync/atomic"
	"testing"

	"github.com/bytom/bytom/consensus"
	"github.com/bytom/bytom/database"
	dbm "github.com/bytom/bytom/database/leveldb"
	"github.com/bytom/bytom/protocol/bc"
	"github.com/bytom/bytom/protocol/bc/types"
	"github.com/bytom/bytom/protocol/state"

	"verif/internal/ev"
)

// TestC21Concurrent: "a read through the caching store equals a read of the database" also when
// other goroutines read the same keys at the same time.  One writer saves the blocks of a chain one
// after another and reads every block back through the long-lived store as soon as the write has
// returned; reader goroutines look the same hashes and heights up all the time, also before they are
// stored (the sync layer and the RPC do exactly that).  A read that begins after a write returned
// must see the write: never "not found", never an older value.  The driver runs this function in a
// race-detector build as an extra run of C21.
func TestC21Concurrent(t *testing.T) {
	r := ev.Start(t, "C21")
	defer r.Finish()
	r.Cases("concurrent", r.N(16, 640), func(c *ev.Case) {
		rng := c.Rand
		db := dbm.NewMemDB()
		st := database.NewStore(db)
		n := 120
		procs := []int{2, 4, 8, 16}[c.Index%4]
		defer runtime.GOMAXPROCS(runtime.GOMAXPROCS(procs))
		// a linear chain of n blocks, one transaction each
		blocks := make([]*types.Block, n)
		hashes := make([]bc.Hash, n)
		var prev bc.Hash
		for i := 0; i < n; i++ {
			in := types.NewCoinbaseInput(rng.Bytes(8))
			out := types.NewOriginalTxOutput(*consensus.BTMAssetID, uint64(1+rng.Intn(1000)), []byte{0x51}, nil)
			tx := types.NewTx(types.TxData{Version: 1, Inputs: []*types.TxInput{in}, Outputs: []*types.TxOutput{out}})
			b := &types.Block{BlockHeader: types.BlockHeader{Version: 1, Height: uint64(i), PreviousBlockHash: prev, Timestamp: 1600000000000 + uint64(i)*1000},
				Transactions: []*types.Tx{tx}}
			b.TransactionsMerkleRoot = randHash(rng)
			blocks[i], hashes[i] = b, b.Hash()
			prev = hashes[i]
		}
		var written int64 = -1 // index of the last block whose SaveBlock AND SaveChainStatus returned
		stop := make(chan struct{})
		var wg sync.WaitGroup
		var reads, early int64
		type miss struct{ key, what string }
		var mu sync.Mutex
		var misses []miss
		report := func(key, what string) {
			mu.Lock()
			misses = append(misses, miss{key, what})
			mu.Unlock()
		}
		for g := 0; g < 4; g++ {
			gr := rng.Fork()
			wg.Add(1)
			go func() {
				defer wg.Done()
				for {
					select {
					case <-stop:
						return
					default:
					}
					w := atomic.LoadInt64(&written)
					// mostly the block being written now and the next ones
					i := int(w) + gr.Intn(3)
					if gr.Chance(1, 4) {
						i = gr.Intn(n)
					}
					if i < 0 || i >= n {
						continue
					}
					h := hashes[i]
					atomic.AddInt64(&reads, 1)
					var err error
					switch gr.Intn(4) {
					case 0:
						_, err = st.GetBlockHeader(&h)
					case 1:
						_, err = st.GetBlock(&h)
					case 2:
						var hs []*bc.Hash
						hs, err = st.GetBlockHashesByHeight(uint64(i))
						if err == nil && int64(i) <= w && (len(hs) != 1 || *hs[0] != h) {
							report("concurrent:reader:hashes-by-height-stale", fmt.Sprintf("height %d was written before the read began, got %d hashes", i, len(hs)))
						}
					case 3:
						var mh *bc.Hash
						mh, err = st.GetMainChainHash(uint64(i))
						if err == nil && *mh != h {
							report("concurrent:reader:main-chain-hash-wrong", fmt.Sprintf("height %d", i))
						}
					}
					if err != nil {
						if int64(i) <= w {
							report("concurrent:reader:not-found-after-write", fmt.Sprintf("block %d was written before the read began: %v", i, err))
						} else {
							atomic.AddInt64(&early, 1)
						}
					}
				}
			}()
		}
		for i := 0; i < n; i++ {
			b := blocks[i]
			h := hashes[i]
			if err := st.SaveBlock(b); err != nil {
				report("concurrent:writer:save-block-failed", err.Error())
				break
			}
			// the block processor reads the header of the block it has just saved (tryReorganize)
			if hdr, err := st.GetBlockHeader(&h); err != nil {
				report("concurrent:writer:header-not-found-after-own-write", fmt.Sprintf("block %d: %v", i, err))
			} else if hdr.Hash() != h {
				report("concurrent:writer:header-wrong-after-own-write", fmt.Sprintf("block %d", i))
			}
			if blk, err := st.GetBlock(&h); err != nil {
				report("concurrent:writer:block-not-found-after-own-write", fmt.Sprintf("block %d: %v", i, err))
			} else if len(blk.Transactions) != 1 || blk.Transactions[0].ID != b.Transactions[0].ID {
				report("concurrent:writer:block-wrong-after-own-write", fmt.Sprintf("block %d", i))
			}
			if hs, err := st.GetBlockHashesByHeight(uint64(i)); err != nil || len(hs) != 1 || *hs[0] != h {
				report("concurrent:writer:hashes-by-height-wrong-after-own-write", fmt.Sprintf("block %d: %v", i, err))
			}
			if err := st.SaveChainStatus(&b.BlockHeader, []*types.BlockHeader{&b.BlockHeader}, state.NewUtxoViewpoint(), state.NewContractViewpoint(), uint64(0), &h); err != nil {
				report("concurrent:writer:save-chain-status-failed", err.Error())
				break
			}
			if mh, err := st.GetMainChainHash(uint64(i)); err != nil || *mh != h {
				report("concurrent:writer:main-chain-hash-wrong-after-own-write", fmt.Sprintf("height %d: %v", i, err))
			}
			atomic.StoreInt64(&written, int64(i))
			if i%8 == 0 {
				runtime.Gosched()
			}
		}
		// second phase, same readers still running: checkpoints.  The finality engine saves a batch of
		// checkpoints whenever a vote changes their status; GetCheckpoint is read without the engine's lock
		// (Chain.GetValidator, block validation).  After SaveCheckpoints returned, every read shows the new status.
		cps := make([]*state.Checkpoint, 6)
		for i := range cps {
			cps[i] = &state.Checkpoint{Height: uint64(4 * (i + 1)), Hash: hashes[4*(i+1)], ParentHash: hashes[4*i], Timestamp: uint64(i), Status: state.Unjustified,
				Votes: map[string]uint64{}, Rewards: map[string]uint64{}}
		}
		var cpReads int64
		cpStop := make(chan struct{})
		var cwg sync.WaitGroup
		for g := 0; g < 4; g++ {
			gr := rng.Fork()
			cwg.Add(1)
			go func() {
				defer cwg.Done()
				for {
					select {
					case <-cpStop:
						return
					default:
					}
					h := cps[gr.Intn(len(cps))].Hash
					st.GetCheckpoint(&h)
					atomic.AddInt64(&cpReads, 1)
				}
			}()
		}
		for round := 0; round < 60; round++ {
			for _, cp := range cps {
				cp.Status = state.CheckpointStatus(1 + (round+int(cp.Height))%3)
				cp.Timestamp = uint64(round)
			}
			// batches of one to three checkpoints, as the engine saves them
			for i := 0; i < len(cps); {
				k := 1 + rng.Intn(3)
				if i+k > len(cps) {
					k = len(cps) - i
				}
				if err := st.SaveCheckpoints(cps[i : i+k]); err != nil {
					report("concurrent:writer:save-checkpoints-failed", err.Error())
				}
				for _, cp := range cps[i : i+k] {
					h := cp.Hash
					got, err := st.GetCheckpoint(&h)
					if err != nil || got.Status != cp.Status || got.Timestamp != cp.Timestamp {
						report("concurrent:writer:checkpoint-stale-after-own-write", fmt.Sprintf("round %d height %d: err=%v", round, cp.Height, err))
					}
				}
				i += k
			}
		}
		close(cpStop)
		cwg.Wait()
		for _, cp := range cps { // final state, no concurrency
			h := cp.Hash
			if got, err := st.GetCheckpoint(&h); err != nil || got.Status != cp.Status || got.Timestamp != cp.Timestamp {
				report("concurrent:final:checkpoint-stale", fmt.Sprintf("height %d: err=%v", cp.Height, err))
			}
		}
		c.Count("concurrent_checkpoint_reads", cpReads)
		c.Count("concurrent_checkpoint_batches_written", 60)
		close(stop)
		wg.Wait()
		// third phase: reorganisations.  The main-chain index of the top heights is rewritten again and again
		// (branch A = the blocks above, branch B = other headers at the same heights, from a random fork height)
		// while readers look exactly those heights up.  After SaveChainStatus returned, the index read through
		// the long-lived store is the one just written; at rest it equals what a fresh store reads from the database.
		const top = 24
		alt := make([]*types.BlockHeader, n)
		altHash := make([]bc.Hash, n)
		for i := n - top; i < n; i++ {
			alt[i] = &types.BlockHeader{Version: 1, Height: uint64(i), PreviousBlockHash: randHash(rng), Timestamp: 1700000000000 + uint64(i)*1000}
			altHash[i] = alt[i].Hash()
		}
		var ixReads int64
		ixStop := make(chan struct{})
		var iwg sync.WaitGroup
		for g := 0; g < 4; g++ {
			gr := rng.Fork()
			iwg.Add(1)
			go func() {
				defer iwg.Done()
				for {
					select {
					case <-ixStop:
						return
					default:
					}
					st.GetMainChainHash(uint64(n - 1 - gr.Intn(top)))
					atomic.AddInt64(&ixReads, 1)
				}
			}()
		}
		current := make([]bc.Hash, n)
		copy(current, hashes)
		for round := 0; round < 80; round++ {
			from := n - 1 - rng.Intn(top)
			useAlt := round%2 == 0
			var seg []*types.BlockHeader
			for i := from; i < n; i++ {
				if useAlt {
					seg = append(seg, alt[i])
					current[i] = altHash[i]
				} else {
					seg = append(seg, &blocks[i].BlockHeader)
					current[i] = hashes[i]
				}
			}
			tip := seg[len(seg)-1]
			th := tip.Hash()
			if err := st.SaveChainStatus(tip, seg, state.NewUtxoViewpoint(), state.NewContractViewpoint(), uint64(0), &th); err != nil {
				report("concurrent:writer:save-chain-status-failed", err.Error())
				break
			}
			for i := from; i < n; i++ {
				if mh, err := st.GetMainChainHash(uint64(i)); err != nil || *mh != current[i] {
					report("concurrent:writer:main-chain-hash-stale-after-reorganisation", fmt.Sprintf("round %d height %d (index rewritten from height %d): err=%v", round, i, from, err))
					break
				}
			}
		}
		close(ixStop)
		iwg.Wait()
		fresh := database.NewStore(db)
		for i := n - top; i < n; i++ {
			a, err1 := st.GetMainChainHash(uint64(i))
			b, err2 := fresh.GetMainChainHash(uint64(i))
			if err1 != nil || err2 != nil || *a != *b || *b != current[i] {
				report("concurrent:final:main-chain-hash-differs-from-database", fmt.Sprintf("height %d: long-lived store and a fresh store over the same database disagree (or differ from what was written): err=%v/%v", i, err1, err2))
				break
			}
		}
		c.Count("concurrent_index_reads_during_reorganisations", ixReads)
		c.Count("concurrent_reorganisations_written", 80)
		c.Eval(int64(n))
		c.Count("concurrent_blocks_written_and_read_back", int64(n))
		c.Count("concurrent_reads", reads)
		c.Count("concurrent_reads_before_the_write", early)
		c.Distinct("concurrent procs=%d", procs)
		seen := map[string]bool{}
		for _, m := range misses {
			if seen[m.key] {
				continue
			}
			seen[m.key] = true
			c.Violation(m.key, "a read through the long-lived store that began after a write had returned does not show what was written", map[string]interface{}{"detail": m.what, "gomaxprocs": procs, "occurrences_in_case": len(misses)})
		}
		if c.WantSample() {
			c.Sample(map[string]interface{}{"blocks": n, "reader_goroutines": 4, "reads": reads, "reads_before_the_write": early, "gomaxprocs": procs})
		}
	})
	r.Floor("concurrent_blocks_written_and_read_back", 1000)
	r.Floor("concurrent_reads", 10000)
	r.Floor("concurrent_reads_before_the_write", 100)
	r.Floor("concurrent_checkpoint_reads", 20000)
	r.Floor("concurrent_index_reads_during_reorganisations", 20000)
}
