// C30 — merkle inclusion proofs are sound and complete.
//
// Drives protocol/bc/types.{TxMerkleRoot,GetTxMerkleTreeProof,ValidateTxMerkleTreeProof}
// on lists of distinct ids and decides, with an independent model of the
// documented tree (RFC-6962 shape, sha3-256, 0x00 leaf / 0x01 interior prefix):
//
//	root        TxMerkleRoot == reference root
//	complete    the generated proof of every subset validates against the root
//	sound       validation fails for another root, for a related hash that is not
//	            in the list, for every single tampered proof hash, every single
//	            tampered flag (every other value), every dropped hash/flag and
//	            every inserted hash/flag that is not a pure trailing extension
//	sound2      hand-made (well-formed or garbled) proofs over real tree nodes:
//	            accepted  =>  every related hash is a leaf of the list
package p30

import (
	"encoding/hex"
	"fmt"
	"runtime"
	"sync"
	"sync/atomic"
	"testing"

	"golang.org/x/crypto/sha3"

	"github.com/bytom/bytom/protocol/bc"
	"github.com/bytom/bytom/protocol/bc/types"

	"verif/internal/ev"
)

type h32 = [32]byte

// ---------------------------------------------------------------- reference

func leafH(id h32) h32 {
	b := make([]byte, 0, 33)
	b = append(b, 0x00)
	b = append(b, id[:]...)
	return sha3.Sum256(b)
}

func nodeH(l, r h32) h32 {
	b := make([]byte, 0, 65)
	b = append(b, 0x01)
	b = append(b, l[:]...)
	b = append(b, r[:]...)
	return sha3.Sum256(b)
}

// split: the largest power of two k with k < n <= 2k.
func split(n int) int {
	k := 1
	for k*2 < n {
		k *= 2
	}
	return k
}

type node struct {
	h    h32
	l, r *node
	lo   int // first leaf index below
	hi   int // one past the last leaf index below
}

func build(ids []h32, off int) *node {
	switch len(ids) {
	case 0:
		return nil
	case 1:
		return &node{h: leafH(ids[0]), lo: off, hi: off + 1}
	}
	k := split(len(ids))
	l, r := build(ids[:k], off), build(ids[k:], off+k)
	return &node{h: nodeH(l.h, r.h), l: l, r: r, lo: off, hi: off + len(ids)}
}

func refRoot(ids []h32) h32 {
	if len(ids) == 0 {
		return sha3.Sum256(nil)
	}
	return build(ids, 0).h
}

func (t *node) leaf() bool { return t.l == nil }

func (t *node) has(sel []bool) bool {
	for i := t.lo; i < t.hi; i++ {
		if sel[i] {
			return true
		}
	}
	return false
}

type proof struct {
	hs []h32
	fl []uint8
}

func (p proof) clone() proof {
	return proof{append([]h32(nil), p.hs...), append([]uint8(nil), p.fl...)}
}

// refProof writes the documented pre-order proof: 1 for a node above a selected
// leaf, 2 + hash for a selected leaf, 0 + hash for any other subtree.  expand
// (may be nil) forces further descent into subtrees without a selected leaf,
// which yields a longer but equally well-formed proof.
func refProof(t *node, sel []bool, expand func(*node) bool, p *proof) {
	if t == nil {
		return
	}
	if t.leaf() {
		p.hs = append(p.hs, t.h)
		if sel[t.lo] {
			p.fl = append(p.fl, types.FlagTxLeaf)
		} else {
			p.fl = append(p.fl, types.FlagAssist)
		}
		return
	}
	if !t.has(sel) && (expand == nil || !expand(t)) {
		p.hs = append(p.hs, t.h)
		p.fl = append(p.fl, types.FlagAssist)
		return
	}
	p.fl = append(p.fl, types.FlagTxParent)
	refProof(t.l, sel, expand, p)
	refProof(t.r, sel, expand, p)
}

// refStrict is a strict validator of the flag format: every flag, hash and
// related leaf hash must be consumed and the computed root must match.
func refStrict(p proof, relLeaf []h32, root h32) bool {
	hi, fi, ri := 0, 0, 0
	var eval func() (h32, bool)
	eval = func() (h32, bool) {
		if fi >= len(p.fl) {
			return h32{}, false
		}
		f := p.fl[fi]
		fi++
		switch f {
		case types.FlagAssist:
			if hi >= len(p.hs) {
				return h32{}, false
			}
			hi++
			return p.hs[hi-1], true
		case types.FlagTxLeaf:
			if hi >= len(p.hs) || ri >= len(relLeaf) || p.hs[hi] != relLeaf[ri] {
				return h32{}, false
			}
			hi++
			ri++
			return p.hs[hi-1], true
		case types.FlagTxParent:
			l, ok := eval()
			if !ok {
				return h32{}, false
			}
			r, ok := eval()
			if !ok {
				return h32{}, false
			}
			return nodeH(l, r), true
		}
		return h32{}, false
	}
	if len(p.fl) == 0 && len(p.hs) == 0 && len(relLeaf) == 0 {
		return root == sha3.Sum256(nil)
	}
	got, ok := eval()
	return ok && got == root && hi == len(p.hs) && fi == len(p.fl) && ri == len(relLeaf)
}

// ---------------------------------------------------------------- real code

func toHashes(hs []h32) []*bc.Hash {
	out := make([]*bc.Hash, len(hs))
	for i := range hs {
		h := bc.NewHash(hs[i])
		out[i] = &h
	}
	return out
}

func realRoot(ids []h32) (h32, error) {
	txs := make([]*bc.Tx, len(ids))
	for i := range ids {
		txs[i] = &bc.Tx{ID: bc.NewHash(ids[i])}
	}
	r, err := types.TxMerkleRoot(txs)
	return r.Byte32(), err
}

func realProof(ids []h32, related []h32) proof {
	mk := func(l []h32) []*types.Tx {
		out := make([]*types.Tx, len(l))
		for i := range l {
			out[i] = &types.Tx{Tx: &bc.Tx{ID: bc.NewHash(l[i])}}
		}
		return out
	}
	hs, fl := types.GetTxMerkleTreeProof(mk(ids), mk(related))
	p := proof{fl: append([]uint8(nil), fl...)}
	for _, h := range hs {
		p.hs = append(p.hs, h.Byte32())
	}
	return p
}

func realValidate(p proof, related []h32, root h32) bool {
	return validate(toHashes(p.hs), p.fl, toHashes(related), bc.NewHash(root))
}

// validate is the function under test (replaced by faulty models in the self-test only).
var validate = types.ValidateTxMerkleTreeProof

// judgedAccepts counts acceptances the oracle judged as violations (read by the self-test).
var judgedAccepts int64

// ---------------------------------------------------------------- helpers

func hexs(l []h32) []string {
	out := make([]string, len(l))
	for i := range l {
		out[i] = hex.EncodeToString(l[i][:])
	}
	return out
}

func distinctIDs(rng *ev.Rand, n int) []h32 {
	seen := map[h32]bool{}
	out := make([]h32, 0, n)
	for len(out) < n {
		var h h32
		if rng.Chance(1, 8) {
			// low-entropy ids: small integers, to meet prefixes/zeros too
			h[31] = byte(rng.Intn(256))
			h[30] = byte(rng.Intn(2))
		} else {
			copy(h[:], rng.Bytes(32))
		}
		if !seen[h] {
			seen[h] = true
			out = append(out, h)
		}
	}
	return out
}

func foreign(rng *ev.Rand, ids []h32) h32 {
	for {
		var h h32
		copy(h[:], rng.Bytes(32))
		dup := false
		for _, x := range ids {
			if x == h {
				dup = true
			}
		}
		if !dup {
			return h
		}
	}
}

func pick(ids []h32, sel []bool) []h32 {
	out := []h32{}
	for i, s := range sel {
		if s {
			out = append(out, ids[i])
		}
	}
	return out
}

func leafHashes(l []h32) []h32 {
	out := make([]h32, len(l))
	for i := range l {
		out[i] = leafH(l[i])
	}
	return out
}

func sameProof(a, b proof) bool {
	return len(a.hs) == len(b.hs) && len(a.fl) == len(b.fl) && isExtension(a, b)
}

func isExtension(orig, mut proof) bool {
	if len(mut.hs) < len(orig.hs) || len(mut.fl) < len(orig.fl) {
		return false
	}
	for i := range orig.hs {
		if orig.hs[i] != mut.hs[i] {
			return false
		}
	}
	for i := range orig.fl {
		if orig.fl[i] != mut.fl[i] {
			return false
		}
	}
	return true
}

// positions returns every index below n, or max sampled ones when n is larger.
func positions(rng *ev.Rand, n, max int) []int {
	if max <= 0 || n <= max {
		out := make([]int, n)
		for i := range out {
			out[i] = i
		}
		return out
	}
	return rng.Perm(n)[:max]
}

type ctx struct {
	c       *ev.Case
	ids     []h32
	sel     []bool
	related []h32
	root    h32
	orig    proof
}

func (x *ctx) witness(class string, p proof, related []h32, root h32, extra string) map[string]interface{} {
	idx := []int{}
	for i, s := range x.sel {
		if s {
			idx = append(idx, i)
		}
	}
	return map[string]interface{}{"class": class, "ids": hexs(x.ids), "subset_indices": idx,
		"proof_hashes": hexs(p.hs), "proof_flags": p.fl, "related": hexs(related), "root": hex.EncodeToString(root[:]),
		"generated_hashes": hexs(x.orig.hs), "generated_flags": x.orig.fl, "detail": extra}
}

// mustFail: the property demands rejection of this (proof, related, root).
func (x *ctx) mustFail(class string, p proof, related []h32, root h32, detail string) {
	x.c.Eval(1)
	if realValidate(p, related, root) {
		if refStrict(p, leafHashes(related), root) && subsetOf(related, x.ids) {
			// the mutant happens to be a complete, well-formed proof of list members for that root: nothing to object to
			x.c.Count("mutant_is_a_valid_proof_not_judged:"+class, 1)
			return
		}
		x.c.Count("accepted:"+class, 1)
		atomic.AddInt64(&judgedAccepts, 1)
		x.c.Violation("sound:accepted:"+class, "validation succeeded on a "+class+" proof/related set/root",
			x.witness(class, p, related, root, detail))
		return
	}
	x.c.Count("rejected:"+class, 1)
}

// observe: outcome is recorded, nothing is demanded.
func (x *ctx) observe(class string, p proof, related []h32, root h32) bool {
	x.c.Eval(1)
	ok := realValidate(p, related, root)
	if ok {
		x.c.Count("observed-accept:"+class, 1)
	} else {
		x.c.Count("observed-reject:"+class, 1)
	}
	return ok
}

var flagVals = []uint8{0, 1, 2, 3, 255}

// checkSubset is the whole oracle for one (list, subset).  maxPos bounds the
// number of positions mutated per class (0 = every position).
func checkSubset(c *ev.Case, ids []h32, sel []bool, maxPos int) {
	rng := c.Rand
	n := len(ids)
	related := pick(ids, sel)
	x := &ctx{c: c, ids: ids, sel: sel, related: related}

	// --- root
	want := refRoot(ids)
	got, err := realRoot(ids)
	if err != nil || got != want {
		c.Violation("root:TxMerkleRoot!=reference", "TxMerkleRoot differs from the documented tree hash",
			map[string]interface{}{"ids": hexs(ids), "got": hex.EncodeToString(got[:]), "want": hex.EncodeToString(want[:]), "err": fmt.Sprint(err)})
		return
	}
	x.root = got
	c.Count("roots_equal_reference", 1)

	// --- completeness (related given in list order; generation gets a shuffled copy: it is order-insensitive by construction)
	relIn := append([]h32(nil), related...)
	rng.Shuffle(len(relIn), func(i, j int) { relIn[i], relIn[j] = relIn[j], relIn[i] })
	p := realProof(ids, relIn)
	x.orig = p
	c.Count("proofs", 1)
	c.Max("max_proof_hashes", int64(len(p.hs)))
	c.Distinct("n=%d |S|=%d hashes=%d flags=%d", n, len(related), len(p.hs), len(p.fl))
	c.Eval(1)
	if !realValidate(p, related, x.root) {
		atomic.AddInt64(&judgedAccepts, 1)
		c.Violation(fmt.Sprintf("complete:generated-proof-rejected:%s", sizeClass(n, len(related))),
			"the proof generated for a subset of the list does not validate against TxMerkleRoot (related hashes in list order)",
			x.witness("generated", p, related, x.root, ""))
		return
	}
	c.Count("generated_proof_validates", 1)
	var tree *node
	if n > 0 {
		tree = build(ids, 0)
	}
	ref := proof{}
	refProof(tree, sel, nil, &ref)
	if sameProof(ref, p) {
		c.Count("proof_equals_reference_minimal_proof", 1)
	} else {
		c.Count("proof_differs_from_reference_minimal_proof", 1)
	}
	if !refStrict(p, leafHashes(related), x.root) {
		// not demanded by the property; kept visible
		c.Count("generated_proof_fails_strict_reference_validator", 1)
	}

	// --- another root
	if n > 0 {
		other := append([]h32(nil), ids...)
		j := rng.Intn(n)
		other[j][rng.Intn(32)] ^= 1 << uint(rng.Intn(8))
		x.mustFail("other-root", p, related, refRoot(other), fmt.Sprintf("root of the list with id %d changed by one bit", j))
		x.mustFail("other-root", p, related, sha3.Sum256(nil), "root of the empty list")
		if n > 1 {
			x.mustFail("other-root", p, related, refRoot(ids[:n-1]), "root of the list without its last id")
			rev := append([]h32(nil), ids...)
			rev[0], rev[n-1] = rev[n-1], rev[0]
			x.mustFail("other-root", p, related, refRoot(rev), "root of the list with first and last id exchanged")
		}
	}
	var rr h32
	copy(rr[:], rng.Bytes(32))
	if rr != x.root {
		x.mustFail("other-root", p, related, rr, "random root")
	}
	fb := x.root
	fb[rng.Intn(32)] ^= 1 << uint(rng.Intn(8))
	x.mustFail("other-root", p, related, fb, "root with one bit flipped")

	// --- foreign hash among the related hashes
	f := foreign(rng, ids)
	for _, j := range positions(rng, len(related), maxPos) {
		r2 := append([]h32(nil), related...)
		r2[j] = f
		x.mustFail("foreign-related-replaced", p, r2, x.root, fmt.Sprintf("related[%d] replaced by a hash not in the list", j))
	}
	for _, j := range positions(rng, len(related)+1, maxPos) {
		r2 := append(append(append([]h32(nil), related[:j]...), f), related[j:]...)
		x.mustFail("foreign-related-inserted", p, r2, x.root, fmt.Sprintf("hash not in the list inserted at related[%d]", j))
		// the proof regenerated for the polluted set must not validate for it either
		if j == 0 || j == len(related) {
			p2 := realProof(ids, r2)
			x.mustFail("foreign-related-regenerated", p2, r2, x.root, "proof generated for subset + foreign id")
		}
	}
	// a single one-bit-different id (near miss of a member)
	if len(related) > 0 {
		j := rng.Intn(len(related))
		r2 := append([]h32(nil), related...)
		r2[j][rng.Intn(32)] ^= 1 << uint(rng.Intn(8))
		dup := false
		for _, id := range ids {
			if id == r2[j] {
				dup = true
			}
		}
		if !dup {
			x.mustFail("foreign-related-replaced", p, r2, x.root, fmt.Sprintf("related[%d] with one bit flipped", j))
		}
	}

	// --- every single proof hash tampered
	for _, i := range positions(rng, len(p.hs), maxPos) {
		m := p.clone()
		m.hs[i][rng.Intn(32)] ^= 1 << uint(rng.Intn(8))
		x.mustFail("hash-bitflip", m, related, x.root, fmt.Sprintf("hash %d, one bit", i))
		m = p.clone()
		copy(m.hs[i][:], rng.Bytes(32))
		if m.hs[i] != p.hs[i] {
			x.mustFail("hash-replaced", m, related, x.root, fmt.Sprintf("hash %d random", i))
		}
		if i+1 < len(p.hs) {
			m = p.clone()
			m.hs[i], m.hs[i+1] = m.hs[i+1], m.hs[i]
			x.mustFail("hash-swapped", m, related, x.root, fmt.Sprintf("hashes %d,%d exchanged", i, i+1))
		}
		// a foreign leaf hash substituted (what a forger would try)
		m = p.clone()
		m.hs[i] = leafH(f)
		x.mustFail("hash-replaced", m, related, x.root, fmt.Sprintf("hash %d := leaf hash of a foreign id", i))
	}

	// --- every single flag, every other value
	for _, i := range positions(rng, len(p.fl), maxPos) {
		for _, v := range flagVals {
			if v == p.fl[i] {
				continue
			}
			m := p.clone()
			m.fl[i] = v
			x.mustFail(fmt.Sprintf("flag-%dto%d", p.fl[i], v), m, related, x.root, fmt.Sprintf("flag %d", i))
		}
	}

	// --- dropped hash / flag
	for _, i := range positions(rng, len(p.hs), maxPos) {
		m := p.clone()
		m.hs = append(m.hs[:i], m.hs[i+1:]...)
		x.mustFail("hash-dropped", m, related, x.root, fmt.Sprintf("hash %d removed", i))
	}
	for _, i := range positions(rng, len(p.fl), maxPos) {
		m := p.clone()
		m.fl = append(m.fl[:i], m.fl[i+1:]...)
		x.mustFail("flag-dropped", m, related, x.root, fmt.Sprintf("flag %d removed", i))
	}

	// --- inserted hash / flag.  A mutant that still starts with the complete
	// original proof (pure trailing extension) proves the same statement; the
	// validator is not required by the property to reject it: recorded only.
	for _, i := range positions(rng, len(p.hs)+1, maxPos) {
		var extra h32
		switch rng.Intn(3) {
		case 0:
			copy(extra[:], rng.Bytes(32))
		case 1:
			extra = leafH(f)
		default:
			if len(p.hs) > 0 {
				extra = p.hs[rng.Intn(len(p.hs))]
			}
		}
		m := proof{append(append(append([]h32(nil), p.hs[:i]...), extra), p.hs[i:]...), append([]uint8(nil), p.fl...)}
		if isExtension(p, m) {
			x.observe("trailing-hash-appended", m, related, x.root)
		} else {
			x.mustFail("hash-inserted", m, related, x.root, fmt.Sprintf("hash inserted at %d", i))
		}
	}
	for _, i := range positions(rng, len(p.fl)+1, maxPos) {
		for _, v := range flagVals[:3] {
			m := proof{append([]h32(nil), p.hs...), append(append(append([]uint8(nil), p.fl[:i]...), v), p.fl[i:]...)}
			if isExtension(p, m) {
				x.observe("trailing-flag-appended", m, related, x.root)
			} else {
				x.mustFail("flag-inserted", m, related, x.root, fmt.Sprintf("flag %d inserted at %d", v, i))
			}
		}
	}

	// --- recorded only: what the API does with the related hashes in another order / a sub-subset / a list member that is not proven
	if len(related) > 1 {
		r2 := append([]h32(nil), related...)
		r2[0], r2[len(r2)-1] = r2[len(r2)-1], r2[0]
		x.observe("related-reordered", p, r2, x.root)
		x.observe("related-subsubset", p, related[1:], x.root)
	}
	if len(related) < n {
		for i := range ids {
			if !sel[i] {
				r2 := append(append([]h32(nil), related...), ids[i])
				x.observe("related-plus-unproven-member", p, r2, x.root)
				break
			}
		}
	}
}

func subsetOf(rel, ids []h32) bool {
	in := map[h32]bool{}
	for _, id := range ids {
		in[id] = true
	}
	for _, r := range rel {
		if !in[r] {
			return false
		}
	}
	return true
}

func sizeClass(n, k int) string {
	switch {
	case n == 0:
		return "empty-list"
	case k == 0:
		return "empty-subset"
	case k == n:
		return "whole-list"
	case k == 1:
		return "single"
	}
	return "proper-subset"
}

// randomSubset picks a subset by shape class.
func randomSubset(rng *ev.Rand, n int) ([]bool, string) {
	sel := make([]bool, n)
	class := []string{"single", "pair", "few", "half", "most", "all-but-one", "all", "range", "left-half", "last"}[rng.Intn(10)]
	switch class {
	case "single":
		sel[rng.Intn(n)] = true
	case "pair":
		sel[rng.Intn(n)] = true
		sel[rng.Intn(n)] = true
	case "few":
		for i := 0; i < 3+rng.Intn(4); i++ {
			sel[rng.Intn(n)] = true
		}
	case "half":
		for i := range sel {
			sel[i] = rng.Bool()
		}
	case "most":
		for i := range sel {
			sel[i] = !rng.Chance(1, 8)
		}
	case "all-but-one":
		for i := range sel {
			sel[i] = true
		}
		sel[rng.Intn(n)] = false
	case "all":
		for i := range sel {
			sel[i] = true
		}
	case "range":
		a := rng.Intn(n)
		b := a + rng.Intn(n-a)
		for i := a; i <= b; i++ {
			sel[i] = true
		}
	case "left-half":
		for i := 0; i < split(n); i++ {
			sel[i] = true
		}
	case "last":
		sel[n-1] = true
	}
	return sel, class
}

func allSubsets(c *ev.Case, n int) {
	ids := distinctIDs(c.Rand, n)
	for mask := 0; mask < 1<<uint(n); mask++ {
		sel := make([]bool, n)
		for i := 0; i < n; i++ {
			sel[i] = mask>>uint(i)&1 == 1
		}
		checkSubset(c, ids, sel, 0)
	}
	c.Count(fmt.Sprintf("lists_all_subsets_n=%d", n), 1)
	if c.WantSample() {
		c.Sample(map[string]interface{}{"n": n, "first_id": hex.EncodeToString(ids[0][:]), "subsets": 1 << uint(n)})
	}
}

func TestC30(t *testing.T) {
	r := ev.Start(t, "C30")
	defer r.Finish()
	r.Rule("lists of 0..64 distinct 32-byte ids (random, 1/8 low-entropy); every subset of every list with n<=7 (and n=8..10 in a second group), shape-classed random subsets for n=11..64; per subset: generated proof validated, then every single hash/flag/related/root mutation. distinct = (list length, subset size, proof hash count, proof flag count)")
	r.Assume("sha3-256 (golang.org/x/crypto/sha3, the library the code under test uses) is collision resistant; the tree shape is the one documented in merkle.go (split at the largest power of two below n, 0x00 leaf / 0x01 interior prefix)")
	r.Assume("contract read from the code: ValidateTxMerkleTreeProof takes the related hashes in list (tree) order, as its only callers produce them; other orders are recorded, not judged")
	r.Assume("a mutant that still begins with the complete generated proof (extra trailing hash/flag) proves the same statement; its acceptance is recorded (observed-accept:trailing-*) and not judged")

	r.Cases("subsets-n1-7", r.N(154, 2800), func(c *ev.Case) {
		allSubsets(c, 1+(c.Index+c.Index/16)%7)
	})
	r.Cases("subsets-n8-10", r.N(3, 320), func(c *ev.Case) {
		allSubsets(c, 8+(c.Index+c.Index/16)%3)
	})
	r.Cases("random-n11-64", r.N(500, 24000), func(c *ev.Case) {
		n := c.Rand.Range(11, 64)
		if c.Rand.Chance(1, 6) {
			n = []int{15, 16, 17, 31, 32, 33, 63, 64}[c.Rand.Intn(8)]
		}
		ids := distinctIDs(c.Rand, n)
		sel, class := randomSubset(c.Rand, n)
		c.Count("random_subset_class:"+class, 1)
		checkSubset(c, ids, sel, 12)
		if c.WantSample() {
			c.Sample(map[string]interface{}{"n": n, "subset_class": class})
		}
	})

	// proofs that are HELD while other proofs are generated (a node answers several merkle-block
	// requests, on one goroutine or on several): a proof handed out is a value, it must keep
	// validating against its own root and keep the hashes it had when it was returned
	r.Cases("held-proofs", r.N(200, 8000), func(c *ev.Case) {
		rng := c.Rand
		mk := func(l []h32) []*types.Tx {
			out := make([]*types.Tx, len(l))
			for i := range l {
				out[i] = &types.Tx{Tx: &bc.Tx{ID: bc.NewHash(l[i])}}
			}
			return out
		}
		type held struct {
			ids, rel []h32
			root     h32
			hs       []*bc.Hash // exactly what GetTxMerkleTreeProof returned
			fl       []uint8
			snap     []h32
		}
		gen := func(r *ev.Rand) *held {
			n := r.Range(1, 40)
			ids := distinctIDs(r, n)
			sel, _ := randomSubset(r, n)
			h := &held{ids: ids, rel: pick(ids, sel)}
			h.root = refRoot(ids)
			h.hs, h.fl = types.GetTxMerkleTreeProof(mk(ids), mk(h.rel))
			for _, x := range h.hs {
				h.snap = append(h.snap, x.Byte32())
			}
			return h
		}
		check := func(h *held, when string) {
			c.Eval(1)
			for i, x := range h.hs {
				if x.Byte32() != h.snap[i] {
					c.Violation("held-proof:hash-changed:"+when, "a hash of a proof returned earlier changed while another proof was generated",
						map[string]interface{}{"n": len(h.ids), "related": len(h.rel), "index": i, "was": fmt.Sprintf("%x", h.snap[i]), "now": fmt.Sprintf("%x", x.Byte32())})
					return
				}
			}
			if len(h.rel) > 0 && !validate(h.hs, h.fl, toHashes(h.rel), bc.NewHash(h.root)) {
				c.Violation("held-proof:no-longer-validates:"+when, "a proof returned earlier no longer validates against its own root after another proof was generated",
					map[string]interface{}{"n": len(h.ids), "related": len(h.rel)})
				return
			}
			c.Count("held_proofs_still_valid:"+when, 1)
		}
		// sequential: hold 2-4 proofs, generate more, re-check all
		var hs []*held
		for i, k := 0, rng.Range(2, 4); i < k; i++ {
			hs = append(hs, gen(rng))
		}
		for i, k := 0, rng.Range(1, 3); i < k; i++ {
			gen(rng)
		}
		for _, h := range hs {
			check(h, "sequential")
		}
		// concurrent: four goroutines generate and re-check their own proofs
		var wg sync.WaitGroup
		var mu sync.Mutex
		var all []*held
		for g := 0; g < 4; g++ {
			gr := rng.Fork()
			wg.Add(1)
			go func() {
				defer wg.Done()
				var mine []*held
				for i := 0; i < 6; i++ {
					mine = append(mine, gen(gr))
					runtime.Gosched()
				}
				mu.Lock()
				all = append(all, mine...)
				mu.Unlock()
			}()
		}
		wg.Wait()
		for _, h := range all {
			check(h, "concurrent")
		}
	})

	// hand-made proofs over the real tree: accepted => every related id is in the list
	r.Cases("crafted", r.N(3000, 150000), func(c *ev.Case) {
		rng := c.Rand
		n := rng.Range(1, 24)
		ids := distinctIDs(rng, n)
		tree := build(ids, 0)
		root, err := realRoot(ids)
		if err != nil || root != tree.h {
			c.Violation("root:TxMerkleRoot!=reference", "TxMerkleRoot differs from the documented tree hash", map[string]interface{}{"ids": hexs(ids)})
			return
		}
		sel := make([]bool, n)
		for i := range sel {
			sel[i] = rng.Chance(1, 3)
		}
		p := proof{}
		refProof(tree, sel, func(*node) bool { return rng.Chance(1, 3) }, &p)
		related := pick(ids, sel)
		f := foreign(rng, ids)
		kind := []string{"expanded", "related-foreign", "related-permuted", "leaf-as-foreign", "flags-garbled", "related-unselected-member", "truncated"}[rng.Intn(7)]
		switch kind {
		case "expanded":
		case "related-foreign":
			related = append(append([]h32(nil), related...), h32{})
			j := rng.Intn(len(related))
			copy(related[j+1:], related[j:])
			related[j] = f
		case "related-permuted":
			rng.Shuffle(len(related), func(i, j int) { related[i], related[j] = related[j], related[i] })
		case "leaf-as-foreign":
			// forge: replace one leaf hash of the proof by the leaf hash of a foreign id, and claim that id
			if fps := flagPositions(p); len(fps) > 0 {
				fl := fps[rng.Intn(len(fps))]
				p.hs[fl.h] = leafH(f)
				p.fl[fl.f] = types.FlagTxLeaf
				related = []h32{f}
				// all other leaf flags demoted to assist so that only f is claimed
				for _, o := range fps {
					if o.f != fl.f && p.fl[o.f] == types.FlagTxLeaf {
						p.fl[o.f] = types.FlagAssist
					}
				}
			}
		case "flags-garbled":
			for k := 0; k < 1+rng.Intn(3) && len(p.fl) > 0; k++ {
				p.fl[rng.Intn(len(p.fl))] = uint8(rng.Intn(4))
			}
		case "related-unselected-member":
			for i := range ids {
				if !sel[i] {
					related = append(related, ids[i])
					break
				}
			}
		case "truncated":
			if len(p.hs) > 0 {
				p.hs = p.hs[:rng.Intn(len(p.hs))]
			}
		}
		c.Eval(1)
		ok := realValidate(p, related, root)
		strict := refStrict(p, leafHashes(related), root)
		outcome := "reject"
		if ok {
			outcome = "accept"
		}
		c.Count("crafted:"+kind+":"+outcome, 1)
		c.Distinct("crafted %s %s n=%d", kind, outcome, n)
		if ok {
			inList := map[h32]bool{}
			for _, id := range ids {
				inList[id] = true
			}
			for _, rel := range related {
				if !inList[rel] {
					c.Violation("sound:crafted-proof-accepts-nonmember:"+kind, "validation succeeded although a related hash is not an id of the list",
						map[string]interface{}{"ids": hexs(ids), "proof_hashes": hexs(p.hs), "proof_flags": p.fl, "related": hexs(related), "root": hex.EncodeToString(root[:]), "nonmember": hex.EncodeToString(rel[:])})
					break
				}
			}
		}
		if strict && !ok {
			// a well-formed, fully consumed proof of members in tree order: not demanded by the property text (it speaks of generated proofs); visible in the evidence
			c.Count("crafted:strict-valid-but-rejected", 1)
		}
		if strict && ok {
			c.Count("crafted:strict-valid-accepted", 1)
		}
	})

	// edge cases: nothing may panic; verdicts where the property speaks
	r.Cases("edge", 12, func(c *ev.Case) {
		rng := c.Rand
		empty := sha3.Sum256(nil)
		switch c.Index {
		case 0: // empty list, empty subset
			checkSubset(c, nil, nil, 0)
			c.Count("edge:empty-list", 1)
		case 1: // empty list, nil arguments straight into the API
			hs, fl := types.GetTxMerkleTreeProof(nil, nil)
			ok := types.ValidateTxMerkleTreeProof(hs, fl, nil, bc.NewHash(empty))
			c.Count(fmt.Sprintf("edge:nil-args-validate=%v", ok), 1)
			if !ok {
				c.Violation("complete:generated-proof-rejected:empty-list", "proof of the empty subset of the empty list does not validate against the root of the empty list", nil)
			}
			r0, err := types.TxMerkleRoot(nil)
			if err != nil || r0.Byte32() != empty {
				c.Violation("root:TxMerkleRoot!=reference", "root of the empty list is not the hash of the empty string", nil)
			}
		case 2: // empty list with a related id: nothing can be included
			f := foreign(rng, nil)
			p := realProof(nil, []h32{f})
			x := &ctx{c: c, related: []h32{f}, orig: p}
			x.mustFail("foreign-related-regenerated", p, []h32{f}, empty, "empty list, one related id")
			x.mustFail("foreign-related-inserted", proof{}, []h32{f}, empty, "empty list, empty proof, one related id")
		case 3: // single id, both subsets
			ids := distinctIDs(rng, 1)
			checkSubset(c, ids, []bool{false}, 0)
			checkSubset(c, ids, []bool{true}, 0)
		case 4: // only foreign related ids on a real list
			ids := distinctIDs(rng, 9)
			f := foreign(rng, ids)
			p := realProof(ids, []h32{f})
			x := &ctx{c: c, ids: ids, sel: make([]bool, 9), related: []h32{f}, orig: p, root: refRoot(ids)}
			x.mustFail("foreign-related-regenerated", p, []h32{f}, x.root, "proof generated for a foreign id only")
		case 5: // validation with empty proof / nil slices against a real root
			ids := distinctIDs(rng, 5)
			x := &ctx{c: c, ids: ids, sel: make([]bool, 5), root: refRoot(ids)}
			x.mustFail("hash-dropped", proof{}, []h32{ids[0]}, x.root, "empty proof, one member claimed")
			x.mustFail("hash-dropped", proof{fl: []uint8{2}}, []h32{ids[0]}, x.root, "flag without hash")
			x.mustFail("flag-dropped", proof{hs: []h32{leafH(ids[0])}}, []h32{ids[0]}, x.root, "hash without flag")
		case 6: // the same related id twice
			ids := distinctIDs(rng, 6)
			rel := []h32{ids[2], ids[2]}
			p := realProof(ids, rel)
			x := &ctx{c: c, ids: ids, sel: make([]bool, 6), related: rel, orig: p, root: refRoot(ids)}
			x.observe("related-duplicated", p, rel, x.root)
			c.Eval(1)
			if !realValidate(p, rel[:1], x.root) {
				c.Violation("complete:generated-proof-rejected:duplicate-related", "proof generated for {x,x} does not validate for {x}", x.witness("dup", p, rel[:1], x.root, ""))
			}
		case 7: // long flag strings / deep parent chains: no panic, no acceptance of a foreign id
			ids := distinctIDs(rng, 4)
			f := foreign(rng, ids)
			x := &ctx{c: c, ids: ids, sel: make([]bool, 4), root: refRoot(ids)}
			deep := proof{}
			for i := 0; i < 5000; i++ {
				deep.fl = append(deep.fl, types.FlagTxParent)
			}
			deep.hs = []h32{leafH(f)}
			x.mustFail("flag-inserted", deep, []h32{f}, x.root, "5000 parent flags")
		case 8: // sizes around powers of two, whole list and singletons
			for _, n := range []int{2, 3, 4, 5, 8, 9, 16, 17, 32, 33, 64} {
				ids := distinctIDs(rng, n)
				all := make([]bool, n)
				for i := range all {
					all[i] = true
				}
				checkSubset(c, ids, all, 4)
				for _, i := range []int{0, n - 1, split(n) - 1, split(n)} {
					one := make([]bool, n)
					one[i] = true
					checkSubset(c, ids, one, 4)
				}
			}
		default:
			n := rng.Range(0, 64)
			ids := distinctIDs(rng, n)
			sel := make([]bool, n)
			checkSubset(c, ids, sel, 6) // empty subset of a random list
			c.Count("edge:empty-subset", 1)
		}
	})

	for _, f := range []struct {
		n     string
		q, th int64
	}{
		{"generated_proof_validates", 5000, 125000},
		{"roots_equal_reference", 5000, 125000},
		{"rejected:other-root", 20000, 500000},
		{"rejected:foreign-related-replaced", 10000, 250000},
		{"rejected:foreign-related-inserted", 10000, 250000},
		{"rejected:foreign-related-regenerated", 8000, 200000},
		{"rejected:hash-bitflip", 20000, 500000},
		{"rejected:hash-replaced", 20000, 500000},
		{"rejected:hash-swapped", 10000, 250000},
		{"rejected:flag-0to1", 5000, 125000},
		{"rejected:flag-0to2", 5000, 125000},
		{"rejected:flag-1to0", 5000, 125000},
		{"rejected:flag-1to2", 5000, 125000},
		{"rejected:flag-2to0", 5000, 125000},
		{"rejected:flag-2to1", 5000, 125000},
		{"rejected:flag-2to3", 5000, 125000},
		{"rejected:hash-dropped", 20000, 500000},
		{"rejected:flag-dropped", 20000, 500000},
		{"rejected:hash-inserted", 20000, 500000},
		{"rejected:flag-inserted", 20000, 500000},
		{"crafted:related-foreign:reject", 100, 2500},
		{"crafted:leaf-as-foreign:reject", 100, 2500},
		{"crafted:expanded:accept", 100, 2500},
		{"held_proofs_still_valid:sequential", 300, 12000},
		{"held_proofs_still_valid:concurrent", 3000, 120000},
	} {
		if r.Thorough() {
			r.Floor(f.n, f.th)
		} else {
			r.Floor(f.n, f.q)
		}
	}
}

type flagPos struct{ f, h int }

// flagPositions pairs every hash-carrying flag (0 or 2) with the index of its hash.
func flagPositions(p proof) []flagPos {
	out := []flagPos{}
	h := 0
	for i, f := range p.fl {
		if f == types.FlagAssist || f == types.FlagTxLeaf {
			if h < len(p.hs) {
				out = append(out, flagPos{i, h})
			}
			h++
		}
	}
	return out
}
