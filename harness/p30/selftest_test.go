package p30

import (
	"sync/atomic"
	"testing"

	"golang.org/x/crypto/sha3"

	"github.com/bytom/bytom/protocol/bc"
	"github.com/bytom/bytom/protocol/bc/types"

	"verif/internal/ev"
)

// faultyValidator re-implements the validation algorithm with one seeded fault,
// to show that the monitor's workload and oracle notice realistic one-line bugs.
func faultyValidator(bug string) func([]*bc.Hash, []uint8, []*bc.Hash, bc.Hash) bool {
	return func(hashes []*bc.Hash, flags []uint8, related []*bc.Hash, root bc.Hash) bool {
		empty := sha3.Sum256(nil)
		hs := make([]h32, len(hashes))
		for i, h := range hashes {
			hs[i] = h.Byte32()
		}
		rel := make([]h32, len(related))
		for i, h := range related {
			rel[i] = leafH(h.Byte32())
		}
		fl := append([]uint8(nil), flags...)
		var eval func() h32
		eval = func() h32 {
			if len(fl) == 0 || len(hs) == 0 {
				return empty
			}
			f := fl[0]
			fl = fl[1:]
			if f > 2 && bug == "unknown-flag-as-assist" {
				f = 0
			}
			switch f {
			case types.FlagAssist:
				h := hs[0]
				hs = hs[1:]
				return h
			case types.FlagTxLeaf:
				if len(rel) == 0 {
					if bug == "leaf-without-related-ok" {
						h := hs[0]
						hs = hs[1:]
						return h
					}
					return empty
				}
				if hs[0] == rel[0] || bug == "leaf-not-compared" {
					h := hs[0]
					hs, rel = hs[1:], rel[1:]
					return h
				}
			case types.FlagTxParent:
				l := eval()
				r := eval()
				if bug == "children-swapped" {
					return nodeH(r, l)
				}
				return nodeH(l, r)
			}
			return empty
		}
		got := eval()
		switch bug {
		case "related-not-consumed":
			return got == root.Byte32()
		case "root-not-compared":
			return len(rel) == 0
		}
		return got == root.Byte32() && len(rel) == 0
	}
}

func TestOracleSensitivity(t *testing.T) {
	defer func() { validate = types.ValidateTxMerkleTreeProof }()
	for _, bug := range []string{"", "leaf-not-compared", "related-not-consumed", "root-not-compared", "unknown-flag-as-assist", "leaf-without-related-ok", "children-swapped"} {
		validate = faultyValidator(bug)
		atomic.StoreInt64(&judgedAccepts, 0)
		r := ev.Start(t, "C30-selftest-"+bug)
		r.Cases("all", 12, func(c *ev.Case) { allSubsets(c, 1+c.Index%6) })
		n := atomic.LoadInt64(&judgedAccepts)
		if bug == "" && n != 0 {
			t.Errorf("faithful model judged faulty %d times", n)
		}
		if bug != "" && n == 0 {
			t.Errorf("seeded fault %q not noticed", bug)
		}
		t.Logf("fault %-26q judged violations: %d", bug, n)
	}
}
