// C29 — addresses and text encodings round-trip and detect corruption.
//
// Oracles (all independent of the code under test):
//   - own BIP-173 encoder (polymod, 8->5 regrouping) for address / bech32 strings
//   - a bit-stream model of ConvertBits (with the documented error rule)
//   - Go's standard encoding/base32 for RFC 4648 output
//   - own BIP-39 index computation (sha256 checksum, 11-bit groups) and own PBKDF2
//   - the algebraic guarantee of the bech32 code: any single substituted
//     character is detected; mixed case is invalid
package p29

import (
	"bytes"
	"crypto/hmac"
	"crypto/sha256"
	"crypto/sha512"
	"encoding/hex"
	"fmt"
	"io"
	"io/ioutil"
	"runtime/debug"
	"strings"
	"testing"

	stdbase32 "encoding/base32"

	"github.com/bytom/bytom/common"
	"github.com/bytom/bytom/common/bech32"
	"github.com/bytom/bytom/consensus"
	"github.com/bytom/bytom/consensus/segwit"
	"github.com/bytom/bytom/encoding/base32"
	"github.com/bytom/bytom/protocol/vm/vmutil"
	"github.com/bytom/bytom/wallet/mnemonic"
	"github.com/bytom/bytom/wallet/mnemonic/wordlists"

	"verif/internal/ev"
)

// ------------------------------------------------------------ bech32 reference (BIP-173)

const alphabet = "qpzry9x8gf2tvdw0s3jn54khce6mua7l"

func refPolymod(v []byte) uint32 {
	g := [5]uint32{0x3b6a57b2, 0x26508e6d, 0x1ea119fa, 0x3d4233dd, 0x2a1462b3}
	chk := uint32(1)
	for _, x := range v {
		top := chk >> 25
		chk = (chk&0x1ffffff)<<5 ^ uint32(x)
		for i := uint(0); i < 5; i++ {
			if top>>i&1 == 1 {
				chk ^= g[i]
			}
		}
	}
	return chk
}

func refExpand(hrp string) []byte {
	out := []byte{}
	for i := 0; i < len(hrp); i++ {
		out = append(out, hrp[i]>>5)
	}
	out = append(out, 0)
	for i := 0; i < len(hrp); i++ {
		out = append(out, hrp[i]&31)
	}
	return out
}

func refBech32(hrp string, data5 []byte) string {
	v := append(refExpand(hrp), data5...)
	v = append(v, 0, 0, 0, 0, 0, 0)
	pm := refPolymod(v) ^ 1
	var sb strings.Builder
	sb.WriteString(hrp)
	sb.WriteByte('1')
	for _, d := range data5 {
		sb.WriteByte(alphabet[d])
	}
	for i := 0; i < 6; i++ {
		sb.WriteByte(alphabet[(pm>>uint(5*(5-i)))&31])
	}
	return sb.String()
}

// refRegroup: bit-stream model of ConvertBits. ok=false when, without padding,
// the incomplete trailing group has more than 4 bits or a non-zero bit
// (the rule documented in ConvertBits).
func refRegroup(data []byte, from, to uint8, pad bool) ([]byte, bool) {
	bits := make([]byte, 0, len(data)*int(from))
	for _, b := range data {
		for i := int(from) - 1; i >= 0; i-- {
			bits = append(bits, b>>uint(i)&1)
		}
	}
	var out []byte
	i := 0
	for ; i+int(to) <= len(bits); i += int(to) {
		var x byte
		for _, bit := range bits[i : i+int(to)] {
			x = x<<1 | bit
		}
		out = append(out, x)
	}
	rest := bits[i:]
	if len(rest) > 0 {
		if pad {
			var x byte
			for _, bit := range rest {
				x = x<<1 | bit
			}
			out = append(out, x<<uint(int(to)-len(rest)))
		} else {
			nz := false
			for _, bit := range rest {
				nz = nz || bit != 0
			}
			if len(rest) > 4 || nz {
				return nil, false
			}
		}
	}
	return out, true
}

func refSegwitAddr(hrp string, ver byte, prog []byte) string {
	d5, _ := refRegroup(prog, 8, 5, true)
	return refBech32(hrp, append([]byte{ver}, d5...))
}

// ------------------------------------------------------------ BIP-39 / PBKDF2 reference

func refIndices(entropy []byte) []int {
	cs := sha256.Sum256(entropy)
	nbits := len(entropy)*8 + len(entropy)*8/32
	bit := func(i int) int {
		if i < len(entropy)*8 {
			return int(entropy[i/8]>>(7-uint(i%8))) & 1
		}
		j := i - len(entropy)*8
		return int(cs[j/8]>>(7-uint(j%8))) & 1
	}
	out := []int{}
	for i := 0; i < nbits; i += 11 {
		x := 0
		for k := 0; k < 11; k++ {
			x = x<<1 | bit(i+k)
		}
		out = append(out, x)
	}
	return out
}

// refFromIndices returns the entropy and whether the checksum bits match.
func refFromIndices(idx []int) ([]byte, bool) {
	nbits := len(idx) * 11
	ent := nbits * 32 / 33
	bits := make([]byte, 0, nbits)
	for _, x := range idx {
		for k := 10; k >= 0; k-- {
			bits = append(bits, byte(x>>uint(k))&1)
		}
	}
	e := make([]byte, ent/8)
	for i := 0; i < ent; i++ {
		e[i/8] |= bits[i] << (7 - uint(i%8))
	}
	cs := sha256.Sum256(e)
	for j := 0; j < nbits-ent; j++ {
		if bits[ent+j] != cs[j/8]>>(7-uint(j%8))&1 {
			return e, false
		}
	}
	return e, true
}

func refPBKDF2SHA512(pw, salt []byte, iter int) []byte {
	mac := hmac.New(sha512.New, pw)
	mac.Write(salt)
	mac.Write([]byte{0, 0, 0, 1})
	u := mac.Sum(nil)
	t := append([]byte(nil), u...)
	for i := 1; i < iter; i++ {
		mac.Reset()
		mac.Write(u)
		u = mac.Sum(nil)
		for k := range t {
			t[k] ^= u[k]
		}
	}
	return t
}

// ------------------------------------------------------------ plumbing

type netT struct {
	name string
	p    consensus.Params
}

func nets() []netT {
	out := []netT{{"MainNetParams", consensus.MainNetParams}, {"TestNetParams", consensus.TestNetParams}, {"SoloNetParams", consensus.SoloNetParams}}
	return out
}

// errClass keeps the constant head of an error message (up to the first digit, quote, colon or full stop).
func errClass(err error) string {
	if err == nil {
		return "nil"
	}
	m := err.Error()
	n := 0
	for n < len(m) && n < 48 {
		b := m[n]
		if b >= '0' && b <= '9' || b == '\'' || b == ':' || b == '.' || b == '`' || b < 32 || b > 126 {
			break
		}
		n++
	}
	return strings.TrimSpace(m[:n])
}

// guard runs f; a panic of the code under test becomes a violation keyed by its site.
func guard(c *ev.Case, what string, input interface{}, f func()) (panicked bool) {
	defer func() {
		if p := recover(); p != nil {
			panicked = true
			st := string(debug.Stack())
			if len(st) > 3000 {
				st = st[:3000]
			}
			c.Count("panics", 1)
			c.Violation("panic:"+what+"@"+ev.PanicSite(st), "decoder/encoder panicked: "+fmt.Sprint(p),
				map[string]interface{}{"call": what, "input": input, "panic": fmt.Sprint(p), "stack": st})
		}
	}()
	f()
	return false
}

func hx(b []byte) string {
	if len(b) > 300 {
		return hex.EncodeToString(b[:300]) + fmt.Sprintf("...(%d bytes)", len(b))
	}
	return hex.EncodeToString(b)
}

func randHash(rng *ev.Rand, n int) []byte {
	h := rng.Bytes(n)
	switch rng.Intn(12) {
	case 0:
		for i := range h {
			h[i] = 0
		}
	case 1:
		for i := range h {
			h[i] = 0xff
		}
	case 2:
		for i := range h[:n/2] {
			h[i] = 0
		}
	case 3:
		for i := n / 2; i < n; i++ {
			h[i] = 0
		}
	}
	return h
}

// ------------------------------------------------------------ addresses

func region(hrpLen, i, total int) string {
	switch {
	case i < hrpLen:
		return "hrp"
	case i == hrpLen:
		return "separator"
	case i == hrpLen+1:
		return "version"
	case i >= total-6:
		return "checksum"
	}
	return "program"
}

func charKind(b byte) string {
	switch {
	case b == '1':
		return "one"
	case strings.IndexByte(alphabet, b) >= 0:
		return "alphabet"
	case b >= 'A' && b <= 'Z':
		return "upper"
	case b >= 'a' && b <= 'z' || b >= '0' && b <= '9':
		return "alnum-not-in-alphabet"
	case b < 33 || b > 126:
		return "non-printable"
	}
	return "punct"
}

var substChars = []byte(alphabet + "1bio" + "QPL" + " !-~_\x00\x7f\x80\xff")

func addressCase(c *ev.Case) {
	rng := c.Rand
	ns := nets()
	ni := c.Index % len(ns)
	net := ns[ni]
	kind := []string{"P2WPKH", "P2WSH"}[c.Index/len(ns)%2]
	size := map[string]int{"P2WPKH": 20, "P2WSH": 32}[kind]
	hash := randHash(rng, size)
	wit := map[string]interface{}{"net": net.name, "kind": kind, "hash": hx(hash)}

	// program -> hash -> address -> string -> address -> program
	var prog []byte
	var err error
	if kind == "P2WPKH" {
		prog, err = vmutil.P2WPKHProgram(hash)
	} else {
		prog, err = vmutil.P2WSHProgram(hash)
	}
	if err != nil {
		c.Violation("addr:program-build:"+kind, "cannot build the standard program", wit)
		return
	}
	isStd := segwit.IsP2WPKHScript(prog)
	if kind == "P2WSH" {
		isStd = segwit.IsP2WSHScript(prog)
	}
	h2, err := segwit.GetHashFromStandardProg(prog)
	if !isStd || err != nil || !bytes.Equal(h2, hash) {
		c.Violation("addr:program-hash-extraction:"+kind, "standard program not recognised or its hash is not recovered", wit)
		return
	}
	var a common.Address
	if kind == "P2WPKH" {
		a, err = common.NewAddressWitnessPubKeyHash(h2, &net.p)
	} else {
		a, err = common.NewAddressWitnessScriptHash(h2, &net.p)
	}
	if err != nil || a == nil {
		c.Violation("addr:new:"+kind, "address constructor failed on a valid hash: "+fmt.Sprint(err), wit)
		return
	}
	s := a.EncodeAddress()
	wit["address"] = s
	want := refSegwitAddr(net.p.Bech32HRPSegwit, 0, hash)
	if s != want || a.String() != s {
		wit["reference"] = want
		c.Violation("addr:encode-differs-from-bip173:"+kind, "EncodeAddress differs from the reference bech32 encoding", wit)
		return
	}
	c.Count("addr_encoded:"+net.name+":"+kind, 1)
	if !a.IsForNet(&net.p) {
		c.Violation("addr:IsForNet-false-on-own-net", "freshly built address is not for its own network", wit)
	}
	b, err := common.DecodeAddress(s, &net.p)
	if err != nil || b == nil {
		c.Violation("addr:roundtrip-decode-failed:"+kind, "DecodeAddress rejects the address just encoded: "+fmt.Sprint(err), wit)
		return
	}
	var prog2 []byte
	switch b.(type) {
	case *common.AddressWitnessPubKeyHash:
		prog2, _ = vmutil.P2WPKHProgram(b.ScriptAddress())
	case *common.AddressWitnessScriptHash:
		prog2, _ = vmutil.P2WSHProgram(b.ScriptAddress())
	}
	if !bytes.Equal(b.ScriptAddress(), hash) || !bytes.Equal(prog2, prog) || !b.IsForNet(&net.p) || b.EncodeAddress() != s {
		wit["decoded_hash"] = hx(b.ScriptAddress())
		wit["decoded_program"] = hx(prog2)
		c.Violation("addr:roundtrip-mismatch:"+kind, "decoded address does not carry the same program / network / string", wit)
		return
	}
	c.Count("addr_roundtrip_ok", 1)
	c.Distinct("addr %s %s roundtrip", net.name, kind)

	// only on that network
	for j, o := range ns {
		if j == ni {
			continue
		}
		x, err := common.DecodeAddress(s, &o.p)
		c.Eval(1)
		if err == nil && x != nil && x.IsForNet(&o.p) {
			wit["other_net"] = o.name
			c.Violation("addr:accepted-on-other-network", "address of one network decodes as an address of another network", wit)
		} else if err != nil {
			c.Count("addr_other_net_rejected:"+errClass(err), 1)
		} else {
			c.Count("addr_other_net_decoded_but_IsForNet_false", 1)
		}
		// and an address of this net is not "for" the other net
		if a.IsForNet(&o.p) {
			c.Violation("addr:IsForNet-true-on-other-net", "IsForNet is true for another network", wit)
		}
	}

	// all-uppercase form: BIP-173 allows it; nothing is demanded except that, if accepted, it is the same address
	up := strings.ToUpper(s)
	if x, err := common.DecodeAddress(up, &net.p); err == nil {
		c.Count("addr_uppercase_accepted", 1)
		if !bytes.Equal(x.ScriptAddress(), hash) || !x.IsForNet(&net.p) {
			c.Violation("addr:uppercase-decodes-to-other-program", "the upper-case form decodes to a different program or network", wit)
		}
	} else {
		c.Count("addr_uppercase_rejected", 1)
	}

	// EVERY single-character substitution must be rejected
	hl := len(net.p.Bech32HRPSegwit)
	bs := []byte(s)
	cnt := map[string]int64{}
	dist := map[[3]string]bool{}
	for i := range bs {
		orig := bs[i]
		reg := region(hl, i, len(bs))
		cands := substChars
		if orig >= 'a' && orig <= 'z' {
			cands = append(append([]byte(nil), substChars...), orig-32) // the case flip of this very character
		}
		for _, r := range cands {
			if r == orig {
				continue
			}
			bs[i] = r
			m := string(bs)
			x, err := common.DecodeAddress(m, &net.p)
			cnt["_evals"]++
			if err == nil {
				w := map[string]interface{}{"net": net.name, "kind": kind, "address": s, "mutated": m, "position": i, "from": string(orig), "to": fmt.Sprintf("%q", r), "decoded_hash": hx(x.ScriptAddress())}
				flip := ""
				if r == orig-32 {
					flip = ":case-flip"
				}
				c.Count("addr_subst_accepted", 1)
				c.Violation("addr:substitution-accepted:"+reg+":"+charKind(r)+flip, "an address with one character changed is accepted", w)
			} else {
				ec := errClass(err)
				cnt["addr_subst_rejected:"+reg]++
				cnt["addr_subst_err:"+ec]++
				dist[[3]string{reg, charKind(r), ec}] = true
			}
		}
		bs[i] = orig
	}
	c.Eval(cnt["_evals"])
	delete(cnt, "_evals")
	for k, v := range cnt {
		c.Count(k, v)
	}
	for k := range dist {
		c.Distinct("subst %s %s -> %s", k[0], k[1], k[2])
	}
	c.Count("addr_all_substitutions_done", 1)

	// a few insertions / deletions / transpositions: recorded, must not panic; if accepted it must not be for another program silently?  (not demanded: recorded only)
	for k := 0; k < 6; k++ {
		m := []byte(s)
		i := rng.Intn(len(m))
		var cls string
		switch k % 3 {
		case 0:
			m = append(m[:i], m[i+1:]...)
			cls = "deletion"
		case 1:
			m = append(m[:i], append([]byte{alphabet[rng.Intn(32)]}, m[i:]...)...)
			cls = "insertion"
		case 2:
			if i+1 < len(m) {
				m[i], m[i+1] = m[i+1], m[i]
			}
			cls = "transposition"
		}
		if string(m) == s {
			continue
		}
		_, err := common.DecodeAddress(string(m), &net.p)
		c.Eval(1)
		if err == nil {
			c.Count("addr_observed_accept:"+cls, 1)
		} else {
			c.Count("addr_observed_reject:"+cls, 1)
		}
	}
	if c.WantSample() {
		c.Sample(map[string]interface{}{"net": net.name, "kind": kind, "hash": hx(hash), "address": s, "substitutions": "every position x " + fmt.Sprint(len(substChars)+1) + " characters"})
	}
}

// ------------------------------------------------------------ bech32 package

func hrpChars() []byte {
	out := []byte{}
	for b := byte(33); b <= 126; b++ {
		if b >= 'A' && b <= 'Z' {
			continue
		}
		out = append(out, b)
	}
	return out
}

func bech32Case(c *ev.Case) {
	rng := c.Rand
	hc := hrpChars()
	hl := rng.Range(1, 20)
	if rng.Chance(1, 6) {
		hl = rng.Range(1, 83)
	}
	hb := make([]byte, hl)
	for i := range hb {
		hb[i] = hc[rng.Intn(len(hc))]
	}
	hrp := string(hb)
	maxData := 90 - hl - 1 - 6
	if maxData < 0 {
		maxData = 0
	}
	dl := rng.Range(0, maxData)
	data := make([]byte, dl)
	for i := range data {
		data[i] = byte(rng.Intn(32))
	}
	in := append([]byte(nil), data...)
	var enc string
	var err error
	if guard(c, "Bech32Encode", map[string]string{"hrp": hrp, "data": hx(data)}, func() { enc, err = bech32.Bech32Encode(hrp, in) }) {
		return
	}
	wit := map[string]interface{}{"hrp": hrp, "data": hx(data), "encoded": enc}
	if err != nil {
		c.Violation("bech32:encode-error-on-valid-input", "Bech32Encode fails on 5-bit data: "+err.Error(), wit)
		return
	}
	if want := refBech32(hrp, data); enc != want {
		wit["reference"] = want
		c.Violation("bech32:encode-differs-from-bip173", "Bech32Encode differs from the reference encoder", wit)
		return
	}
	if !bytes.Equal(in, data) {
		c.Violation("bech32:encode-mutates-input", "Bech32Encode changed its data argument", wit)
	}
	var h2 string
	var d2 []byte
	if guard(c, "Bech32Decode", enc, func() { h2, d2, err = bech32.Bech32Decode(enc) }) {
		return
	}
	if err != nil || h2 != hrp || !bytes.Equal(d2, data) {
		wit["decoded_hrp"], wit["decoded_data"], wit["err"] = h2, hx(d2), fmt.Sprint(err)
		cls := "short"
		if len(enc) > 60 {
			cls = "long"
		}
		if strings.Contains(hrp, "1") {
			cls += ":hrp-contains-1"
		}
		c.Violation("bech32:roundtrip:"+cls, "Bech32Decode(Bech32Encode(hrp,data)) != (hrp,data)", wit)
		return
	}
	c.Count("bech32_roundtrip_ok", 1)
	c.Distinct("bech32 hrplen=%d datalen=%d", hl, dl/8*8)

	// single substitution in the data part / checksum (same hrp): must be detected
	bs := []byte(enc)
	for k := 0; k < 12 && dl+6 > 0; k++ {
		i := hl + 1 + rng.Intn(dl+6)
		orig := bs[i]
		r := alphabet[rng.Intn(32)]
		if r == orig {
			continue
		}
		bs[i] = r
		_, _, err := bech32.Bech32Decode(string(bs))
		c.Eval(1)
		if err == nil {
			c.Violation("bech32:substitution-accepted", "Bech32Decode accepts a string with one data character changed", map[string]interface{}{"original": enc, "mutated": string(bs), "position": i})
		} else {
			c.Count("bech32_subst_rejected", 1)
		}
		bs[i] = orig
	}
	// data bytes >= 32: error, no panic
	if dl > 0 {
		bad := append([]byte(nil), data...)
		bad[rng.Intn(dl)] = byte(32 + rng.Intn(224))
		guard(c, "Bech32Encode", hx(bad), func() {
			if _, err := bech32.Bech32Encode(hrp, bad); err == nil {
				c.Violation("bech32:encode-accepts-non-5-bit-data", "Bech32Encode accepts a data byte >= 32", map[string]string{"data": hx(bad)})
			} else {
				c.Count("bech32_encode_rejects_bad_data", 1)
			}
		})
	}

	// ConvertBits against the bit-stream model, all widths
	for k := 0; k < 8; k++ {
		from, to := uint8(rng.Range(1, 8)), uint8(rng.Range(1, 8))
		if k < 2 {
			from, to = 8, 5
		}
		if k == 2 {
			from, to = 5, 8
		}
		pad := rng.Bool()
		src := rng.Bytes(rng.Range(0, 70))
		if rng.Chance(3, 4) {
			for i := range src {
				src[i] &= 1<<from - 1
			}
		}
		if rng.Chance(1, 4) && len(src) > 0 {
			// make the tail zero so that the unpadded direction succeeds more often
			src[len(src)-1] = 0
		}
		keep := append([]byte(nil), src...)
		var got []byte
		var err error
		w := map[string]interface{}{"data": hx(keep), "from": from, "to": to, "pad": pad}
		if guard(c, "ConvertBits", w, func() { got, err = bech32.ConvertBits(src, from, to, pad) }) {
			continue
		}
		want, ok := refRegroup(keep, from, to, pad)
		c.Eval(1)
		if ok != (err == nil) || (ok && !bytes.Equal(got, want)) {
			w["got"], w["err"], w["want"], w["want_ok"] = hx(got), fmt.Sprint(err), hx(want), ok
			c.Violation(fmt.Sprintf("bech32:ConvertBits-differs-from-bit-stream-model:%d->%d:pad=%v", from, to, pad), "ConvertBits output or error differs from regrouping the bit stream", w)
			continue
		}
		if !bytes.Equal(src, keep) {
			c.Violation("bech32:ConvertBits-mutates-input", "ConvertBits changed its input", w)
		}
		if ok {
			c.Count("convertbits_ok", 1)
		} else {
			c.Count("convertbits_error", 1)
		}
		c.Distinct("convertbits %d->%d pad=%v ok=%v", from, to, pad, ok)
		// the round trip the address code relies on: 8->5 padded, 5->8 unpadded
		if from == 8 && to == 5 {
			g5, e1 := bech32.ConvertBits(keep, 8, 5, true)
			g8, e2 := bech32.ConvertBits(g5, 5, 8, false)
			if e1 != nil || e2 != nil || !bytes.Equal(g8, keep) {
				c.Violation("bech32:ConvertBits-roundtrip-8-5-8", "8->5 (padded) then 5->8 does not return the input", map[string]interface{}{"data": hx(keep), "five": hx(g5), "back": hx(g8), "e1": fmt.Sprint(e1), "e2": fmt.Sprint(e2)})
			} else {
				c.Count("convertbits_roundtrip_8_5_8", 1)
			}
		}
	}
	// invalid widths: error, no panic
	guard(c, "ConvertBits", "width 0/9", func() {
		for _, w := range [][2]uint8{{0, 5}, {5, 0}, {9, 5}, {5, 9}, {255, 255}} {
			if _, err := bech32.ConvertBits([]byte{1, 2, 3}, w[0], w[1], true); err == nil {
				c.Violation("bech32:ConvertBits-accepts-invalid-width", "ConvertBits accepts a bit width outside 1..8", map[string]interface{}{"from": w[0], "to": w[1]})
			} else {
				c.Count("convertbits_invalid_width_rejected", 1)
			}
		}
	})
}

// ------------------------------------------------------------ base32

type encPair struct {
	name string
	e    *base32.Encoding
	s    *stdbase32.Encoding
}

var encs = func() []encPair {
	custom := "abcdefghijklmnopqrstuvwxyz234567"
	return []encPair{
		{"Std", base32.StdEncoding, stdbase32.StdEncoding},
		{"Hex", base32.HexEncoding, stdbase32.HexEncoding},
		{"Std.NoPadding", base32.StdEncoding.WithPadding(base32.NoPadding), stdbase32.StdEncoding.WithPadding(stdbase32.NoPadding)},
		{"Hex.NoPadding", base32.HexEncoding.WithPadding(base32.NoPadding), stdbase32.HexEncoding.WithPadding(stdbase32.NoPadding)},
		{"Std.Padding(*)", base32.StdEncoding.WithPadding('*'), stdbase32.StdEncoding.WithPadding('*')},
		{"Custom(lowercase)", base32.NewEncoding(custom), stdbase32.NewEncoding(custom)},
	}
}()

type chunkReader struct {
	r   io.Reader
	rng *ev.Rand
}

func (c *chunkReader) Read(p []byte) (int, error) {
	n := c.rng.Range(1, 9)
	if n > len(p) {
		n = len(p)
	}
	return c.r.Read(p[:n])
}

func base32Case(c *ev.Case) {
	rng := c.Rand
	ep := encs[c.Index%len(encs)]
	n := rng.Range(0, 24)
	switch rng.Intn(8) {
	case 0:
		n = rng.Range(0, 6)
	case 1:
		n = rng.Range(600, 3000) // beyond the 1024-byte stream buffers
	}
	data := rng.Bytes(n)
	wit := map[string]interface{}{"encoding": ep.name, "data": hx(data)}
	var e string
	if guard(c, "base32.EncodeToString", wit, func() { e = ep.e.EncodeToString(data) }) {
		return
	}
	want := ep.s.EncodeToString(data)
	if e != want || len(e) != ep.e.EncodedLen(n) {
		wit["got"], wit["want"], wit["EncodedLen"] = e, want, ep.e.EncodedLen(n)
		c.Violation("base32:EncodeToString-differs-from-rfc4648:"+ep.name, "EncodeToString differs from RFC 4648 (standard library) output or EncodedLen", wit)
		return
	}
	lenClass := fmt.Sprintf("len%%5=%d", n%5)
	padClass := "padded"
	if strings.HasSuffix(ep.name, "NoPadding") {
		padClass = "NoPadding"
	}
	var d []byte
	var err error
	if guard(c, "base32.DecodeString", e, func() { d, err = ep.e.DecodeString(e) }) {
		return
	}
	if err != nil || !bytes.Equal(d, data) {
		wit["encoded"], wit["decoded"], wit["err"] = e, hx(d), fmt.Sprint(err)
		c.Violation("base32:roundtrip-DecodeString:"+ep.name+":"+lenClass, "DecodeString(EncodeToString(x)) != x", wit)
		return
	}
	c.Count("base32_roundtrip_string:"+ep.name, 1)
	c.Distinct("base32 %s %s string", ep.name, lenClass)

	// buffer API, with newlines sprinkled in (documented as ignored)
	withNL := []byte{}
	for i := 0; i < len(e); i++ {
		if rng.Chance(1, 10) {
			withNL = append(withNL, "\r\n"[rng.Intn(2)])
		}
		withNL = append(withNL, e[i])
	}
	guard(c, "base32.Decode", string(withNL), func() {
		dst := make([]byte, ep.e.DecodedLen(len(withNL)))
		k, err := ep.e.Decode(dst, withNL)
		if err != nil || k > len(dst) || !bytes.Equal(dst[:k], data) {
			wit["encoded"], wit["err"] = string(withNL), fmt.Sprint(err)
			c.Violation("base32:roundtrip-Decode-with-newlines:"+ep.name+":"+lenClass, "Decode of the encoding with CR/LF inserted != x", wit)
		} else {
			c.Count("base32_roundtrip_buffer", 1)
		}
	})

	// stream encoder with random write sizes
	var sb bytes.Buffer
	streamOK := true
	guard(c, "base32.NewEncoder", wit, func() {
		w := base32.NewEncoder(ep.e, &sb)
		rest := data
		for len(rest) > 0 {
			k := rng.Range(1, 11)
			if rng.Chance(1, 10) {
				k = rng.Range(1, 2000)
			}
			if k > len(rest) {
				k = len(rest)
			}
			if m, err := w.Write(rest[:k]); err != nil || m != k {
				streamOK = false
			}
			rest = rest[k:]
		}
		if err := w.Close(); err != nil {
			streamOK = false
		}
	})
	if !streamOK || sb.String() != e {
		wit["stream_output"], wit["want"] = hx(sb.Bytes()), e
		c.Violation("base32:stream-encoder-differs:"+padClass, "NewEncoder output differs from EncodeToString", wit)
	} else {
		c.Count("base32_stream_encode_ok:"+padClass, 1)
	}
	// stream decoder over the correct text, arbitrary read sizes
	guard(c, "base32.NewDecoder", e, func() {
		rd := base32.NewDecoder(ep.e, &chunkReader{strings.NewReader(e), rng})
		got, err := ioutil.ReadAll(rd)
		if err != nil || !bytes.Equal(got, data) {
			wit["encoded"], wit["stream_decoded"], wit["err"] = e, hx(got), fmt.Sprint(err)
			c.Violation("base32:stream-decoder-roundtrip:"+padClass, "NewDecoder over the encoding does not return x", wit)
		} else {
			c.Count("base32_stream_decode_ok:"+padClass, 1)
		}
	})
	c.Distinct("base32 %s %s stream", ep.name, lenClass)
}

// ------------------------------------------------------------ mnemonic

var langs = []struct {
	code  string
	words []string
}{
	{"en", wordlists.English}, {"zh_CN", wordlists.ChineseSimplified}, {"zh_TW", wordlists.ChineseTraditional},
	{"it", wordlists.Italian}, {"ja", wordlists.Japanese}, {"ko", wordlists.Korean}, {"es", wordlists.Spanish},
}

func mnemonicCase(c *ev.Case) {
	rng := c.Rand
	lang := langs[c.Index%len(langs)]
	bitsN := 128 + 32*(c.Index/len(langs)%5)
	ent := rng.Bytes(bitsN / 8)
	switch rng.Intn(8) {
	case 0:
		for i := range ent {
			ent[i] = 0
		}
	case 1:
		for i := range ent {
			ent[i] = 0xff
		}
	case 2:
		ent[0], ent[1] = 0, 0 // leading zero bytes (big.Int drops them)
	case 3:
		ent[len(ent)-1] = 0
	}
	wit := map[string]interface{}{"language": lang.code, "bits": bitsN, "entropy": hx(ent)}
	key := fmt.Sprintf("%s:%d", lang.code, bitsN)
	keep := append([]byte(nil), ent...)
	var m string
	var err error
	if guard(c, "mnemonic.NewMnemonic", wit, func() { m, err = mnemonic.NewMnemonic(ent, lang.code) }) {
		return
	}
	if err != nil {
		c.Violation("mnemonic:NewMnemonic-error:"+key, "NewMnemonic fails on valid entropy: "+err.Error(), wit)
		return
	}
	if !bytes.Equal(ent, keep) {
		c.Violation("mnemonic:NewMnemonic-mutates-entropy", "NewMnemonic changed its entropy argument", wit)
	}
	wit["mnemonic"] = m
	idx := refIndices(keep)
	ws := make([]string, len(idx))
	for i, x := range idx {
		ws[i] = lang.words[x]
	}
	if want := strings.Join(ws, " "); m != want {
		wit["reference"] = want
		c.Violation("mnemonic:sentence-differs-from-bip39:"+key, "NewMnemonic differs from the BIP-39 word selection", wit)
		return
	}
	var back []byte
	if guard(c, "mnemonic.EntropyFromMnemonic", m, func() { back, err = mnemonic.EntropyFromMnemonic(m, lang.code) }) {
		return
	}
	if err != nil || !bytes.Equal(back, keep) {
		wit["decoded"], wit["err"] = hx(back), fmt.Sprint(err)
		c.Violation("mnemonic:roundtrip-EntropyFromMnemonic:"+key, "EntropyFromMnemonic(NewMnemonic(e)) != e", wit)
		return
	}
	guard(c, "mnemonic.MnemonicToByteArray", m, func() {
		raw, err := mnemonic.MnemonicToByteArray(m, lang.code, true)
		if err != nil || !bytes.Equal(raw, keep) {
			wit["decoded"], wit["err"] = hx(raw), fmt.Sprint(err)
			c.Violation("mnemonic:roundtrip-MnemonicToByteArray(raw):"+key, "MnemonicToByteArray(NewMnemonic(e), raw) != e", wit)
		} else {
			c.Count("mnemonic_bytearray_roundtrip", 1)
		}
	})
	if !mnemonic.IsMnemonicValid(m, lang.code) {
		c.Violation("mnemonic:IsMnemonicValid-false:"+key, "generated mnemonic reported invalid", wit)
	}
	c.Count("mnemonic_roundtrip:"+key, 1)
	c.Count("mnemonic_roundtrip_ok", 1)
	c.Distinct("mnemonic %s", key)

	// one word replaced: the verdict must be the BIP-39 checksum verdict (and the entropy the BIP-39 one)
	for k := 0; k < 6; k++ {
		i := rng.Intn(len(idx))
		idx2 := append([]int(nil), idx...)
		idx2[i] = rng.Intn(2048)
		if idx2[i] == idx[i] {
			continue
		}
		ws2 := make([]string, len(idx2))
		for j, x := range idx2 {
			ws2[j] = lang.words[x]
		}
		m2 := strings.Join(ws2, " ")
		wantE, wantOK := refFromIndices(idx2)
		var gotE []byte
		var err error
		if guard(c, "mnemonic.EntropyFromMnemonic", m2, func() { gotE, err = mnemonic.EntropyFromMnemonic(m2, lang.code) }) {
			continue
		}
		c.Eval(1)
		if (err == nil) != wantOK || (wantOK && !bytes.Equal(gotE, wantE)) {
			c.Violation("mnemonic:checksum-verdict-differs-from-bip39:"+key, "EntropyFromMnemonic accepts a bad checksum, rejects a good one, or returns other entropy",
				map[string]interface{}{"language": lang.code, "mnemonic": m2, "want_ok": wantOK, "want_entropy": hx(wantE), "got": hx(gotE), "err": fmt.Sprint(err)})
		} else if wantOK {
			c.Count("mnemonic_word_replaced_checksum_still_good", 1)
		} else {
			c.Count("mnemonic_word_replaced_rejected", 1)
		}
	}

	// seed derivation (PBKDF2-HMAC-SHA512, 2048 rounds, salt "mnemonic"+password)
	if c.Index/35%4 == 0 || c.Index < 35 {
		pw := string(rng.Bytes(rng.Intn(12)))
		if rng.Bool() {
			pw = ""
		}
		var seed []byte
		guard(c, "mnemonic.NewSeed", m, func() { seed = mnemonic.NewSeed(m, pw) })
		want := refPBKDF2SHA512([]byte(m), []byte("mnemonic"+pw), 2048)
		s2, err := mnemonic.NewSeedWithErrorChecking(m, pw, lang.code)
		if !bytes.Equal(seed, want) || err != nil || !bytes.Equal(s2, want) {
			c.Violation("mnemonic:seed-differs-from-pbkdf2:"+lang.code, "NewSeed / NewSeedWithErrorChecking differ from PBKDF2-HMAC-SHA512(2048)", map[string]interface{}{"mnemonic": m, "password": hx([]byte(pw)), "seed": hx(seed), "want": hx(want), "err": fmt.Sprint(err)})
		} else {
			c.Count("mnemonic_seed_ok", 1)
		}
	}
	// invalid entropy sizes / languages: error, no panic
	guard(c, "mnemonic.NewMnemonic", "bad sizes", func() {
		for _, n := range []int{0, 1, 15, 17, 20 + 1, 33, 36, 64} {
			if _, err := mnemonic.NewMnemonic(make([]byte, n), lang.code); err == nil {
				c.Violation(fmt.Sprintf("mnemonic:NewMnemonic-accepts-%d-bytes", n), "NewMnemonic accepts an entropy length outside {16,20,24,28,32}", nil)
			} else {
				c.Count("mnemonic_bad_entropy_rejected", 1)
			}
		}
		for _, l := range []string{"", "xx", "en_US", "klingon", "zh_cn", "EN", "\xff\xfe", "e"} {
			if _, err := mnemonic.NewMnemonic(keep, l); err == nil {
				c.Violation("mnemonic:NewMnemonic-accepts-unknown-language", "NewMnemonic succeeds for a language without word list", map[string]string{"language": l})
			} else {
				c.Count("mnemonic_bad_language_rejected", 1)
			}
		}
	})
	if c.WantSample() {
		c.Sample(map[string]interface{}{"language": lang.code, "bits": bitsN, "entropy": hx(keep), "mnemonic": m})
	}
}

// ------------------------------------------------------------ hostile strings into every decoder

// hostileString3 also returns the language of the sentence the string was made from ("" if none).
func hostileString3(rng *ev.Rand) (cls string, out string, lang string) {
	cls, out = hostileString2(rng, &lang)
	return
}

func hostileString2(rng *ev.Rand, usedLang *string) (string, string) {
	valid := func() string {
		ns := nets()
		n := ns[rng.Intn(3)]
		return refSegwitAddr(n.p.Bech32HRPSegwit, 0, rng.Bytes([]int{20, 32}[rng.Intn(2)]))
	}
	sentence := func() string {
		l := langs[rng.Intn(len(langs))]
		*usedLang = l.code
		idx := refIndices(rng.Bytes(16 + 4*rng.Intn(5)))
		ws := make([]string, len(idx))
		for i, x := range idx {
			ws[i] = l.words[x]
		}
		return strings.Join(ws, " ")
	}
	switch rng.Intn(16) {
	case 0:
		return "empty", ""
	case 1:
		return "random-bytes", string(rng.Bytes(rng.Range(1, 120)))
	case 2:
		n := rng.Range(1000, 120000)
		b := make([]byte, n)
		for i := range b {
			b[i] = alphabet[rng.Intn(32)]
		}
		return "very-long-alphabet", "bn1" + string(b)
	case 3:
		return "very-long-repeat", strings.Repeat([]string{"1", "q", " ", "=", "A", "\n", "bn1", "abandon ", "的 "}[rng.Intn(9)], rng.Range(100, 30000))
	case 4:
		rs := []rune{}
		for i := 0; i < rng.Range(1, 60); i++ {
			rs = append(rs, []rune{'é', 'ß', '的', 'あ', '한', 0x3000, 0x200b, 0x202e, 0x1F600, 0xFFFD, 'ı', 'K', 0x0301, ' ', '1', 'q'}[rng.Intn(16)])
		}
		return "unicode", string(rs)
	case 5:
		// a valid address with k random edits
		b := []byte(valid())
		for k := 0; k < rng.Range(2, 5); k++ {
			i := rng.Intn(len(b))
			switch rng.Intn(3) {
			case 0:
				b[i] = byte(rng.Intn(256))
			case 1:
				b = append(b[:i], b[i+1:]...)
			case 2:
				b = append(b[:i], append([]byte{substChars[rng.Intn(len(substChars))]}, b[i:]...)...)
			}
			if len(b) == 0 {
				break
			}
		}
		return "address-multi-edit", string(b)
	case 6:
		return "address-truncated", valid()[:rng.Intn(12)]
	case 7:
		return "ones-and-separators", strings.Repeat("1", rng.Range(1, 95)) + valid()[rng.Intn(8):]
	case 8:
		// other witness versions / program lengths, correctly checksummed
		ns := nets()
		prog := rng.Bytes(rng.Range(0, 45))
		d5, _ := refRegroup(prog, 8, 5, true)
		return "checksummed-other-version-or-length", refBech32(ns[rng.Intn(3)].p.Bech32HRPSegwit, append([]byte{byte(rng.Intn(32))}, d5...))
	case 9:
		// correctly checksummed, data not a whole number of bytes / empty data
		ns := nets()
		d := make([]byte, rng.Range(0, 60))
		if rng.Chance(1, 3) {
			d = make([]byte, rng.Intn(3)) // no data at all, a version without a program
		}
		for i := range d {
			d[i] = byte(rng.Intn(32))
		}
		return "checksummed-random-5bit-data", refBech32(ns[rng.Intn(3)].p.Bech32HRPSegwit, d)
	case 10:
		s := sentence()
		sep := []string{"  ", "\t", "\n", "　", "  ", "   "}[rng.Intn(6)]
		return "mnemonic-odd-separators", strings.Replace(s, " ", sep, rng.Range(1, 30))
	case 11:
		s := strings.Fields(sentence())
		switch rng.Intn(4) {
		case 0:
			s = s[:rng.Intn(len(s))]
		case 1:
			s = append(s, s[:rng.Range(1, 12)]...)
		case 2:
			s[rng.Intn(len(s))] = string(rng.Bytes(rng.Range(0, 8)))
		case 3:
			s[rng.Intn(len(s))] = ""
		}
		return "mnemonic-wrong-count-or-word", strings.Join(s, " ")
	case 12:
		return "mnemonic-many-spaces", strings.Replace(sentence(), " ", strings.Repeat(" ", rng.Range(2, 200)), rng.Range(1, 24))
	case 13:
		// base32-looking
		e := encs[rng.Intn(len(encs))]
		b := []byte(e.s.EncodeToString(rng.Bytes(rng.Range(0, 40))))
		for k := 0; k < rng.Range(0, 4) && len(b) > 0; k++ {
			i := rng.Intn(len(b))
			switch rng.Intn(4) {
			case 0:
				b[i] = "=*\n\xff1089a"[rng.Intn(9)]
			case 1:
				b = b[:i]
			case 2:
				b = append(b[:i], append([]byte("=\n*A"[rng.Intn(4):][:1]), b[i:]...)...)
			case 3:
				b = append(b, "=======*\xff\xff\xff\xff"[rng.Intn(8):]...)
			}
		}
		return "base32-near-valid", string(b)
	case 14:
		return "uppercase-address", strings.ToUpper(valid())
	}
	return "whitespace-nul", strings.Repeat([]string{" ", "\x00", "\t", "\r\n"}[rng.Intn(4)], rng.Range(1, 64))
}

func hostileCase(c *ev.Case) {
	rng := c.Rand
	cls, s, sentLang := hostileString3(rng)
	in := map[string]interface{}{"class": cls, "len": len(s), "hex": hx([]byte(s))}
	c.Count("hostile:"+cls, 1)
	outcomes := 0
	rec := func(dec string, err error) {
		c.Eval(1)
		o := "error"
		if err == nil {
			o = "accepted"
			outcomes++
		}
		c.Count("hostile_"+o+":"+dec, 1)
		c.Distinct("hostile %s -> %s %s", cls, dec, o)
	}
	for _, n := range nets() {
		n := n
		guard(c, "common.DecodeAddress", in, func() {
			a, err := common.DecodeAddress(s, &n.p)
			rec("DecodeAddress", err)
			if err == nil {
				// whatever is accepted must be a consistent address of this network
				if a == nil || !a.IsForNet(&n.p) || (len(a.ScriptAddress()) != 20 && len(a.ScriptAddress()) != 32) {
					c.Violation("addr:accepted-string-yields-inconsistent-address", "DecodeAddress succeeded but the address is nil, for another network or of a wrong size", in)
				} else if a.EncodeAddress() != strings.ToLower(s) {
					c.Count("hostile_accepted_noncanonical:DecodeAddress", 1) // not demanded by the property: recorded
				}
			}
		})
	}
	guard(c, "bech32.Bech32Decode", in, func() {
		hrp, d, err := bech32.Bech32Decode(s)
		rec("Bech32Decode", err)
		if err == nil && refBech32(hrp, d) != strings.ToLower(s) {
			c.Count("hostile_accepted_noncanonical:Bech32Decode", 1) // not demanded by the property: recorded
		}
	})
	guard(c, "bech32.ConvertBits", in, func() {
		_, err := bech32.ConvertBits([]byte(s), uint8(rng.Intn(11)), uint8(rng.Intn(11)), rng.Bool())
		rec("ConvertBits", err)
	})
	if len(s) < 40000 {
		for _, e := range encs {
			e := e
			guard(c, "base32.DecodeString("+e.name+")", in, func() {
				_, err := e.e.DecodeString(s)
				rec("base32.DecodeString", err)
			})
			guard(c, "base32.Decode("+e.name+")", in, func() {
				dst := make([]byte, e.e.DecodedLen(len(s)))
				_, err := e.e.Decode(dst, []byte(s))
				rec("base32.Decode", err)
			})
			guard(c, "base32.NewDecoder("+e.name+")", in, func() {
				_, err := ioutil.ReadAll(base32.NewDecoder(e.e, &chunkReader{strings.NewReader(s), rng}))
				rec("base32.NewDecoder", err)
			})
		}
	}
	if len(s) < 20000 {
		codes := []string{langs[rng.Intn(len(langs))].code, []string{"", "xx", "en_US", "EN", "zh_cn", s}[rng.Intn(6)], string(rng.Bytes([]int{2, 5}[rng.Intn(2)]))}
		if sentLang != "" {
			codes[0] = sentLang // the language the sentence was built from
		}
		for _, l := range codes {
			l := l
			guard(c, "mnemonic.EntropyFromMnemonic", in, func() {
				_, err := mnemonic.EntropyFromMnemonic(s, l)
				rec("EntropyFromMnemonic", err)
			})
			guard(c, "mnemonic.MnemonicToByteArray", in, func() {
				var err error
				switch rng.Intn(3) {
				case 0:
					_, err = mnemonic.MnemonicToByteArray(s, l)
				case 1:
					_, err = mnemonic.MnemonicToByteArray(s, l, true)
				default:
					_, err = mnemonic.MnemonicToByteArray(s, l, false)
				}
				rec("MnemonicToByteArray", err)
			})
			guard(c, "mnemonic.IsMnemonicValid", in, func() { mnemonic.IsMnemonicValid(s, l) })
		}
		guard(c, "mnemonic.SetWordMap", codes[2], func() { _, _ = mnemonic.SetWordMap(codes[2]); _, _ = mnemonic.SetWordList(codes[1]) })
		if len(s) < 300 {
			guard(c, "mnemonic.NewSeedWithErrorChecking", in, func() {
				_, err := mnemonic.NewSeedWithErrorChecking(s, s, "en")
				rec("NewSeedWithErrorChecking", err)
			})
		}
	}
	if c.WantSample() {
		c.Sample(map[string]interface{}{"class": cls, "len": len(s), "prefix_hex": hx([]byte(s[:min(len(s), 40)])), "decoders_accepting": outcomes})
	}
}

func min(a, b int) int {
	if a < b {
		return a
	}
	return b
}

const nAddrQ, nAddrT = 420, 40000

func TestC29(t *testing.T) {
	r := ev.Start(t, "C29")
	defer r.Finish()
	r.Rule("addresses: 3 networks x {P2WPKH,P2WSH} x random/boundary hashes, each with EVERY position x (32 alphabet chars + '1' + b,i,o + upper-case + case flip + 9 non-alphabet bytes) substitution; bech32: random HRPs (1..83 printable, no upper case) x 5-bit data, ConvertBits all widths 1..8; base32: 6 encodings x lengths 0..3000 (string, buffer+newlines, stream); mnemonic: 7 languages x 5 entropy sizes; hostile strings of 16 classes into every decoder. distinct = (encoding or network, kind/length class, region x character kind x error class | decoder x outcome)")
	r.Assume("bech32 (BCH code of BIP-173) detects every single substituted character; the reference encoders written from BIP-173 / BIP-39 / RFC 2898 and Go's encoding/base32 are correct")
	r.Assume("DecodeAddress(addr, params) promises to decode only addresses whose human-readable part is params.Bech32HRPSegwit; an address of another network must give an error or at least IsForNet(params)==false")
	r.Assume("the all-upper-case form of an address (valid per BIP-173) may be accepted; a mixed-case string must not")

	r.Cases("address", r.N(nAddrQ, nAddrT), addressCase)
	r.Cases("bech32", r.N(3000, 300000), bech32Case)
	r.Cases("base32", r.N(3000, 300000), base32Case)
	r.Cases("mnemonic", r.N(350, 35000), mnemonicCase)
	r.Cases("hostile", r.N(1500, 100000), hostileCase)

	q := func(a, b int64) int64 {
		if r.Thorough() {
			return b
		}
		return a
	}
	r.Floor("addr_roundtrip_ok", q(nAddrQ, nAddrT))
	r.Floor("addr_all_substitutions_done", q(nAddrQ, nAddrT))
	for reg, per := range map[string]int64{"hrp": 90, "separator": 45, "version": 45, "program": 1400, "checksum": 270} {
		r.Floor("addr_subst_rejected:"+reg, q(nAddrQ*per, nAddrT*per))
	}
	for _, n := range nets() {
		r.Floor("addr_encoded:"+n.name+":P2WPKH", q(nAddrQ/6, nAddrT/6))
		r.Floor("addr_encoded:"+n.name+":P2WSH", q(nAddrQ/6, nAddrT/6))
	}
	r.Floor("bech32_roundtrip_ok", q(3000, 300000))
	r.Floor("bech32_subst_rejected", q(10000, 1000000))
	r.Floor("convertbits_ok", q(5000, 500000))
	r.Floor("convertbits_error", q(1000, 100000))
	r.Floor("convertbits_roundtrip_8_5_8", q(3000, 300000))
	for _, e := range encs {
		r.Floor("base32_roundtrip_string:"+e.name, q(300, 30000))
	}
	r.Floor("base32_stream_decode_ok:padded", q(1000, 100000))
	r.Floor("base32_stream_encode_ok:padded", q(1000, 100000))
	r.Floor("mnemonic_roundtrip_ok", q(350, 35000))
	for _, l := range langs {
		for b := 128; b <= 256; b += 32 {
			r.Floor(fmt.Sprintf("mnemonic_roundtrip:%s:%d", l.code, b), q(5, 500))
		}
	}
	r.Floor("mnemonic_word_replaced_rejected", q(500, 50000))
	r.Floor("mnemonic_seed_ok", q(30, 3000))
	r.Floor("hostile_error:DecodeAddress", q(3000, 200000))
	r.Floor("hostile_error:Bech32Decode", q(800, 50000))
	r.Floor("hostile_accepted:Bech32Decode", q(100, 6000))
	r.Floor("hostile_error:base32.DecodeString", q(3000, 200000))
	r.Floor("hostile_error:EntropyFromMnemonic", q(2000, 130000))
	r.Floor("hostile_accepted:EntropyFromMnemonic", q(50, 3000))
}
