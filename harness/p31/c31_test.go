// C31 — checked arithmetic is exact.  Oracle: math/big.
package p31

import (
	"fmt"
	"math/big"
	"testing"

	"github.com/bytom/bytom/math/checked"

	"verif/internal/ev"
)

type typ struct {
	name     string
	bits     uint
	signed   bool
	min, max *big.Int
	vals     []*big.Int
	ops      []op
}

type op struct {
	name string
	kind string // add sub mul div mod neg shl
	call func(a, b *big.Int) (*big.Int, bool)
}

func bi(x int64) *big.Int { return big.NewInt(x) }

func boundary(t *typ) {
	seen := map[string]bool{}
	add := func(v *big.Int) {
		if v.Cmp(t.min) < 0 || v.Cmp(t.max) > 0 || seen[v.String()] {
			return
		}
		seen[v.String()] = true
		t.vals = append(t.vals, new(big.Int).Set(v))
	}
	for k := uint(0); k <= t.bits; k++ {
		p := new(big.Int).Lsh(bi(1), k)
		for d := int64(-2); d <= 2; d++ {
			add(new(big.Int).Add(p, bi(d)))
			add(new(big.Int).Neg(new(big.Int).Add(p, bi(d))))
		}
	}
	for _, x := range []int64{0, 3, 5, 7, 10, 100, 1000, 46341, 46340, 3037000499, 3037000500, 65535, 65536, 65537, 4294967295, 4294967296, 4294967297} {
		add(bi(x))
		add(bi(-x))
	}
	// sqrt-adjacent values for multiplication
	s := new(big.Int).Sqrt(t.max)
	for d := int64(-2); d <= 2; d++ {
		add(new(big.Int).Add(s, bi(d)))
		add(new(big.Int).Neg(new(big.Int).Add(s, bi(d))))
	}
	add(t.min)
	add(t.max)
}

func types() []*typ {
	i64 := func(f func(a, b int64) (int64, bool)) func(a, b *big.Int) (*big.Int, bool) {
		return func(a, b *big.Int) (*big.Int, bool) { r, ok := f(a.Int64(), b.Int64()); return bi(r), ok }
	}
	i32 := func(f func(a, b int32) (int32, bool)) func(a, b *big.Int) (*big.Int, bool) {
		return func(a, b *big.Int) (*big.Int, bool) {
			r, ok := f(int32(a.Int64()), int32(b.Int64()))
			return bi(int64(r)), ok
		}
	}
	u64 := func(f func(a, b uint64) (uint64, bool)) func(a, b *big.Int) (*big.Int, bool) {
		return func(a, b *big.Int) (*big.Int, bool) {
			r, ok := f(a.Uint64(), b.Uint64())
			return new(big.Int).SetUint64(r), ok
		}
	}
	u32 := func(f func(a, b uint32) (uint32, bool)) func(a, b *big.Int) (*big.Int, bool) {
		return func(a, b *big.Int) (*big.Int, bool) {
			r, ok := f(uint32(a.Uint64()), uint32(b.Uint64()))
			return new(big.Int).SetUint64(uint64(r)), ok
		}
	}
	one := bi(1)
	ts := []*typ{
		{name: "Int64", bits: 63, signed: true, min: new(big.Int).Neg(new(big.Int).Lsh(one, 63)), max: new(big.Int).Sub(new(big.Int).Lsh(one, 63), one),
			ops: []op{{"AddInt64", "add", i64(checked.AddInt64)}, {"SubInt64", "sub", i64(checked.SubInt64)}, {"MulInt64", "mul", i64(checked.MulInt64)},
				{"DivInt64", "div", i64(checked.DivInt64)}, {"ModInt64", "mod", i64(checked.ModInt64)}, {"LshiftInt64", "shl", i64(checked.LshiftInt64)},
				{"NegateInt64", "neg", func(a, b *big.Int) (*big.Int, bool) { r, ok := checked.NegateInt64(a.Int64()); return bi(r), ok }}}},
		{name: "Int32", bits: 31, signed: true, min: new(big.Int).Neg(new(big.Int).Lsh(one, 31)), max: new(big.Int).Sub(new(big.Int).Lsh(one, 31), one),
			ops: []op{{"AddInt32", "add", i32(checked.AddInt32)}, {"SubInt32", "sub", i32(checked.SubInt32)}, {"MulInt32", "mul", i32(checked.MulInt32)},
				{"DivInt32", "div", i32(checked.DivInt32)}, {"ModInt32", "mod", i32(checked.ModInt32)}, {"LshiftInt32", "shl", i32(checked.LshiftInt32)},
				{"NegateInt32", "neg", func(a, b *big.Int) (*big.Int, bool) { r, ok := checked.NegateInt32(int32(a.Int64())); return bi(int64(r)), ok }}}},
		{name: "Uint64", bits: 64, min: bi(0), max: new(big.Int).Sub(new(big.Int).Lsh(one, 64), one),
			ops: []op{{"AddUint64", "add", u64(checked.AddUint64)}, {"SubUint64", "sub", u64(checked.SubUint64)}, {"MulUint64", "mul", u64(checked.MulUint64)},
				{"DivUint64", "div", u64(checked.DivUint64)}, {"ModUint64", "mod", u64(checked.ModUint64)}, {"LshiftUint64", "shl", u64(checked.LshiftUint64)}}},
		{name: "Uint32", bits: 32, min: bi(0), max: new(big.Int).Sub(new(big.Int).Lsh(one, 32), one),
			ops: []op{{"AddUint32", "add", u32(checked.AddUint32)}, {"SubUint32", "sub", u32(checked.SubUint32)}, {"MulUint32", "mul", u32(checked.MulUint32)},
				{"DivUint32", "div", u32(checked.DivUint32)}, {"ModUint32", "mod", u32(checked.ModUint32)}, {"LshiftUint32", "shl", u32(checked.LshiftUint32)}}},
	}
	for _, t := range ts {
		boundary(t)
	}
	return ts
}

// exact returns the mathematically exact result, or defined=false when the
// operation has no integer value (division by zero, negative shift count).
// Division truncates toward zero and the remainder takes the dividend's sign,
// as Go's / and % (the documented meaning of "a / b" and "a % b").
func exact(kind string, a, b *big.Int) (*big.Int, bool) {
	switch kind {
	case "add":
		return new(big.Int).Add(a, b), true
	case "sub":
		return new(big.Int).Sub(a, b), true
	case "mul":
		return new(big.Int).Mul(a, b), true
	case "div":
		if b.Sign() == 0 {
			return nil, false
		}
		return new(big.Int).Quo(a, b), true
	case "mod":
		if b.Sign() == 0 {
			return nil, false
		}
		return new(big.Int).Rem(a, b), true
	case "neg":
		return new(big.Int).Neg(a), true
	case "shl":
		if b.Sign() < 0 {
			return nil, false
		}
		if a.Sign() == 0 {
			return bi(0), true
		}
		if b.Cmp(bi(200)) > 0 {
			// |a| >= 1 shifted by more than 200 bits never fits a 64-bit type
			return new(big.Int).Lsh(a, 200), true
		}
		return new(big.Int).Lsh(a, uint(b.Int64())), true
	}
	panic(kind)
}

func class(t *typ, v *big.Int) string {
	switch {
	case v.Sign() == 0:
		return "0"
	case v.Cmp(t.min) == 0:
		return "min"
	case v.Cmp(t.max) == 0:
		return "max"
	case v.Cmp(bi(-1)) == 0:
		return "-1"
	case v.Sign() < 0:
		return fmt.Sprintf("-2^%d", v.BitLen())
	default:
		return fmt.Sprintf("2^%d", v.BitLen())
	}
}

func checkOne(c *ev.Case, t *typ, o op, a, b *big.Int) {
	want, defined := exact(o.kind, a, b)
	got, ok := o.call(a, b)
	fits := defined && want.Cmp(t.min) >= 0 && want.Cmp(t.max) <= 0
	outcome := "fail"
	if ok {
		outcome = "ok"
	}
	c.Distinct("%s %s %s %s", o.name, class(t, a), class(t, b), outcome)
	c.Count("pairs", 1)
	if fits {
		c.Count("fits", 1)
	} else {
		c.Count("does_not_fit", 1)
	}
	key := fmt.Sprintf("%s(%s,%s)", o.name, a, b)
	if o.kind == "neg" {
		key = fmt.Sprintf("%s(%s)", o.name, a)
	}
	w := map[string]interface{}{"op": o.name, "a": a.String(), "b": b.String(), "got": got.String(), "ok": ok, "exact": fmt.Sprint(want), "defined": defined}
	switch {
	case fits && !ok:
		c.Violation(key, "exact result fits the type but failure was reported", w)
	case fits && got.Cmp(want) != 0:
		c.Violation(key, "success with a value different from the exact result", w)
	case !fits && ok:
		c.Violation(key, "success reported although the exact result does not fit (wrapped value)", w)
	}
}

func TestC31(t *testing.T) {
	r := ev.Start(t, "C31")
	defer r.Finish()
	r.Rule("all 26 checked operations; (a) full cross product of a per-type boundary set (±2^k±{0,1,2}, sqrt(max)±2, min, max, small); shift counts additionally -2..70; (b) random operand pairs of random magnitudes. distinct = (operation, magnitude class of a, magnitude class of b, ok/fail)")
	r.Assume("math/big is exact; division truncates toward zero, remainder has the dividend's sign; a shift by a negative count and division by zero are undefined and must fail")
	ts := types()
	for _, t := range ts {
		t := t
		// one case = one (op, a) row of the cross product
		r.Cases("boundary-"+t.name, len(t.ops)*len(t.vals), func(c *ev.Case) {
			o := t.ops[c.Index/len(t.vals)]
			a := t.vals[c.Index%len(t.vals)]
			if o.kind == "neg" {
				checkOne(c, t, o, a, bi(0))
				return
			}
			for _, b := range t.vals {
				checkOne(c, t, o, a, b)
			}
			if o.kind == "shl" {
				for s := int64(-2); s <= 70; s++ {
					if t.signed || s >= 0 {
						checkOne(c, t, o, a, bi(s))
					}
				}
			}
			if c.Index%97 == 0 {
				c.Sample(map[string]string{"op": o.name, "a": a.String(), "b": "every boundary value of " + t.name})
			}
		})
		// random: one case = 2000 random pairs over all ops
		r.Cases("random-"+t.name, r.N(40, 8000), func(c *ev.Case) {
			span := new(big.Int).Sub(t.max, t.min)
			span.Add(span, bi(1))
			rnd := func() *big.Int {
				v := new(big.Int).SetUint64(c.Rand.Uint64())
				v.Rsh(v, uint(c.Rand.Intn(int(t.bits)+1)))
				v.Mod(v, span)
				if t.signed && c.Rand.Bool() {
					v.Neg(v)
					v.Sub(v, bi(1))
				}
				if v.Cmp(t.min) < 0 || v.Cmp(t.max) > 0 {
					v.SetInt64(0)
				}
				return v
			}
			for i := 0; i < 2000; i++ {
				o := t.ops[c.Rand.Intn(len(t.ops))]
				a, b := rnd(), rnd()
				if o.kind == "shl" && c.Rand.Chance(3, 4) {
					b = bi(int64(c.Rand.Intn(int(t.bits) + 3)))
				}
				if c.Rand.Chance(1, 4) {
					b = t.vals[c.Rand.Intn(len(t.vals))]
				}
				if i == 0 {
					c.Sample(map[string]string{"op": o.name, "a": a.String(), "b": b.String()})
				}
				checkOne(c, t, o, a, b)
			}
		})
	}
	r.Floor("fits", 1000)
	r.Floor("does_not_fit", 1000)
}
