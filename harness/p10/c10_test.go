// C10 — ledger state depends only on the main chain, not on reorg history.
//
// Node A sees a whole block tree in some delivery order.  After every
// ProcessBlock its observable ledger (Store.GetUtxo for every output id ever
// created in the tree, the contract table) is compared with (1) a fresh node B
// fed only A's current main chain from genesis and (2) the harness's reference
// ledger.  At the end probe blocks spending each restored coinbase / vote output
// at and just before the earliest allowed height must get the same answer from
// A, B and the reference.
package p10

import (
	"bytes"
	"encoding/hex"
	"fmt"
	"os"
	"sort"
	"testing"

	"github.com/bytom/bytom/database"
	"github.com/bytom/bytom/protocol/bc"
	"github.com/bytom/bytom/protocol/bc/types"

	"verif/internal/chainkit"
	"verif/internal/ev"
)

type entry struct {
	Exists bool
	Type   uint32
	Height uint64
	Spent  bool
}

type snapshot struct {
	Utxo      map[bc.Hash]entry
	Contracts map[[32]byte]string // raw table value (hex)
}

var contractHashes [][32]byte

func allOutputIDs(t *chainkit.Tree) []bc.Hash {
	var ids []bc.Hash
	for _, b := range t.All {
		for _, tx := range b.B.Transactions {
			for _, u := range chainkit.Outputs(tx) {
				ids = append(ids, u.ID)
			}
		}
	}
	return ids
}

func allContracts(t *chainkit.Tree) [][32]byte {
	seen := map[[32]byte]bool{}
	var hs [][32]byte
	for _, b := range t.All {
		for _, tx := range b.B.Transactions {
			for _, o := range tx.Outputs {
				if c, ok := chainkit.IsRegister(o.ControlProgram); ok {
					h := chainkit.ContractHash(c)
					if !seen[h] {
						seen[h] = true
						hs = append(hs, h)
					}
				}
			}
		}
	}
	return hs
}

func snap(nd *chainkit.Node, ids []bc.Hash, chs [][32]byte) *snapshot {
	s := &snapshot{Utxo: map[bc.Hash]entry{}, Contracts: map[[32]byte]string{}}
	for _, id := range ids {
		id := id
		e, err := nd.Store.GetUtxo(&id)
		if err != nil {
			continue
		}
		s.Utxo[id] = entry{true, e.Type, e.BlockHeight, e.Spent}
	}
	for _, h := range chs {
		if v := nd.DB.Get(database.CalcContractKey(h)); v != nil {
			s.Contracts[h] = hex.EncodeToString(v)
		}
	}
	return s
}

func typeName(t uint32) string {
	switch t {
	case 0:
		return "normal"
	case 1:
		return "coinbase"
	case 2:
		return "vote"
	}
	return fmt.Sprint(t)
}

// compare reports the first difference between A (history) and B (fresh replay of the main chain).
// Unspent set and, for coinbase/vote outputs, the creation height (their spending constraint) must agree.
func compare(c *ev.Case, a, b *snapshot, ref *chainkit.Blk, ctx map[string]interface{}) bool {
	ok := true
	ids := make([]bc.Hash, 0, len(a.Utxo)+len(b.Utxo))
	seen := map[bc.Hash]bool{}
	for id := range a.Utxo {
		ids = append(ids, id)
		seen[id] = true
	}
	for id := range b.Utxo {
		if !seen[id] {
			ids = append(ids, id)
		}
	}
	sort.Slice(ids, func(i, j int) bool { return bytes.Compare(ids[i].Bytes(), ids[j].Bytes()) < 0 })
	for _, id := range ids {
		ea, eb := a.Utxo[id], b.Utxo[id]
		ua, ub := ea.Exists && !ea.Spent, eb.Exists && !eb.Spent
		_, ur := ref.Utxo[id]
		w := map[string]interface{}{"output": id.String(), "node_with_history": ea, "fresh_node_on_main_chain": eb, "reference_unspent": ur, "context": ctx}
		switch {
		case ua != ub:
			which := "history-node-has-extra-unspent"
			if ub {
				which = "history-node-misses-unspent"
			}
			c.Violation("utxo-set:"+which+":"+typeName(pick(ea, eb).Type), "set of spendable outputs differs from a replay of the main chain", w)
			ok = false
		case ua && ub:
			if ea.Type != eb.Type {
				c.Violation(fmt.Sprintf("utxo-type:%s-vs-%s", typeName(ea.Type), typeName(eb.Type)), "output type differs from a replay of the main chain", w)
				ok = false
			} else if ea.Type != 0 && ea.Height != eb.Height {
				zero := ""
				if ea.Height == 0 {
					zero = "=0"
				}
				c.Violation(fmt.Sprintf("utxo-height:%s-restored-by-detach%s", typeName(ea.Type), zero),
					"creation height (maturity / vote lock constraint) of a restored output differs from a replay of the main chain", w)
				ok = false
			}
		}
		if ub != ur {
			c.Violation("reference-ledger-disagrees-with-fresh-node", "the harness reference ledger and a fresh real node disagree on the unspent set (harness or implementation defect: investigate)", w)
			ok = false
		}
		if ub && ur && eb.Type != 0 {
			ru := ref.Utxo[id]
			if uint32(ru.Type) != eb.Type || ru.Height != eb.Height {
				c.Violation("reference-ledger-disagrees-with-fresh-node:type-or-height", "reference ledger vs fresh node: type/height", w)
				ok = false
			}
		}
	}
	for h, va := range a.Contracts {
		if vb, okb := b.Contracts[h]; !okb {
			c.Violation("contract-table:history-node-has-extra-contract", "registered-contract table differs from a replay of the main chain",
				map[string]interface{}{"contract_hash": hex.EncodeToString(h[:]), "history": va, "context": ctx})
			ok = false
		} else if va != vb {
			c.Violation("contract-table:registering-tx-differs", "registered-contract table entry (registering tx) differs from a replay of the main chain",
				map[string]interface{}{"contract_hash": hex.EncodeToString(h[:]), "history": va, "fresh": vb, "context": ctx})
			ok = false
		}
	}
	for h, vb := range b.Contracts {
		if _, oka := a.Contracts[h]; !oka {
			c.Violation("contract-table:history-node-misses-contract", "registered-contract table differs from a replay of the main chain",
				map[string]interface{}{"contract_hash": hex.EncodeToString(h[:]), "fresh": vb, "context": ctx})
			ok = false
		}
		rv, okr := ref.Contracts[h]
		if !okr || hex.EncodeToString(rv) != vb {
			c.Violation("reference-ledger-disagrees-with-fresh-node:contracts", "reference ledger vs fresh node: contract table",
				map[string]interface{}{"contract_hash": hex.EncodeToString(h[:]), "fresh": vb, "ref_has": okr})
			ok = false
		}
	}
	return ok
}

func pick(a, b entry) entry {
	if a.Exists {
		return a
	}
	return b
}

func orders(r *ev.Rand, t *chainkit.Tree, kind int) []int {
	n := len(t.All) - 1
	o := make([]int, n)
	for i := range o {
		o[i] = i + 1
	}
	switch kind {
	case 0: // creation order (every prefix is a valid tree)
	case 1: // random permutation (orphans, late parents)
		r.Shuffle(n, func(i, j int) { o[i], o[j] = o[j], o[i] })
	case 2: // branch by branch: tips sorted by height ascending, each branch delivered root-to-tip: long reorganisations
		tips := t.Tips()
		sort.Slice(tips, func(i, j int) bool {
			if tips[i].Height != tips[j].Height {
				return tips[i].Height < tips[j].Height
			}
			return tips[i].Seq < tips[j].Seq
		})
		seen := map[int]bool{}
		o = o[:0]
		for _, tip := range tips {
			for _, b := range tip.Path()[1:] {
				if !seen[b.Seq] {
					seen[b.Seq] = true
					o = append(o, b.Seq)
				}
			}
		}
	case 3: // mostly in order with local swaps
		for i := 0; i+1 < n; i++ {
			if r.Chance(1, 3) {
				o[i], o[i+1] = o[i+1], o[i]
			}
		}
	}
	return o
}

func TestC10(t *testing.T) {
	r := ev.Start(t, "C10")
	defer r.Finish()
	net := chainkit.Configure(chainkit.Params{Epoch: 4, Fed: 3, Local: -1, VotePending: 3, NKeys: 6})
	g := net.NewGenesis(14, 6)
	base, _ := os.MkdirTemp("", "c10")
	defer os.RemoveAll(base)
	r.Rule("random valid block trees (spends, chained spends, coinbase-reward spends at maturity, votes, vetoes at the lock height, duplicate/competing contract registrations, forks inside and across epochs) delivered in creation / random / branch-by-branch / locally-swapped order to a real node; after every block its ledger is compared with a fresh node replaying only the main chain and with the reference ledger. distinct = (tree shape, delivery order)")
	r.Assume("a fresh node fed the main chain in order defines 'what applying the current main chain from genesis would produce'; the reference ledger is a second, independent oracle")

	r.Cases("trees", r.N(48, 4800), func(c *ev.Case) {
		rng := c.Rand
		tr := net.NewTree(g)
		o := chainkit.DefaultGen(rng.Range(12, 40))
		o.Calls = true
		if _, err := tr.Grow(rng, o); err != nil {
			c.Violation("harness:grow", "tree generator failed", err.Error())
			return
		}
		kind := c.Index % 4
		order := orders(rng, tr, kind)
		c.Journal(map[string]interface{}{"shape": tr.Shape(), "order": order})
		c.Distinct("%s|%d|%v", tr.Shape(), kind, order)
		ids := allOutputIDs(tr)
		chs := allContracts(tr)
		A, err := net.NewNode(fmt.Sprintf("%s/a%d", base, c.Index), g)
		if err != nil {
			c.Inconclusive("node: %v", err)
			return
		}
		defer A.Destroy()
		freshCache := map[bc.Hash]*snapshot{}
		freshOf := func(best *chainkit.Blk) (*snapshot, error) {
			if s, ok := freshCache[best.Hash]; ok {
				return s, nil
			}
			B, err := net.NewNode(fmt.Sprintf("%s/b%d", base, c.Index), g)
			if err != nil {
				return nil, err
			}
			defer B.Destroy()
			if err := B.Feed(best.Path()[1:]...); err != nil {
				c.Violation("fresh-node-rejects-main-chain:"+errClass(err), "a fresh node rejects the main chain another node accepted", map[string]interface{}{"error": err.Error(), "shape": tr.Shape()})
				return nil, err
			}
			s := snap(B, ids, chs)
			freshCache[best.Hash] = s
			return s, nil
		}
		lastBest := tr.Root
		detaches := 0
		for step, i := range order {
			b := tr.All[i]
			_, err := A.Chain.ProcessBlock(chainkit.CloneBlock(b.B))
			if err != nil {
				c.Violation("valid-block-rejected:"+errClass(err), "ProcessBlock returned an error for a block that is valid on its branch",
					map[string]interface{}{"error": err.Error(), "step": step, "height": b.Height, "shape": tr.Shape(), "order": order})
				return
			}
			best := tr.ByHash[A.Best()]
			if best == nil {
				c.Violation("best-not-in-tree", "best block is not a block of the tree", chainkit.HashShort(A.Best()))
				return
			}
			if best.Hash != lastBest.Hash && !lastBest.IsAncestorOf(best) {
				detaches++
				c.Count("reorganisations_with_detach", 1)
			}
			lastBest = best
			fs, err := freshOf(best)
			if err != nil {
				return
			}
			c.Count("states_compared", 1)
			ctx := map[string]interface{}{"step": step, "delivered_height": b.Height, "best_height": best.Height, "shape": tr.Shape(), "order_kind": kind}
			if !compare(c, snap(A, ids, chs), fs, best, ctx) {
				return
			}
		}
		if detaches > 0 {
			c.Count("histories_with_detach", 1)
		}
		if c.WantSample() {
			c.Sample(map[string]interface{}{"tree_shape": tr.Shape(), "blocks": len(tr.All) - 1, "order_kind": kind, "detaches": detaches, "final_best_height": lastBest.Height})
		}
		probes(c, net, g, tr, A, lastBest, fmt.Sprintf("%s/p%d", base, c.Index))
	})
	r.Floor("states_compared", 200)
	r.Floor("reorganisations_with_detach", 20)
	r.Floor("probe_blocks", 20)
}

func errClass(err error) string {
	s := err.Error()
	if bytes.Contains([]byte(s), []byte("checking control program")) {
		// the only programs in these trees that can fail are contract calls: the contract table used
		// to validate the block is not the one of the block's own branch
		return "contract-call-validated-against-another-branch's-contract-table"
	}
	for _, k := range []string{"voting lock", "not ready for use", "fail to find utxo", "has been spent", "revert an unspent", "invalid block", "checkpoint"} {
		if bytes.Contains([]byte(s), []byte(k)) {
			return k
		}
	}
	if len(s) > 40 {
		s = s[:40]
	}
	return s
}

// probes: for each unspent coinbase / vote output of the final main chain, try to
// spend it in the next block; node A (with history), a fresh node B on the same main
// chain and the reference ledger must agree on acceptance.
func probes(c *ev.Case, net *chainkit.Net, g *chainkit.Genesis, tr *chainkit.Tree, A *chainkit.Node, best *chainkit.Blk, dir string) {
	var targets []*chainkit.RefUtxo
	for _, u := range best.SortedUtxos() {
		if u.Type != chainkit.UNormal {
			targets = append(targets, u)
		}
	}
	if len(targets) == 0 {
		return
	}
	// A block that fails the ledger check at connection time stays in the node's block
	// tree as a tip, so later blocks of the same height can be refused for its sake
	// (that behaviour belongs to C13/C11).  To keep every probe's verdict independent,
	// expected-valid probes come first (each accepted block becomes the new tip) and at
	// most one expected-invalid probe comes last.
	var valid, invalid []*chainkit.RefUtxo
	for _, u := range targets {
		if net.Spendable(u, best.Height+1) {
			valid = append(valid, u)
		} else {
			invalid = append(invalid, u)
		}
	}
	if len(valid) > 4 {
		valid = valid[:4]
	}
	targets = valid
	if len(invalid) > 0 {
		// the one closest to its unlock height: the boundary
		sort.Slice(invalid, func(i, j int) bool { return net.EarliestSpend(invalid[i]) < net.EarliestSpend(invalid[j]) })
		targets = append(targets, invalid[c.Rand.Intn(len(invalid))])
		if c.Rand.Bool() {
			targets[len(targets)-1] = invalid[0]
		}
	}
	B, err := net.NewNode(dir, g)
	if err != nil {
		c.Inconclusive("node: %v", err)
		return
	}
	defer B.Destroy()
	if err := B.Feed(best.Path()[1:]...); err != nil {
		return
	}
	cur := best
	for _, u := range targets {
		if _, still := cur.Utxo[u.U.ID]; !still {
			continue
		}
		var fund *chainkit.RefUtxo
		for _, f := range cur.SortedUtxos() {
			if f.Type == chainkit.UNormal && f.U.Asset == chainkit.BTM && f.U.Amount > 10*chainkit.DefaultFee {
				fund = f
				break
			}
		}
		if fund == nil {
			return
		}
		tx := chainkit.PayTx([]*chainkit.UTXO{fund.U, u.U}, chainkit.TrueProg, 1, chainkit.DefaultFee)
		want := net.Spendable(u, cur.Height+1)
		pb, err := tr.Build(cur, []*types.Tx{tx}, chainkit.BlockOpt{NoRefCheck: true})
		if err != nil {
			c.Inconclusive("probe build: %v", err)
			return
		}
		var inputsDbg []string
		for _, in := range []*chainkit.RefUtxo{fund, u} {
			id := in.U.ID
			e, gerr := B.Store.GetUtxo(&id)
			inputsDbg = append(inputsDbg, fmt.Sprintf("%s ref(type=%s,h=%d) fresh-store(%v,%v)", chainkit.HashShort(id), in.Type, in.Height, e, gerr))
		}
		for ti, ptx := range pb.B.Transactions {
			for _, sid := range ptx.SpentOutputIDs {
				sid := sid
				e, gerr := B.Store.GetUtxo(&sid)
				inputsDbg = append(inputsDbg, fmt.Sprintf("blocktx %d spends %s store(%v,%v)", ti, chainkit.HashShort(sid), e, gerr))
			}
		}
		_, errA := A.Chain.ProcessBlock(chainkit.CloneBlock(pb.B))
		_, errB := B.Chain.ProcessBlock(chainkit.CloneBlock(pb.B))
		accA := errA == nil && A.Best() == pb.Hash
		accB := errB == nil && B.Best() == pb.Hash
		c.Count("probe_blocks", 1)
		if want {
			c.Count("probe_blocks_expected_valid", 1)
		} else {
			c.Count("probe_blocks_expected_invalid", 1)
		}
		w := map[string]interface{}{"output": u.U.ID.String(), "type": u.Type.String(), "created": u.Height, "spent_at": cur.Height + 1,
			"reference_accepts": want, "history_node_accepts": accA, "fresh_node_accepts": accB, "errA": fmt.Sprint(errA), "errB": fmt.Sprint(errB), "shape": tr.Shape(), "inputs": inputsDbg}
		if accA != accB {
			c.Violation(fmt.Sprintf("probe:acceptance-depends-on-history:%s:history=%v,fresh=%v", u.Type, accA, accB),
				"the same block on the same main chain is accepted by one node and rejected by the other, depending on the forks seen before", w)
			return
		}
		if accB != want {
			c.Violation(fmt.Sprintf("probe:fresh-node-vs-reference:%s:fresh=%v,ref=%v", u.Type, accB, want), "fresh node and reference ledger disagree on a spend at the maturity/lock boundary", w)
			return
		}
		if accB {
			cur = pb
		}
		if !want {
			return
		}
	}
}
