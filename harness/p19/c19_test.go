// C19 — the node restarts cleanly from a crash at any point (fault enumeration).
//
// A bounded history of blocks (forks, reorganisations) and votes (justification,
// finalization, vote-induced reorganisation) runs once, crash-free, on a recording
// store.  Then for EVERY storage write boundary k of the log a store holding exactly
// the first k writes is built and a new chain is started on it.
package p19

import (
	"bytes"
	"crypto/sha256"
	"encoding/hex"
	"fmt"
	"sort"
	"strings"
	"testing"

	"github.com/bytom/bytom/protocol/bc"
	"github.com/bytom/bytom/protocol/bc/types"
	"github.com/bytom/bytom/protocol/state"

	"verif/internal/chainkit"
	"verif/internal/ev"
)

type snap struct {
	Best      string
	Index     string
	Ledger    string
	Finalized string
	Justified string
	finHash   bc.Hash
	jusHash   bc.Hash
}

func (s snap) String() string {
	return fmt.Sprintf("best=%s index=%s ledger=%s fin=%s jus=%s", s.Best, s.Index, s.Ledger, s.Finalized, s.Justified)
}

func observe(nd *chainkit.Node, ids []bc.Hash) snap {
	var s snap
	best := nd.Chain.BestBlockHeader()
	s.Best = fmt.Sprintf("h%d:%s", best.Height, chainkit.HashShort(best.Hash()))
	h := sha256.New()
	for i := uint64(0); i <= best.Height+3; i++ {
		hdr, err := nd.Chain.GetHeaderByHeight(i)
		if err != nil {
			fmt.Fprintf(h, "%d:-;", i)
			continue
		}
		hh := hdr.Hash()
		fmt.Fprintf(h, "%d:%x;", i, hh.Bytes())
	}
	s.Index = hex.EncodeToString(h.Sum(nil)[:6])
	h = sha256.New()
	for _, id := range ids {
		id := id
		e, err := nd.Store.GetUtxo(&id)
		if err != nil || e.Spent {
			continue
		}
		ht := e.BlockHeight
		if e.Type == 0 {
			ht = 0
		}
		fmt.Fprintf(h, "%x/%d/%d;", id.Bytes(), e.Type, ht)
	}
	s.Ledger = hex.EncodeToString(h.Sum(nil)[:6])
	if f, err := nd.Chain.LastFinalizedHeader(); err == nil {
		s.Finalized = fmt.Sprintf("h%d:%s", f.Height, chainkit.HashShort(f.Hash()))
		s.finHash = f.Hash()
	} else {
		s.Finalized = "err:" + err.Error()
	}
	if j, err := nd.Chain.LastJustifiedHeader(); err == nil {
		s.Justified = fmt.Sprintf("h%d:%s", j.Height, chainkit.HashShort(j.Hash()))
		s.jusHash = j.Hash()
	} else {
		s.Justified = "err:" + err.Error()
	}
	return s
}

// expected computes the index and ledger digests the reference model prescribes for best block b.
func expected(b *chainkit.Blk, ids []bc.Hash) snap {
	var s snap
	h := sha256.New()
	for i := uint64(0); i <= b.Height+3; i++ {
		a := b.Ancestor(i)
		if a == nil {
			fmt.Fprintf(h, "%d:-;", i)
			continue
		}
		fmt.Fprintf(h, "%d:%x;", i, a.Hash.Bytes())
	}
	s.Index = hex.EncodeToString(h.Sum(nil)[:6])
	h = sha256.New()
	for _, id := range ids {
		u, ok := b.Utxo[id]
		if !ok {
			continue
		}
		ht := u.Height
		if u.Type == chainkit.UNormal {
			ht = 0
		}
		fmt.Fprintf(h, "%x/%d/%d;", id.Bytes(), int(u.Type), ht)
	}
	s.Ledger = hex.EncodeToString(h.Sum(nil)[:6])
	return s
}

// forkChoice: among stored leaves that descend from the engine's root, maximise
// (height of the last justified checkpoint on the path, height, hash string) — the rule of C11.
func forkChoice(tr *chainkit.Tree, nd *chainkit.Node, stored map[bc.Hash]bool, epoch uint64) *chainkit.Blk {
	status, nodes := nd.EngineStatus()
	root := tr.ByHash[nodes[0].Hash]
	if root == nil {
		return nil
	}
	var best *chainkit.Blk
	var bestJ uint64
	for _, b := range tr.All {
		if !stored[b.Hash] || !root.IsAncestorOf(b) {
			continue
		}
		// every ancestor must be stored too (a block is only connected after its parent)
		okPath := true
		for x := b; x != nil && x.Height > root.Height; x = x.Parent {
			if !stored[x.Hash] {
				okPath = false
			}
		}
		if !okPath {
			continue
		}
		j := root.Height
		for x := b; x != nil && x.Height > root.Height; x = x.Parent {
			if x.Height%epoch == 0 && status[x.Hash] == state.Justified && x.Height > j {
				j = x.Height
			}
		}
		if best == nil || j > bestJ || (j == bestJ && (b.Height > best.Height || (b.Height == best.Height && b.Hash.String() > best.Hash.String()))) {
			best, bestJ = b, j
		}
	}
	return best
}

func allIDs(t *chainkit.Tree) []bc.Hash {
	var ids []bc.Hash
	for _, b := range t.All {
		for _, tx := range b.B.Transactions {
			for _, u := range chainkit.Outputs(tx) {
				ids = append(ids, u.ID)
			}
		}
	}
	sort.Slice(ids, func(i, j int) bool { return bytes.Compare(ids[i].Bytes(), ids[j].Bytes()) < 0 })
	return ids
}

// treeDump renders the engine's checkpoint tree with the signers of every link (replay witnesses only).
func treeDump(nd *chainkit.Node) []string {
	var tl []string
	for _, x := range nd.Chain.VerifCasper().VerifTree() {
		var ls []string
		for _, l := range x.Links {
			ls = append(ls, fmt.Sprintf("%s<-h%d:%s%v", "", l.SourceHeight, chainkit.HashShort(l.SourceHash), l.Signed))
		}
		tl = append(tl, fmt.Sprintf("%*sh%d %s st=%d parent=%s links=%s", x.Depth*2, "", x.Height, chainkit.HashShort(x.Hash), x.Status, chainkit.HashShort(x.ParentHash), strings.Join(ls, " ")))
	}
	return tl
}

func opKind(s chainkit.Step) string {
	if s.Blk != nil {
		return "block"
	}
	return "vote"
}

func writeClass(w chainkit.Write) string {
	classes := map[string]bool{}
	for _, o := range w.Ops {
		k := o.Key
		name := "other"
		if strings.HasPrefix(k, "blockStore") {
			name = "chain-status"
		} else if len(k) > 1 && k[1] == ':' {
			switch k[0] {
			case 2:
				name = "height-hashes"
			case 3:
				name = "block-header"
			case 4:
				name = "block-txs"
			case 5:
				name = "main-chain-index"
			case 6:
				name = "checkpoint"
			case 7:
				name = "utxo"
			case 8:
				name = "contract"
			}
		}
		classes[name] = true
	}
	var cs []string
	for c := range classes {
		cs = append(cs, c)
	}
	sort.Strings(cs)
	return w.Kind + "(" + strings.Join(cs, "+") + ")"
}

func TestC19(t *testing.T) {
	r := ev.Start(t, "C19")
	defer r.Finish()
	net := chainkit.Configure(chainkit.Params{Epoch: 4, Fed: 4, Local: -1, VotePending: 3, NKeys: 5})
	g := net.NewGenesis(12, 2)
	r.Rule("histories of 20-45 operations (blocks of a forked tree incl. reorganisations, votes of 4 validators that justify / finalize and reorganise) run crash-free on a recording store; then every write boundary (each Set/Delete/atomic batch commit) of the log is a crash point: a store with exactly that prefix is built and a new chain is started on it, its observable state is compared with the crash-free states around the interrupted operation, and the interrupted and remaining operations are re-delivered. distinct = (operation kind, index of the write inside the operation, class of the last completed write)")
	r.Assume("crash model: the process stops between storage writes; a batch commit is atomic (what LevelDB guarantees); nothing already written is lost")
	r.Exhaustive(true)

	r.Cases("histories", r.N(24, 960), func(c *ev.Case) {
		rng := c.Rand
		tr := net.NewTree(g)
		o := chainkit.DefaultGen(rng.Range(12, 26))
		o.Votes, o.Vetoes = false, false
		o.ForkPct = 30
		if _, err := tr.Grow(rng, o); err != nil {
			c.Violation("harness:grow", "tree generator failed", err.Error())
			return
		}
		// one history in four ends with a block whose transaction fans out into 1100 outputs: the ledger
		// changes of one block connection then run into the thousands (a consolidation, an airdrop), which
		// is where a store that bounds its batches would split them
		if c.Index%4 == 1 {
			var tip *chainkit.Blk
			for _, b := range tr.All {
				if tip == nil || b.Height > tip.Height {
					tip = b
				}
			}
			var src *chainkit.RefUtxo
			for _, u := range tip.SortedUtxos() {
				if u.Type == chainkit.UNormal && u.U.Asset == chainkit.BTM && u.U.Amount > 200000000 {
					if _, call := chainkit.IsCall(u.U.Program); !call {
						src = u
						break
					}
				}
			}
			if src != nil {
				const fan = 1100
				fee := uint64(40000000) // about 60 kB of storage gas
				each := (src.U.Amount - fee) / fan
				outs := make([]chainkit.Out, fan)
				for i := range outs {
					outs[i] = chainkit.Out{Asset: chainkit.BTM, Amount: each, Program: []byte{0x01, byte(i), 0x01, byte(i >> 8), 0x6d, 0x51}}
				}
				if _, err := tr.Build(tip, []*types.Tx{chainkit.MakeTx([]*chainkit.UTXO{src.U}, outs, 0)}, chainkit.BlockOpt{}); err == nil {
					c.Count("histories_with_a_1100_output_transaction", 1)
				}
			}
		}
		steps, _ := tr.GenScheduleFFG(rng, chainkit.FFGOpt{Byzantine: -1, VotePct: 90, EarlyVotePct: 10, BlockOrder: c.Index % 3, NodeKey: -1})
		ids := allIDs(tr)
		c.Journal(map[string]interface{}{"shape": tr.Shape(), "steps": len(steps)})

		// crash-free run
		db := chainkit.NewRecDB()
		nd, err := net.NewNodeOnDB(db, g)
		if err != nil {
			c.Inconclusive("node: %v", err)
			return
		}
		states := []snap{observe(nd, ids)}
		marks := []int{db.Writes()}
		var parked []*chainkit.VoteSpec
		stored := map[bc.Hash]bool{tr.Root.Hash: true}
		vrng := rng.Fork()
		earlyVote := map[int]bool{}
		for si, s := range steps {
			if s.Vote != nil {
				h := s.Vote.Target.Hash
				if _, err := nd.Chain.GetHeaderByHash(&h); err != nil {
					parked = append(parked, s.Vote)
					earlyVote[si] = true
				}
			}
			nd.Deliver(net, s, vrng)
			if s.Vote != nil {
			} else {
				stored[s.Blk.Hash] = true
			}
			if !nd.Settle(net, tr, parked) {
				c.Inconclusive("crash-free run did not settle")
				return
			}
			states = append(states, observe(nd, ids))
			marks = append(marks, db.Writes())
		}
		log := db.Log[:marks[len(marks)-1]]
		// Whether a vote that arrived before its target is ever applied depends on message timing, not
		// on crashes.  Both the crash-free and every recovered run therefore end with the same gossip
		// flush: all votes once more, by target height, until nothing changes.
		flush := func(n *chainkit.Node) bool {
			var vs []chainkit.Step
			for _, s := range steps {
				if s.Vote != nil {
					vs = append(vs, s)
				}
			}
			sort.SliceStable(vs, func(i, j int) bool { return vs[i].Vote.Target.Height < vs[j].Vote.Target.Height })
			fr := rng.Fork()
			for round := 0; round < 3; round++ {
				for _, s := range vs {
					n.Deliver(net, s, fr)
				}
				if !n.Settle(net, tr, nil) {
					return false
				}
			}
			return true
		}
		if !flush(nd) {
			c.Inconclusive("crash-free run did not settle")
			return
		}
		final := observe(nd, ids)
		var finalTree []string
		if r.Replaying() {
			finalTree = treeDump(nd)
		}
		c.Count("histories", 1)
		c.Count("operations", int64(len(steps)))
		if states[0].Finalized != final.Finalized {
			c.Count("histories_with_finalization", 1)
		}
		// enumerate crash points
		for k := marks[0]; k <= len(log); k++ {
			// interrupted operation i: marks[i] <= k <= marks[i+1]  (k == marks[i]: between operations)
			i := sort.Search(len(marks), func(x int) bool { return marks[x] >= k })
			if i >= len(marks) {
				i = len(marks) - 1
			}
			// states[i] is the state after i operations; if k < marks[i] the crash is inside operation i (1-based)
			inside := k < marks[i]
			opIdx := i // index into steps of the interrupted (or next) op is i-1 when inside
			kind, widx, lastClass := "between-operations", 0, "none"
			if inside {
				kind = opKind(steps[i-1])
				widx = k - marks[i-1]
			}
			if k > 0 {
				lastClass = writeClass(log[k-1])
			}
			c.Distinct("%s|w%d|%s", kind, widx, lastClass)
			c.Count("crash_points", 1)
			c.Eval(1)
			ctx := map[string]interface{}{"crash_after_write": k, "of": len(log), "interrupted": kind, "write_index_in_operation": widx, "last_completed_write": lastClass, "shape": tr.Shape()}
			if inside {
				ctx["operation"] = steps[i-1].String()
			}
			cdb := chainkit.FromPrefix(log, k)
			var nd2 *chainkit.Node
			func() {
				defer func() {
					if p := recover(); p != nil {
						err = fmt.Errorf("panic: %v", p)
					}
				}()
				nd2, err = net.NewNodeOnDB(cdb, g)
			}()
			if err != nil {
				ctx["error"] = err.Error()
				c.Violation(fmt.Sprintf("restart-fails:crash-in-%s:after-%s", kind, lastClass), "the node does not start from the store left by a crash", ctx)
				continue
			}
			got := observe(nd2, ids)
			if r.Replaying() {
				var tl []string
				for _, x := range nd2.Chain.VerifCasper().VerifTree() {
					tl = append(tl, fmt.Sprintf("%*sh%d %s st=%d parent=%s", x.Depth*2, "", x.Height, chainkit.HashShort(x.Hash), x.Status, chainkit.HashShort(x.ParentHash)))
				}
				ctx["engine_tree_after_restart"] = tl
			}
			lo := states[i]
			if inside {
				lo = states[i-1]
			}
			hi := states[i]
			// Best block, height index and ledger: one operation can store many blocks (a chain of waiting
			// orphans) before the chain status is written, so after a crash the node may legitimately stand on
			// any block.  What it must satisfy is what a crash-free node satisfies at every moment (C11, C10):
			// the best block is the fork choice over the blocks it has stored, and index and ledger are exactly
			// those of that block according to the reference model.
			storedSet := map[bc.Hash]bool{}
			for _, b := range tr.All {
				h := b.Hash
				if _, herr := nd2.Chain.GetHeaderByHash(&h); herr == nil {
					storedSet[b.Hash] = true
				}
			}
			want := forkChoice(tr, nd2, storedSet, net.P.Epoch)
			if want == nil || want.Hash != nd2.Best() {
				ctx["after_restart"] = got.String()
				if want != nil {
					ctx["fork_choice_over_stored_blocks"] = fmt.Sprintf("h%d:%s", want.Height, chainkit.HashShort(want.Hash))
				}
				c.Violation(fmt.Sprintf("restart-best-is-not-fork-choice-of-stored-blocks:crash-in-%s:after-%s", kind, lastClass), "after the restart the best block is not the fork choice over the blocks in the store", ctx)
				continue
			}
			if exp := expected(want, ids); got.Index != exp.Index || got.Ledger != exp.Ledger {
				ctx["after_restart"] = got.String()
				ctx["expected_for_best"] = exp.String()
				which := "index"
				if got.Ledger != exp.Ledger {
					which = "ledger"
				}
				c.Violation(fmt.Sprintf("restart-%s-inconsistent-with-best:crash-in-%s:after-%s", which, kind, lastClass), "after the restart the height index or the ledger state is not the one of the best block", ctx)
				continue
			}
			comp := func(name, g, a, b string) bool {
				if g != a && g != b {
					ctx["component"] = name
					ctx["after_restart"] = got.String()
					ctx["before_operation"] = lo.String()
					ctx["after_operation"] = hi.String()
					c.Violation(fmt.Sprintf("restart-state-never-passed-through:%s:crash-in-%s:after-%s", name, kind, lastClass),
						"after the restart an observable component equals neither its value before nor after the interrupted operation", ctx)
					return false
				}
				return true
			}
			// finality: one operation may justify and finalize several checkpoints in a row, each saved by
			// its own write; the restarted node may stand on any of them: the last finalized checkpoint must
			// lie between the values before and after the operation on one chain, the last justified one
			// between their heights
			between := func(g, a, b bc.Hash) bool {
				gb, ab, bb := tr.ByHash[g], tr.ByHash[a], tr.ByHash[b]
				return gb != nil && ab != nil && bb != nil && ab.IsAncestorOf(gb) && gb.IsAncestorOf(bb)
			}
			if got.Finalized != lo.Finalized && got.Finalized != hi.Finalized && between(got.finHash, lo.finHash, hi.finHash) {
				c.Count("restarts_on_intermediate_finality", 1)
			} else if !comp("finalized", got.Finalized, lo.Finalized, hi.Finalized) {
				continue
			}
			if gj, lj, hj := tr.ByHash[got.jusHash], tr.ByHash[lo.jusHash], tr.ByHash[hi.jusHash]; got.Justified != lo.Justified && got.Justified != hi.Justified &&
				gj != nil && lj != nil && hj != nil && gj.Height > lj.Height && gj.Height < hj.Height {
				c.Count("restarts_on_intermediate_finality", 1)
			} else if !comp("justified", got.Justified, lo.Justified, hi.Justified) {
				continue
			}
			// re-deliver the interrupted and the remaining operations
			from := i
			if inside {
				from = i - 1
			}
			_ = opIdx
			var parked2 []*chainkit.VoteSpec
			var redoTrail []string
			ok := true
			vr := rng.Fork()
			// votes that were only parked in memory (their target was unknown when they arrived) died
			// with the process: the network delivers them again together with the remaining operations
			var redo []chainkit.Step
			for si, s := range steps[:from] {
				if s.Vote != nil && earlyVote[si] {
					redo = append(redo, s)
				}
				// blocks that were only held in the in-memory orphan pool are requested again by sync
				if s.Blk != nil {
					h := s.Blk.Hash
					if _, herr := nd2.Chain.GetHeaderByHash(&h); herr != nil {
						redo = append(redo, s)
						c.Count("orphans_redelivered", 1)
					}
				}
			}
			redo = append(redo, steps[from:]...)
			for _, s := range redo {
				if s.Vote != nil {
					h := s.Vote.Target.Hash
					if _, herr := nd2.Chain.GetHeaderByHash(&h); herr != nil {
						parked2 = append(parked2, s.Vote)
					}
				}
				derr := nd2.Deliver(net, s, vr)
				if r.Replaying() {
					redoTrail = append(redoTrail, fmt.Sprintf("%s err=%v -> %s", s.String(), derr, observe(nd2, ids).String()))
				}
				if !nd2.Settle(net, tr, parked2) {
					ok = false
					break
				}
			}
			if !ok {
				c.Inconclusive("recovered node did not settle")
				return
			}
			if !flush(nd2) {
				c.Inconclusive("recovered node did not settle")
				return
			}
			end := observe(nd2, ids)
			if end != final {
				diff := []string{}
				if end.Best != final.Best {
					diff = append(diff, "best")
				}
				if end.Index != final.Index {
					diff = append(diff, "index")
				}
				if end.Ledger != final.Ledger {
					diff = append(diff, "ledger")
				}
				if end.Finalized != final.Finalized {
					diff = append(diff, "finalized")
				}
				if end.Justified != final.Justified {
					diff = append(diff, "justified")
				}
				ctx["redo_trail"] = redoTrail
				ctx["restart_state"] = got.String()
				if r.Replaying() {
					var ft []string
					for i, s := range steps {
						ft = append(ft, fmt.Sprintf("%s -> %s (writes %d)", s.String(), states[i+1].String(), marks[i+1]))
					}
					ctx["crash_free_trail"] = ft
				}
				if r.Replaying() {
					ctx["engine_tree_crash_free_final"] = finalTree
					ctx["engine_tree_recovered_final"] = treeDump(nd2)
				}
				ctx["recovered_final"] = end.String()
				ctx["crash_free_final"] = final.String()
				c.Violation(fmt.Sprintf("recovery-diverges:%s:crash-in-%s:after-%s", strings.Join(diff, "+"), kind, lastClass),
					"after re-delivering the interrupted and remaining operations the node does not reach the crash-free final state", ctx)
				continue
			}
			c.Count("crash_points_recovered", 1)
		}
		if c.WantSample() {
			c.Sample(map[string]interface{}{"tree_shape": tr.Shape(), "operations": len(steps), "write_boundaries": len(log), "final": final.String()})
		}
	})
	r.Floor("crash_points", 300)
	r.Floor("crash_points_recovered", 100)
	r.Floor("histories_with_finalization", 2)
	r.Floor("histories_with_a_1100_output_transaction", 3)
}
