package p38

import (
	"fmt"
	"os"
	"testing"
	"time"

	"github.com/bytom/bytom/proposal"
	"github.com/bytom/bytom/protocol/bc"
	"github.com/bytom/bytom/protocol/bc/types"
	"github.com/bytom/bytom/protocol/validation"
	"github.com/bytom/bytom/protocol/vm"

	"verif/internal/chainkit"
)

func gasLoop(n uint32) []byte {
	p := []byte{byte(vm.OP_DATA_4), byte(n), byte(n >> 8), byte(n >> 16), byte(n >> 24)}
	loop := uint32(len(p))
	p = append(p, byte(vm.OP_1SUB), byte(vm.OP_DUP), byte(vm.OP_JUMPIF), byte(loop), byte(loop>>8), byte(loop>>16), byte(loop>>24))
	p = append(p, byte(vm.OP_DROP), byte(vm.OP_TRUE))
	return p
}

func TestProbe(t *testing.T) {
	net := chainkit.Configure(chainkit.Params{Epoch: 4, Fed: 1, Local: 0, VotePending: 3, NKeys: 3})
	g := net.NewGenesis(8, 0)
	dir, _ := os.MkdirTemp("", "p38probe")
	defer os.RemoveAll(dir)
	nd, err := net.NewNode(dir+"/n", g)
	if err != nil {
		t.Fatal(err)
	}
	tr := net.NewTree(g)
	// setup tx: burner outputs
	var outs []chainkit.Out
	for _, n := range []uint32{1000, 2000, 20000} {
		outs = append(outs, chainkit.Out{Asset: chainkit.BTM, Amount: 1e9, Program: gasLoop(n)})
	}
	outs = append(outs, chainkit.Out{Asset: chainkit.BTM, Amount: g.Funds[0].Amount - 3e9 - chainkit.DefaultFee, Program: chainkit.TrueProg})
	S := chainkit.MakeTx([]*chainkit.UTXO{g.Funds[0]}, outs, 0)
	b1, err := tr.Build(tr.Root, []*types.Tx{S}, chainkit.BlockOpt{})
	if err != nil {
		t.Fatal(err)
	}
	if err := nd.Feed(b1); err != nil {
		t.Fatal(err)
	}
	so := chainkit.Outputs(S)
	blk := &bc.Block{BlockHeader: &bc.BlockHeader{Height: 2}}
	for i := 0; i < 3; i++ {
		for _, pad := range []int{0, 1, 5} {
			prog := []byte{}
			for k := 0; k < pad; k++ {
				prog = append(prog, byte(vm.OP_NOP))
			}
			prog = append(prog, byte(vm.OP_TRUE))
			tx := chainkit.MakeTx([]*chainkit.UTXO{so[i]}, []chainkit.Out{{Asset: chainkit.BTM, Amount: 1e9 - 60000000, Program: prog}}, 0)
			gs, err := validation.ValidateTx(tx.Tx, blk, nd.Chain.ProgramConverter)
			fmt.Printf("burner %d pad %d: size=%d gas=%+v err=%v\n", i, pad, tx.SerializedSize, gs, err)
		}
	}
	// pool: valid, conflicting pair
	a := chainkit.PayTx([]*chainkit.UTXO{g.Funds[1]}, chainkit.TrueProg, 1, chainkit.DefaultFee)
	b := chainkit.PayTx([]*chainkit.UTXO{g.Funds[1]}, chainkit.TrueProg, 2, chainkit.DefaultFee)
	ch := chainkit.PayTx([]*chainkit.UTXO{chainkit.Outputs(a)[0]}, chainkit.TrueProg, 1, chainkit.DefaultFee)
	for _, tx := range []*types.Tx{a, b, ch, S} {
		o, err := nd.Chain.ValidateTx(tx)
		fmt.Printf("ValidateTx %s orphan=%v err=%v inpool=%v\n", chainkit.HashShort(tx.ID), o, err, nd.Pool.IsTransactionInPool(&tx.ID))
	}
	ts := b1.B.Timestamp + chainkit.Interval
	h := b1.Hash
	v, err := nd.Chain.GetValidator(&h, ts)
	fmt.Println("validator", v, err)
	st := time.Now()
	blkT, err := proposal.NewBlockTemplate(nd.Chain, v, nil, ts, 10*time.Minute, 20*time.Minute)
	fmt.Println("template", err, time.Since(st))
	if err == nil {
		fmt.Println("txs", len(blkT.Transactions))
		o, err := nd.Chain.ProcessBlock(blkT)
		fmt.Println("process", o, err, nd.Best() == blkT.Hash(), len(blkT.SupLinks))
		fmt.Println("pool after", len(nd.Pool.GetTransactions()))
	}
	nd.Destroy()
}
