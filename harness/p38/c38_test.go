// C38 — blocks proposed by the node pass the node's own validation.
//
// A real node whose key is the scheduled proposer (sole validator, or one of
// three) sits on a chain of 0–4 epochs built partly by the harness (chainkit,
// reference schedule and rewards) and partly by the node's own proposer.  Its
// mempool is filled through Chain.ValidateTx with valid spends, conflicting
// pairs, chained transactions, transactions whose time range expires at the next
// height, transactions already confirmed, immature coinbase spends, spends that
// only succeed at the current height, multi-input transactions with one
// conflicting input, transactions made stale by later blocks or restored by a
// reorganisation, and gas-heavy transactions whose total exceeds (or exactly
// meets) the block gas limit.  Then proposal.NewBlockTemplate builds and signs a
// block for a slot of the node's key; Chain.ProcessBlock must accept it and make
// it the best block, and the harness's reference ledger, the validator's own gas
// accounting and the reference reward table must agree that it is valid.
package p38

import (
	"encoding/hex"
	"fmt"
	"os"
	"sort"
	"strings"
	"testing"
	"time"

	"github.com/bytom/bytom/consensus"
	"github.com/bytom/bytom/proposal"
	"github.com/bytom/bytom/protocol/bc"
	"github.com/bytom/bytom/protocol/bc/types"
	"github.com/bytom/bytom/protocol/validation"
	"github.com/bytom/bytom/protocol/vm"

	"verif/internal/chainkit"
	"verif/internal/ev"
)

// generous: wall-clock never decides what the template contains
const (
	warnDuration     = 30 * time.Minute
	criticalDuration = 60 * time.Minute
)

var defaultCoinbaseProg = []byte{byte(vm.OP_TRUE)} // vmutil.DefaultCoinbaseProgram

// heavyFee buys the maximum gas a transaction can use (MaxGasAmount * VMGasRate).
const heavyFee = uint64(consensus.MaxGasAmount * consensus.VMGasRate)

// shaLoop burns ~70 gas per iteration cheaply (SHA3 costs 64 gas and little time):
//
//	<1 byte> <n>  L: SWAP SHA3 SWAP 1SUB DUP JUMPIF:L  DROP DROP TRUE
func shaLoop(n uint32) []byte {
	p := []byte{byte(vm.OP_DATA_1), 0x07, byte(vm.OP_DATA_4), byte(n), byte(n >> 8), byte(n >> 16), byte(n >> 24)}
	loop := uint32(len(p))
	p = append(p, byte(vm.OP_SWAP), byte(vm.OP_SHA3), byte(vm.OP_SWAP), byte(vm.OP_1SUB), byte(vm.OP_DUP), byte(vm.OP_JUMPIF), byte(loop), byte(loop>>8), byte(loop>>16), byte(loop>>24))
	return append(p, byte(vm.OP_DROP), byte(vm.OP_DROP), byte(vm.OP_TRUE))
}

const gasPerIteration = 70

// heightProg is spendable only in a block of height == h (eq) or >= h.
func heightProg(h uint64, eq bool) []byte {
	p := []byte{byte(vm.OP_BLOCKHEIGHT)}
	p = append(p, vm.PushDataUint64(h)...)
	if eq {
		return append(p, byte(vm.OP_NUMEQUAL))
	}
	return append(p, byte(vm.OP_GREATERTHANOREQUAL))
}

// padProg is an anyone-can-spend program of 1+pad bytes.
func padProg(pad int) []byte {
	p := make([]byte, 0, pad+1)
	for i := 0; i < pad; i++ {
		p = append(p, byte(vm.OP_NOP))
	}
	return append(p, byte(vm.OP_TRUE))
}

type poolTx struct {
	tx    *types.Tx
	class string
	gas   int64 // measured gas of heavy transactions
}

type burner struct {
	u      *chainkit.UTXO
	n      uint32
	target int64
}

type heightOut struct {
	u  *chainkit.UTXO
	h  uint64
	eq bool
}

type sim struct {
	c     *ev.Case
	r     *ev.Rand
	net   *chainkit.Net
	g     *chainkit.Genesis
	tr    *chainkit.Tree
	nd    *chainkit.Node
	local int

	used      map[bc.Hash]bool // outputs some harness transaction already spends
	special   map[bc.Hash]bool // burner / height-locked outputs (not generally spendable)
	mine      map[bc.Hash]*poolTx
	burners   []*burner
	hOuts     []*heightOut
	confirmed []*types.Tx
	reorged   bool
	proposals int
	trail     []string
}

func (s *sim) best() *chainkit.Blk { return s.tr.ByHash[s.nd.Best()] }

func (s *sim) note(format string, a ...interface{}) {
	if len(s.trail) < 400 {
		s.trail = append(s.trail, fmt.Sprintf(format, a...))
	}
}

// take returns a confirmed, unused, anyone-can-spend BTM output (normal type).
func (s *sim) take(best *chainkit.Blk) *chainkit.UTXO {
	var cands []*chainkit.RefUtxo
	for _, u := range best.SortedUtxos() {
		if u.Type == chainkit.UNormal && u.U.Asset == chainkit.BTM && u.U.Amount > 20*chainkit.DefaultFee && !s.used[u.U.ID] && !s.special[u.U.ID] {
			cands = append(cands, u)
		}
	}
	if len(cands) == 0 {
		return nil
	}
	u := cands[s.r.Intn(len(cands))]
	s.used[u.U.ID] = true
	return u.U
}

func (s *sim) prog() []byte {
	if s.r.Bool() {
		return chainkit.TrueProg
	}
	return chainkit.RandProg(s.r)
}

// pay spends ins to nOut anyone-can-spend outputs with the given fee and time range.
func (s *sim) pay(ins []*chainkit.UTXO, nOut int, fee, timeRange uint64) *types.Tx {
	var sum uint64
	for _, u := range ins {
		sum += u.Amount
	}
	sum -= fee
	var outs []chainkit.Out
	for i := 0; i < nOut; i++ {
		v := sum / uint64(nOut)
		if i == nOut-1 {
			v = sum - (sum/uint64(nOut))*uint64(nOut-1)
		}
		outs = append(outs, chainkit.Out{Asset: chainkit.BTM, Amount: v, Program: s.prog()})
	}
	return chainkit.MakeTx(ins, outs, timeRange)
}

func (s *sim) fee() uint64 { return chainkit.DefaultFee + uint64(s.r.Intn(1000)) }

// submit sends a transaction to the node the way a peer's transaction arrives.
func (s *sim) submit(tx *types.Tx, class string) *poolTx {
	p := &poolTx{tx: tx, class: class}
	s.mine[tx.ID] = p
	orphan, err := s.nd.Chain.ValidateTx(tx)
	in := s.nd.Pool.IsTransactionInPool(&tx.ID)
	s.c.Count("submitted:"+class, 1)
	switch {
	case in:
		s.c.Count("admitted:"+class, 1)
	case orphan:
		s.c.Count("held-as-orphan:"+class, 1)
	default:
		s.c.Count("refused:"+class, 1)
	}
	s.note("submit %s %s in=%v orphan=%v err=%v", class, chainkit.HashShort(tx.ID), in, orphan, err)
	return p
}

// setupTx creates the special outputs of the case: gas burners and height-locked outputs.
func (s *sim) setupTx(best *chainkit.Blk, targets []int64, maxHeight uint64) *types.Tx {
	f := s.take(best)
	if f == nil {
		return nil
	}
	var outs []chainkit.Out
	var ns []uint32
	for _, t := range targets {
		n := uint32((t - 175) / gasPerIteration) // leaves 10..80 gas to the padding of the spending transaction
		ns = append(ns, n)
		outs = append(outs, chainkit.Out{Asset: chainkit.BTM, Amount: heavyFee + 1000000, Program: shaLoop(n)})
	}
	type hk struct {
		h  uint64
		eq bool
	}
	var hks []hk
	for h := uint64(1); h <= maxHeight+1; h++ {
		hks = append(hks, hk{h, true}, hk{h, false})
	}
	for _, k := range hks {
		outs = append(outs, chainkit.Out{Asset: chainkit.BTM, Amount: 50 * chainkit.DefaultFee, Program: heightProg(k.h, k.eq)})
	}
	var sum uint64
	for _, o := range outs {
		sum += o.Amount
	}
	outs = append(outs, chainkit.Out{Asset: chainkit.BTM, Amount: f.Amount - sum - 20*chainkit.DefaultFee, Program: chainkit.TrueProg})
	tx := chainkit.MakeTx([]*chainkit.UTXO{f}, outs, 0)
	us := chainkit.Outputs(tx)
	for i, t := range targets {
		s.burners = append(s.burners, &burner{u: us[i], n: ns[i], target: t})
		s.special[us[i].ID] = true
	}
	for i, k := range hks {
		u := us[len(targets)+i]
		s.hOuts = append(s.hOuts, &heightOut{u: u, h: k.h, eq: k.eq})
		s.special[u.ID] = true
	}
	return tx
}

// measure returns the gas the validator charges tx in a block of the given height.
func (s *sim) measure(tx *types.Tx, height uint64) (int64, error) {
	gs, err := validation.ValidateTx(tx.Tx, &bc.Block{BlockHeader: &bc.BlockHeader{Height: height}}, s.nd.Chain.ProgramConverter)
	if err != nil {
		return 0, err
	}
	return gs.GasUsed, nil
}

// heavyTx spends a burner so that it uses exactly b.target gas (fine-tuned by the length of the output program).
func (s *sim) heavyTx(b *burner, height uint64) *poolTx {
	pad := 0
	var tx *types.Tx
	var got int64
	for try := 0; try < 4; try++ {
		tx = chainkit.MakeTx([]*chainkit.UTXO{b.u}, []chainkit.Out{{Asset: chainkit.BTM, Amount: b.u.Amount - heavyFee, Program: padProg(pad)}}, 0)
		g, err := s.measure(tx, height)
		if err != nil {
			s.c.Count("harness_heavy_tx_invalid", 1)
			return nil
		}
		got = g
		if g == b.target {
			break
		}
		pad += int(b.target - g)
		if pad < 0 {
			pad = 0
		}
	}
	if got == b.target {
		s.c.Count("heavy_txs_with_exact_target_gas", 1)
	} else {
		s.c.Count("heavy_txs_off_target_gas", 1)
		s.note("heavy tx off target: want %d got %d (n=%d)", b.target, got, b.n)
	}
	s.used[b.u.ID] = true
	return &poolTx{tx: tx, class: "gas-heavy", gas: got}
}

// fill adds a random mix of transaction classes to the mempool.
func (s *sim) fill(best *chainkit.Blk, items int) {
	r := s.r
	next := best.Height + 1
	for i := 0; i < items; i++ {
		switch r.Pick([]int{22, 14, 14, 12, 8, 8, 8, 8, 6}) {
		case 0: // valid spend
			if u := s.take(best); u != nil {
				if r.Chance(1, 8) {
					// valid in every respect except the transaction version (blocks of version 1 take only
					// version 1): whatever the pool does with it, the next template must be acceptable
					tx := s.pay([]*chainkit.UTXO{u}, 1+r.Intn(2), s.fee(), 0)
					d := tx.TxData
					d.Version = uint64(2 + r.Intn(3))
					d.SerializedSize = 0
					s.submit(chainkit.Finish(&d), "tx-version>1")
					s.used[u.ID] = false // its input stays available to others
					break
				}
				s.submit(s.pay([]*chainkit.UTXO{u}, 1+r.Intn(3), s.fee(), 0), "valid")
			}
		case 1: // two spends of one output (+ sometimes a child of the later one)
			if u := s.take(best); u != nil {
				a := s.pay([]*chainkit.UTXO{u}, 1, s.fee(), 0)
				b := s.pay([]*chainkit.UTXO{u}, 2, s.fee()+7, 0)
				s.submit(a, "conflict-first")
				s.submit(b, "conflict-second")
				if r.Chance(1, 2) {
					s.submit(s.pay([]*chainkit.UTXO{chainkit.Outputs(b)[0]}, 1, s.fee(), 0), "child-of-conflict-second")
				}
			}
		case 2: // chained: child spends parent's output, both in the pool
			if u := s.take(best); u != nil {
				p := s.pay([]*chainkit.UTXO{u}, 2, s.fee(), 0)
				po := chainkit.Outputs(p)
				c1 := s.pay([]*chainkit.UTXO{po[0]}, 1, s.fee(), 0)
				if r.Chance(1, 4) { // child first: held as an orphan until the parent arrives
					s.submit(c1, "chain-child")
					s.submit(p, "chain-parent")
				} else {
					s.submit(p, "chain-parent")
					s.submit(c1, "chain-child")
				}
				if r.Chance(1, 2) {
					s.submit(s.pay([]*chainkit.UTXO{chainkit.Outputs(c1)[0], po[1]}, 2, s.fee(), 0), "chain-grandchild")
				}
			}
		case 3: // time range
			if u := s.take(best); u != nil {
				switch r.Intn(5) {
				case 0, 1: // admitted today (the pool validates at the best height), invalid in the next block
					if best.Height == 0 { // time range 0 means "none"
						s.submit(s.pay([]*chainkit.UTXO{u}, 1, s.fee(), 0), "valid")
					} else {
						s.submit(s.pay([]*chainkit.UTXO{u}, 1, s.fee(), best.Height), "timerange=best-height(expired-next)")
					}
				case 2:
					s.submit(s.pay([]*chainkit.UTXO{u}, 1, s.fee(), next), "timerange=next-height")
				case 3:
					s.submit(s.pay([]*chainkit.UTXO{u}, 1, s.fee(), next+uint64(r.Intn(5))), "timerange-future")
				default:
					if best.Height >= 2 {
						s.submit(s.pay([]*chainkit.UTXO{u}, 1, s.fee(), best.Height-1), "timerange-past")
					} else {
						s.used[u.ID] = false
					}
				}
			}
		case 4: // already confirmed
			if len(s.confirmed) > 0 {
				tx := s.confirmed[r.Intn(len(s.confirmed))]
				if _, seen := s.mine[tx.ID]; !seen || !s.nd.Pool.IsTransactionInPool(&tx.ID) {
					s.submit(tx, "already-confirmed")
				}
			}
		case 5: // coinbase reward spends, mature or not
			var cbs []*chainkit.RefUtxo
			for _, u := range best.SortedUtxos() {
				if u.Type == chainkit.UCoinbase && !s.used[u.U.ID] && u.U.Amount > 2*chainkit.DefaultFee {
					cbs = append(cbs, u)
				}
			}
			if len(cbs) > 0 {
				u := cbs[r.Intn(len(cbs))]
				s.used[u.U.ID] = true
				class := "coinbase-immature"
				if s.net.Spendable(u, next) {
					class = "coinbase-mature"
				}
				s.submit(s.pay([]*chainkit.UTXO{u.U}, 1, chainkit.DefaultFee, 0), class)
			}
		case 6: // outputs locked to a block height
			var cands []*heightOut
			for _, h := range s.hOuts {
				if _, ok := best.Utxo[h.u.ID]; ok && !s.used[h.u.ID] && h.h <= best.Height && (!h.eq || h.h == best.Height) {
					cands = append(cands, h)
				}
			}
			if len(cands) > 0 {
				h := cands[r.Intn(len(cands))]
				s.used[h.u.ID] = true
				class := "height>=h(valid)"
				if h.eq {
					class = "height==best(invalid-next)"
				}
				s.submit(s.pay([]*chainkit.UTXO{h.u}, 1, chainkit.DefaultFee, 0), class)
			}
		case 7: // multi-input transaction whose second input is taken by an earlier pool transaction
			a, b := s.take(best), s.take(best)
			if a != nil && b != nil {
				s.submit(s.pay([]*chainkit.UTXO{b}, 1, s.fee(), 0), "valid")
				s.submit(s.pay([]*chainkit.UTXO{a, b}, 2, s.fee(), 0), "multi-input-second-conflicts")
				s.submit(s.pay([]*chainkit.UTXO{a}, 1, s.fee(), 0), "spends-first-input-of-failed-multi")
			}
		case 8: // a spend of an output that does not exist anywhere
			ghost := &chainkit.UTXO{SourceID: bc.NewHash([32]byte{0xee, byte(r.Intn(256)), byte(r.Intn(256))}), Pos: 0, Asset: chainkit.BTM, Amount: 50 * chainkit.DefaultFee, Program: chainkit.TrueProg}
			s.submit(s.pay([]*chainkit.UTXO{ghost}, 1, s.fee(), 0), "spends-nonexistent-output")
		}
	}
}

// poolNow returns the harness's records of the transactions currently in the pool.
func (s *sim) poolNow() []*poolTx {
	var ps []*poolTx
	for _, d := range s.nd.Pool.GetTransactions() {
		if p, ok := s.mine[d.Tx.ID]; ok {
			ps = append(ps, p)
		}
	}
	sort.Slice(ps, func(i, j int) bool { return ps[i].tx.ID.String() < ps[j].tx.ID.String() })
	return ps
}

// pickForBlock selects pool transactions that are certainly valid in the next block on best, in a valid order.
func (s *sim) pickForBlock(best *chainkit.Blk, max int) []*types.Tx {
	ok := map[string]bool{"valid": true, "conflict-first": true, "conflict-second": true, "chain-parent": true, "chain-child": true, "chain-grandchild": true, "timerange-future": true, "setup": true}
	spent := map[bc.Hash]bool{}
	created := map[bc.Hash]bool{}
	var txs []*types.Tx
	progress := true
	picked := map[bc.Hash]bool{}
	pool := s.poolNow()
	s.r.Shuffle(len(pool), func(i, j int) { pool[i], pool[j] = pool[j], pool[i] })
	for progress && len(txs) < max {
		progress = false
		for _, p := range pool {
			if picked[p.tx.ID] || !ok[p.class] || len(txs) >= max {
				continue
			}
			if p.tx.TimeRange != 0 && p.tx.TimeRange < best.Height+1 {
				continue // expired meanwhile (the reference ledger does not look at time ranges)
			}
			good := true
			for _, id := range p.tx.SpentOutputIDs {
				_, onChain := best.Utxo[id]
				if spent[id] || !(onChain || created[id]) {
					good = false
				}
			}
			if !good {
				continue
			}
			for _, id := range p.tx.SpentOutputIDs {
				spent[id] = true
			}
			for _, u := range chainkit.Outputs(p.tx) {
				created[u.ID] = true
			}
			picked[p.tx.ID] = true
			txs = append(txs, p.tx)
			progress = true
		}
	}
	return txs
}

// external lets the harness (any validator, reference schedule) build the next block on parent.
func (s *sim) external(parent *chainkit.Blk, txs []*types.Tx) *chainkit.Blk {
	o := chainkit.BlockOpt{}
	if s.r.Chance(1, 5) {
		o.SkipSlots = 1 + s.r.Intn(2)
	}
	nb, err := s.tr.Build(parent, txs, o)
	if err != nil {
		s.c.Count("harness_external_block_fell_back_to_empty", 1)
		s.note("external block with %d txs refused by the reference ledger: %v", len(txs), err)
		nb, err = s.tr.Build(parent, nil, o)
		if err != nil {
			s.c.Inconclusive("case %d: cannot build an empty block: %v", s.c.Index, err)
			return nil
		}
	}
	if _, err := s.nd.Chain.ProcessBlock(chainkit.CloneBlock(nb.B)); err != nil {
		s.c.Inconclusive("case %d: node rejected a harness-built block h%d (%d txs): %v", s.c.Index, nb.Height, len(nb.B.Transactions)-1, err)
		return nil
	}
	s.note("external block h%d %s txs=%d proposer=k%d", nb.Height, chainkit.HashShort(nb.Hash), len(nb.B.Transactions)-1, nb.Proposer)
	s.c.Count("external_blocks", 1)
	return nb
}

func (s *sim) recordConfirmed() {
	s.confirmed = s.confirmed[:0]
	for _, b := range s.best().Path()[1:] {
		s.confirmed = append(s.confirmed, b.B.Transactions[1:]...)
	}
}

func errClass(err error) string {
	m := err.Error()
	for _, k := range []struct{ sub, class string }{
		{"gas is over the limit", "block-gas-over-limit"},
		{"dismatch output", "coinbase-reward-mismatch"},
		{"wrong coinbase", "wrong-coinbase"},
		{"merkle", "merkle-root"},
		{"signature", "block-signature"},
		{"timestamp", "block-timestamp"},
		{"fail to find utxo", "spends-missing-output"},
		{"has been spent", "double-spend"},
		{"not ready for use", "immature-coinbase"},
		{"voting lock", "locked-vote"},
		{"time range", "tx-time-range"},
		{"checking control program", "tx-program-fails"},
		{"validate of transaction", "tx-invalid"},
		{"misordered block height", "block-height"},
		{"mismatched block", "prev-hash"},
		{"checkpoint", "checkpoint"},
	} {
		if strings.Contains(m, k.sub) {
			return k.class
		}
	}
	if len(m) > 48 {
		m = m[:48]
	}
	return m
}

// slot picks a timestamp in a slot that the reference schedule gives to the local key.
func (s *sim) slot(parent *chainkit.Blk) (uint64, bool) {
	want := s.net.PubHex[s.local]
	var slots []uint64
	for j := uint64(0); j < 12 && len(slots) < 2; j++ {
		ts := parent.B.Timestamp + chainkit.Interval*(1+j)
		if s.net.ProposerAt(parent, ts).PubHex == want {
			slots = append(slots, ts)
		}
	}
	if len(slots) == 0 {
		return 0, false
	}
	ts := slots[0]
	if len(slots) > 1 && s.r.Chance(1, 5) {
		ts = slots[1] // the node missed its first slot
	}
	if s.r.Chance(1, 4) {
		// not aligned to the interval, still inside the slot (slots are counted from the checkpoint's timestamp)
		cp := parent.CP(s.net.P.Epoch)
		start := cp.B.Timestamp + chainkit.Interval
		slotStart := start + (ts-start)/chainkit.Interval*chainkit.Interval
		lo := slotStart
		if lo < parent.B.Timestamp+chainkit.Interval {
			lo = parent.B.Timestamp + chainkit.Interval
		}
		hi := slotStart + chainkit.Interval - 1
		if hi > lo {
			ts = lo + uint64(s.r.Intn(int(hi-lo)+1))
			s.c.Count("proposals_with_unaligned_timestamp", 1)
		}
	}
	return ts, true
}

func bucket(n int) string {
	switch {
	case n == 0:
		return "0"
	case n <= 3:
		return "1-3"
	case n <= 15:
		return "4-15"
	case n <= 40:
		return "16-40"
	}
	return ">40"
}

// propose runs the node's proposer for a slot of its key and applies the oracle.  false = stop the case.
func (s *sim) propose() bool {
	c := s.c
	E := s.net.P.Epoch
	parent := s.best()
	if parent == nil {
		c.Inconclusive("case %d: best block is not in the harness tree", c.Index)
		return false
	}
	ts, ok := s.slot(parent)
	if !ok {
		c.Inconclusive("case %d: no slot of the local key found", c.Index)
		return false
	}
	ph := parent.Hash
	v, err := s.nd.Chain.GetValidator(&ph, ts)
	if err != nil || v == nil || v.PubKey != s.net.PubHex[s.local] {
		// the node itself does not consider this its slot: deciding the schedule is C15's business
		c.Inconclusive("case %d: node's schedule disagrees with the reference schedule at h%d ts %d (%v)", c.Index, parent.Height+1, ts, err)
		return false
	}
	before := s.poolNow()
	classes := map[string]bool{}
	var heavyPoolGas int64
	for _, p := range before {
		classes[p.class] = true
		heavyPoolGas += p.gas
	}
	var cl []string
	for k := range classes {
		cl = append(cl, k)
	}
	sort.Strings(cl)
	height := parent.Height + 1
	rewardPaying := height%E == 1 && height > 1
	witness := func() map[string]interface{} {
		var pool []string
		for _, p := range before {
			pool = append(pool, fmt.Sprintf("%s:%s", p.class, chainkit.HashShort(p.tx.ID)))
		}
		return map[string]interface{}{"federation": s.net.P.Fed, "epoch_length": E, "local_key": s.local, "height": height, "timestamp": ts, "parent": parent.Hash.String(),
			"pool": pool, "reward_paying": rewardPaying, "history": s.trail}
	}
	c.Journal(map[string]interface{}{"height": height, "pool_classes": cl})

	block, err := proposal.NewBlockTemplate(s.nd.Chain, v, nil, ts, warnDuration, criticalDuration)
	if err != nil {
		w := witness()
		w["error"] = err.Error()
		c.Violation("template-error:"+errClass(err), "NewBlockTemplate failed for the node's own slot", w)
		return false
	}
	c.Count("proposals", 1)
	if s.proposals++; s.proposals > 1 {
		c.Eval(1) // every proposal is an evaluation; the first one is the case itself
	}
	c.Count(fmt.Sprintf("proposals_federation_of_%d", s.net.P.Fed), 1)
	if height == 1 {
		c.Count("proposals_at_height_1", 1)
	}
	if height%E == 0 {
		c.Count("proposals_closing_an_epoch", 1)
	}
	if s.reorged {
		c.Count("proposals_after_reorganisation", 1)
	}
	if heavyPoolGas > int64(consensus.MaxBlockGas) {
		c.Count("proposals_with_pool_gas_over_block_limit", 1)
	}
	s.note("proposal h%d ts=%d txs=%d", height, ts, len(block.Transactions)-1)

	// ---- independent oracles on the template (before ProcessBlock, which may add the node's vote to the header)
	w := witness()
	var ids []string
	for _, tx := range block.Transactions {
		ids = append(ids, chainkit.HashShort(tx.ID))
	}
	w["block_txs"] = ids
	good := true
	fail := func(key, what string, extra map[string]interface{}) {
		for k, x := range extra {
			w[k] = x
		}
		c.Violation(key, what, w)
		good = false
	}
	if block.Height != height || block.PreviousBlockHash != parent.Hash || block.Timestamp != ts || block.Version != 1 {
		fail("template-header-wrong", "template header does not extend the best block at the requested time", map[string]interface{}{"header": fmt.Sprintf("%+v", block.BlockHeader)})
	}
	if !s.net.Pub[s.local].Verify(block.Hash().Bytes(), block.BlockWitness) {
		fail("template-not-signed-by-local-key", "the block witness is not the local key's signature of the block hash", nil)
	}
	if len(block.Transactions) == 0 || len(block.Transactions[0].Inputs) != 1 || block.Transactions[0].Inputs[0].InputType() != types.CoinbaseInputType {
		fail("template-without-coinbase", "first transaction is not a coinbase", nil)
		return false
	}
	// no two transactions spend the same output; every input exists on chain + earlier transactions (reference ledger)
	spentBy := map[bc.Hash]int{}
	for i, tx := range block.Transactions {
		for _, id := range tx.SpentOutputIDs {
			if j, dup := spentBy[id]; dup {
				fail("block-double-spend", "two transactions of the proposed block spend the same output",
					map[string]interface{}{"output": id.String(), "tx_a": j, "tx_b": i, "class_a": s.classOf(block.Transactions[j]), "class_b": s.classOf(tx)})
			}
			spentBy[id] = i
		}
	}
	after, lerr := s.net.Apply(parent, block)
	if lerr != nil {
		class := "ledger"
		if le, ok := lerr.(*chainkit.LedgerError); ok {
			class = le.Class
		}
		fail("block-invalid-for-reference-ledger:"+class, "the reference ledger rejects the proposed block", map[string]interface{}{"ledger_error": lerr.Error()})
	}
	// gas: the validator's own accounting per transaction, in the context of this block
	bcBlock := types.MapBlock(block)
	var gasSum int64
	for i, res := range validation.ValidateTxs(bcBlock.Transactions, bcBlock, s.nd.Chain.ProgramConverter) {
		if e := res.GetError(); e != nil {
			fail("block-tx-invalid:"+errClass(e), "a transaction of the proposed block fails the validator in the block's context",
				map[string]interface{}{"tx_index": i, "tx_class": s.classOf(block.Transactions[i]), "tx_error": e.Error()})
			continue
		}
		gasSum += res.GetGasState().GasUsed
	}
	if gasSum > int64(consensus.MaxBlockGas) {
		fail("block-gas-over-limit", "the gas of the proposed block's transactions exceeds MaxBlockGas", map[string]interface{}{"gas": gasSum})
	}
	c.Max("max_block_gas", gasSum)
	if gasSum == int64(consensus.MaxBlockGas) {
		c.Count("proposals_with_block_gas_exactly_at_limit", 1)
	}
	if gasSum*10 >= int64(consensus.MaxBlockGas)*9 {
		c.Count("proposals_with_block_gas_over_90pct", 1)
	}
	// coinbase: exactly the reference reward table of the previous epoch; own share in output 0 (default program)
	want := s.net.ExpectedCoinbase(parent)
	got := map[string]uint64{}
	cb := block.Transactions[0]
	cbOK := len(cb.Outputs) >= 1 && hex.EncodeToString(cb.Outputs[0].ControlProgram) == hex.EncodeToString(defaultCoinbaseProg)
	for i, o := range cb.Outputs {
		if o.OutputType() != types.OriginalOutputType || *o.AssetId != chainkit.BTM {
			cbOK = false
		}
		if i == 0 && o.Amount == 0 {
			continue
		}
		if o.Amount == 0 {
			cbOK = false
		}
		got[hex.EncodeToString(o.ControlProgram)] += o.Amount
	}
	if len(got) != len(want) {
		cbOK = false
	}
	for k, a := range want {
		if got[k] != a {
			cbOK = false
		}
	}
	if !cbOK {
		fail("coinbase-differs-from-reference-rewards", "the coinbase does not pay exactly the reference reward table (own share in output 0, default program)",
			map[string]interface{}{"expected": want, "paid": got, "outputs": len(cb.Outputs)})
	}
	if rewardPaying {
		c.Count("proposals_paying_rewards", 1)
		c.Max("max_reward_outputs", int64(len(cb.Outputs)))
		if _, own := want[hex.EncodeToString(defaultCoinbaseProg)]; own {
			c.Count("proposals_paying_own_share_in_output_0", 1)
		}
		if len(want) > 1 {
			c.Count("proposals_paying_several_programs", 1)
		}
	}
	// every non-coinbase transaction came from the pool
	inPool := map[bc.Hash]bool{}
	for _, p := range before {
		inPool[p.tx.ID] = true
	}
	for _, tx := range block.Transactions[1:] {
		if !inPool[tx.ID] {
			fail("template-tx-not-from-pool", "the template holds a transaction that was not in the mempool", map[string]interface{}{"tx": tx.ID.String()})
		}
	}

	// ---- the node's own verdict
	isOrphan, perr := s.nd.Chain.ProcessBlock(block)
	switch {
	case perr != nil:
		w["process_block_error"] = perr.Error()
		fail("proposed-block-rejected:"+errClass(perr), "Chain.ProcessBlock rejects the block the node's proposer built", nil)
		return false
	case isOrphan:
		fail("proposed-block-orphan", "Chain.ProcessBlock treats the proposed block as an orphan", nil)
		return false
	case s.nd.Best() != block.Hash():
		fail("proposed-block-not-best", "the proposed block was accepted but did not become the best block", map[string]interface{}{"best": chainkit.HashShort(s.nd.Best())})
		return false
	}
	if !good || after == nil {
		return false
	}
	c.Count("proposed_blocks_accepted", 1)
	// adopt the block into the harness tree
	after.Proposer = s.local
	after.Seq = len(s.tr.All)
	s.tr.All = append(s.tr.All, after)
	s.tr.ByHash[after.Hash] = after
	parent.Children = append(parent.Children, after)

	// ---- what happened to each pool class (evidence, not verdict)
	included := map[bc.Hash]bool{}
	for _, tx := range block.Transactions[1:] {
		included[tx.ID] = true
	}
	c.Count("pool_txs_included", int64(len(included)))
	for _, p := range before {
		switch {
		case included[p.tx.ID]:
			c.Count("included:"+p.class, 1)
		case s.nd.Pool.IsTransactionInPool(&p.tx.ID):
			c.Count("left-in-pool:"+p.class, 1)
		default:
			c.Count("evicted:"+p.class, 1)
		}
	}
	c.Distinct("fed%d|E%d|h%%E=%d|reward=%v|reorg=%v|pool[%s]|included=%s|gas=%s", s.net.P.Fed, E, height%E, rewardPaying, s.reorged, strings.Join(cl, ","), bucket(len(included)), bucket(int(gasSum/250000)))
	if c.WantSample() && len(before) > 0 {
		sm := witness()
		delete(sm, "history")
		sm["block_txs"] = len(block.Transactions)
		sm["block_gas"] = gasSum
		sm["coinbase_outputs"] = len(cb.Outputs)
		c.Sample(sm)
	}
	s.reorged = false
	s.recordConfirmed()
	return true
}

func (s *sim) classOf(tx *types.Tx) string {
	if p, ok := s.mine[tx.ID]; ok {
		return p.class
	}
	return "coinbase-or-unknown"
}

func TestC38(t *testing.T) {
	r := ev.Start(t, "C38")
	defer r.Finish()
	base, _ := os.MkdirTemp("", "c38")
	defer os.RemoveAll(base)
	r.Rule("per case: federation of 1 (local key sole validator) or 3 (local key one of them), epoch length 4-6, a chain of 0 to 4 epochs + 2 blocks grown by harness-built blocks (any scheduled validator; they confirm pool transactions or spend their inputs) and by the node's own proposals, with occasional two-block reorganisations that put transactions back into the pool; before each proposal the pool is filled through Chain.ValidateTx with a random mix of the transaction classes listed in the counters; 1 case in 5 also holds 36-44 gas-heavy transactions (total over, or first k exactly at, MaxBlockGas). Every proposal is one evaluation. distinct = (federation, epoch length, height mod epoch, reward-paying, after-reorg, set of pool classes, included-count bucket, block-gas bucket)")
	r.Assume("the slot is taken from the reference schedule and confirmed by the node's own Chain.GetValidator (as the block proposer loop does); warn/critical durations are 30/60 min so wall-clock never decides; the reference ledger, reward table and schedule are chainkit's (validated against the node by C10/C13/C14/C15)")

	r.Cases("proposals", r.N(64, 3400), func(c *ev.Case) {
		rng := c.Rand
		fed := 1
		if c.Index%2 == 1 {
			fed = 3
		}
		local := rng.Intn(fed)
		E := uint64(4 + rng.Intn(3))
		knet := chainkit.Configure(chainkit.Params{Epoch: E, Fed: fed, Local: local, VotePending: 3, NKeys: 3})
		g := knet.NewGenesis(24, 0)
		nd, err := knet.NewNode(fmt.Sprintf("%s/n%d", base, c.Index), g)
		if err != nil {
			c.Inconclusive("node: %v", err)
			return
		}
		defer nd.Destroy()
		s := &sim{c: c, r: rng, net: knet, g: g, tr: knet.NewTree(g), nd: nd, local: local,
			used: map[bc.Hash]bool{}, special: map[bc.Hash]bool{}, mine: map[bc.Hash]*poolTx{}}
		target := uint64(rng.Intn(int(4*E) + 3)) // blocks before the last proposal
		// heavy cases and their flavour are a function of the case index, so every tier covers each flavour
		heavy := c.Index%5 == 2
		hk := c.Index / 5
		exact := heavy && hk%4 != 3
		delta := []int64{0, 1, -1}[hk%3]
		// gas targets of the burners
		var targets []int64
		if heavy {
			if target < 2 {
				target = 2 + uint64(rng.Intn(6))
			}
			var sum int64
			closed := false
			limit := int64(consensus.MaxBlockGas)
			over := limit + int64(rng.Range(300000, 1500000)) // the pool holds this much gas in heavy transactions
			for sum < over {
				t := int64(rng.Range(200000, 299000))
				rem := limit - sum
				switch {
				case exact && !closed && rem <= 299000:
					// the transaction that reaches the limit: exactly, one over, or one short
					d := delta
					t = rem + d
					closed = true
				case exact && !closed && rem <= 499000:
					t = rem / 2 // leaves a remainder one transaction can close
				}
				sum += t
				targets = append(targets, t)
			}
		} else if rng.Chance(1, 2) {
			for i, n := 0, rng.Intn(4); i < n; i++ {
				targets = append(targets, int64(rng.Range(20000, 299000)))
			}
		}
		setup := s.setupTx(s.tr.Root, targets, target+2)
		if setup != nil {
			s.submit(setup, "setup")
		}
		heavyDone := false
		for {
			best := s.best()
			if best == nil {
				c.Inconclusive("case %d: best block not in tree", c.Index)
				return
			}
			last := best.Height >= target
			next := best.Height + 1
			// heavy batch: once the burners are confirmed and (exact mode) the pool is empty
			if heavy && !heavyDone && len(s.burners) > 0 {
				if _, ok := best.Utxo[s.burners[0].u.ID]; ok && (!exact || len(s.nd.Pool.GetTransactions()) == 0) {
					var batch []*poolTx
					for _, b := range s.burners {
						if p := s.heavyTx(b, next); p != nil {
							q := s.submit(p.tx, p.class)
							q.gas = p.gas
							batch = append(batch, q)
						}
					}
					if hk%2 == 1 {
						// every heavy transaction gets a cheap child, submitted after the whole batch: the children of
						// the transactions that do not fit come several template batches (16) after their parents
						for _, q := range batch {
							if o := chainkit.Outputs(q.tx); len(o) > 0 {
								s.submit(s.pay([]*chainkit.UTXO{o[0]}, 1, o[0].Amount/2, 0), "child-of-gas-heavy")
							}
						}
						c.Count("heavy_batches_followed_by_children", 1)
					}
					heavyDone = true
					if exact {
						c.Count(fmt.Sprintf("heavy_batches_with_first_k_total=limit%+d", delta), 1)
					} else {
						c.Count("heavy_batches_over_limit", 1)
					}
					if !s.propose() {
						return
					}
					continue
				}
			} else if !heavy && len(s.burners) > 0 {
				for i, b := range s.burners {
					if _, ok := best.Utxo[b.u.ID]; ok && !s.used[b.u.ID] && rng.Chance(1, 2) {
						if p := s.heavyTx(s.burners[i], next); p != nil {
							q := s.submit(p.tx, p.class)
							q.gas = p.gas
						}
					}
				}
			}
			if last {
				s.fill(best, rng.Intn(9))
				s.propose()
				return
			}
			wantProposal := rng.Chance(2, 5)
			if next%E == 1 && next > 1 {
				wantProposal = rng.Chance(4, 5)
			}
			switch {
			case wantProposal:
				s.fill(best, rng.Intn(9))
				if !s.propose() {
					return
				}
			case rng.Chance(1, 6) && next%E != 0 && (next+1)%E != 0 && best.Height > 0:
				// reorganisation: block A (confirms pool transactions) is overtaken by B, B' on the same parent;
				// B spends inputs of some of A's transactions in another way, so what comes back to the pool is partly stale
				s.fill(best, 2+rng.Intn(5))
				a := s.external(best, s.pickForBlock(best, 6))
				if a == nil {
					return
				}
				var rivals []*types.Tx
				for _, tx := range a.B.Transactions[1:] {
					if p, ok := s.mine[tx.ID]; ok && p.class == "valid" && rng.Chance(1, 2) {
						u := best.Utxo[tx.SpentOutputIDs[0]]
						if u != nil {
							rivals = append(rivals, s.pay([]*chainkit.UTXO{u.U}, 1, s.fee()+13, 0))
							p.class = "restored-by-reorg-but-input-spent"
						}
					}
				}
				for _, tx := range a.B.Transactions[1:] {
					if p, ok := s.mine[tx.ID]; ok && p.class != "restored-by-reorg-but-input-spent" {
						p.class = "restored-by-reorg:" + p.class
					}
				}
				b1 := s.external(best, rivals)
				if b1 == nil {
					return
				}
				b2 := s.external(b1, nil)
				if b2 == nil {
					return
				}
				if s.nd.Best() == b2.Hash {
					s.reorged = true
					c.Count("reorganisations", 1)
				}
				s.recordConfirmed()
			default:
				s.fill(best, rng.Intn(5))
				txs := s.pickForBlock(best, rng.Intn(5))
				// sometimes the block spends the input of a pool transaction differently: the pool transaction goes stale
				for _, p := range s.poolNow() {
					if p.class == "valid" && rng.Chance(1, 6) {
						if u := best.Utxo[p.tx.SpentOutputIDs[0]]; u != nil {
							clash := false
							for _, tx := range txs {
								if tx.ID == p.tx.ID {
									clash = true
								}
							}
							if !clash {
								txs = append(txs, s.pay([]*chainkit.UTXO{u.U}, 1, s.fee()+11, 0))
								p.class = "stale-input-spent-by-block"
							}
						}
					}
				}
				if s.external(best, txs) == nil {
					return
				}
				s.recordConfirmed()
			}
		}
	})
	r.Floor("proposals", 150)
	r.Floor("proposed_blocks_accepted", 150)
	r.Floor("proposals_federation_of_1", 50)
	r.Floor("proposals_federation_of_3", 50)
	r.Floor("proposals_paying_rewards", 25)
	r.Floor("proposals_paying_own_share_in_output_0", 10)
	r.Floor("proposals_paying_several_programs", 5)
	r.Floor("proposals_at_height_1", 3)
	r.Floor("proposals_with_pool_gas_over_block_limit", 5)
	r.Floor("proposals_with_block_gas_over_90pct", 5)
	r.Floor("proposals_with_block_gas_exactly_at_limit", 2)
	r.Floor("heavy_batches_with_first_k_total=limit+0", 2)
	r.Floor("heavy_batches_with_first_k_total=limit+1", 2)
	r.Floor("heavy_batches_with_first_k_total=limit-1", 2)
	r.Floor("heavy_batches_over_limit", 2)
	r.Floor("submitted:tx-version>1", 20)
	r.Floor("heavy_batches_followed_by_children", 3)
	r.Floor("admitted:child-of-gas-heavy", 100)
	r.Floor("included:child-of-gas-heavy", 30)
	r.Floor("left-in-pool:child-of-gas-heavy", 3)
	r.Floor("pool_txs_included", 300)
	for _, cl := range []string{"valid", "conflict-first", "conflict-second", "chain-parent", "chain-child", "timerange=best-height(expired-next)", "gas-heavy", "multi-input-second-conflicts"} {
		r.Floor("admitted:"+cl, 10)
	}
	r.Floor("submitted:already-confirmed", 10)
	r.Floor("included:chain-child", 10)
	r.Floor("included:gas-heavy", 50)
	r.Floor("evicted:timerange=best-height(expired-next)", 5)
	r.Floor("left-in-pool:gas-heavy", 10)
}
