// C33 — header and block sync responses are well-formed.
//
// A real node (store + chain on GoLevelDB) holds a main chain of 30–1200 blocks
// with side branches.  A real chainmgr.Manager (NewManager) serves GetHeaders /
// GetBlocks requests that travel the same way a peer's bytes do: wire encoding,
// decodeMessage, Manager.processMsg, handleGetHeadersMsg / handleGetBlocksMsg,
// Peer.SendHeaders / SendBlocks, and the recording peer decodes what it was sent
// the way a remote node would.  Every response is judged against the harness's
// own view of the block tree.
package p33

import (
	"fmt"
	"math"
	"net"
	"os"
	"runtime/debug"
	"strings"
	"testing"

	"github.com/tendermint/go-wire"
	"github.com/tendermint/tmlibs/flowrate"

	"github.com/bytom/bytom/config"
	"github.com/bytom/bytom/consensus"
	dbm "github.com/bytom/bytom/database/leveldb"
	"github.com/bytom/bytom/event"
	"github.com/bytom/bytom/netsync/chainmgr"
	msgs "github.com/bytom/bytom/netsync/messages"
	"github.com/bytom/bytom/netsync/peers"
	"github.com/bytom/bytom/protocol/bc"
	"github.com/bytom/bytom/protocol/bc/types"

	"verif/internal/chainkit"
	"verif/internal/ev"
)

// Protocol maxima (netsync/chainmgr/block_keeper.go, netsync/messages/chain_msg.go).
const (
	maxHeadersPerMsg = 1000
	maxBlocksPerMsg  = 64
	maxMessageBytes  = 22020096 + 2 // MaxBlockchainResponseSize: what a peer's decodeMessage accepts
)

// ---- recording peer ----------------------------------------------------------

type recPeer struct {
	id   string
	sent [][]byte // wire bytes of every message the node sent to this peer
}

func (p *recPeer) Moniker() string                    { return "rec" }
func (p *recPeer) Addr() net.Addr                     { return &net.IPAddr{IP: net.ParseIP("10.0.0.9")} }
func (p *recPeer) ID() string                         { return p.id }
func (p *recPeer) RemoteAddrHost() string             { return "10.0.0.9" }
func (p *recPeer) ServiceFlag() consensus.ServiceFlag { return consensus.SFFullNode }
func (p *recPeer) IsLAN() bool                        { return false }
func (p *recPeer) TrafficStatus() (*flowrate.Status, *flowrate.Status) {
	return nil, nil
}
func (p *recPeer) TrySend(ch byte, msg interface{}) bool {
	p.sent = append(p.sent, wire.BinaryBytes(msg))
	return true
}

type basePeerSet struct{}

func (basePeerSet) StopPeerGracefully(string)          {}
func (basePeerSet) IsBanned(string, byte, string) bool { return false }

// ---- chain -------------------------------------------------------------------

type world struct {
	tr     *chainkit.Tree
	nd     *chainkit.Node
	mgr    *chainmgr.Manager
	peer   *recPeer
	main   []*chainkit.Blk // by height
	onMain map[bc.Hash]bool
	side   []*chainkit.Blk
	heavy  bool
}

// bigProg is an (unspendable-in-practice, never executed) output program of n bytes of payload.
func bigProg(r *ev.Rand, n int) []byte {
	p := make([]byte, 0, n+8)
	p = append(p, 0x4e, byte(n), byte(n>>8), byte(n>>16), byte(n>>24)) // PUSHDATA4
	p = append(p, r.Bytes(n)...)
	return append(p, 0x75, 0x51) // DROP TRUE
}

// grow builds a tree whose main branch reaches height L, with side branches that
// fork 0–6 blocks below the current tip, are 1..d+2 long (so some overtake the tip
// and force the node through a reorganisation) and are sometimes adopted as the
// new main branch.  Returns blocks in creation order (every prefix is a valid tree).
func grow(r *ev.Rand, tr *chainkit.Tree, L int, forkDen int, heavyBytes int) ([]*chainkit.Blk, error) {
	var order []*chainkit.Blk
	cur := tr.Root
	fund := tr.G.Funds[0]
	for int(cur.Height) < L {
		if cur.Height >= 1 && r.Chance(1, forkDen) {
			d := r.Intn(minInt(6, int(cur.Height)) + 1)
			base := cur.Ancestor(cur.Height - uint64(d))
			l := 1 + r.Intn(d+2)
			side := base
			for j := 0; j < l; j++ {
				o := chainkit.BlockOpt{}
				if r.Chance(1, 4) {
					o.SkipSlots = 1 + r.Intn(2)
				}
				nb, err := tr.Build(side, nil, o)
				if err != nil {
					return order, err
				}
				side = nb
				order = append(order, nb)
			}
			if heavyBytes == 0 && side.Height > cur.Height && r.Bool() {
				cur = side
				continue
			}
		}
		var txs []*types.Tx
		if heavyBytes > 0 {
			// one transaction with a huge output program; the change funds the next block's transaction
			const fee = uint64(consensus.MaxGasAmount * consensus.VMGasRate)
			tx := chainkit.MakeTx([]*chainkit.UTXO{fund}, []chainkit.Out{
				{Asset: chainkit.BTM, Amount: fund.Amount - fee - 1000, Program: chainkit.TrueProg},
				{Asset: chainkit.BTM, Amount: 1000, Program: bigProg(r, heavyBytes+r.Intn(20000))},
			}, 0)
			fund = chainkit.Outputs(tx)[0]
			txs = []*types.Tx{tx}
		}
		nb, err := tr.Build(cur, txs, chainkit.BlockOpt{})
		if err != nil {
			return order, err
		}
		cur = nb
		order = append(order, nb)
	}
	return order, nil
}

func minInt(a, b int) int {
	if a < b {
		return a
	}
	return b
}

func newWorld(c *ev.Case, knet *chainkit.Net, g *chainkit.Genesis, dir string, L, forkDen, heavy int) *world {
	tr := knet.NewTree(g)
	order, err := grow(c.Rand, tr, L, forkDen, heavy)
	if err != nil {
		c.Violation("harness:grow", "tree generator failed", err.Error())
		return nil
	}
	nd, err := knet.NewNode(dir, g)
	if err != nil {
		c.Inconclusive("node: %v", err)
		return nil
	}
	for _, b := range order {
		if _, err := nd.Chain.ProcessBlock(chainkit.CloneBlock(b.B)); err != nil {
			c.Inconclusive("case %d: node rejected harness block h%d: %v", c.Index, b.Height, err)
			nd.Destroy()
			return nil
		}
	}
	best := tr.ByHash[nd.Best()]
	if best == nil {
		c.Inconclusive("case %d: best block not in tree", c.Index)
		nd.Destroy()
		return nil
	}
	w := &world{tr: tr, nd: nd, main: best.Path(), onMain: map[bc.Hash]bool{}}
	for _, b := range w.main {
		w.onMain[b.Hash] = true
	}
	for _, b := range tr.All {
		if !w.onMain[b.Hash] {
			w.side = append(w.side, b)
		}
		// the node's own index must agree with the harness's view of the main chain
		// (deciding that is C11's business; here it is a precondition of the oracle)
		if nd.Chain.InMainChain(b.Hash) != w.onMain[b.Hash] {
			c.Inconclusive("case %d: InMainChain(%s h%d)=%v disagrees with best block's ancestry", c.Index, chainkit.HashShort(b.Hash), b.Height, !w.onMain[b.Hash])
			nd.Destroy()
			return nil
		}
	}
	cfg := config.DefaultConfig()
	cfg.VaultMode = true // no reactor is registered on a switch: the manager is driven directly
	ps := peers.NewPeerSet(basePeerSet{})
	mgr, err := chainmgr.NewManager(cfg, nil, nd.Chain, nil, event.NewDispatcher(), ps, dbm.NewMemDB())
	if err != nil {
		c.Inconclusive("manager: %v", err)
		nd.Destroy()
		return nil
	}
	w.mgr = mgr
	w.peer = &recPeer{id: "rec-peer"}
	mgr.AddPeer(w.peer)
	return w
}

// ---- requests ----------------------------------------------------------------

type request struct {
	headers  bool
	locator  []bc.Hash
	locDesc  string
	stop     bc.Hash
	stopDesc string
	skip     uint64
}

func unknownHash(r *ev.Rand) bc.Hash {
	var b [32]byte
	copy(b[:], r.Bytes(32))
	b[0] |= 1
	return bc.NewHash(b)
}

// protocolLocator mirrors fastSync.blockLocator for a peer whose best block is tip:
// tip, then steps of 1 for the first entries, doubling afterwards, down to genesis.
func protocolLocator(tip *chainkit.Blk) []*chainkit.Blk {
	var loc []*chainkit.Blk
	step := uint64(1)
	b := tip
	for {
		loc = append(loc, b)
		if b.Height == 0 {
			break
		}
		if b.Height < step {
			b = b.Ancestor(0)
		} else {
			b = b.Ancestor(b.Height - step)
		}
		if len(loc) >= 9 {
			step *= 2
		}
	}
	return loc
}

var skipSet = []uint64{0, 1, 2, 63, 1 << 32, 1 << 63, math.MaxUint64 - 1, math.MaxUint64}

func skipClass(s uint64) string {
	switch {
	case s == math.MaxUint64:
		return "2^64-1"
	case s == math.MaxUint64-1:
		return "2^64-2"
	case s > math.MaxUint64-4096:
		return "2^64-small"
	case s >= 1<<63:
		return ">=2^63"
	case s >= 1<<32:
		return ">=2^32"
	case s > 63:
		return "64..2^32"
	case s > 2 && s < 63:
		return "3..62"
	}
	return fmt.Sprint(s)
}

func (w *world) genRequest(r *ev.Rand, forceBlocks bool) *request {
	q := &request{headers: !forceBlocks && r.Chance(3, 5)}
	tipH := len(w.main) - 1
	// --- locator
	var loc []bc.Hash
	var parts []string
	kind := r.Pick([]int{50, 22, 4, 6, 6, 12})
	switch kind {
	case 0, 1: // as the protocol builds it, from a peer tip on the main chain or on a side branch
		var tip *chainkit.Blk
		if len(w.side) > 0 && r.Chance(1, 3) {
			tip = w.side[r.Intn(len(w.side))]
			parts = append(parts, "side-tip")
		} else {
			h := r.Intn(tipH + 1)
			switch r.Intn(5) {
			case 0:
				h = tipH
			case 1:
				h = r.Intn(minInt(tipH, 3) + 1)
			}
			tip = w.main[h]
			parts = append(parts, "main-tip")
		}
		pl := protocolLocator(tip)
		if r.Chance(1, 4) && len(pl) > 1 { // a peer that does not share our genesis entry / truncated locator
			pl = pl[:1+r.Intn(len(pl)-1)]
			parts = append(parts, "truncated")
		}
		for _, b := range pl {
			if r.Chance(1, 6) {
				loc = append(loc, unknownHash(r))
			}
			if len(w.side) > 0 && r.Chance(1, 6) {
				loc = append(loc, w.side[r.Intn(len(w.side))].Hash)
			}
			loc = append(loc, b.Hash)
		}
		if kind == 1 {
			r.Shuffle(len(loc), func(i, j int) { loc[i], loc[j] = loc[j], loc[i] })
			parts = append(parts, "shuffled")
		}
	case 2: // empty
		parts = append(parts, "empty")
	case 3: // only unknown hashes
		for i, n := 0, 1+r.Intn(5); i < n; i++ {
			loc = append(loc, unknownHash(r))
		}
		parts = append(parts, "all-unknown")
	case 4: // only side-chain hashes (and unknown ones)
		for i, n := 0, 1+r.Intn(5); i < n && len(w.side) > 0; i++ {
			loc = append(loc, w.side[r.Intn(len(w.side))].Hash)
			if r.Chance(1, 3) {
				loc = append(loc, unknownHash(r))
			}
		}
		parts = append(parts, "all-side")
	case 5: // arbitrary picks in arbitrary order, with duplicates
		for i, n := 0, 1+r.Intn(12); i < n; i++ {
			switch r.Intn(4) {
			case 0:
				loc = append(loc, unknownHash(r))
			case 1:
				if len(w.side) > 0 {
					loc = append(loc, w.side[r.Intn(len(w.side))].Hash)
				}
			default:
				loc = append(loc, w.main[r.Intn(tipH+1)].Hash)
			}
			if len(loc) > 0 && r.Chance(1, 8) {
				loc = append(loc, loc[r.Intn(len(loc))])
			}
		}
		parts = append(parts, "random-picks")
	}
	q.locator = loc
	q.locDesc = strings.Join(parts, "+")
	// --- stop hash
	startH := 0
	for _, h := range loc {
		if w.onMain[h] {
			startH = int(w.tr.ByHash[h].Height)
			break
		}
	}
	switch r.Pick([]int{62, 8, 8, 8, 14}) {
	case 0: // main chain, relative to the expected start
		var h int
		switch r.Intn(8) {
		case 0:
			h = startH
			q.stopDesc = "main=start"
		case 1:
			h = r.Intn(startH + 1)
			q.stopDesc = "main<=start"
		case 2:
			h = startH + 1 + r.Intn(3)
			q.stopDesc = "main-just-above"
		case 3:
			h = r.Intn(tipH + 1)
			q.stopDesc = "main-any"
		default:
			h = startH + 1 + r.Intn(tipH-startH+1)
			q.stopDesc = "main-above"
		}
		if h > tipH {
			h = tipH
		}
		q.stop = w.main[h].Hash
	case 1:
		if len(w.side) > 0 {
			q.stop = w.side[r.Intn(len(w.side))].Hash
			q.stopDesc = "side"
		} else {
			q.stop = unknownHash(r)
			q.stopDesc = "unknown"
		}
	case 2:
		q.stop = unknownHash(r)
		q.stopDesc = "unknown"
	case 3:
		q.stopDesc = "zero"
	case 4:
		q.stop = w.main[tipH].Hash
		q.stopDesc = "main-tip"
	}
	// --- skip
	if q.headers {
		switch r.Pick([]int{40, 30, 20, 10}) {
		case 0:
			q.skip = skipSet[r.Intn(len(skipSet))]
		case 1:
			q.skip = uint64(r.Intn(4))
		case 2:
			q.skip = uint64(r.Intn(200))
		case 3:
			// the values around which start+skip+1 leaves uint64
			q.skip = math.MaxUint64 - uint64(r.Intn(tipH+3))
		}
	}
	return q
}

func (q *request) witness() map[string]interface{} {
	var loc []string
	for _, h := range q.locator {
		loc = append(loc, h.String())
	}
	kind := "GetBlocks"
	if q.headers {
		kind = "GetHeaders"
	}
	return map[string]interface{}{"request": kind, "locator": loc, "locator_kind": q.locDesc, "stop_hash": q.stop.String(), "stop_kind": q.stopDesc, "skip": fmt.Sprint(q.skip)}
}

// ---- oracle ------------------------------------------------------------------

type item struct {
	hash   bc.Hash
	height uint64
}

// send delivers the request the way a peer's bytes arrive and returns what the recording peer got.
func (w *world) send(q *request) (sent [][]byte, panicked interface{}, stack string) {
	w.peer.sent = nil
	var loc []*bc.Hash
	for i := range q.locator {
		loc = append(loc, &q.locator[i])
	}
	var m msgs.BlockchainMessage
	if q.headers {
		m = msgs.NewGetHeadersMessage(loc, &q.stop, q.skip)
	} else {
		m = msgs.NewGetBlocksMessage(loc, &q.stop)
	}
	raw := wire.BinaryBytes(struct{ msgs.BlockchainMessage }{m})
	defer func() {
		if p := recover(); p != nil {
			panicked = p
			stack = string(debug.Stack())
			sent = w.peer.sent
		}
	}()
	typ, dec, err := chainmgr.VerifDecodeMessage(raw)
	if err != nil {
		return nil, fmt.Errorf("harness: request does not decode: %v", err), ""
	}
	w.mgr.VerifHandle(w.peer, typ, dec)
	return w.peer.sent, nil, ""
}

// judge runs one request and applies the oracle.  It returns a bounded outcome class.
func (w *world) judge(c *ev.Case, q *request) string {
	kind := "blocks"
	limit := maxBlocksPerMsg
	if q.headers {
		kind = "headers"
		limit = maxHeadersPerMsg
	}
	c.Count("requests_"+kind, 1)
	if q.headers {
		c.Count("skip:"+skipClass(q.skip), 1)
	}
	c.Count("stop:"+q.stopDesc, 1)
	sent, pnc, stack := w.send(q)
	wit := q.witness()
	wit["main_chain_height"] = len(w.main) - 1
	if pnc != nil {
		wit["panic"] = fmt.Sprint(pnc)
		if len(stack) > 3000 {
			stack = stack[:3000]
		}
		wit["stack"] = stack
		c.Violation("panic:"+kind+":"+ev.PanicSite(stack), "handling the request panicked", wit)
		return "panic"
	}

	// expected start, from the harness's own tree
	var mainEntries []*chainkit.Blk
	sideSkipped, unknownSkipped := 0, 0
	for _, h := range q.locator {
		b := w.tr.ByHash[h]
		switch {
		case b == nil:
			if len(mainEntries) == 0 {
				unknownSkipped++
			}
		case w.onMain[h]:
			mainEntries = append(mainEntries, b)
		default:
			if len(mainEntries) == 0 {
				sideSkipped++
			}
		}
	}
	descending := true
	for i := 1; i < len(mainEntries); i++ {
		if mainEntries[i].Height >= mainEntries[i-1].Height {
			descending = false
		}
	}
	allowed := map[bc.Hash]bool{}
	locClass := "no-main-entry"
	var highest *chainkit.Blk
	for _, b := range mainEntries {
		if highest == nil || b.Height > highest.Height {
			highest = b
		}
	}
	switch {
	case len(mainEntries) == 0:
		allowed[w.main[0].Hash] = true
	case descending:
		allowed[highest.Hash] = true
		locClass = "descending"
	default:
		for _, b := range mainEntries {
			allowed[b.Hash] = true
		}
		locClass = "unordered"
	}
	stopBlk := w.tr.ByHash[q.stop]
	stopOnMain := stopBlk != nil && w.onMain[q.stop]

	if len(sent) == 0 {
		reason := "silent:other"
		switch {
		case stopBlk == nil:
			reason = "silent:stop-unknown"
		case !stopOnMain:
			reason = "silent:stop-on-side-chain"
		default:
			// silence is what the code answers when the start it chose lies above the stop block;
			// for an unordered locator any main-chain entry may be that start
			for h := range allowed {
				if w.tr.ByHash[h].Height > stopBlk.Height {
					reason = "silent:stop-below-start"
				}
			}
		}
		c.Count(reason, 1)
		return locClass + "|" + reason
	}
	if len(sent) > 1 {
		c.Count("more_than_one_message_sent", 1)
	}
	raw := sent[0]
	wit["response_wire_bytes"] = len(raw)
	if len(raw) > maxMessageBytes {
		c.Violation(kind+":response-exceeds-max-message-size", "the response is larger than the maximum message a peer's decoder accepts", wit)
	}
	_, dec, err := chainmgr.VerifDecodeMessage(raw)
	if err != nil {
		wit["decode_error"] = err.Error()
		c.Violation(kind+":response-does-not-decode", "the response cannot be decoded by the protocol's own decoder", wit)
		return "undecodable"
	}
	var items []item
	switch m := dec.(type) {
	case *msgs.HeadersMessage:
		hs, err := m.GetHeaders()
		if err != nil || !q.headers {
			wit["error"] = fmt.Sprint(err)
			c.Violation(kind+":response-of-wrong-kind-or-malformed", "malformed response", wit)
			return "malformed"
		}
		for _, h := range hs {
			items = append(items, item{h.Hash(), h.Height})
		}
	case *msgs.BlocksMessage:
		bs, err := m.GetBlocks()
		if err != nil || q.headers {
			wit["error"] = fmt.Sprint(err)
			c.Violation(kind+":response-of-wrong-kind-or-malformed", "malformed response", wit)
			return "malformed"
		}
		for _, b := range bs {
			items = append(items, item{b.Hash(), b.Height})
		}
	default:
		wit["type"] = fmt.Sprintf("%T", dec)
		c.Violation(kind+":response-of-wrong-kind-or-malformed", "unexpected message type in response to a sync request", wit)
		return "malformed"
	}
	c.Count("responses_"+kind, 1)
	c.Count("items_"+kind, int64(len(items)))
	c.Max("max_items_"+kind, int64(len(items)))
	c.Max("max_response_wire_bytes_"+kind, int64(len(raw)))
	if len(items) == 0 {
		c.Count("empty_response_message_"+kind, 1)
		return locClass + "|empty-message"
	}
	var hs []uint64
	for i, it := range items {
		if i < 12 || i >= len(items)-3 {
			hs = append(hs, it.height)
		}
	}
	wit["response_items"] = len(items)
	wit["response_heights(first 12, last 3)"] = hs

	// 1. at most the protocol maximum
	if len(items) > limit {
		c.Violation(kind+":too-many-items", fmt.Sprintf("response holds %d items, protocol maximum is %d", len(items), limit), wit)
	}
	if len(items) == limit {
		c.Count("responses_at_item_limit_"+kind, 1)
	}
	// 2. every item is on the main chain
	for _, it := range items {
		if it.height >= uint64(len(w.main)) || w.main[it.height].Hash != it.hash {
			wit["offending_item"] = map[string]interface{}{"hash": it.hash.String(), "height": it.height}
			c.Violation(kind+":item-not-on-main-chain", "a response item is not a main-chain block", wit)
			break
		}
	}
	// 3. heights strictly increase
	overflow := false
	if q.headers {
		// start + skip + 1 does not fit in 64 bits
		overflow = q.skip == math.MaxUint64 || items[0].height > math.MaxUint64-q.skip-1
	}
	for i := 1; i < len(items); i++ {
		if items[i].height <= items[i-1].height {
			key := kind + ":heights-not-strictly-increasing"
			if overflow {
				key += ":start+skip+1>=2^64"
			}
			wit["first_offending_pair"] = []uint64{items[i-1].height, items[i].height}
			c.Violation(key, "heights in the response repeat or decrease", wit)
			break
		}
	}
	// 4. starts at the highest main-chain locator entry (or genesis)
	if !allowed[items[0].hash] {
		var want []string
		for h := range allowed {
			want = append(want, fmt.Sprintf("%s(h%d)", chainkit.HashShort(h), w.tr.ByHash[h].Height))
		}
		wit["allowed_first_items"] = want
		wit["first_item"] = fmt.Sprintf("%s(h%d)", chainkit.HashShort(items[0].hash), items[0].height)
		c.Violation(kind+":wrong-start:"+locClass+"-locator", "the response does not start at the highest main-chain locator entry (or genesis)", wit)
	}
	switch {
	case len(mainEntries) == 0:
		c.Count("starts_genesis_fallback", 1)
	default:
		c.Count("starts_at_locator_entry", 1)
		if sideSkipped > 0 {
			c.Count("side_chain_entries_skipped_before_start", 1)
		}
		if unknownSkipped > 0 {
			c.Count("unknown_entries_skipped_before_start", 1)
		}
	}
	// 5. never past the stop block
	outcome := "partial"
	if stopOnMain {
		for _, it := range items {
			if it.height > stopBlk.Height {
				wit["stop_height"] = stopBlk.Height
				c.Violation(kind+":passes-stop-block", "a response item lies beyond the stop block", wit)
				break
			}
		}
		if items[len(items)-1].hash == q.stop {
			c.Count("responses_ending_at_stop", 1)
			outcome = "to-stop"
		}
	} else {
		// the statement has no reading for a response to a stop hash that is not on the main chain; observed only
		c.Count("response_although_stop_not_on_main_chain", 1)
		outcome = "stop-off-main"
	}
	if len(items) == limit {
		outcome = "at-limit"
	}
	if len(items) == 1 {
		outcome = "single"
	}
	if outcome == "partial" {
		// fewer items than the limit and the stop block not reached: the byte cap (or the wall-clock cut-off) of block responses
		c.Count("responses_partial_"+kind, 1)
		if w.heavy && !q.headers {
			c.Count("heavy_responses_cut_by_byte_cap", 1)
		}
	}
	if c.WantSample() {
		c.Sample(wit)
	}
	return locClass + "|" + outcome
}

func runRequests(c *ev.Case, w *world, n int, forceBlocks bool) {
	for i := 0; i < n; i++ {
		q := w.genRequest(c.Rand, forceBlocks)
		// written before the call: a request that kills or hangs the process is then the replayable witness
		c.Journal(map[string]interface{}{"request_index": i, "headers": q.headers, "locator_kind": q.locDesc, "locator_len": len(q.locator), "stop_kind": q.stopDesc, "stop": q.stop.String(), "skip": fmt.Sprint(q.skip), "main_chain_height": len(w.main) - 1})
		out := w.judge(c, q)
		kind := "B"
		sk := ""
		if q.headers {
			kind = "H"
			sk = skipClass(q.skip)
		}
		c.Distinct("%s|%s|stop:%s|skip:%s|%s", kind, q.locDesc, q.stopDesc, sk, out)
	}
	c.Eval(int64(n) - 1)
}

func TestC33(t *testing.T) {
	r := ev.Start(t, "C33")
	defer r.Finish()
	// long epochs: reward-paying coinbases (one per epoch) are what grows the reference ledger's UTXO map,
	// which chainkit copies per block; the sync handlers do not look at epochs
	knet := chainkit.Configure(chainkit.Params{Epoch: 64, Fed: 3, Local: -1, VotePending: 3, NKeys: 3})
	g := knet.NewGenesis(2, 0)
	base, _ := os.MkdirTemp("", "c33")
	defer os.RemoveAll(base)
	if mh, mb := chainmgr.VerifSyncLimits(); mh != maxHeadersPerMsg || mb != maxBlocksPerMsg {
		r.Inconclusive("protocol item limits changed: headers %d blocks %d (monitor assumes %d / %d)", mh, mb, maxHeadersPerMsg, maxBlocksPerMsg)
	}
	r.Rule("a real node holds a main chain of 30-1200 blocks with side branches (some of which were best for a while); GetHeaders/GetBlocks requests go through wire encoding, decodeMessage and Manager.processMsg to a recording peer; locators as fastSync.blockLocator builds them (from main-chain and side-chain tips, truncated, with unknown and side-chain hashes interleaved), shuffled, empty, all-unknown, all-side, random picks with duplicates; stop hashes on the main chain (below/at/just above/far above the start, tip), on a side chain, unknown, zero; skip in {0,1,2,63,2^32,2^63,2^64-2,2^64-1}, small values and 2^64-1-k. distinct = (request kind, locator kind, stop kind, skip class, outcome class)")
	r.Assume("the main chain is the ancestry of the node's best block in the harness's own block tree (checked against Chain.InMainChain for every block before requests start); a request that gets no response is not judged (counted by reason); the 9 s wall-clock cut-off in handleGetBlocksMsg can only shorten a response")

	// a short straight chain and the plainest requests first, so that the witness kept for a finding is minimal
	r.Cases("plain", r.N(2, 16), func(c *ev.Case) {
		L := c.Rand.Range(30, 40)
		c.Journal(map[string]interface{}{"plain_main_chain_target": L})
		w := newWorld(c, knet, g, fmt.Sprintf("%s/p%d", base, c.Index), L, 1<<30, 0)
		if w == nil {
			return
		}
		defer w.nd.Destroy()
		c.Count("chains", 1)
		n := 0
		tip := len(w.main) - 1
		for _, h := range []int{0, 1, 5, tip - 1} {
			for _, stop := range []int{h + 1, tip} {
				for _, headers := range []bool{true, false} {
					skips := skipSet
					if !headers {
						skips = []uint64{0}
					}
					for _, sk := range skips {
						q := &request{headers: headers, locator: []bc.Hash{w.main[h].Hash}, locDesc: "single-main-entry", stop: w.main[stop].Hash, stopDesc: "main-above", skip: sk}
						out := w.judge(c, q)
						c.Distinct("plain|%v|%s|%s", headers, skipClass(sk), out)
						n++
					}
				}
			}
		}
		c.Eval(int64(n) - 1)
	})
	// ordinary chains: 1 in 4 is long enough (> 1000 blocks) to reach the header limit
	r.Cases("chains", r.N(24, 2000), func(c *ev.Case) {
		rng := c.Rand
		var L int
		switch c.Index % 4 {
		case 0:
			L = rng.Range(1010, 1200)
		case 1:
			L = rng.Range(30, 80)
		case 2:
			L = rng.Range(80, 200)
		default:
			L = rng.Range(200, 500)
		}
		c.Journal(map[string]interface{}{"main_chain_target": L})
		w := newWorld(c, knet, g, fmt.Sprintf("%s/n%d", base, c.Index), L, rng.Range(6, 20), 0)
		if w == nil {
			return
		}
		defer w.nd.Destroy()
		c.Count("chains", 1)
		c.Count("main_chain_blocks", int64(len(w.main)-1))
		c.Count("side_chain_blocks", int64(len(w.side)))
		runRequests(c, w, 220, false)
	})
	// chains of heavy blocks: 64 of them exceed the maximum message size, so the byte cap of block responses decides
	r.Cases("heavy-blocks", r.N(3, 48), func(c *ev.Case) {
		rng := c.Rand
		L := rng.Range(66, 74)
		c.Journal(map[string]interface{}{"heavy_main_chain_target": L})
		w := newWorld(c, knet, g, fmt.Sprintf("%s/h%d", base, c.Index), L, 10, 175000)
		if w == nil {
			return
		}
		defer w.nd.Destroy()
		c.Count("heavy_chains", 1)
		w.heavy = true
		runRequests(c, w, 24, true)
	})
	r.Floor("responses_headers", 1000)
	r.Floor("responses_blocks", 600)
	r.Floor("responses_at_item_limit_headers", 3)
	r.Floor("responses_at_item_limit_blocks", 50)
	r.Floor("responses_ending_at_stop", 300)
	r.Floor("starts_genesis_fallback", 100)
	r.Floor("side_chain_entries_skipped_before_start", 50)
	r.Floor("unknown_entries_skipped_before_start", 50)
	r.Floor("skip:2^64-1", 30)
	r.Floor("skip:2^64-2", 30)
	r.Floor("skip:>=2^63", 30)
	r.Floor("silent:stop-on-side-chain", 30)
	r.Floor("silent:stop-unknown", 30)
	r.Floor("silent:stop-below-start", 30)
	r.Floor("heavy_responses_cut_by_byte_cap", 5)
}
