package p33

import (
	"fmt"
	"os"
	"runtime"
	"runtime/debug"
	"sync"
	"sync/atomic"
	"testing"

	"github.com/bytom/bytom/config"
	dbm "github.com/bytom/bytom/database/leveldb"
	"github.com/bytom/bytom/event"
	"github.com/bytom/bytom/netsync/chainmgr"
	msgs "github.com/bytom/bytom/netsync/messages"
	"github.com/bytom/bytom/netsync/peers"
	"github.com/bytom/bytom/protocol/bc"
	"github.com/tendermint/go-wire"

	"verif/internal/chainkit"
	"verif/internal/ev"
)

// TestC33Concurrent: the responses a node gives AFTER it was asked while it was reorganising.  Peers'
// requests are handled on the peers' goroutines while the block processor connects blocks and
// reorganises.  Here the blocks of a tree with many overtaking side branches are delivered while
// three peer goroutines keep asking for headers and blocks around the tip (their responses are not
// judged, the chain is moving; a panic is).  When everything has returned, the chain is at rest and
// the usual requests are judged with the usual oracle against the ancestry of the node's best block
// in the harness's own tree: whatever the requests read while the chain moved, every item of a
// response now is on the main chain.  The driver runs this function in a race-detector build as an
// extra run of C33.
func TestC33Concurrent(t *testing.T) {
	r := ev.Start(t, "C33")
	defer r.Finish()
	knet := chainkit.Configure(chainkit.Params{Epoch: 64, Fed: 3, Local: -1, VotePending: 3, NKeys: 3})
	g := knet.NewGenesis(2, 0)
	base, _ := os.MkdirTemp("", "c33c")
	defer os.RemoveAll(base)
	r.Cases("reorganising", r.N(16, 500), func(c *ev.Case) {
		rng := c.Rand
		procs := []int{2, 4, 8, 16}[c.Index%4]
		defer runtime.GOMAXPROCS(runtime.GOMAXPROCS(procs))
		L := rng.Range(60, 140)
		tr := knet.NewTree(g)
		order, err := grow(rng, tr, L, rng.Range(2, 5), 0)
		if err != nil {
			c.Violation("harness:grow", "tree generator failed", err.Error())
			return
		}
		nd, err := knet.NewNode(fmt.Sprintf("%s/n%d", base, c.Index), g)
		if err != nil {
			c.Inconclusive("node: %v", err)
			return
		}
		defer nd.Destroy()
		cfg := config.DefaultConfig()
		cfg.VaultMode = true
		mgr, err := chainmgr.NewManager(cfg, nil, nd.Chain, nil, event.NewDispatcher(), peers.NewPeerSet(basePeerSet{}), dbm.NewMemDB())
		if err != nil {
			c.Inconclusive("manager: %v", err)
			return
		}
		// ---- the moving phase
		var (
			stop     = make(chan struct{})
			wg       sync.WaitGroup
			asked    int64
			lookups  int64
			panicMu  sync.Mutex
			panicked []string
		)
		genesis := tr.Root.Hash
		for p := 0; p < 3; p++ {
			peer := &recPeer{id: fmt.Sprintf("moving-peer-%d", p)}
			mgr.AddPeer(peer)
			gr := rng.Fork()
			wg.Add(1)
			go func() {
				defer wg.Done()
				ask := func(headers bool, loc, stopHash bc.Hash) {
					defer func() {
						if p := recover(); p != nil {
							panicMu.Lock()
							panicked = append(panicked, fmt.Sprintf("%v\n%s", p, debug.Stack()))
							panicMu.Unlock()
						}
					}()
					var m msgs.BlockchainMessage
					if headers {
						m = msgs.NewGetHeadersMessage([]*bc.Hash{&loc, &genesis}, &stopHash, uint64(gr.Intn(3)))
					} else {
						m = msgs.NewGetBlocksMessage([]*bc.Hash{&loc, &genesis}, &stopHash)
					}
					typ, dec, err := chainmgr.VerifDecodeMessage(wire.BinaryBytes(struct{ msgs.BlockchainMessage }{m}))
					if err != nil {
						return
					}
					peer.sent = nil
					mgr.VerifHandle(peer, typ, dec)
					atomic.AddInt64(&asked, 1)
				}
				for {
					select {
					case <-stop:
						return
					default:
					}
					best := nd.Chain.BestBlockHeight()
					// what a syncing peer does all the time: headers by height near the tip, then a request anchored there
					lo := uint64(0)
					if best > 10 {
						lo = best - 10
					}
					var anchor, top *bc.Hash
					for h := lo; h <= best+1; h++ {
						if hdr, err := nd.Chain.GetHeaderByHeight(h); err == nil {
							x := hdr.Hash()
							if anchor == nil {
								anchor = &x
							}
							top = &x
						}
						atomic.AddInt64(&lookups, 1)
					}
					if anchor != nil && gr.Chance(1, 4) {
						ask(gr.Chance(2, 3), *anchor, *top)
					}
				}
			}()
		}
		var perr error
		for _, b := range order {
			if _, perr = nd.Chain.ProcessBlock(chainkit.CloneBlock(b.B)); perr != nil {
				break
			}
		}
		close(stop)
		wg.Wait()
		if perr != nil {
			c.Inconclusive("case %d: node rejected a harness block: %v", c.Index, perr)
			return
		}
		c.Count("moving_requests_answered", asked)
		c.Count("moving_height_lookups", lookups)
		if len(panicked) > 0 {
			s := panicked[0]
			if len(s) > 3000 {
				s = s[:3000]
			}
			c.Violation("panic:while-reorganising:"+ev.PanicSite(s), "handling a request while the chain reorganises panicked", map[string]interface{}{"stack": s, "panics": len(panicked)})
			return
		}
		// ---- at rest
		best := tr.ByHash[nd.Best()]
		if best == nil {
			c.Inconclusive("case %d: best block not in tree", c.Index)
			return
		}
		w := &world{tr: tr, nd: nd, mgr: mgr, main: best.Path(), onMain: map[bc.Hash]bool{}}
		for _, b := range w.main {
			w.onMain[b.Hash] = true
		}
		reorgs := 0
		for _, b := range tr.All {
			if !w.onMain[b.Hash] {
				w.side = append(w.side, b)
				if len(b.Children) == 0 && b.Parent != nil {
					reorgs++
				}
			}
		}
		w.peer = &recPeer{id: "rec-peer"}
		mgr.AddPeer(w.peer)
		c.Count("chains_reorganised_under_requests", 1)
		c.Count("side_chain_blocks", int64(len(w.side)))
		c.Distinct("reorganising procs=%d side-tips=%d", procs, reorgs)
		// the plain walk first: one request per main-chain height region, then the generated ones
		n := 0
		for h := 0; h+1 < len(w.main); h += 7 {
			for _, headers := range []bool{true, false} {
				q := &request{headers: headers, locator: []bc.Hash{w.main[h].Hash}, locDesc: "single-main-entry", stop: w.main[len(w.main)-1].Hash, stopDesc: "main-above", skip: 0}
				w.judge(c, q)
				n++
			}
		}
		c.Eval(int64(n))
		runRequests(c, w, 120, false)
	})
	r.Floor("chains_reorganised_under_requests", 12)
	r.Floor("moving_requests_answered", 300)
	r.Floor("moving_height_lookups", 20000)
	r.Floor("side_chain_blocks", 100)
	r.Floor("responses_headers", 400)
	r.Floor("responses_blocks", 300)
}
