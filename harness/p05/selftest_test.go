package p05

// Self-checks of the oracle against deliberately wrong "decoders" (never part
// of ./check C05, which runs ^TestC05$ only): an over-allocating one, a
// panicking one, and one that kills its process.

import (
	"strings"
	"testing"

	"verif/internal/ev"
)

var selfSink [][]byte

func selftestAlloc(b []byte) error { selfSink = append(selfSink[:0], make([]byte, 8<<20)); return nil }
func selftestPanic(b []byte) error { var m map[string]int; m["x"] = 1; return nil }
func selftestFatal(b []byte) error { selfSink = append(selfSink[:0], make([]byte, 1<<40)); return nil }
func selftestFine(b []byte) error  { selfSink = append(selfSink[:0], make([]byte, 512<<10)); return nil }

func init() {
	textDecoders["selftest.alloc"] = selftestAlloc
	textDecoders["selftest.panic"] = selftestPanic
	textDecoders["selftest.fatal"] = selftestFatal
	textDecoders["selftest.fine"] = selftestFine
	selfGroups = []group{{"selftest", tier(3, 3), func(c *caseCtx) {
		c.call(input{"selftest.fine", []byte("00"), "selftest"}, false)
		if c.Index == 1 {
			c.call(input{"selftest.fatal", []byte("00"), "selftest"}, false)
		}
		c.call(input{"selftest.alloc", []byte("00"), "selftest"}, false)
	}}}
}

func TestOracleSelfCheck(t *testing.T) {
	rep := newCaseReport(0)
	runInput(rep, input{"selftest.fine", []byte("00"), "self"}, false)
	if len(rep.Violations) != 0 {
		t.Fatalf("512 KiB allocation flagged: %+v", rep.Violations)
	}
	runInput(rep, input{"selftest.alloc", []byte("00"), "self"}, false)
	runInput(rep, input{"selftest.panic", []byte("00"), "self"}, false)
	var keys []string
	for _, v := range rep.Violations {
		keys = append(keys, v.Key)
	}
	got := strings.Join(keys, " | ")
	if len(keys) != 2 || keys[0] != "alloc:verif/p05.selftestAlloc" || !strings.HasPrefix(keys[1], "panic:verif/p05.selftestPanic:") || !strings.Contains(keys[1], "assignment to entry in nil map") {
		t.Fatalf("oracle keys: %s", got)
	}
}

func TestSupervisorSelfCheck(t *testing.T) {
	if testing.Short() {
		t.Skip("spawns worker processes")
	}
	r := ev.Start(t, "C05-selftest")
	queue := []item{{"selftest", 0}, {"selftest", 1}, {"selftest", 2}}
	s := newSupervisor(r, t.TempDir(), queue)
	s.runChunk(queue)
	if len(s.reports) != 3 {
		t.Fatalf("reports for %d of 3 cases (broken: %v)", len(s.reports), s.broken)
	}
	d := s.deaths["selftest/1"]
	if len(d) != 1 || d[0].Key != "alloc:verif/p05.selftestFatal" {
		t.Fatalf("death of the worker not turned into an allocation violation at the call site: %+v", d)
	}
	for k, rep := range s.reports {
		if len(rep.Violations) != 1 || rep.Violations[0].Key != "alloc:verif/p05.selftestAlloc" {
			t.Fatalf("case %s: in-process over-allocation not reported after the restart: %+v", k, rep.Violations)
		}
	}
	if s.reports["selftest/1"].Counts["inputs_not_repeated_after_killing_a_worker"] != 1 {
		t.Fatalf("fatal input repeated or not counted: %v", s.reports["selftest/1"].Counts)
	}
}
