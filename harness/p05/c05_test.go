// C05 — decoding untrusted bytes never crashes and uses bounded memory.
//
// Decoders driven (the real code of /repo): types.Tx / TxData / Block /
// BlockHeader UnmarshalText (hex text of the binary form, hence their readFrom
// paths and MapTx), and both netsync reactors' decodeMessage followed by
// String() and every Get*() method of the decoded message.
//
// Oracle, per call, single busy goroutine: no panic (recover), and
// runtime.MemStats.TotalAlloc delta <= 1 MiB + 4096*len(input), measured per
// stage (wire decode / payload decode).  The decoders run in worker processes
// (super_test.go) under an address-space limit of 1 GiB (the supervisor itself
// under check.json's ulimit_v_kb), so an attacker-sized make() is a prompt
// "fatal error: out of memory" of a worker; the input is
// journalled before every call, a dead worker becomes a violation with the exact
// input and the run carries on.
//
// Groups run cheapest -> most dangerous: fixed, valid, random, truncate,
// mutate, hostile.
package p05

import (
	"bytes"
	"encoding/hex"
	"fmt"
	"io"
	"os"
	"testing"
	"time"

	"github.com/sirupsen/logrus"
	wire "github.com/tendermint/go-wire"

	"github.com/bytom/bytom/netsync/chainmgr"
	"github.com/bytom/bytom/netsync/consensusmgr"
	msgs "github.com/bytom/bytom/netsync/messages"
	"github.com/bytom/bytom/protocol/bc/types"

	"verif/internal/ev"
)

func TestMain(m *testing.M) {
	logrus.SetOutput(io.Discard)
	logrus.SetLevel(logrus.PanicLevel)
	os.Exit(m.Run())
}

// target = (decoder, shape of the valid encodings the generators start from)
type target struct {
	dec   string
	shape int  // text shape
	typ   byte // message type byte (wire)
}

func (t target) String() string {
	switch t.dec {
	case decChain:
		return "chainmgr/" + chainMsgName[t.typ]
	case decCons:
		return "consensusmgr/" + consMsgName[t.typ]
	}
	return t.dec + "<" + textShapeName[t.shape]
}

func targets() []target {
	ts := []target{
		{dec: decTx, shape: shTx}, {dec: decTxData, shape: shTx},
		{dec: decBlock, shape: shBlockFull}, {dec: decBlock, shape: shBlockTxs}, {dec: decBlock, shape: shBlockHdr},
		{dec: decHeader, shape: shHeader}, {dec: decHeader, shape: shBlockFull},
	}
	for _, b := range chainMsgTypes {
		ts = append(ts, target{dec: decChain, typ: b})
	}
	for _, b := range consMsgTypes {
		ts = append(ts, target{dec: decCons, typ: b})
	}
	return ts
}

func (g *builder) forTarget(t target) *node {
	switch t.dec {
	case decChain:
		return g.chainMsg(t.typ)
	case decCons:
		return g.consMsg(t.typ)
	}
	return g.text(t.shape)
}

var decs = []string{decTx, decTxData, decBlock, decHeader, decChain, decCons}

var fixedInputs = func() [][]byte {
	fixed := [][]byte{nil, {}, {0}, []byte("0"), []byte("00"), []byte("07"), []byte("01"), []byte("02"), []byte("03"),
		[]byte("\"\""), []byte("null"), []byte("zz"), []byte("0701"), {0xff}, {0x80}, []byte("070100"), []byte("0701000000")}
	for _, b := range chainMsgTypes {
		fixed = append(fixed, []byte{b})
	}
	fixed = append(fixed, []byte{0x01}, []byte{0x22}, []byte{0x11, 0x00}, []byte{0x11, 0x01, 0x00}, []byte{0x13, 0x00}, []byte{0x31, 0x01, 0x01, 0x00})

	// hand-made minimal hostile encodings (text and, wrapped, as p2p messages)
	zero32 := make([]byte, 32)
	hdr := func(count []byte) *node { // header whose suplink count varint is `count`, no suplinks following
		c := cnt("suplinks.count", 0)
		c.hasPre, c.pre = true, count
		return seq("hdr", byteN("hdr.serflags", 1), uv("hdr.version", 1), uv("hdr.height", 0), rawN("hdr.prev", zero32), uv("hdr.timestamp", 0),
			ext("hdr.commitment", rawN("hdr.merkleroot", zero32)), ext("hdr.witness", varstr("hdr.sig", nil)), ext("hdr.suplinks", c))
	}
	txAV := func(av uint64) *node { // one input with asset version av and empty commitment / witness, no outputs
		return seq("tx", byteN("tx.serflags", 7), uv("tx.version", 1), uv("tx.timerange", 0), cnt("tx.incount", 1),
			seq("in", uv("in.assetversion", av), ext("in.commit"), ext("in.witness")), cnt("tx.outcount", 0))
	}
	var bins []*node
	for _, n := range []uint64{1 << 16, 1 << 20, 1 << 24, 1<<31 - 1} {
		bins = append(bins, hdr(uvarBytes(n)))
	}
	for _, av := range []uint64{0, 2, 1<<63 - 1} {
		bins = append(bins, txAV(av))
	}
	for _, b := range bins {
		fixed = append(fixed, hexN("text", b).bytes())
		if b.label == "hdr" {
			fixed = append(fixed, seq("msg", byteN("msg.type", 0x13), wcnt("n", 1), wbytes("h", jsonN("json", hexN("text", b)))).bytes()) // HeadersMessage
		} else {
			fixed = append(fixed, seq("msg", byteN("msg.type", 0x30), wbytes("t", hexN("text", b))).bytes()) // TransactionMessage
		}
	}
	// a byte-slice field that declares 2^24-1 bytes and carries none
	fixed = append(fixed, []byte{0x11, 0x03, 0xff, 0xff, 0xff}, []byte{0x51, 0x03, 0xff, 0xff, 0xff})
	return fixed
}()

var allTargets = targets()

func tier(quick, thorough int) func(bool) int {
	return func(th bool) int {
		if th {
			return thorough
		}
		return quick
	}
}

// groups in execution order, cheapest -> most dangerous.
var groups []group

func init() {
	ts := allTargets
	nT := len(ts)
	groups = []group{
		// ---- fixed: tiny inputs (empty, nil, single type bytes ...), every decoder ----
		{"fixed", tier(len(fixedInputs)*len(decs), len(fixedInputs)*len(decs)), func(c *caseCtx) {
			in := input{dec: decs[c.Index%len(decs)], data: fixedInputs[c.Index/len(decs)], gen: "fixed"}
			c.call(in, true)
			c.Count("gen_fixed", 1)
			if len(in.data) == 0 {
				c.Count("empty_inputs", 1)
			}
		}},

		// ---- valid: the builder's encodings must decode (sanity of the generator base) ----
		{"valid", tier(nT*20, nT*300), func(c *caseCtx) {
			tg := ts[c.Index%nT]
			g := &builder{r: c.Rand, small: c.Index%2 == 0}
			data := g.forTarget(tg).bytes()
			c.journal.write(journalEntry{c.Group, c.Index, -1, tg.dec, hex.EncodeToString(data), "valid (sanity decode) " + tg.String()})
			if why := validMustDecode(tg, data); why != "" {
				c.Inconclusive("generator base broken: valid %s encoding rejected: %s (hex %s)", tg, why, trim(hex.EncodeToString(data), 400))
				return
			}
			c.Count("valid_decoded", 1)
			c.call(input{tg.dec, data, "valid " + tg.String()}, c.Index%4 == 0)
			if isWire(tg.dec) {
				c.Sample(map[string]interface{}{"target": tg.String(), "len": len(data), "message_hex": trim(hex.EncodeToString(data), 300)})
			} else {
				c.Sample(map[string]interface{}{"target": tg.String(), "len": len(data), "text": trim(string(data), 300)})
			}
		}},

		// ---- random: raw random bytes, random hex, random behind a plausible first byte ----
		{"random", tier(4000, 120000), func(c *caseCtx) {
			rng := c.Rand
			for k := 0; k < 8; k++ {
				dec := decs[rng.Intn(len(decs))]
				n := rng.Intn([]int{9, 65, 301, 2001}[rng.Intn(4)])
				b := rng.Bytes(n)
				gen := "random"
				if rng.Bool() && n > 0 { // plausible first byte
					if isWire(dec) {
						b[0] = chainMsgTypes[rng.Intn(len(chainMsgTypes))]
					} else {
						b[0] = []byte{1, 2, 3, 7}[rng.Intn(4)]
					}
					gen = "random+typebyte"
				}
				if !isWire(dec) && rng.Chance(3, 4) {
					b = []byte(hex.EncodeToString(b))
					gen += "+hex"
					if rng.Chance(1, 8) && len(b) > 0 {
						b = b[:len(b)-1] // odd length
					}
				}
				c.call(input{dec, b, gen}, k == 0)
				c.Count("gen_random", 1)
			}
		}},

		// ---- truncate: every offset of a valid encoding ----
		{"truncate", tier(nT*6, nT*75), func(c *caseCtx) {
			tg := ts[c.Index%nT]
			g := &builder{r: c.Rand, small: true}
			tree := g.forTarget(tg)
			full := tree.bytes()
			step := 1
			if !isWire(tg.dec) {
				step = 2 // hex text: every byte of the binary form
			}
			for k := 0; k < len(full); k += step {
				c.call(input{tg.dec, full[:k], fmt.Sprintf("truncate outer %s @%d/%d", tg, k, len(full))}, false)
				c.Count("gen_truncate_outer", 1)
			}
			if !isWire(tg.dec) { // a few odd text offsets too
				for k := 1; k < len(full) && k < 40; k += 2 {
					c.call(input{tg.dec, full[:k], fmt.Sprintf("truncate outer-odd %s @%d/%d", tg, k, len(full))}, false)
					c.Count("gen_truncate_outer", 1)
				}
				return
			}
			// wire messages: every offset of every innermost binary payload, framing recomputed
			for hi := 0; nthHex(tree, hi) != nil; hi++ {
				bin := nthHex(tree, hi).kids[0].bytes()
				for k := 0; k < len(bin); k++ {
					t2 := tree.clone()
					nthHex(t2, hi).kids = []*node{rawN("truncated", bin[:k])}
					c.call(input{tg.dec, t2.bytes(), fmt.Sprintf("truncate inner#%d %s @%d/%d", hi, tg, k, len(bin))}, false)
					c.Count("gen_truncate_inner", 1)
				}
			}
		}},

		// ---- mutate: byte-level edits of the outer encoding / of any subtree ----
		{"mutate", tier(nT*100, nT*4500), func(c *caseCtx) {
			tg := ts[c.Index%nT]
			rng := c.Rand
			g := &builder{r: rng, small: rng.Bool()}
			tree := g.forTarget(tg)
			otg := tg
			if rng.Chance(1, 3) {
				otg = ts[rng.Intn(nT)]
			}
			other := g.forTarget(otg)
			for k := 0; k < 16; k++ {
				var data []byte
				var desc string
				if rng.Chance(1, 3) {
					data, desc = mutateBytes(rng, tree.bytes(), other.bytes())
					desc = "outer " + desc
					c.Count("gen_mutate_outer", 1)
				} else {
					data, desc = mutateTree(rng, tree, other)
					c.Count("gen_mutate_inner", 1)
				}
				c.call(input{tg.dec, data, "mutate " + tg.String() + ": " + desc}, k == 0)
			}
		}},

		// ---- hostile: structure-aware, most dangerous last ----
		{"hostile", tier(nT*36, nT*1200), func(c *caseCtx) {
			tg := ts[c.Index%nT]
			rng := c.Rand
			run := func(data []byte, infos []hinfo) {
				desc := "hostile " + tg.String() + ":"
				for _, h := range infos {
					desc += " " + h.String()
					c.Count("hostile_op:"+h.op[:min(len(h.op), 10)], 1)
					c.Count("hostile_at:"+h.label, 1)
				}
				c.call(input{tg.dec, data, desc}, false)
			}
			if c.Index/nT%2 == 0 {
				// sweep: one edit kind, one value, at every node of a (small) valid encoding
				g := &builder{r: rng, small: true}
				tree := g.forTarget(tg)
				mode := rng.Pick([]int{5, 3, 1, 1})
				h := pickHval(rng)
				c.Count("hostile_sweeps", 1)
				c.Count("hostile_sweep_value:"+h.name, 1)
				hostileSweep(rng, tree, mode, h, 400, func(b []byte, info hinfo) { run(b, []hinfo{info}) })
				return
			}
			g := &builder{r: rng, small: rng.Bool()}
			tree := g.forTarget(tg)
			for k := 0; k < 24; k++ {
				data, infos := hostileRandom(rng, tree)
				run(data, infos)
			}
		}},
	}
}

func TestC05(t *testing.T) {
	r := ev.Start(t, "C05")
	defer r.Finish()
	r.Rule("per decoder (Tx/TxData/Block/BlockHeader UnmarshalText; chainmgr and consensusmgr decodeMessage + String()/Get*() of all 17 message types): " +
		"fixed tiny inputs; valid encodings from an independent labelled-tree encoder; raw random; truncation at every offset (outer bytes and innermost binary); " +
		"byte-level mutations (flip/set/insert/delete/dup/truncate/splice) of the outer encoding and of any subtree with enclosing lengths recomputed; " +
		"structure-aware hostile edits (maximal/overlong/negative varints set at or inserted before EVERY node, off-by-N counts and lengths, unknown type bytes / asset versions / serflags, dropped/duplicated/confused subtrees). " +
		"distinct = (decoder or message type[.method], stage text|wire|payload|process, outcome class: ok | normalised error message | panic site | over-allocating site | process death site)")
	r.Assume("runtime.MemStats.TotalAlloc delta around a single call on the only busy goroutine is the call's allocation (background runtime allocation is far below the 1 MiB slack)")
	r.Assume("bound = 1 MiB + 4096 bytes per input byte per stage (DESIGN §4 C05); input length = bytes handed to the decoder (hex text for UnmarshalText, raw message for decodeMessage)")
	r.Assume("an over-allocation is attributed to the first non-runtime/non-stdlib frame of the top allocating stack of a re-run under runtime.MemProfileRate=1 (decoders are deterministic)")
	r.Assume("message handlers behind processMsg are out of scope except for the (nil message, nil error) decode result, which is handed to the real Manager.processMsg with a registered peer")
	r.Assume("address-space limit 1 GiB (ulimit -v): an allocation request that cannot be served is a process-fatal runtime error, observed in a worker process and reported from its journal")

	// every case of this shard, in execution order; the supervisor runs them in
	// as few worker processes as the code under test allows
	var queue []item
	for i := range groups {
		n := groups[i].count(r.Thorough())
		for k := r.Shard; k < n; k += r.NShards {
			queue = append(queue, item{groups[i].name, k})
		}
	}
	sup := newSupervisor(r, t.TempDir(), queue)
	t0 := time.Now()
	for i := range groups {
		r.Cases(groups[i].name, groups[i].count(r.Thorough()), sup.run)
		t.Logf("group %-8s consumed at %.1fs", groups[i].name, time.Since(t0).Seconds())
	}

	// every class the monitor claims to cover must have been observed
	for _, d := range decs {
		r.Floor("inputs:"+d, 2000)
		r.Floor("decoded_ok:"+d, 50)
		r.Floor("decoded_err:"+d, 500)
	}
	nT := len(allTargets)
	r.Floor("valid_decoded", int64(nT*15))
	r.Floor("payload_ok", 200)
	r.Floor("payload_err", 200)
	r.Floor("empty_inputs", 12)
	r.Floor("gen_random", 5000)
	r.Floor("gen_truncate_outer", 5000)
	r.Floor("gen_truncate_inner", 2000)
	r.Floor("gen_mutate_outer", 2000)
	r.Floor("gen_mutate_inner", 4000)
	r.Floor("hostile_sweeps", 100)
	for _, l := range []string{"in.assetversion", "out.assetversion", "in.type", "out.type", "tx.serflags", "hdr.serflags", "suplinks.count",
		"tx.incount", "tx.outcount", "block.txcount", "msg.type", "msg.rawblock", "in.commit", "spend.commit", "hdr.suplinks"} {
		r.Floor("hostile_at:"+l, 8)
	}
	for _, b := range chainMsgTypes {
		r.Floor("payload_inputs:chainmgr/"+chainMsgName[b], 20)
	}
	for _, b := range consMsgTypes {
		r.Floor("payload_inputs:consensusmgr/"+consMsgName[b], 20)
	}
}

func nthHex(root *node, idx int) *node {
	i := 0
	for _, rf := range root.refs() {
		if rf.n.kind == kHex {
			if i == idx {
				return rf.n
			}
			i++
		}
	}
	return nil
}

// validMustDecode decodes a valid encoding with the real code and, for wire
// messages, checks that the real encoder produces the same bytes (so the
// labelled tree really models the wire format).  Returns "" if fine.
func validMustDecode(tg target, data []byte) (why string) {
	defer func() {
		if p := recover(); p != nil {
			why = fmt.Sprintf("panic: %v", p)
		}
	}()
	switch tg.dec {
	case decChain:
		_, m, err := chainmgr.VerifDecodeMessage(data)
		if err != nil || m == nil {
			return fmt.Sprintf("decodeMessage: %v %v", m, err)
		}
		if re := wire.BinaryBytes(struct{ msgs.BlockchainMessage }{m}); !bytes.Equal(re, data) {
			return "re-encoding by the wire codec differs: " + trim(hex.EncodeToString(re), 200)
		}
		var perr error
		payloadCalls(m, func(meth string, e error) {
			if e != nil {
				perr = fmt.Errorf("%s: %v", meth, e)
			}
		})
		if perr != nil {
			return perr.Error()
		}
	case decCons:
		_, m, err := consensusmgr.VerifDecodeMessage(data)
		if err != nil || m == nil {
			return fmt.Sprintf("decodeMessage: %v %v", m, err)
		}
		if re := wire.BinaryBytes(struct{ consensusmgr.ConsensusMessage }{m}); !bytes.Equal(re, data) {
			return "re-encoding by the wire codec differs: " + trim(hex.EncodeToString(re), 200)
		}
		var perr error
		payloadCalls(m, func(meth string, e error) {
			if e != nil {
				perr = fmt.Errorf("%s: %v", meth, e)
			}
		})
		if perr != nil {
			return perr.Error()
		}
	default:
		if err := textDecoders[tg.dec](data); err != nil {
			return err.Error()
		}
		// the labelled tree must be byte-identical to the real encoder's output
		var re []byte
		var err error
		switch {
		case tg.dec == decTxData:
			td := new(types.TxData)
			_ = td.UnmarshalText(data)
			re, err = td.MarshalText()
		case tg.dec == decBlock:
			b := new(types.Block)
			_ = b.UnmarshalText(data)
			switch tg.shape {
			case shBlockFull:
				re, err = b.MarshalText()
			case shBlockTxs:
				re, err = b.MarshalTextForTransactions()
			default:
				re, err = b.MarshalTextForBlockHeader()
			}
		case tg.dec == decHeader && tg.shape == shHeader:
			h := new(types.BlockHeader)
			_ = h.UnmarshalText(data)
			re, err = h.MarshalText()
		default:
			return ""
		}
		if err != nil || !bytes.Equal(re, data) {
			return fmt.Sprintf("re-encoding by the real encoder differs (%v): %s", err, trim(string(re), 300))
		}
	}
	return ""
}
