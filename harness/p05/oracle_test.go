package p05

import (
	"encoding/hex"
	"fmt"
	"net"
	"reflect"
	"regexp"
	"runtime"
	"runtime/debug"
	"sort"
	"strings"

	"github.com/tendermint/tmlibs/flowrate"

	"github.com/bytom/bytom/consensus"
	"github.com/bytom/bytom/netsync/chainmgr"
	"github.com/bytom/bytom/netsync/consensusmgr"
	"github.com/bytom/bytom/netsync/peers"
	"github.com/bytom/bytom/p2p"
	"github.com/bytom/bytom/protocol/bc/types"

	"verif/internal/ev"
)

// ---------------------------------------------------------------------------
// decoders under test

const (
	decTx       = "Tx.UnmarshalText"
	decTxData   = "TxData.UnmarshalText"
	decBlock    = "Block.UnmarshalText"
	decHeader   = "BlockHeader.UnmarshalText"
	decChain    = "chainmgr.decodeMessage"
	decCons     = "consensusmgr.decodeMessage"
	allocSlack  = 1 << 20 // bytes every single call may allocate regardless of the input length
	allocPerLen = 4096    // plus this many bytes per input byte
)

var textDecoders = map[string]func(b []byte) error{
	decTx:     func(b []byte) error { return new(types.Tx).UnmarshalText(b) },
	decTxData: func(b []byte) error { return new(types.TxData).UnmarshalText(b) },
	decBlock:  func(b []byte) error { return new(types.Block).UnmarshalText(b) },
	decHeader: func(b []byte) error { return new(types.BlockHeader).UnmarshalText(b) },
}

func isWire(dec string) bool { return dec == decChain || dec == decCons }

// sink is what the oracle reports to: an *ev.Case in the monitor process, a
// collecting sink in an isolated child process.
type sink interface {
	Violation(key, what string, witness interface{})
	Count(name string, n int64)
	Max(name string, v int64)
	Distinct(format string, a ...interface{})
}

type input struct {
	dec  string
	data []byte
	gen  string // how the input was generated (witness only)
}

// stubPeer is a registered peer for Manager.processMsg (only used with nil messages).
type stubPeer struct{ id string }

func (p *stubPeer) Moniker() string                    { return "stub" }
func (p *stubPeer) Addr() net.Addr                     { return &net.TCPAddr{IP: net.IPv4(127, 0, 0, 1), Port: 1} }
func (p *stubPeer) ID() string                         { return p.id }
func (p *stubPeer) RemoteAddrHost() string             { return "127.0.0.1" }
func (p *stubPeer) ServiceFlag() consensus.ServiceFlag { return 0 }
func (p *stubPeer) TrafficStatus() (*flowrate.Status, *flowrate.Status) {
	return nil, nil
}
func (p *stubPeer) TrySend(byte, interface{}) bool { return true }
func (p *stubPeer) IsLAN() bool                    { return false }

var (
	regPeer    = &stubPeer{"registered"}
	peerSet    = func() *peers.PeerSet { ps := peers.NewPeerSet(nil); ps.AddPeer(regPeer); return ps }()
	strangerP2 = &p2p.Peer{Key: "stranger"}
)

// ---------------------------------------------------------------------------
// measurement

var msA, msB runtime.MemStats

// measured runs f once on this goroutine and returns the bytes allocated by the
// process meanwhile and the recovered panic (nil if none).
func measured(f func()) (delta uint64, pval interface{}, stack string) {
	runtime.ReadMemStats(&msA)
	func() {
		defer func() {
			if p := recover(); p != nil {
				pval, stack = p, string(debug.Stack())
			}
		}()
		f()
	}()
	runtime.ReadMemStats(&msB)
	return msB.TotalAlloc - msA.TotalAlloc, pval, stack
}

func allocBound(n int) uint64 { return allocSlack + allocPerLen*uint64(n) }

var (
	reNum     = regexp.MustCompile(`[0-9]+`)
	reHexLong = regexp.MustCompile(`[0-9a-fA-F]{16,}`)
	reQuoted  = regexp.MustCompile(`'[^']*'|"[^"]*"|U\+[0-9A-Fa-f]+`)
	reClosure = regexp.MustCompile(`(\.func[0-9]+)+(\.[0-9]+)*$`)
)

func errClass(err error) string {
	if err == nil {
		return "ok"
	}
	s := err.Error()
	s = reHexLong.ReplaceAllString(s, "X")
	s = reQuoted.ReplaceAllString(s, "Q")
	s = reNum.ReplaceAllString(s, "N")
	if len(s) > 56 {
		s = s[:56]
	}
	return "err:" + s
}

func panicClass(p interface{}) string {
	s := fmt.Sprint(p)
	s = reHexLong.ReplaceAllString(s, "X")
	s = reNum.ReplaceAllString(s, "N")
	if len(s) > 70 {
		s = s[:70]
	}
	return s
}

func hexCap(b []byte) string {
	if len(b) > 16384 {
		return hex.EncodeToString(b[:16384]) + fmt.Sprintf("...(+%d bytes)", len(b)-16384)
	}
	return hex.EncodeToString(b)
}

func external(fn string) bool {
	return strings.HasPrefix(fn, "github.com/") || strings.HasPrefix(fn, "golang.org/") || strings.HasPrefix(fn, "gopkg.in/")
}

// ---------------------------------------------------------------------------
// attribution of an over-allocation to a call site (memory profile at rate 1)

type siteBytes struct {
	Site  string   `json:"site"`
	Bytes int64    `json:"bytes"`
	Stack []string `json:"stack,omitempty"`
}

func profSnapshot() map[[32]uintptr]int64 {
	n, _ := runtime.MemProfile(nil, true)
	for {
		recs := make([]runtime.MemProfileRecord, n+64)
		var ok bool
		n, ok = runtime.MemProfile(recs, true)
		if ok {
			out := make(map[[32]uintptr]int64, n)
			for _, r := range recs[:n] {
				out[r.Stack0] += r.AllocBytes
			}
			return out
		}
	}
}

func frameNames(stk [32]uintptr) []string {
	k := 0
	for k < len(stk) && stk[k] != 0 {
		k++
	}
	var out []string
	fr := runtime.CallersFrames(stk[:k])
	for {
		f, more := fr.Next()
		if f.Function != "" {
			out = append(out, f.Function)
		}
		if !more {
			break
		}
	}
	return out
}

func siteOfFrames(frames []string) string {
	for _, f := range frames {
		if external(f) {
			return reClosure.ReplaceAllString(f, "")
		}
	}
	for _, f := range frames {
		if !strings.HasPrefix(f, "runtime.") && !strings.HasPrefix(f, "reflect.") {
			return reClosure.ReplaceAllString(f, "")
		}
	}
	return "unknown"
}

// attribute re-runs f with every allocation profiled and returns the call sites
// (first frame outside the Go runtime / standard library) by allocated bytes.
func attribute(f func()) []siteBytes {
	old := runtime.MemProfileRate
	flush := func() { runtime.GC(); runtime.GC(); runtime.GC() }
	runtime.MemProfileRate = 1
	flush()
	before := profSnapshot()
	func() {
		defer func() { _ = recover() }()
		f()
	}()
	runtime.MemProfileRate = old
	flush()
	after := profSnapshot()
	bySite := map[string]*siteBytes{}
	for stk, b := range after {
		d := b - before[stk]
		if d <= 0 {
			continue
		}
		fr := frameNames(stk)
		s := siteOfFrames(fr)
		if strings.HasPrefix(s, "verif/") && !strings.HasPrefix(s, "verif/p05.selftest") {
			continue // the harness's own bookkeeping inside the measured closure
		}
		e := bySite[s]
		if e == nil {
			e = &siteBytes{Site: s, Stack: fr}
			bySite[s] = e
		}
		e.Bytes += d
	}
	var out []siteBytes
	for _, e := range bySite {
		out = append(out, *e)
	}
	sort.Slice(out, func(i, j int) bool {
		if out[i].Bytes != out[j].Bytes {
			return out[i].Bytes > out[j].Bytes
		}
		return out[i].Site < out[j].Site
	})
	if len(out) > 4 {
		out = out[:4]
	}
	for i := 1; i < len(out); i++ {
		out[i].Stack = nil
	}
	return out
}

// allocKey is the canonical key of an over-allocation: the allocating call site.
// The third-party wire codec's "allocate the declared length of a byte slice
// before reading it" is one named class; everything else is keyed by function.
func allocKey(site string) string {
	if site == "github.com/tendermint/go-wire.ReadByteSlice" {
		return "alloc:wire-codec-declared-length"
	}
	return "alloc:" + site
}

// ---------------------------------------------------------------------------
// the oracle: one input through one decoder, stage by stage

func checkStage(s sink, in input, stage, unit string, f func()) (panicked bool) {
	delta, pval, stack := measured(f)
	n := len(in.data)
	s.Count("stage_calls:"+stage, 1)
	s.Max("max_alloc_bytes:"+unit+":"+stage, int64(delta))
	if n >= 64 {
		s.Max("max_alloc_per_input_byte:"+unit+":"+stage, int64(delta/uint64(n)))
	}
	if pval != nil {
		site := reClosure.ReplaceAllString(ev.PanicSite(stack), "")
		s.Count("panics:"+in.dec, 1)
		s.Distinct("%s|%s|panic:%s", unit, stage, site)
		what := fmt.Sprintf("%s (%s stage) panicked on untrusted input: %v", in.dec, stage, pval)
		if strings.HasSuffix(unit, "/nil-message") {
			what = fmt.Sprintf("%s returned (nil message, nil error) for this input; Manager.processMsg, which Reactor.Receive calls next with that result, panicked for a registered peer: %v", in.dec, pval)
		}
		s.Violation("panic:"+site+":"+panicClass(pval), what,
			map[string]interface{}{"decoder": in.dec, "unit": unit, "stage": stage, "input_hex": hexCap(in.data), "input_len": n,
				"generator": in.gen, "panic": fmt.Sprint(pval), "stack": trim(stack, 3000)})
		panicked = true
	}
	if bound := allocBound(n); delta > bound {
		sites := attribute(f)
		site := "unattributed"
		if len(sites) > 0 {
			site = sites[0].Site
		}
		s.Count("alloc_over_bound:"+in.dec, 1)
		s.Distinct("%s|%s|alloc:%s", unit, stage, site)
		s.Violation(allocKey(site),
			fmt.Sprintf("%s (%s stage) allocated %d bytes for a %d-byte input (bound %d = 1 MiB + 4096*len); top allocating site %s", in.dec, stage, delta, n, bound, site),
			map[string]interface{}{"decoder": in.dec, "unit": unit, "stage": stage, "input_hex": hexCap(in.data), "input_len": n,
				"generator": in.gen, "allocated": delta, "bound": bound, "sites": sites})
	}
	return panicked
}

func trim(s string, n int) string {
	if len(s) > n {
		return s[:n]
	}
	return s
}

var errType = reflect.TypeOf((*error)(nil)).Elem()

// payloadCalls calls String() and every exported zero-argument Get*() method of a decoded message.
func payloadCalls(msg interface{}, each func(method string, err error)) {
	v := reflect.ValueOf(msg)
	t := v.Type()
	for i := 0; i < t.NumMethod(); i++ {
		m := t.Method(i)
		if m.Name != "String" && !strings.HasPrefix(m.Name, "Get") {
			continue
		}
		if m.Type.NumIn() != 1 { // receiver only
			continue
		}
		outs := v.Method(i).Call(nil)
		var err error
		if k := len(outs); k > 0 && outs[k-1].Type() == errType && !outs[k-1].IsNil() {
			err = outs[k-1].Interface().(error)
		}
		each(m.Name, err)
	}
}

// runInput is the whole oracle for one (decoder, input) pair.
func runInput(s sink, in input, viaReactor bool) {
	s.Count("inputs:"+in.dec, 1)
	if !isWire(in.dec) {
		var err error
		dec := textDecoders[in.dec]
		if checkStage(s, in, "text", in.dec, func() { err = dec(in.data) }) {
			return
		}
		cls := errClass(err)
		if err == nil {
			s.Count("decoded_ok:"+in.dec, 1)
		} else {
			s.Count("decoded_err:"+in.dec, 1)
		}
		s.Distinct("%s|text|%s", in.dec, cls)
		return
	}

	var (
		typ  byte
		msg  interface{}
		err  error
		name = map[byte]string{}
	)
	decode := func() {
		if in.dec == decChain {
			t, m, e := chainmgr.VerifDecodeMessage(in.data)
			typ, err = t, e
			if m != nil {
				msg = m
			}
			name = chainMsgName
		} else {
			t, m, e := consensusmgr.VerifDecodeMessage(in.data)
			typ, err = t, e
			if m != nil {
				msg = m
			}
			name = consMsgName
		}
	}
	if checkStage(s, in, "wire", in.dec, decode) {
		if viaReactor {
			reactorCrossCheck(s, in, true)
		}
		return
	}
	if viaReactor {
		reactorCrossCheck(s, in, false)
	}
	if err != nil {
		s.Count("decoded_err:"+in.dec, 1)
		s.Distinct("%s|wire|%s", in.dec, errClass(err))
		return
	}
	if msg == nil {
		// (nil message, nil error): what the reactor does next is Manager.processMsg(peer, type, nil).
		s.Count("decoded_nil_message:"+in.dec, 1)
		s.Distinct("%s|wire|nil-message", in.dec)
		unit := strings.TrimSuffix(in.dec, ".decodeMessage") + "/nil-message"
		checkStage(s, in, "payload", unit, func() {
			if in.dec == decChain {
				chainmgr.VerifProcessMsg(peerSet, regPeer, typ, nil)
			} else {
				consensusmgr.VerifProcessMsg(peerSet, regPeer.ID(), typ, nil)
			}
		})
		return
	}
	s.Count("decoded_ok:"+in.dec, 1)
	mname := name[typ]
	if mname == "" {
		mname = reflect.TypeOf(msg).String()
	}
	unit := strings.TrimSuffix(in.dec, ".decodeMessage") + "/" + mname
	s.Distinct("%s|wire|ok:%s", in.dec, mname)
	s.Count("payload_inputs:"+unit, 1)
	type res struct {
		m   string
		err error
	}
	var results []res
	if checkStage(s, in, "payload", unit, func() {
		results = results[:0]
		payloadCalls(msg, func(m string, e error) { results = append(results, res{m, e}) })
	}) {
		return
	}
	for _, r := range results {
		s.Distinct("%s.%s|payload|%s", unit, r.m, errClass(r.err))
		if r.err == nil {
			s.Count("payload_ok", 1)
		} else {
			s.Count("payload_err", 1)
		}
	}
}

// reactorCrossCheck sends the same bytes through the public Reactor.Receive with
// a peer that is not registered (processMsg returns right after decoding): the
// exported wrapper and the production entry point must agree on "panics or not".
func reactorCrossCheck(s sink, in input, wrapperPanicked bool) {
	_, pval, stack := measured(func() {
		if in.dec == decChain {
			chainmgr.VerifReceive(peerSet, strangerP2, in.data)
		} else {
			consensusmgr.VerifReceive(peerSet, strangerP2, in.data)
		}
	})
	s.Count("reactor_receive_calls", 1)
	if (pval != nil) != wrapperPanicked {
		s.Violation("reactor-receive-disagrees:"+in.dec,
			"Reactor.Receive and the exported decodeMessage wrapper disagree on whether the input panics",
			map[string]interface{}{"decoder": in.dec, "input_hex": hexCap(in.data), "wrapper_panicked": wrapperPanicked,
				"receive_panic": fmt.Sprint(pval), "stack": trim(stack, 2000)})
	}
}
