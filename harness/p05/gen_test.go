package p05

import (
	"bytes"
	"fmt"

	"verif/internal/ev"
)

// ---------------------------------------------------------------------------
// (a) mutational generator on byte strings

// mutateBytes applies 1..3 random edits; other is a second valid encoding used for splices.
func mutateBytes(r *ev.Rand, in, other []byte) ([]byte, string) {
	b := append([]byte(nil), in...)
	desc := ""
	for n := 1 + r.Pick([]int{6, 3, 1}); n > 0; n-- {
		op := r.Intn(9)
		if len(b) == 0 {
			op = 3
		}
		switch op {
		case 0: // bit flip
			i := r.Intn(len(b))
			b[i] ^= 1 << uint(r.Intn(8))
			desc += fmt.Sprintf("flipbit@%d ", i)
		case 1: // boundary byte
			i := r.Intn(len(b))
			b[i] = []byte{0, 1, 0x7f, 0x80, 0xfe, 0xff}[r.Intn(6)]
			desc += fmt.Sprintf("setbyte@%d=%02x ", i, b[i])
		case 2: // random byte
			i := r.Intn(len(b))
			b[i] = byte(r.Intn(256))
			desc += fmt.Sprintf("randbyte@%d ", i)
		case 3: // insert random bytes
			i := r.Intn(len(b) + 1)
			ins := r.Bytes(1 + r.Intn(8))
			if r.Bool() {
				for k := range ins {
					ins[k] |= 0x80 // varint continuation bytes
				}
			}
			b = append(b[:i:i], append(ins, b[i:]...)...)
			desc += fmt.Sprintf("insert%d@%d ", len(ins), i)
		case 4: // delete a range
			i := r.Intn(len(b))
			l := 1 + r.Intn(8)
			if r.Chance(1, 8) {
				l = 1 + r.Intn(len(b))
			}
			if i+l > len(b) {
				l = len(b) - i
			}
			b = append(b[:i:i], b[i+l:]...)
			desc += fmt.Sprintf("delete%d@%d ", l, i)
		case 5: // duplicate a range
			i := r.Intn(len(b))
			l := 1 + r.Intn(40)
			if i+l > len(b) {
				l = len(b) - i
			}
			dup := append([]byte(nil), b[i:i+l]...)
			b = append(b[:i+l:i+l], append(dup, b[i+l:]...)...)
			desc += fmt.Sprintf("dup%d@%d ", l, i)
		case 6: // truncate
			i := r.Intn(len(b) + 1)
			b = b[:i]
			desc += fmt.Sprintf("truncate@%d ", i)
		case 7: // splice with another valid encoding
			if len(other) == 0 {
				other = in
			}
			i, j := r.Intn(len(b)+1), r.Intn(len(other)+1)
			b = append(b[:i:i], other[j:]...)
			desc += fmt.Sprintf("splice@%d+other@%d ", i, j)
		case 8: // swap two ranges' first bytes / overwrite with a copy from elsewhere
			i, j := r.Intn(len(b)), r.Intn(len(b))
			l := 1 + r.Intn(16)
			for k := 0; k < l && i+k < len(b) && j+k < len(b); k++ {
				b[i+k] = b[j+k]
			}
			desc += fmt.Sprintf("copy%d@%d<-%d ", l, i, j)
		}
	}
	return b, desc
}

// mutateTree mutates the flattened encoding of one random subtree; the enclosing
// prefixes / hex / JSON / wire framing are re-computed around it.
func mutateTree(r *ev.Rand, root, other *node) ([]byte, string) {
	t := root.clone()
	refs := t.refs()
	rf := refs[r.Intn(len(refs))]
	var ob []byte
	if other != nil {
		orefs := other.refs()
		ob = orefs[r.Intn(len(orefs))].n.bytes()
	}
	m, d := mutateBytes(r, rf.n.bytes(), ob)
	rf.n.hasWhole, rf.n.whole = true, m
	return t.bytes(), "inner[" + rf.n.label + "] " + d
}

// ---------------------------------------------------------------------------
// (b) structure-aware hostile generator

// hval is one hostile integer in the two varint encodings used by the formats.
type hval struct {
	name string
	num  uint64 // numeric value where the encoding has one
	u    []byte // blockchain varint (LEB128)
	w    []byte // wire codec varint
	wt   int    // weight
}

func rep(b byte, n int) []byte { return bytes.Repeat([]byte{b}, n) }

const wireCap = 22020096 + 2 // messages.MaxBlockchainResponseSize

var hvals = []hval{
	{"2^31-1", 1<<31 - 1, uvarBytes(1<<31 - 1), wvarBytes(1<<31 - 1), 4},
	{"2^31", 1 << 31, uvarBytes(1 << 31), wvarBytes(1 << 31), 2},
	{"2^63-1", 1<<63 - 1, uvarBytes(1<<63 - 1), wvarBytes(1<<63 - 1), 2},
	{"2^63", 1 << 63, uvarBytes(1 << 63), wvarBytes(1 << 63), 1},
	{"2^64-1", 1<<64 - 1, uvarBytes(1<<64 - 1), wvarBytes(1<<64 - 1), 2},
	{"2^16", 1 << 16, uvarBytes(1 << 16), wvarBytes(1 << 16), 1},
	{"2^20", 1 << 20, uvarBytes(1 << 20), wvarBytes(1 << 20), 2},
	{"2^24", 1 << 24, uvarBytes(1 << 24), wvarBytes(1 << 24), 2},
	{"cap", wireCap, uvarBytes(wireCap), wvarBytes(wireCap), 1},
	{"cap+1", wireCap + 1, uvarBytes(wireCap + 1), wvarBytes(wireCap + 1), 1},
	{"0", 0, []byte{0}, []byte{0}, 1},
	{"2", 2, []byte{2}, []byte{1, 2}, 1},
	{"128", 128, uvarBytes(128), wvarBytes(128), 1},
	{"overlong-zero", 0, []byte{0x80, 0x80, 0x00}, []byte{2, 0, 0}, 1},
	{"overflow", 0, append(rep(0xff, 10), 0x7f), append([]byte{9}, rep(0xff, 9)...), 1},
	{"unterminated", 0, []byte{0x80}, []byte{8}, 1},
	{"negative", 0, append(rep(0xff, 9), 0x01), []byte{0xf1, 0x01}, 1},
	{"negative-zero", 0, []byte{0xff}, []byte{0xf0}, 1},
	{"size-ff", 0, rep(0xff, 9), []byte{0xff}, 1},
}

func pickHval(r *ev.Rand) hval {
	w := make([]int, len(hvals))
	for i, h := range hvals {
		w[i] = h.wt
	}
	return hvals[r.Pick(w)]
}

// hinfo describes one hostile edit (for the witness and the knownFatal routing).
type hinfo struct {
	op    string
	label string
	val   string
	num   uint64
}

func (h hinfo) String() string { return fmt.Sprintf("%s %s=%s", h.op, h.label, h.val) }

func wireContext(n *node, parent *node) bool {
	switch n.kind {
	case kU64, kWCount, kWBytes:
		return true
	}
	return parent != nil && len(parent.label) >= 3 && parent.label[:3] == "msg" && parent.kind == kSeq
}

var unknownBytes = []byte{0, 1, 2, 3, 4, 5, 7, 8, 0x10, 0x7f, 0x80, 0xff}

// setNode overrides the node's own encoding with a hostile one; false if the
// node kind has nothing to override with this value.
func setNode(r *ev.Rand, rf ref, h hval) (hinfo, bool) {
	n := rf.n
	info := hinfo{op: "set", label: n.label, val: h.name, num: h.num}
	switch n.kind {
	case kUvar, kCount, kExt:
		n.hasPre, n.pre = true, h.u
	case kWCount, kWBytes:
		n.hasPre, n.pre = true, h.w
	case kU64:
		p := make([]byte, 8)
		copy(p, h.u)
		if h.num != 0 {
			for i := range p {
				p[i] = byte(h.num >> uint(56-8*i))
			}
		}
		n.hasPre, n.pre = true, p
	case kByte:
		v := unknownBytes[r.Intn(len(unknownBytes))]
		if uint64(v) == n.val {
			v ^= 0x40
		}
		n.hasPre, n.pre = true, []byte{v}
		info.op, info.val, info.num = "settype", fmt.Sprintf("%#02x", v), uint64(v)
	case kRaw:
		switch r.Intn(3) {
		case 0:
			n.hasWhole, n.whole = true, nil
			info.op, info.val = "setraw", "empty"
		case 1:
			n.hasWhole, n.whole = true, rep(0xff, len(n.raw))
			info.op, info.val = "setraw", "ff"
		default:
			n.hasWhole, n.whole = true, append(append([]byte(nil), n.raw...), h.u...)
			info.op, info.val = "setraw", "append-"+h.name
		}
	default:
		return info, false
	}
	return info, true
}

// insertBefore puts a hostile varint in front of the node (a field boundary).
func insertBefore(rf ref, h hval) (hinfo, bool) {
	if rf.parent == nil {
		return hinfo{}, false
	}
	enc := h.u
	if wireContext(rf.n, rf.parent) {
		enc = h.w
	}
	p := rf.parent
	ins := rawN("inserted", enc)
	p.kids = append(p.kids[:rf.idx:rf.idx], append([]*node{ins}, p.kids[rf.idx:]...)...)
	return hinfo{op: "insert-before", label: rf.n.label, val: h.name, num: h.num}, true
}

// relative edits of counts / lengths / versions: off-by-one and "far more than present"
func relNode(r *ev.Rand, rf ref) (hinfo, bool) {
	n := rf.n
	deltas := []int64{1, -1, 2, 100, 1000, 65536}
	d := deltas[r.Intn(len(deltas))]
	cur := n.val
	switch n.kind {
	case kExt, kWBytes:
		var body bytes.Buffer
		for _, k := range n.kids {
			k.emit(&body)
		}
		cur = uint64(body.Len())
	case kUvar, kCount, kWCount:
	default:
		return hinfo{}, false
	}
	v := uint64(int64(cur) + d)
	info := hinfo{op: "rel", label: n.label, val: fmt.Sprintf("%+d", d), num: v}
	switch n.kind {
	case kExt, kUvar, kCount:
		n.hasPre, n.pre = true, uvarBytes(v)
	default:
		n.hasPre, n.pre = true, wvarBytes(v)
	}
	return info, true
}

// structural edits: drop / duplicate an item, replace a subtree by another subtree (type confusion)
func structNode(r *ev.Rand, refs []ref, rf ref) (hinfo, bool) {
	if rf.parent == nil {
		return hinfo{}, false
	}
	p := rf.parent
	switch r.Intn(3) {
	case 0:
		p.kids = append(p.kids[:rf.idx:rf.idx], p.kids[rf.idx+1:]...)
		return hinfo{op: "drop", label: rf.n.label}, true
	case 1:
		d := rf.n.clone()
		p.kids = append(p.kids[:rf.idx:rf.idx], append([]*node{d}, p.kids[rf.idx:]...)...)
		return hinfo{op: "dup", label: rf.n.label}, true
	default:
		o := refs[r.Intn(len(refs))].n
		rf.n.hasWhole, rf.n.whole = true, o.bytes()
		return hinfo{op: "replace-by[" + o.label + "]", label: rf.n.label}, true
	}
}

// hostileRandom applies 1-2 random hostile edits to a copy of root.
func hostileRandom(r *ev.Rand, root *node) ([]byte, []hinfo) {
	t := root.clone()
	var infos []hinfo
	for n := 1 + r.Pick([]int{7, 3}); n > 0; n-- {
		refs := t.refs()
		rf := refs[r.Intn(len(refs))]
		var info hinfo
		var ok bool
		switch r.Pick([]int{5, 3, 2, 2}) {
		case 0:
			info, ok = setNode(r, rf, pickHval(r))
		case 1:
			info, ok = insertBefore(rf, pickHval(r))
		case 2:
			info, ok = relNode(r, rf)
		default:
			info, ok = structNode(r, refs, rf)
		}
		if ok {
			infos = append(infos, info)
		}
	}
	return t.bytes(), infos
}

// hostileSweep applies ONE kind of edit with ONE value at EVERY node in turn
// (every field boundary / count / length / type position of the encoding).
// mode: 0 set, 1 insert-before, 2 relative, 3 structural.  yield gets each variant.
func hostileSweep(r *ev.Rand, root *node, mode int, h hval, maxVariants int, yield func(b []byte, info hinfo)) {
	n := len(root.refs())
	stride := 1
	if n > maxVariants {
		stride = (n + maxVariants - 1) / maxVariants
	}
	for i := r.Intn(stride); i < n; i += stride {
		t := root.clone()
		refs := t.refs()
		rf := refs[i]
		var info hinfo
		var ok bool
		switch mode {
		case 0:
			info, ok = setNode(r, rf, h)
		case 1:
			info, ok = insertBefore(rf, h)
		case 2:
			info, ok = relNode(r, rf)
		default:
			info, ok = structNode(r, refs, rf)
		}
		if ok {
			yield(t.bytes(), info)
		}
	}
}
