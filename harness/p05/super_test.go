package p05

// Supervisor / worker split.
//
// The decoders run in WORKER processes (this same test binary, TestC05Worker),
// never in the process that talks to the ./check driver.  A worker executes a
// chunk of cases, writes the input it is about to decode to a journal file
// before every call and appends one report line per finished case.  If a worker
// dies (e.g. "fatal error: out of memory" from an attacker-sized make() under
// the address-space limit, which no recover() can catch) the supervisor
//   * turns the journalled input + the crash signature into a violation,
//   * re-runs the interrupted case from its start with that input index marked
//     "already executed, killed the process" (it is generated, not decoded again),
//   * and carries on with the remaining cases and groups.
// So a process-fatal input is always executed for real, is always reported with
// the exact bytes, and never hides what the later cases and groups would find.
// There is no table of inputs skipped across runs: nothing is skipped unless
// this very run has just observed it kill a worker.

import (
	"bufio"
	"bytes"
	"context"
	"encoding/hex"
	"encoding/json"
	"fmt"
	"io"
	"os"
	"os/exec"
	"path/filepath"
	"regexp"
	"runtime/debug"
	"strings"
	"testing"
	"time"

	"verif/internal/ev"
)

const (
	workerEnv  = "VERIF_C05_WORKER"
	chunkCases = 2048 // one worker start costs ~0.5 s (package inits of the node's dependency graph)
	// workerLimitKB is the address-space limit (ulimit -v) of every worker: an
	// allocation request it cannot serve is "fatal error: out of memory" at once.
	workerLimitKB    = 1 << 20 // 1 GiB
	maxDeathsPerCase = 200
)

// caseReport is everything one case observed (worker -> supervisor).
type caseReport struct {
	Group        string           `json:"group"`
	Case         int              `json:"case"`
	Evals        int64            `json:"evals"`
	Violations   []repViolation   `json:"violations,omitempty"`
	Counts       map[string]int64 `json:"counts,omitempty"`
	Maxima       map[string]int64 `json:"maxima,omitempty"`
	Keys         []string         `json:"distinct,omitempty"`
	Samples      []interface{}    `json:"samples,omitempty"`
	Inconclusive []string         `json:"inconclusive,omitempty"`
	keySeen      map[string]bool
	violSeen     map[string]int
}

type repViolation struct {
	Key     string      `json:"key"`
	What    string      `json:"what"`
	Witness interface{} `json:"witness"`
	Count   int         `json:"count"`
}

func newCaseReport(i int) *caseReport {
	return &caseReport{Case: i, Counts: map[string]int64{}, Maxima: map[string]int64{}, keySeen: map[string]bool{}, violSeen: map[string]int{}}
}

func (r *caseReport) Violation(key, what string, w interface{}) {
	if i, ok := r.violSeen[key]; ok {
		r.Violations[i].Count++
		return
	}
	r.violSeen[key] = len(r.Violations)
	r.Violations = append(r.Violations, repViolation{key, what, w, 1})
}
func (r *caseReport) Count(name string, n int64) { r.Counts[name] += n }
func (r *caseReport) Max(name string, v int64) {
	if cur, ok := r.Maxima[name]; !ok || v > cur {
		r.Maxima[name] = v
	}
}
func (r *caseReport) Distinct(format string, a ...interface{}) {
	k := format
	if len(a) > 0 {
		k = fmt.Sprintf(format, a...)
	}
	if !r.keySeen[k] {
		r.keySeen[k] = true
		r.Keys = append(r.Keys, k)
	}
}

// caseCtx is what a group's case function sees (worker side).
type caseCtx struct {
	*caseReport
	Group    string
	Index    int
	Rand     *ev.Rand
	Thorough bool
	seq      int          // index of the next input of this case
	skip     map[int]bool // inputs that killed a previous worker
	journal  *journalFile
}

// journalFile is the worker's "about to decode this" record.  It is rewritten
// in place by ONE pwrite per call (length header + JSON; no open/truncate/close,
// which costs milliseconds on this file system); it only has to survive the
// death of the process, not of the machine.
type journalFile struct{ f *os.File }

func (j *journalFile) write(e journalEntry) {
	if j == nil || j.f == nil {
		return
	}
	b, _ := json.Marshal(e)
	buf := append([]byte(fmt.Sprintf("%010d\n", len(b))), b...)
	_, _ = j.f.WriteAt(buf, 0)
}

func readJournal(path string) *journalEntry {
	b, err := os.ReadFile(path)
	if err != nil || len(b) < 11 {
		return nil
	}
	var n int
	if _, err := fmt.Sscanf(string(b[:10]), "%d", &n); err != nil || n <= 0 || 11+n > len(b) {
		return nil
	}
	var e journalEntry
	if json.Unmarshal(b[11:11+n], &e) != nil {
		return nil
	}
	return &e
}

func (c *caseCtx) Sample(v interface{}) {
	if len(c.Samples) < 1 {
		c.Samples = append(c.Samples, v)
	}
}

func (c *caseCtx) Inconclusive(format string, a ...interface{}) {
	if len(c.caseReport.Inconclusive) < 3 {
		c.caseReport.Inconclusive = append(c.caseReport.Inconclusive, fmt.Sprintf(format, a...))
	}
}

type journalEntry struct {
	Group     string `json:"group"`
	Case      int    `json:"case"`
	Seq       int    `json:"seq"`
	Decoder   string `json:"decoder"`
	InputHex  string `json:"input_hex"`
	Generator string `json:"generator"`
}

// call journals the input, then runs the oracle on it (unless a previous worker
// of this run died on exactly this input).
func (c *caseCtx) call(in input, viaReactor bool) {
	seq := c.seq
	c.seq++
	c.Evals++
	if c.skip[seq] {
		c.Count("inputs_not_repeated_after_killing_a_worker", 1)
		return
	}
	c.journal.write(journalEntry{c.Group, c.Index, seq, in.dec, hex.EncodeToString(in.data), in.gen})
	runInput(c, in, viaReactor)
}

// selfGroups are only used by the self-checks of the harness (selftest_test.go).
var selfGroups []group

type group struct {
	name  string
	count func(thorough bool) int
	fn    func(c *caseCtx)
}

// item is one case of one group.
type item struct {
	Group string `json:"g"`
	Case  int    `json:"c"`
}

func (it item) key() string { return fmt.Sprintf("%s/%d", it.Group, it.Case) }

type workerRequest struct {
	Seed     int64            `json:"seed"`
	Thorough bool             `json:"thorough"`
	Items    []item           `json:"items"`
	Skip     map[string][]int `json:"skip"` // item key -> input indices that killed a worker
	Journal  string           `json:"journal"`
	Out      string           `json:"out"`
}

// TestC05Worker is the worker side: cases from stdin, reports appended to req.Out.
func TestC05Worker(t *testing.T) {
	if os.Getenv(workerEnv) == "" {
		t.Skip("worker side of TestC05")
	}
	raw, err := io.ReadAll(os.Stdin)
	if err != nil {
		t.Fatal(err)
	}
	var req workerRequest
	if err := json.Unmarshal(raw, &req); err != nil {
		t.Fatal(err)
	}
	byName := map[string]*group{}
	for i := range groups {
		byName[groups[i].name] = &groups[i]
	}
	for i := range selfGroups {
		byName[selfGroups[i].name] = &selfGroups[i]
	}
	// an eager collector: garbage of one call must not make the next call's
	// allocation fail under the address-space limit.  It does not change what a
	// single call allocates.
	debug.SetMemoryLimit(192 << 20)
	out, err := os.OpenFile(req.Out, os.O_APPEND|os.O_CREATE|os.O_WRONLY, 0o644)
	if err != nil {
		t.Fatal(err)
	}
	defer out.Close()
	jf := &journalFile{}
	if req.Journal != "" {
		if jf.f, err = os.OpenFile(req.Journal, os.O_CREATE|os.O_WRONLY, 0o644); err != nil {
			t.Fatal(err)
		}
		defer jf.f.Close()
	}
	for _, it := range req.Items {
		g := byName[it.Group]
		if g == nil {
			t.Fatalf("unknown group %q", it.Group)
		}
		idx := it.Case
		c := &caseCtx{caseReport: newCaseReport(idx), Group: it.Group, Index: idx, Rand: ev.NewRand(req.Seed, "C05", it.Group, idx),
			Thorough: req.Thorough, skip: map[int]bool{}, journal: jf}
		c.caseReport.Group = it.Group
		for _, s := range req.Skip[it.key()] {
			c.skip[s] = true
		}
		func() {
			defer func() {
				if p := recover(); p != nil { // a bug of the harness itself must not pass silently
					st := string(debug.Stack())
					c.Violation("panic:"+ev.PanicSite(st), fmt.Sprintf("panic outside a measured call: %v", p), map[string]interface{}{"stack": trim(st, 3000)})
				}
			}()
			g.fn(c)
		}()
		b, err := json.Marshal(c.caseReport)
		if err != nil {
			for i := range c.Violations {
				c.Violations[i].Witness = fmt.Sprintf("%+v", c.Violations[i].Witness)
			}
			c.Samples = nil
			b, _ = json.Marshal(c.caseReport)
		}
		if _, err := out.Write(append(b, '\n')); err != nil {
			t.Fatal(err)
		}
	}
}

// ---------------------------------------------------------------------------
// supervisor side

type supervisor struct {
	r       *ev.Run
	dir     string
	queue   []item // every case of this shard (or the replayed one), in execution order
	pos     map[string]int
	reports map[string]*caseReport
	deaths  map[string][]repViolation // per item: violations made from worker deaths
	broken  map[string]string
}

func newSupervisor(r *ev.Run, dir string, queue []item) *supervisor {
	s := &supervisor{r: r, dir: dir, queue: queue, pos: map[string]int{}, reports: map[string]*caseReport{},
		deaths: map[string][]repViolation{}, broken: map[string]string{}}
	for i, it := range queue {
		s.pos[it.key()] = i
	}
	return s
}

var reFatal = regexp.MustCompile(`(?m)^(fatal error: .*|panic: .*|runtime: out of memory.*|runtime/cgo: .*|SIG[A-Z]+: .*)$`)

// fatalSite: first frame of the crashing goroutine that is outside the runtime.
func fatalSite(trace string) string {
	if i := strings.Index(trace, "\ngoroutine "); i >= 0 {
		trace = trace[i:]
	}
	for _, l := range strings.Split(trace, "\n") {
		if l == "" || l[0] == '\t' || l[0] == ' ' || !strings.Contains(l, "(") || strings.HasPrefix(l, "goroutine ") {
			continue
		}
		fn := l[:strings.LastIndex(l, "(")]
		if strings.HasPrefix(fn, "runtime.") || strings.HasPrefix(fn, "runtime/") || strings.HasPrefix(fn, "reflect.") || strings.HasPrefix(fn, "testing.") {
			continue
		}
		fn = strings.TrimSuffix(fn, "-fm")
		return reClosure.ReplaceAllString(fn, "")
	}
	return "unknown"
}

// deathViolation turns a dead worker's output + journal into a violation.
func deathViolation(txt string, je *journalEntry, exit string) repViolation {
	sig, site, excerpt := "worker exited: "+exit, "unknown", trim(txt, 3000)
	if m := reFatal.FindStringIndex(txt); m != nil {
		sig = txt[m[0]:m[1]]
		site = fatalSite(txt[m[1]:])
		excerpt = trim(txt[m[0]:], 3500)
	}
	oom := strings.Contains(sig, "out of memory") || strings.Contains(txt, "fatal error: out of memory") || strings.Contains(sig, "cannot allocate")
	key := "fatal:" + reNum.ReplaceAllString(trim(sig, 80), "N") + "@" + site
	if oom {
		key = allocKey(site) // the same defect class as a smaller over-allocation at that site
	}
	w := map[string]interface{}{"fatal": sig, "site": site, "process_output": excerpt, "process_fatal": true}
	what := fmt.Sprintf("decoder process killed by an unrecoverable runtime error: %s (at %s)", sig, site)
	if je != nil {
		w["decoder"], w["input_hex"], w["generator"], w["input_seq"] = je.Decoder, je.InputHex, je.Generator, je.Seq
		w["input_len"] = len(je.InputHex) / 2
		what = fmt.Sprintf("%s killed the whole process on a %d-byte input: %s (unrecoverable, no recover() possible; at %s)", je.Decoder, len(je.InputHex)/2, sig, site)
	}
	return repViolation{key, what, w, 1}
}

// runChunk executes the items in workers until each has a report (or is broken).
func (s *supervisor) runChunk(items []item) {
	skip := map[string][]int{}
	deathsOf := map[string]int{}
	for len(items) > 0 {
		journal := filepath.Join(s.dir, "worker.journal")
		outp := filepath.Join(s.dir, "worker.out")
		_ = os.Remove(journal)
		_ = os.Remove(outp)
		sk := map[string][]int{}
		for _, it := range items {
			if k := it.key(); len(skip[k]) > 0 {
				sk[k] = skip[k]
			}
		}
		req, _ := json.Marshal(workerRequest{Seed: s.r.Seed, Thorough: s.r.Thorough(), Items: items, Skip: sk, Journal: journal, Out: outp})
		exe, err := os.Executable()
		if err != nil {
			s.r.Inconclusive("cannot locate the test binary: %v", err)
			return
		}
		ctx, cancel := context.WithTimeout(context.Background(), 60*time.Minute)
		cmd := exec.CommandContext(ctx, "sh", "-c", fmt.Sprintf(`ulimit -v %d 2>/dev/null; exec "$0" "$@"`, workerLimitKB),
			exe, "-test.run=^TestC05Worker$", "-test.timeout=0")
		// few threads and few malloc arenas: thread stacks and glibc arenas count against the limit
		cmd.Env = append(os.Environ(), workerEnv+"=1", "VERIF_OUT=", "VERIF_JOURNAL=", "VERIF_REPLAY=", "GOMAXPROCS=4", "MALLOC_ARENA_MAX=2")
		cmd.Stdin = bytes.NewReader(req)
		var buf bytes.Buffer
		cmd.Stdout, cmd.Stderr = &buf, &buf
		runErr := cmd.Run()
		timedOut := ctx.Err() != nil
		cancel()
		s.r.Count("worker_processes", 1)

		done := map[string]bool{}
		if f, err := os.Open(outp); err == nil {
			sc := bufio.NewScanner(f)
			sc.Buffer(make([]byte, 1<<20), 256<<20)
			for sc.Scan() {
				rep := newCaseReport(-1)
				if json.Unmarshal(sc.Bytes(), rep) == nil && rep.Case >= 0 {
					k := item{rep.Group, rep.Case}.key()
					s.reports[k] = rep
					done[k] = true
				}
			}
			f.Close()
		}
		var rest []item
		for _, it := range items {
			if !done[it.key()] {
				rest = append(rest, it)
			}
		}
		if len(rest) == 0 {
			return
		}
		// the worker died (or was killed) while running rest[0]
		cur := rest[0]
		txt := buf.String()
		if len(txt) > 1<<20 {
			txt = txt[:1<<20]
		}
		je := readJournal(journal)
		if je != nil && (je.Case != cur.Case || je.Group != cur.Group) {
			je = nil
		}
		s.r.Count("worker_deaths", 1)
		if timedOut || je == nil || runErr == nil {
			s.broken[cur.key()] = fmt.Sprintf("worker stopped in case %s without a usable journal (timeout=%v, err=%v): %s", cur.key(), timedOut, runErr, trim(txt, 600))
			items = rest[1:]
			continue
		}
		s.deaths[cur.key()] = append(s.deaths[cur.key()], deathViolation(txt, je, fmt.Sprint(runErr)))
		skip[cur.key()] = append(skip[cur.key()], je.Seq)
		deathsOf[cur.key()]++
		if deathsOf[cur.key()] > maxDeathsPerCase {
			s.broken[cur.key()] = fmt.Sprintf("case %s killed more than %d workers; rest of the case not run", cur.key(), maxDeathsPerCase)
			items = rest[1:]
			continue
		}
		items = rest
	}
}

// run is the body of one ev case on the supervisor side.
func (s *supervisor) run(c *ev.Case) {
	k := item{c.Group, c.Index}.key()
	if _, ok := s.reports[k]; !ok && s.broken[k] == "" && len(s.deaths[k]) == 0 {
		i, ok := s.pos[k]
		if !ok {
			c.Inconclusive("case %s is not in the supervisor's queue", k)
			return
		}
		end := i + chunkCases
		if end > len(s.queue) {
			end = len(s.queue)
		}
		if s.r.Replaying() {
			end = i + 1
		}
		c.Journal(map[string]interface{}{"supervisor": "running worker", "first": k, "items": end - i})
		s.runChunk(s.queue[i:end])
	}
	for _, v := range s.deaths[k] {
		c.Violation(v.Key, v.What, v.Witness)
		c.Count("process_fatal_inputs", 1)
		w := v.Witness.(map[string]interface{})
		c.Distinct("%v|process|died@%v", w["decoder"], w["site"])
	}
	delete(s.deaths, k)
	if why := s.broken[k]; why != "" {
		c.Inconclusive("%s", why)
	}
	rep := s.reports[k]
	if rep == nil {
		return
	}
	delete(s.reports, k)
	c.Eval(rep.Evals)
	for _, v := range rep.Violations {
		for n := 0; n < v.Count; n++ {
			c.Violation(v.Key, v.What, v.Witness)
		}
	}
	for name, v := range rep.Counts {
		c.Count(name, v)
	}
	for name, v := range rep.Maxima {
		c.Max(name, v)
	}
	for _, key := range rep.Keys {
		c.Distinct("%s", key)
	}
	for _, smp := range rep.Samples {
		c.Sample(smp)
	}
	for _, m := range rep.Inconclusive {
		c.Inconclusive("%s", m)
	}
}
