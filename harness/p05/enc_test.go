package p05

// A minimal, independent encoder of Bytom's wire formats as a labelled tree.
//
// Every field of a transaction / header / block / p2p message is a node, so the
// generators can (1) produce valid encodings without using the code under test,
// (2) address every field boundary by name, and (3) corrupt a node deep inside
// nested length-prefixed / hex / JSON / wire-codec containers while all the
// enclosing length prefixes stay consistent (so the hostile value actually
// reaches the parser that owns the field).

import (
	"bytes"
	"encoding/binary"
	"encoding/hex"

	"github.com/bytom/bytom/protocol/bc/types"

	"verif/internal/ev"
)

type kind uint8

const (
	kRaw    kind = iota // raw bytes
	kByte               // one semantic byte (serflags, input type, output type, message type)
	kUvar               // blockchain varint (LEB128) scalar
	kCount              // blockchain varint that counts the following items
	kExt                // blockchain varstr / extensible string: varint31 length + kids
	kSeq                // concatenation of kids
	kHex                // lower-case hex text of the kids
	kJSON               // JSON string: '"' kids '"'
	kU64                // wire codec uint64: 8 bytes big endian
	kWCount             // wire codec varint that counts the following items
	kWBytes             // wire codec byte slice: wire varint length + kids
)

type node struct {
	kind  kind
	label string
	val   uint64
	raw   []byte
	kids  []*node

	hasPre   bool // pre replaces the scalar encoding (scalar kinds) or the length prefix (kExt, kWBytes)
	pre      []byte
	hasWhole bool // whole replaces the entire node
	whole    []byte
}

func uvarBytes(v uint64) []byte {
	var b [binary.MaxVarintLen64]byte
	return append([]byte(nil), b[:binary.PutUvarint(b[:], v)]...)
}

// wire codec (go-wire/amino 0.6) varint: one size byte, then size big-endian bytes.
func wvarBytes(v uint64) []byte {
	if v == 0 {
		return []byte{0}
	}
	var b [8]byte
	binary.BigEndian.PutUint64(b[:], v)
	i := 0
	for b[i] == 0 {
		i++
	}
	return append([]byte{byte(8 - i)}, b[i:]...)
}

func (n *node) emit(b *bytes.Buffer) {
	if n.hasWhole {
		b.Write(n.whole)
		return
	}
	switch n.kind {
	case kRaw:
		b.Write(n.raw)
	case kByte:
		if n.hasPre {
			b.Write(n.pre)
		} else {
			b.WriteByte(byte(n.val))
		}
	case kUvar, kCount:
		if n.hasPre {
			b.Write(n.pre)
		} else {
			b.Write(uvarBytes(n.val))
		}
	case kU64:
		if n.hasPre {
			b.Write(n.pre)
		} else {
			var x [8]byte
			binary.BigEndian.PutUint64(x[:], n.val)
			b.Write(x[:])
		}
	case kWCount:
		if n.hasPre {
			b.Write(n.pre)
		} else {
			b.Write(wvarBytes(n.val))
		}
	case kSeq:
		for _, k := range n.kids {
			k.emit(b)
		}
	case kExt, kWBytes:
		var body bytes.Buffer
		for _, k := range n.kids {
			k.emit(&body)
		}
		switch {
		case n.hasPre:
			b.Write(n.pre)
		case n.kind == kExt:
			b.Write(uvarBytes(uint64(body.Len())))
		default:
			b.Write(wvarBytes(uint64(body.Len())))
		}
		b.Write(body.Bytes())
	case kHex:
		var body bytes.Buffer
		for _, k := range n.kids {
			k.emit(&body)
		}
		dst := make([]byte, hex.EncodedLen(body.Len()))
		hex.Encode(dst, body.Bytes())
		b.Write(dst)
	case kJSON:
		b.WriteByte('"')
		for _, k := range n.kids {
			k.emit(b)
		}
		b.WriteByte('"')
	}
}

func (n *node) bytes() []byte {
	var b bytes.Buffer
	n.emit(&b)
	return b.Bytes()
}

func (n *node) clone() *node {
	c := *n
	c.raw = append([]byte(nil), n.raw...)
	c.pre = append([]byte(nil), n.pre...)
	c.whole = append([]byte(nil), n.whole...)
	c.kids = make([]*node, len(n.kids))
	for i, k := range n.kids {
		c.kids[i] = k.clone()
	}
	return &c
}

// ref addresses a node through its parent (nil parent = root).
type ref struct {
	parent *node
	idx    int
	n      *node
}

func (n *node) walk(parent *node, idx int, out *[]ref) {
	*out = append(*out, ref{parent, idx, n})
	for i, k := range n.kids {
		k.walk(n, i, out)
	}
}

func (n *node) refs() []ref {
	var out []ref
	n.walk(nil, 0, &out)
	return out
}

// find returns the first node with the label (nil if absent).
func (n *node) find(label string) *node {
	if n.label == label {
		return n
	}
	for _, k := range n.kids {
		if f := k.find(label); f != nil {
			return f
		}
	}
	return nil
}

func rawN(label string, b []byte) *node   { return &node{kind: kRaw, label: label, raw: b} }
func byteN(label string, v byte) *node    { return &node{kind: kByte, label: label, val: uint64(v)} }
func uv(label string, v uint64) *node     { return &node{kind: kUvar, label: label, val: v} }
func cnt(label string, v int) *node       { return &node{kind: kCount, label: label, val: uint64(v)} }
func u64N(label string, v uint64) *node   { return &node{kind: kU64, label: label, val: v} }
func wcnt(label string, v int) *node      { return &node{kind: kWCount, label: label, val: uint64(v)} }
func seq(label string, k ...*node) *node  { return &node{kind: kSeq, label: label, kids: k} }
func ext(label string, k ...*node) *node  { return &node{kind: kExt, label: label, kids: k} }
func hexN(label string, k ...*node) *node { return &node{kind: kHex, label: label, kids: k} }
func jsonN(label string, k ...*node) *node {
	return &node{kind: kJSON, label: label, kids: k}
}
func wbytes(label string, k ...*node) *node { return &node{kind: kWBytes, label: label, kids: k} }

func varstr(label string, data []byte) *node {
	if len(data) == 0 {
		return ext(label)
	}
	return ext(label, rawN(label+".data", data))
}

func strlist(label string, items [][]byte) *node {
	s := seq(label, cnt(label+".count", len(items)))
	for _, it := range items {
		s.kids = append(s.kids, varstr(label+".item", it))
	}
	return s
}

// ---------------------------------------------------------------------------
// valid object builders

type builder struct {
	r     *ev.Rand
	small bool // keep encodings short (truncation at every offset)
}

func (g *builder) blob(max int) []byte {
	if g.small && max > 12 {
		max = 12
	}
	switch g.r.Intn(6) {
	case 0:
		return nil
	case 1:
		return g.r.Bytes(1)
	default:
		return g.r.Bytes(g.r.Intn(max + 1))
	}
}

func (g *builder) program() []byte {
	p := g.blob(40)
	if g.r.Chance(1, 6) {
		p = append([]byte{0x6a}, p...) // OP_FAIL prefix: unspendable -> retirement entry
	}
	return p
}

func (g *builder) list(maxItems, maxLen int) [][]byte {
	n := g.r.Intn(maxItems + 1)
	if g.r.Chance(1, 3) {
		n = 0
	}
	var l [][]byte
	for i := 0; i < n; i++ {
		l = append(l, g.blob(maxLen))
	}
	return l
}

func (g *builder) amount() uint64 {
	switch g.r.Intn(4) {
	case 0:
		return uint64(g.r.Intn(128))
	case 1:
		return 1<<63 - 1
	default:
		return g.r.Uint64() >> uint(1+g.r.Intn(63))
	}
}

func (g *builder) suffix() *node {
	if g.r.Chance(1, 10) {
		return rawN("suffix", g.r.Bytes(1+g.r.Intn(4)))
	}
	return rawN("suffix", nil)
}

func (g *builder) spendCommitment() *node {
	return ext("spend.commit",
		rawN("spend.sourceid", g.r.Bytes(32)),
		rawN("spend.assetid", g.r.Bytes(32)),
		uv("spend.amount", g.amount()),
		uv("spend.sourcepos", uint64(g.r.Intn(300))),
		uv("spend.vmversion", 1),
		varstr("spend.program", g.program()),
		strlist("spend.state", g.list(3, 20)),
		rawN("spend.suffix", nil),
	)
}

func (g *builder) input() *node {
	var commit, witness *node
	switch g.r.Pick([]int{2, 5, 2, 2}) {
	case 0: // issuance
		def, prog := g.blob(30), g.program()
		ii := &types.IssuanceInput{AssetDefinition: def, VMVersion: 1, IssuanceProgram: prog}
		id := ii.AssetID()
		commit = ext("in.commit", byteN("in.type", types.IssuanceInputType),
			varstr("iss.nonce", g.blob(16)), rawN("iss.assetid", id.Bytes()), uv("iss.amount", g.amount()), g.suffix())
		witness = ext("in.witness", varstr("iss.assetdef", def), uv("iss.vmversion", 1), varstr("iss.program", prog),
			strlist("in.args", g.list(3, 70)), g.suffix())
	case 1: // spend
		commit = ext("in.commit", byteN("in.type", types.SpendInputType), g.spendCommitment(), g.suffix())
		witness = ext("in.witness", strlist("in.args", g.list(3, 70)), g.suffix())
	case 2: // coinbase
		commit = ext("in.commit", byteN("in.type", types.CoinbaseInputType), varstr("cb.arbitrary", g.blob(20)), g.suffix())
		witness = ext("in.witness", g.suffix())
	default: // veto
		commit = ext("in.commit", byteN("in.type", types.VetoInputType), g.spendCommitment(), varstr("veto.vote", g.blob(64)), g.suffix())
		witness = ext("in.witness", strlist("in.args", g.list(3, 70)), g.suffix())
	}
	return seq("in", uv("in.assetversion", 1), commit, witness)
}

func (g *builder) output() *node {
	typ := byte(types.OriginalOutputType)
	body := ext("out.commit")
	if g.r.Chance(1, 3) {
		typ = types.VoteOutputType
		body.kids = append(body.kids, varstr("out.vote", g.blob(64)))
	}
	body.kids = append(body.kids,
		rawN("out.assetid", g.r.Bytes(32)),
		uv("out.amount", g.amount()),
		uv("out.vmversion", 1),
		varstr("out.program", g.program()),
		strlist("out.state", g.list(3, 20)),
		g.suffix())
	return seq("out", uv("out.assetversion", 1), byteN("out.type", typ), body, varstr("out.witness", nil))
}

func (g *builder) tx() *node {
	nin, nout := g.r.Intn(4), g.r.Intn(4)
	if g.small {
		nin, nout = g.r.Intn(3), g.r.Intn(3)
	}
	t := seq("tx", byteN("tx.serflags", 7), uv("tx.version", uint64(1+g.r.Intn(2))), uv("tx.timerange", uint64(g.r.Intn(1000))), cnt("tx.incount", nin))
	for i := 0; i < nin; i++ {
		t.kids = append(t.kids, g.input())
	}
	t.kids = append(t.kids, cnt("tx.outcount", nout))
	for i := 0; i < nout; i++ {
		t.kids = append(t.kids, g.output())
	}
	return t
}

func (g *builder) height() uint64 {
	switch g.r.Intn(4) {
	case 0:
		return uint64(g.r.Intn(128))
	case 1:
		return uint64(g.r.Intn(1 << 20))
	default:
		return g.r.Uint64() >> uint(1+g.r.Intn(63))
	}
}

// header body without the serialization flag
func (g *builder) headerFields() []*node {
	nsup := g.r.Intn(3)
	if g.r.Chance(1, 2) {
		nsup = 0
	}
	sup := ext("hdr.suplinks", cnt("suplinks.count", nsup))
	for i := 0; i < nsup; i++ {
		sl := seq("suplink", uv("suplink.height", g.height()), rawN("suplink.hash", g.r.Bytes(32)))
		for k := 0; k < 10; k++ { // consensus.MaxNumOfValidators
			var sig []byte
			if g.r.Chance(1, 3) {
				sig = g.r.Bytes(64)
			}
			sl.kids = append(sl.kids, varstr("suplink.sig", sig))
		}
		sup.kids = append(sup.kids, sl)
	}
	var wit []byte
	if g.r.Chance(3, 4) {
		wit = g.r.Bytes(64)
	}
	return []*node{
		uv("hdr.version", 1), uv("hdr.height", g.height()), rawN("hdr.prev", g.r.Bytes(32)),
		uv("hdr.timestamp", 1600000000000+uint64(g.r.Intn(1<<30))),
		ext("hdr.commitment", rawN("hdr.merkleroot", g.r.Bytes(32))),
		ext("hdr.witness", varstr("hdr.sig", wit)),
		sup,
	}
}

func (g *builder) header() *node {
	return seq("hdr", append([]*node{byteN("hdr.serflags", types.SerBlockHeader)}, g.headerFields()...)...)
}

// block with serialization flag 3 (full), 2 (transactions only) or 1 (header only)
func (g *builder) block(serflag byte) *node {
	b := seq("block", byteN("hdr.serflags", serflag))
	if serflag != types.SerBlockTransactions {
		b.kids = append(b.kids, g.headerFields()...)
	}
	if serflag != types.SerBlockHeader {
		ntx := g.r.Intn(4)
		if g.small {
			ntx = g.r.Intn(2)
		}
		b.kids = append(b.kids, cnt("block.txcount", ntx))
		for i := 0; i < ntx; i++ {
			b.kids = append(b.kids, g.tx())
		}
	}
	return b
}

func (g *builder) hashes(label string, max int) *node {
	n := g.r.Intn(max + 1)
	s := seq(label, wcnt(label+".count", n))
	for i := 0; i < n; i++ {
		s.kids = append(s.kids, rawN(label+".item", g.r.Bytes(32)))
	}
	return s
}

// shapes of text-decoder inputs
const (
	shTx = iota
	shBlockFull
	shBlockTxs
	shBlockHdr
	shHeader
	nTextShapes
)

var textShapeName = [...]string{"tx", "block-full", "block-txs", "block-hdr", "header"}

func (g *builder) binary(shape int) *node {
	switch shape {
	case shTx:
		return g.tx()
	case shBlockFull:
		return g.block(types.SerBlockFull)
	case shBlockTxs:
		return g.block(types.SerBlockTransactions)
	case shBlockHdr:
		return g.block(types.SerBlockHeader)
	default:
		return g.header()
	}
}

func (g *builder) text(shape int) *node { return hexN("text", g.binary(shape)) }

// chain (netsync/messages) message type bytes
var chainMsgTypes = []byte{0x10, 0x11, 0x12, 0x13, 0x14, 0x15, 0x21, 0x30, 0x31, 0x40, 0x50, 0x51, 0x52, 0x60, 0x61}
var chainMsgName = map[byte]string{0x10: "GetBlockMessage", 0x11: "BlockMessage", 0x12: "GetHeadersMessage", 0x13: "HeadersMessage",
	0x14: "GetBlocksMessage", 0x15: "BlocksMessage", 0x21: "StatusMessage", 0x30: "TransactionMessage", 0x31: "TransactionsMessage",
	0x40: "MineBlockMessage", 0x50: "FilterLoadMessage", 0x51: "FilterAddMessage", 0x52: "FilterClearMessage",
	0x60: "GetMerkleBlockMessage", 0x61: "MerkleBlockMessage"}

func (g *builder) chainMsg(typ byte) *node {
	m := seq("msg", byteN("msg.type", typ))
	add := func(k ...*node) { m.kids = append(m.kids, k...) }
	switch typ {
	case 0x10, 0x60:
		h := uint64(0)
		if g.r.Bool() {
			h = g.height()
		}
		add(u64N("msg.height", h), rawN("msg.rawhash", g.r.Bytes(32)))
	case 0x11, 0x40:
		add(wbytes("msg.rawblock", hexN("text", g.block(types.SerBlockFull))))
	case 0x12:
		add(g.hashes("msg.locator", 4), rawN("msg.stophash", g.r.Bytes(32)), u64N("msg.skip", uint64(g.r.Intn(100))))
	case 0x13:
		n := g.r.Intn(3)
		add(wcnt("msg.rawheaders.count", n))
		for i := 0; i < n; i++ {
			add(wbytes("msg.rawheader", jsonN("json", hexN("text", g.header()))))
		}
	case 0x14:
		add(g.hashes("msg.locator", 4), rawN("msg.stophash", g.r.Bytes(32)))
	case 0x15:
		n := g.r.Intn(3)
		add(wcnt("msg.rawblocks.count", n))
		for i := 0; i < n; i++ {
			add(wbytes("msg.rawblockjson", jsonN("json", hexN("text", g.block(types.SerBlockFull)))))
		}
	case 0x21:
		add(u64N("msg.bestheight", g.height()), rawN("msg.besthash", g.r.Bytes(32)), u64N("msg.justifiedheight", g.height()), rawN("msg.justifiedhash", g.r.Bytes(32)))
	case 0x30:
		add(wbytes("msg.rawtx", hexN("text", g.tx())))
	case 0x31:
		n := g.r.Intn(4)
		add(wcnt("msg.rawtxs.count", n))
		for i := 0; i < n; i++ {
			add(wbytes("msg.rawtx", hexN("text", g.tx())))
		}
	case 0x50:
		n := g.r.Intn(4)
		add(wcnt("msg.addresses.count", n))
		for i := 0; i < n; i++ {
			add(wbytes("msg.address", rawN("msg.address.data", g.blob(40))))
		}
	case 0x51:
		add(wbytes("msg.address", rawN("msg.address.data", g.blob(40))))
	case 0x52:
	case 0x61:
		add(wbytes("msg.rawheader", hexN("text", g.header())), g.hashes("msg.txhashes", 4))
		n := g.r.Intn(3)
		add(wcnt("msg.rawtxdatas.count", n))
		for i := 0; i < n; i++ {
			add(wbytes("msg.rawtx", hexN("text", g.tx())))
		}
		add(wbytes("msg.flags", rawN("msg.flags.data", g.blob(8))))
	}
	return m
}

var consMsgTypes = []byte{0x10, 0x11}
var consMsgName = map[byte]string{0x10: "BlockVerificationMsg", 0x11: "BlockProposeMsg"}

func (g *builder) consMsg(typ byte) *node {
	m := seq("msg", byteN("msg.type", typ))
	switch typ {
	case 0x10:
		m.kids = append(m.kids, rawN("msg.sourcehash", g.r.Bytes(32)), rawN("msg.targethash", g.r.Bytes(32)),
			wbytes("msg.pubkey", rawN("msg.pubkey.data", g.r.Bytes(64))), wbytes("msg.signature", rawN("msg.signature.data", g.r.Bytes(64))))
	case 0x11:
		m.kids = append(m.kids, wbytes("msg.rawblock", hexN("text", g.block(types.SerBlockFull))))
	}
	return m
}
