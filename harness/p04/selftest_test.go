package p04

import (
	"testing"

	"github.com/bytom/bytom/protocol/bc/types"

	"verif/internal/ev"
	"verif/internal/txgen"
)

// flipNilEmpty returns a deep copy in which every empty byte string / list has
// its nil-ness inverted: an equal value under the monitor's notion of equality.
func flipNilEmpty(tx *types.TxData) *types.TxData {
	fb := func(b []byte) []byte {
		if len(b) > 0 {
			return b
		}
		if b == nil {
			return []byte{}
		}
		return nil
	}
	fl := func(l [][]byte) [][]byte {
		if len(l) == 0 {
			if l == nil {
				return [][]byte{}
			}
			return nil
		}
		for i := range l {
			l[i] = fb(l[i])
		}
		return l
	}
	c := txgen.CloneTxData(tx)
	for _, in := range c.Inputs {
		in.CommitmentSuffix, in.WitnessSuffix = fb(in.CommitmentSuffix), fb(in.WitnessSuffix)
		switch t := in.TypedInput.(type) {
		case *types.SpendInput:
			t.SpendCommitmentSuffix, t.Arguments, t.ControlProgram, t.StateData = fb(t.SpendCommitmentSuffix), fl(t.Arguments), fb(t.ControlProgram), fl(t.StateData)
		case *types.VetoInput:
			t.VetoCommitmentSuffix, t.Arguments, t.ControlProgram, t.StateData, t.Vote = fb(t.VetoCommitmentSuffix), fl(t.Arguments), fb(t.ControlProgram), fl(t.StateData), fb(t.Vote)
		case *types.IssuanceInput:
			t.Nonce, t.AssetDefinition, t.IssuanceProgram, t.Arguments = fb(t.Nonce), fb(t.AssetDefinition), fb(t.IssuanceProgram), fl(t.Arguments)
		case *types.CoinbaseInput:
			t.Arbitrary = fb(t.Arbitrary)
		}
	}
	for _, o := range c.Outputs {
		o.ControlProgram, o.StateData, o.CommitmentSuffix = fb(o.ControlProgram), fl(o.StateData), fb(o.CommitmentSuffix)
		if v, ok := o.TypedOutput.(*types.VoteOutput); ok {
			v.Vote = fb(v.Vote)
		}
	}
	return c
}

// TestOracleSensitivity: the comparison the round-trip oracle rests on notices
// every single-field mutation of a transaction / header (so a decoder that
// dropped, truncated, re-split or mis-typed any one field would be reported),
// accepts deep copies and nil/empty variants, and classifies a doubled field.
func TestOracleSensitivity(t *testing.T) {
	r := ev.Start(t, "C04-selftest")
	seen := map[string]int{}
	r.Cases("differ", 150, func(c *ev.Case) {
		x := txgen.TxData(c.Rand)
		if d := txgen.DiffTxData(x, txgen.CloneTxData(x)); d != nil {
			t.Errorf("deep copy differs: %s", d)
		}
		if d := txgen.DiffTxData(x, flipNilEmpty(x)); d != nil {
			t.Errorf("nil/empty variant differs: %s", d)
		}
		for _, m := range txgen.TxMutations(c.Rand, x) {
			if m.Field == "tx.serializedsize" {
				continue // compared with the byte length, not field to field
			}
			seen[m.Field+"/"+m.How]++
			if txgen.DiffTxData(x, m.Tx) == nil {
				t.Errorf("mutation %s not noticed by DiffTxData", m.Name)
			}
		}
		h := txgen.BlockHeader(c.Rand)
		if d := txgen.DiffHeader(h, txgen.CloneHeader(h)); d != nil {
			t.Errorf("header deep copy differs: %s", d)
		}
		for _, m := range txgen.HeaderMutations(c.Rand, h) {
			seen[m.Field+"/"+m.How]++
			if txgen.DiffHeader(h, m.Header) == nil {
				t.Errorf("mutation %s not noticed by DiffHeader", m.Name)
			}
		}
		b := txgen.Block(c.Rand)
		if d := txgen.DiffBlock(b, txgen.CloneBlock(b)); d != nil {
			t.Errorf("block deep copy differs: %s", d)
		}
		for _, m := range txgen.BlockMutations(c.Rand, b) {
			seen[m.Field+"/"+m.How]++
			if txgen.DiffBlock(b, m.Block) == nil {
				t.Errorf("mutation %s not noticed by DiffBlock", m.Name)
			}
		}
	})
	if len(seen) < 150 {
		t.Errorf("only %d (field, how) mutation classes exercised", len(seen))
	}
	d := &txgen.Diff{Field: "f", Want: "aabb", Got: "aabbaabb"}
	if symptom(d) != "doubled" || symptom(&txgen.Diff{Want: "aabb", Got: "aabbaa"}) != "differs" || symptom(&txgen.Diff{Want: "", Got: ""}) != "differs" {
		t.Errorf("symptom classification wrong")
	}
	t.Logf("%d (field, how) mutation classes, all noticed", len(seen))
}
