// C04 — encoding round-trips every well-formed ledger value.
//
// Workload: seeded well-formed transactions, block headers and blocks from
// verif/internal/txgen (0-8 inputs / outputs of every type, 0-300 byte strings
// everywhere including every extensible-string suffix, nil and empty slices,
// 0-12 sparse supLinks, 0-6 transactions per block).
//
// Oracle, for every value x and every encoding form the node uses (binary
// WriteTo, hex MarshalText, JSON, the three block text forms of the store, the
// P2P message wrappers of netsync/messages and netsync/consensusmgr through the
// go-wire envelope the reactors use):
//
//	decode(encode(x)) == x   (field by field, nil ≡ empty, SerializedSize aside)
//	ID / hash of the decoded value == ID / hash of x
//	recorded SerializedSize == number of bytes of the transaction's encoding
//	encode(decode(encode(x))) == encode(x)
//
// A violation key names the field that does not survive and how
// (roundtrip:<Type.Field>-<symptom>), not the input; the form is added to the
// key only when the base binary form of the same value is exact, so that one
// codec defect yields one key whatever wrapper exposes it.
package p04

import (
	"bytes"
	"encoding/hex"
	"encoding/json"
	"fmt"
	"io"
	"regexp"
	"runtime/debug"
	"sort"
	"strings"
	"testing"

	"github.com/sirupsen/logrus"
	wire "github.com/tendermint/go-wire"

	"github.com/bytom/bytom/netsync/consensusmgr"
	msgs "github.com/bytom/bytom/netsync/messages"
	"github.com/bytom/bytom/protocol/bc"
	"github.com/bytom/bytom/protocol/bc/types"

	"verif/internal/ev"
	"verif/internal/txgen"
)

func TestMain(m *testing.M) {
	logrus.SetLevel(logrus.PanicLevel)
	logrus.SetOutput(io.Discard)
	// the workload allocates many short-lived small objects while the live heap
	// is a few MB: the default GC pacing would collect every few milliseconds
	debug.SetGCPercent(1000)
	m.Run()
}

var digits = regexp.MustCompile(`[0-9]+`)

func errClass(err error) string {
	s := digits.ReplaceAllString(err.Error(), "#")
	if len(s) > 90 {
		s = s[:90]
	}
	return s
}

func hx(b []byte) string {
	if len(b) > 700 {
		return hex.EncodeToString(b[:700]) + fmt.Sprintf("...(%d bytes)", len(b))
	}
	return hex.EncodeToString(b)
}

// canonField maps the two places where the suffix of the SpendCommitment
// extensible string is stored (spend and veto inputs; one reader / writer,
// types.SpendCommitment.readFrom / writeExtensibleString) to one name, so that a
// defect of that codec has one key.
func canonField(f string) string {
	switch f {
	case "TxInput.Spend.SpendCommitmentSuffix", "TxInput.Veto.VetoCommitmentSuffix":
		return "SpendCommitment.suffix"
	}
	return f
}

// symptom classifies how a field differs.
func symptom(d *txgen.Diff) string {
	if d.Doubled() {
		return "doubled"
	}
	return "differs"
}

// checker carries the per-value state: the base diff (binary form) against
// which the derived forms are compared.
type checker struct {
	c    *ev.Case
	kind string      // "tx", "header", "block"
	base *txgen.Diff // diff of the base binary form (nil = exact)
	enc  []byte      // base encoding, for witnesses
}

// report records the diff d seen in form.  The base form always reports; a
// derived form reports only what the base form of the same value did not show.
func (k *checker) report(form string, d *txgen.Diff) {
	if d == nil {
		k.c.Count("form_exact:"+form, 1)
		return
	}
	k.c.Count("form_diff:"+form, 1)
	isBase := form == "binary"
	if !isBase && k.base != nil && canonField(k.base.Field) == canonField(d.Field) && symptom(k.base) == symptom(d) {
		k.c.Count("diff_same_as_base_form", 1)
		return
	}
	key := fmt.Sprintf("roundtrip:%s-%s", canonField(d.Field), symptom(d))
	if !isBase && k.base == nil {
		key = fmt.Sprintf("roundtrip[%s]:%s-%s", form, canonField(d.Field), symptom(d))
	}
	k.c.Violation(key, "decode(encode(x)) differs from x in field "+d.Field+" ("+symptom(d)+")",
		map[string]interface{}{"value": k.kind, "form": form, "path": d.Path, "want": d.Want, "got": d.Got, "encoding": hx(k.enc)})
}

func (k *checker) fail(key, what string, w map[string]interface{}) {
	w["value"] = k.kind
	if _, ok := w["encoding"]; !ok {
		w["encoding"] = hx(k.enc)
	}
	k.c.Violation(key, what, w)
}

// decodeErr: a form failed to decode what the node itself encoded.
func (k *checker) decodeErr(form string, err error) {
	k.c.Count("form_decode_error:"+form, 1)
	k.fail(fmt.Sprintf("decode[%s]:%s", form, errClass(err)), "the node cannot decode its own encoding of a well-formed value", map[string]interface{}{"form": form, "error": err.Error()})
}

func (k *checker) encodeErr(form string, err error) {
	k.c.Count("form_encode_error:"+form, 1)
	k.fail(fmt.Sprintf("encode[%s]:%s", form, errClass(err)), "a well-formed value cannot be encoded", map[string]interface{}{"form": form, "error": err.Error()})
}

// ---------------------------------------------------------------- go-wire envelope

func wireChain(m msgs.BlockchainMessage) (out msgs.BlockchainMessage, err error) {
	bz := wire.BinaryBytes(struct{ msgs.BlockchainMessage }{m})
	n := 0
	res := wire.ReadBinary(struct{ msgs.BlockchainMessage }{}, bytes.NewReader(bz), msgs.MaxBlockchainResponseSize, &n, &err)
	if err != nil {
		return nil, err
	}
	if n != len(bz) {
		return nil, fmt.Errorf("wire: %d of %d bytes consumed", n, len(bz))
	}
	return res.(struct{ msgs.BlockchainMessage }).BlockchainMessage, nil
}

func wireConsensus(m consensusmgr.ConsensusMessage) (out consensusmgr.ConsensusMessage, err error) {
	bz := wire.BinaryBytes(struct{ consensusmgr.ConsensusMessage }{m})
	n := 0
	res := wire.ReadBinary(struct{ consensusmgr.ConsensusMessage }{}, bytes.NewReader(bz), msgs.MaxBlockchainResponseSize, &n, &err)
	if err != nil {
		return nil, err
	}
	if n != len(bz) {
		return nil, fmt.Errorf("wire: %d of %d bytes consumed", n, len(bz))
	}
	return res.(struct{ consensusmgr.ConsensusMessage }).ConsensusMessage, nil
}

// ---------------------------------------------------------------- transactions

func sameIDs(a, b *bc.Tx) string {
	if a.ID != b.ID {
		return "ID"
	}
	if len(a.InputIDs) != len(b.InputIDs) || len(a.ResultIds) != len(b.ResultIds) || len(a.SpentOutputIDs) != len(b.SpentOutputIDs) {
		return "entry-count"
	}
	for i := range a.InputIDs {
		if a.InputIDs[i] != b.InputIDs[i] {
			return "InputIDs"
		}
	}
	for i := range a.ResultIds {
		if *a.ResultIds[i] != *b.ResultIds[i] {
			return "ResultIds"
		}
	}
	for i := range a.SpentOutputIDs {
		if a.SpentOutputIDs[i] != b.SpentOutputIDs[i] {
			return "SpentOutputIDs"
		}
	}
	return ""
}

// checkTx runs every transaction form; it reports whether the base binary form was exact.
func checkTx(c *ev.Case, x *types.TxData) (exact bool) {
	k := &checker{c: c, kind: "tx"}
	var buf bytes.Buffer
	n, err := x.WriteTo(&buf)
	if err != nil {
		k.encodeErr("binary", err)
		return false
	}
	enc := append([]byte{}, buf.Bytes()...)
	k.enc = enc
	if int(n) != len(enc) {
		c.Count("observed:WriteTo-TxData-reports-wrong-count", 1) // io.WriterTo contract, not part of C04
	}
	orig := types.MapTx(x)

	// (a) binary form, decoded through the public decoder
	dec := &types.TxData{}
	if err := dec.UnmarshalText([]byte(hex.EncodeToString(enc))); err != nil {
		k.decodeErr("binary", err)
		return false
	}
	k.base = txgen.DiffTxData(x, dec)
	k.report("binary", k.base)
	if dec.SerializedSize != uint64(len(enc)) {
		k.fail("serializedsize:TxData", "recorded SerializedSize differs from the length of the encoding", map[string]interface{}{"recorded": dec.SerializedSize, "length": len(enc)})
	}
	if f := sameIDs(orig, types.MapTx(dec)); f != "" {
		k.fail("id:TxData-"+f, "decoded transaction has different entry IDs", map[string]interface{}{"differs": f, "want": orig.ID.String(), "got": hs(types.MapTx(dec).ID)})
	}
	var buf2 bytes.Buffer
	if _, err := dec.WriteTo(&buf2); err != nil {
		k.encodeErr("binary-reencode", err)
	} else if k.base == nil && !bytes.Equal(buf2.Bytes(), enc) {
		k.fail("reencode:TxData", "encode(decode(encode(x))) differs from encode(x) although the decoded value equals x", map[string]interface{}{"reencoded": hx(buf2.Bytes())})
	} else if k.base == nil {
		c.Count("reencode_identical", 1)
	}

	// (b) MarshalText / Tx.UnmarshalText (storage, RPC)
	tx := types.NewTx(*x)
	text, err := tx.MarshalText()
	if err != nil {
		k.encodeErr("tx-text", err)
	} else {
		if string(text) != hex.EncodeToString(enc) {
			c.Count("observed:text-form-of-TxData-is-not-hex-of-binary", 1) // both forms are checked on their own
		}
		tx2 := &types.Tx{}
		if err := tx2.UnmarshalText(text); err != nil {
			k.decodeErr("tx-text", err)
		} else {
			k.report("tx-text", txgen.DiffTxData(x, &tx2.TxData))
			if tx2.Tx == nil || tx2.ID != orig.ID {
				k.fail("id[tx-text]:Tx", "Tx.UnmarshalText yields a different ID", map[string]interface{}{"want": orig.ID.String()})
			}
			if tx2.SerializedSize != uint64(len(enc)) || (tx2.Tx != nil && tx2.Tx.SerializedSize != uint64(len(enc))) {
				k.fail("serializedsize[tx-text]:Tx", "recorded SerializedSize differs from the length of the encoding", map[string]interface{}{"recorded": tx2.SerializedSize, "length": len(enc)})
			}
		}
	}

	// (c) JSON
	js, err := json.Marshal(tx)
	if err != nil {
		k.encodeErr("tx-json", err)
	} else {
		tx3 := &types.Tx{}
		if err := json.Unmarshal(js, tx3); err != nil {
			k.decodeErr("tx-json", err)
		} else {
			k.report("tx-json", txgen.DiffTxData(x, &tx3.TxData))
			if tx3.Tx == nil || tx3.ID != orig.ID {
				k.fail("id[tx-json]:Tx", "JSON round trip yields a different ID", map[string]interface{}{"want": orig.ID.String()})
			}
		}
	}

	// (d) P2P: TransactionMessage through the wire envelope
	if m, err := msgs.NewTransactionMessage(tx); err != nil {
		k.encodeErr("p2p-transaction", err)
	} else if back, err := wireChain(m); err != nil {
		k.decodeErr("p2p-transaction-wire", err)
	} else if tm, ok := back.(*msgs.TransactionMessage); !ok {
		k.fail("wire:TransactionMessage-type", "wire envelope decodes to another message type", map[string]interface{}{"got": fmt.Sprintf("%T", back)})
	} else if tx4, err := tm.GetTransaction(); err != nil {
		k.decodeErr("p2p-transaction", err)
	} else {
		k.report("p2p-transaction", txgen.DiffTxData(x, &tx4.TxData))
		if tx4.ID != orig.ID {
			k.fail("id[p2p-transaction]:Tx", "TransactionMessage round trip yields a different ID", map[string]interface{}{"want": orig.ID.String()})
		}
	}
	return k.base == nil
}

func inputBit(in *types.TxInput) int { return 1 << in.InputType() }

func classifyTx(x *types.TxData) string {
	inMask, outMask, sufMask, nilMask := 0, 0, 0, 0
	nz := func(b []byte, bit int) {
		if len(b) > 0 {
			sufMask |= bit
		}
	}
	ne := func(isNil bool, l int) {
		if l == 0 {
			if isNil {
				nilMask |= 1
			} else {
				nilMask |= 2
			}
		}
	}
	ne(x.Inputs == nil, len(x.Inputs))
	ne(x.Outputs == nil, len(x.Outputs))
	for _, in := range x.Inputs {
		inMask |= inputBit(in)
		nz(in.CommitmentSuffix, 1)
		nz(in.WitnessSuffix, 2)
		switch t := in.TypedInput.(type) {
		case *types.SpendInput:
			nz(t.SpendCommitmentSuffix, 4)
			ne(t.Arguments == nil, len(t.Arguments))
			ne(t.StateData == nil, len(t.StateData))
			ne(t.ControlProgram == nil, len(t.ControlProgram))
		case *types.VetoInput:
			nz(t.VetoCommitmentSuffix, 4)
			ne(t.Arguments == nil, len(t.Arguments))
			ne(t.Vote == nil, len(t.Vote))
		case *types.IssuanceInput:
			ne(t.Nonce == nil, len(t.Nonce))
			ne(t.AssetDefinition == nil, len(t.AssetDefinition))
			ne(t.Arguments == nil, len(t.Arguments))
		case *types.CoinbaseInput:
			ne(t.Arbitrary == nil, len(t.Arbitrary))
		}
	}
	for _, o := range x.Outputs {
		switch {
		case len(o.ControlProgram) > 0 && o.ControlProgram[0] == 0x6a:
			outMask |= 4
		case o.OutputType() == types.VoteOutputType:
			outMask |= 2
		default:
			outMask |= 1
		}
		if o.OutputType() == types.VoteOutputType {
			outMask |= 8
		}
		nz(o.CommitmentSuffix, 8)
		ne(o.StateData == nil, len(o.StateData))
		ne(o.ControlProgram == nil, len(o.ControlProgram))
	}
	bucket := func(n int) string {
		switch {
		case n == 0:
			return "0"
		case n == 1:
			return "1"
		case n <= 4:
			return "2-4"
		}
		return "5-8"
	}
	return fmt.Sprintf("tx in=%s/%04b out=%s/%04b suffix=%04b nilempty=%02b", bucket(len(x.Inputs)), inMask, bucket(len(x.Outputs)), outMask, sufMask, nilMask)
}

func countTxShape(c *ev.Case, x *types.TxData) {
	for _, in := range x.Inputs {
		c.Count("inputs:"+[]string{"issuance", "spend", "coinbase", "veto"}[in.InputType()], 1)
		if len(in.CommitmentSuffix) > 0 {
			c.Count("suffix:input.commitment", 1)
		}
		if len(in.WitnessSuffix) > 0 {
			c.Count("suffix:input.witness", 1)
		}
		switch t := in.TypedInput.(type) {
		case *types.SpendInput:
			if len(t.SpendCommitmentSuffix) > 0 {
				c.Count("suffix:spend.commitment", 1)
			}
		case *types.VetoInput:
			if len(t.VetoCommitmentSuffix) > 0 {
				c.Count("suffix:veto.commitment", 1)
			}
		}
	}
	for _, o := range x.Outputs {
		switch {
		case len(o.ControlProgram) > 0 && o.ControlProgram[0] == 0x6a:
			c.Count("outputs:retirement", 1)
		case o.OutputType() == types.VoteOutputType:
			c.Count("outputs:vote", 1)
		default:
			c.Count("outputs:original", 1)
		}
		if len(o.CommitmentSuffix) > 0 {
			c.Count("suffix:output.commitment", 1)
		}
	}
	if len(x.Inputs) == 0 {
		c.Count("tx_without_inputs", 1)
	}
	if len(x.Outputs) == 0 {
		c.Count("tx_without_outputs", 1)
	}
}

// ---------------------------------------------------------------- headers

func checkHeader(c *ev.Case, x *types.BlockHeader) bool {
	k := &checker{c: c, kind: "header"}
	var buf bytes.Buffer
	n, err := x.WriteTo(&buf)
	if err != nil {
		k.encodeErr("binary", err)
		return false
	}
	enc := append([]byte{}, buf.Bytes()...)
	k.enc = enc
	if int(n) != len(enc) {
		c.Count("observed:WriteTo-BlockHeader-reports-wrong-count", 1) // io.WriterTo contract, not part of C04
	}
	want := x.Hash()

	text, err := x.MarshalText()
	if err != nil {
		k.encodeErr("header-text", err)
		return false
	}
	dec := &types.BlockHeader{}
	if err := dec.UnmarshalText(text); err != nil {
		k.decodeErr("binary", err)
		return false
	}
	k.base = txgen.DiffHeader(x, dec)
	k.report("binary", k.base)
	if string(text) != hex.EncodeToString(enc) {
		// never seen: MarshalText is the hex of WriteTo; if it were not, WriteTo's bytes are checked on their own
		c.Count("observed:text-form-of-BlockHeader-is-not-hex-of-binary", 1)
		d2 := &types.BlockHeader{}
		if err := d2.UnmarshalText([]byte(hex.EncodeToString(enc))); err != nil {
			k.decodeErr("writeto", err)
		} else {
			k.report("writeto", txgen.DiffHeader(x, d2))
		}
	}
	if dec.Hash() != want {
		k.fail("id:BlockHeader", "decoded header has a different hash", map[string]interface{}{"want": want.String(), "got": hs(dec.Hash())})
	}
	if re, err := dec.MarshalText(); err != nil {
		k.encodeErr("binary-reencode", err)
	} else if k.base == nil && !bytes.Equal(re, text) {
		k.fail("reencode:BlockHeader", "encode(decode(encode(x))) differs from encode(x)", map[string]interface{}{"reencoded": hx(re)})
	} else if k.base == nil {
		c.Count("reencode_identical", 1)
	}

	js, err := json.Marshal(x)
	if err != nil {
		k.encodeErr("header-json", err)
	} else {
		d2 := &types.BlockHeader{}
		if err := json.Unmarshal(js, d2); err != nil {
			k.decodeErr("header-json", err)
		} else {
			k.report("header-json", txgen.DiffHeader(x, d2))
			if d2.Hash() != want {
				k.fail("id[header-json]:BlockHeader", "JSON round trip yields a different hash", map[string]interface{}{"want": want.String()})
			}
		}
	}

	// a header read through the block decoder (the store reads headers both ways)
	b := &types.Block{}
	if err := b.UnmarshalText(text); err != nil {
		k.decodeErr("header-as-block", err)
	} else {
		k.report("header-as-block", txgen.DiffHeader(x, &b.BlockHeader))
		if len(b.Transactions) != 0 {
			k.fail("roundtrip[header-as-block]:transactions-appear", "a header-only encoding decodes to a block with transactions", map[string]interface{}{"n": len(b.Transactions)})
		}
	}
	return k.base == nil
}

func classifyHeader(x *types.BlockHeader) string {
	sig := 0 // bit0: some nil slot, bit1: some empty non-nil slot, bit2: some 64-byte, bit3: other length
	for _, s := range x.SupLinks {
		for _, g := range s.Signatures {
			switch {
			case g == nil:
				sig |= 1
			case len(g) == 0:
				sig |= 2
			case len(g) == 64:
				sig |= 4
			default:
				sig |= 8
			}
		}
	}
	w := "nil"
	switch {
	case x.BlockWitness != nil && len(x.BlockWitness) == 0:
		w = "empty"
	case len(x.BlockWitness) == 64:
		w = "64"
	case len(x.BlockWitness) > 0:
		w = "other"
	}
	ls := "nil"
	if x.SupLinks != nil {
		ls = fmt.Sprint(len(x.SupLinks))
	}
	return fmt.Sprintf("header suplinks=%s sigs=%04b witness=%s", ls, sig, w)
}

// ---------------------------------------------------------------- blocks

func txIDs(txs []*types.Tx) []bc.Hash {
	out := make([]bc.Hash, len(txs))
	for i, t := range txs {
		if t != nil && t.Tx != nil {
			out[i] = t.ID
		}
	}
	return out
}

func (k *checker) blockBack(form string, x, got *types.Block, want bc.Hash, wantIDs []bc.Hash) {
	k.report(form, txgen.DiffBlock(x, got))
	if got.Hash() != want {
		k.fail(fmt.Sprintf("id[%s]:Block", form), "decoded block has a different hash", map[string]interface{}{"want": want.String(), "got": hs(got.Hash())})
	}
	ids := txIDs(got.Transactions)
	if len(ids) == len(wantIDs) {
		for i := range ids {
			if ids[i] != wantIDs[i] {
				k.fail(fmt.Sprintf("id[%s]:Block.Transactions", form), "a transaction of the decoded block has a different ID (or is not mapped)", map[string]interface{}{"index": i, "want": wantIDs[i].String(), "got": ids[i].String()})
				break
			}
		}
	}
}

func checkBlock(c *ev.Case, x *types.Block) bool {
	k := &checker{c: c, kind: "block"}
	var buf bytes.Buffer
	n, err := x.WriteTo(&buf)
	if err != nil {
		k.encodeErr("binary", err)
		return false
	}
	enc := append([]byte{}, buf.Bytes()...)
	k.enc = enc
	if int(n) != len(enc) {
		c.Count("observed:WriteTo-Block-reports-wrong-count", 1) // io.WriterTo contract, not part of C04
	}
	want := x.Hash()
	wantIDs := txIDs(x.Transactions)

	// full text form = base
	text, err := x.MarshalText()
	if err != nil {
		k.encodeErr("block-text", err)
		return false
	}
	dec := &types.Block{}
	if err := dec.UnmarshalText(text); err != nil {
		k.decodeErr("binary", err)
		return false
	}
	k.base = txgen.DiffBlock(x, dec)
	k.report("binary", k.base)
	if string(text) != hex.EncodeToString(enc) {
		// never seen: MarshalText is the hex of WriteTo; if it were not, WriteTo's bytes are checked on their own
		c.Count("observed:text-form-of-Block-is-not-hex-of-binary", 1)
		d2 := &types.Block{}
		if err := d2.UnmarshalText([]byte(hex.EncodeToString(enc))); err != nil {
			k.decodeErr("writeto", err)
		} else {
			k.report("writeto", txgen.DiffBlock(x, d2))
		}
	}
	if dec.Hash() != want {
		k.fail("id:Block", "decoded block has a different hash", map[string]interface{}{"want": want.String(), "got": hs(dec.Hash())})
	}
	if got := txIDs(dec.Transactions); len(got) == len(wantIDs) {
		for i := range got {
			if got[i] != wantIDs[i] {
				k.fail("id:Block.Transactions", "a transaction of the decoded block has a different ID", map[string]interface{}{"index": i})
				break
			}
		}
	}
	// recorded size of every decoded transaction = length of its own encoding inside the block
	for i, t := range dec.Transactions {
		var tb bytes.Buffer
		if _, err := x.Transactions[i].WriteTo(&tb); err == nil {
			if t.Tx == nil {
				continue // reported above as an unmapped transaction (different ID)
			}
			if t.SerializedSize != uint64(tb.Len()) || t.Tx.SerializedSize != uint64(tb.Len()) {
				k.fail("serializedsize:Block.Transactions", "recorded SerializedSize of a block transaction differs from the length of its encoding", map[string]interface{}{"index": i, "recorded": t.SerializedSize, "length": tb.Len()})
			}
		}
	}
	if re, err := dec.MarshalText(); err != nil {
		k.encodeErr("binary-reencode", err)
	} else if k.base == nil && !bytes.Equal(re, text) {
		k.fail("reencode:Block", "encode(decode(encode(x))) differs from encode(x)", map[string]interface{}{"reencoded": hx(re)})
	} else if k.base == nil {
		c.Count("reencode_identical", 1)
	}

	// store forms: header text + transactions text, reassembled as database.Store does
	ht, err1 := x.MarshalTextForBlockHeader()
	tt, err2 := x.MarshalTextForTransactions()
	if err1 != nil || err2 != nil {
		k.encodeErr("store-forms", fmt.Errorf("%v / %v", err1, err2))
	} else {
		hdr := &types.BlockHeader{}
		body := &types.Block{}
		if err := hdr.UnmarshalText(ht); err != nil {
			k.decodeErr("store-header", err)
		} else if err := body.UnmarshalText(tt); err != nil {
			k.decodeErr("store-transactions", err)
		} else {
			if (body.BlockHeader.Version | body.BlockHeader.Height | body.BlockHeader.Timestamp) != 0 {
				k.fail("roundtrip[store-transactions]:header-appears", "the transactions-only form decodes to a non-zero header", map[string]interface{}{})
			}
			k.blockBack("store", x, &types.Block{BlockHeader: *hdr, Transactions: body.Transactions}, want, wantIDs)
		}
		if len(tt) >= 2 && len(text) >= len(ht) && bytes.Equal(ht[2:], text[2:len(ht)]) && bytes.Equal(tt[2:], text[len(ht):]) {
			c.Count("observed:store-forms-are-the-split-of-the-full-form", 1)
		}
	}

	// JSON
	if js, err := json.Marshal(x); err != nil {
		k.encodeErr("block-json", err)
	} else {
		d := &types.Block{}
		if err := json.Unmarshal(js, d); err != nil {
			k.decodeErr("block-json", err)
		} else {
			k.blockBack("block-json", x, d, want, wantIDs)
		}
	}

	// P2P wrappers, each through the go-wire envelope used by the reactors
	if m, err := msgs.NewBlockMessage(x); err != nil {
		k.encodeErr("p2p-block", err)
	} else if back, err := wireChain(m); err != nil {
		k.decodeErr("p2p-block-wire", err)
	} else if bm, ok := back.(*msgs.BlockMessage); !ok {
		k.fail("wire:BlockMessage-type", "wire envelope decodes to another message type", map[string]interface{}{"got": fmt.Sprintf("%T", back)})
	} else if got, err := bm.GetBlock(); err != nil {
		k.decodeErr("p2p-block", err)
	} else {
		k.blockBack("p2p-block", x, got, want, wantIDs)
	}

	if m, err := msgs.NewMinedBlockMessage(x); err != nil {
		k.encodeErr("p2p-mineblock", err)
	} else if back, err := wireChain(m); err != nil {
		k.decodeErr("p2p-mineblock-wire", err)
	} else if bm, ok := back.(*msgs.MineBlockMessage); !ok {
		k.fail("wire:MineBlockMessage-type", "wire envelope decodes to another message type", map[string]interface{}{"got": fmt.Sprintf("%T", back)})
	} else if got, err := bm.GetMineBlock(); err != nil {
		k.decodeErr("p2p-mineblock", err)
	} else {
		k.blockBack("p2p-mineblock", x, got, want, wantIDs)
	}

	if m, err := consensusmgr.NewBlockProposeMsg(x); err != nil {
		k.encodeErr("p2p-propose", err)
	} else if back, err := wireConsensus(m); err != nil {
		k.decodeErr("p2p-propose-wire", err)
	} else if pm, ok := back.(*consensusmgr.BlockProposeMsg); !ok {
		k.fail("wire:BlockProposeMsg-type", "wire envelope decodes to another message type", map[string]interface{}{"got": fmt.Sprintf("%T", back)})
	} else if got, err := pm.GetProposeBlock(); err != nil {
		k.decodeErr("p2p-propose", err)
	} else {
		k.blockBack("p2p-propose", x, got, want, wantIDs)
	}

	// blocks message: this block twice plus its header-only sibling
	empty := &types.Block{BlockHeader: x.BlockHeader}
	if m, err := msgs.NewBlocksMessage([]*types.Block{x, empty, x}); err != nil {
		k.encodeErr("p2p-blocks", err)
	} else if back, err := wireChain(m); err != nil {
		k.decodeErr("p2p-blocks-wire", err)
	} else if bm, ok := back.(*msgs.BlocksMessage); !ok {
		k.fail("wire:BlocksMessage-type", "wire envelope decodes to another message type", map[string]interface{}{"got": fmt.Sprintf("%T", back)})
	} else if got, err := bm.GetBlocks(); err != nil {
		k.decodeErr("p2p-blocks", err)
	} else if len(got) != 3 {
		k.fail("roundtrip[p2p-blocks]:count", "BlocksMessage returns another number of blocks", map[string]interface{}{"got": len(got)})
	} else {
		k.blockBack("p2p-blocks", x, got[0], want, wantIDs)
		k.blockBack("p2p-blocks", empty, got[1], want, nil)
		k.blockBack("p2p-blocks", x, got[2], want, wantIDs)
	}

	// headers message
	hs := []*types.BlockHeader{&x.BlockHeader, &x.BlockHeader}
	if m, err := msgs.NewHeadersMessage(hs); err != nil {
		k.encodeErr("p2p-headers", err)
	} else if back, err := wireChain(m); err != nil {
		k.decodeErr("p2p-headers-wire", err)
	} else if hm, ok := back.(*msgs.HeadersMessage); !ok {
		k.fail("wire:HeadersMessage-type", "wire envelope decodes to another message type", map[string]interface{}{"got": fmt.Sprintf("%T", back)})
	} else if got, err := hm.GetHeaders(); err != nil {
		k.decodeErr("p2p-headers", err)
	} else if len(got) != 2 {
		k.fail("roundtrip[p2p-headers]:count", "HeadersMessage returns another number of headers", map[string]interface{}{"got": len(got)})
	} else {
		for _, g := range got {
			k.report("p2p-headers", txgen.DiffHeader(&x.BlockHeader, g))
			if g.Hash() != want {
				k.fail("id[p2p-headers]:BlockHeader", "HeadersMessage round trip yields a different hash", map[string]interface{}{"want": want.String()})
			}
		}
	}

	// transactions message
	if m, err := msgs.NewTransactionsMessage(x.Transactions); err != nil {
		k.encodeErr("p2p-transactions", err)
	} else if back, err := wireChain(m); err != nil {
		k.decodeErr("p2p-transactions-wire", err)
	} else if tm, ok := back.(*msgs.TransactionsMessage); !ok {
		k.fail("wire:TransactionsMessage-type", "wire envelope decodes to another message type", map[string]interface{}{"got": fmt.Sprintf("%T", back)})
	} else if got, err := tm.GetTransactions(); err != nil {
		k.decodeErr("p2p-transactions", err)
	} else {
		k.report("p2p-transactions", txgen.DiffTxs(x.Transactions, got))
		if ids := txIDs(got); len(ids) == len(wantIDs) {
			for i := range ids {
				if ids[i] != wantIDs[i] {
					k.fail("id[p2p-transactions]:Tx", "TransactionsMessage round trip yields a different ID", map[string]interface{}{"index": i})
					break
				}
			}
		}
	}

	// merkle block message, built as peers.Peer.SendMerkleBlock does, for a seeded subset of related transactions
	var related []*types.Tx
	for i, t := range x.Transactions {
		if (c.Index>>uint(i))&1 == 1 {
			related = append(related, t)
		}
	}
	mm := msgs.NewMerkleBlockMessage()
	hashes, flags := types.GetTxMerkleTreeProof(x.Transactions, related)
	if err := mm.SetRawBlockHeader(x.BlockHeader); err != nil {
		k.encodeErr("p2p-merkleblock", err)
	} else if err := mm.SetTxInfo(hashes, flags, related); err != nil {
		k.encodeErr("p2p-merkleblock", err)
	} else if back, err := wireChain(mm); err != nil {
		k.decodeErr("p2p-merkleblock-wire", err)
	} else if got, ok := back.(*msgs.MerkleBlockMessage); !ok {
		k.fail("wire:MerkleBlockMessage-type", "wire envelope decodes to another message type", map[string]interface{}{"got": fmt.Sprintf("%T", back)})
	} else {
		h := &types.BlockHeader{}
		if err := h.UnmarshalText(got.RawBlockHeader); err != nil {
			k.decodeErr("p2p-merkleblock-header", err)
		} else {
			k.report("p2p-merkleblock", txgen.DiffHeader(&x.BlockHeader, h))
		}
		var rt []*types.Tx
		bad := false
		for _, raw := range got.RawTxDatas {
			t := &types.Tx{}
			if err := t.UnmarshalText(raw); err != nil {
				k.decodeErr("p2p-merkleblock-tx", err)
				bad = true
				break
			}
			rt = append(rt, t)
		}
		if !bad {
			k.report("p2p-merkleblock", txgen.DiffTxs(related, rt))
		}
		okp := len(got.TxHashes) == len(hashes) && bytes.Equal(got.Flags, flags)
		for i := 0; okp && i < len(hashes); i++ {
			okp = got.TxHashes[i] == hashes[i].Byte32()
		}
		if !okp {
			k.fail("roundtrip[p2p-merkleblock]:proof", "merkle proof hashes / flags do not survive the wire envelope", map[string]interface{}{"hashes": len(hashes), "got": len(got.TxHashes), "flags": hx(flags), "gotflags": hx(got.Flags)})
		}
	}
	return k.base == nil
}

// ---------------------------------------------------------------- targeted suffix cases

// suffixCase builds the smallest transaction carrying suffix s in exactly one
// extensible-string suffix field.
var suffixFields = []string{"TxInput.Spend.SpendCommitmentSuffix", "TxInput.Veto.VetoCommitmentSuffix",
	"TxInput(spend).CommitmentSuffix", "TxInput(spend).WitnessSuffix",
	"TxInput(veto).CommitmentSuffix", "TxInput(veto).WitnessSuffix",
	"TxInput(issuance).CommitmentSuffix", "TxInput(issuance).WitnessSuffix",
	"TxInput(coinbase).CommitmentSuffix", "TxInput(coinbase).WitnessSuffix",
	"TxOutput(original).CommitmentSuffix", "TxOutput(vote).CommitmentSuffix"}

func suffixCase(field string, s []byte) *types.TxData {
	asset := bc.AssetID{V0: 1}
	tx := &types.TxData{Version: 1}
	spend := types.NewSpendInput(nil, bc.Hash{V0: 2}, asset, 5, 1, []byte{0x51}, nil)
	veto := types.NewVetoInput(nil, bc.Hash{V0: 3}, asset, 5, 1, []byte{0x51}, []byte("k"), nil)
	iss := types.NewIssuanceInput([]byte{1}, 5, []byte{0x51}, nil, nil)
	cb := types.NewCoinbaseInput([]byte("c"))
	orig := types.NewOriginalTxOutput(asset, 5, []byte{0x51}, nil)
	vote := types.NewVoteOutput(asset, 5, []byte{0x51}, []byte("k"), nil)
	switch field {
	case "TxInput.Spend.SpendCommitmentSuffix":
		spend.TypedInput.(*types.SpendInput).SpendCommitmentSuffix = s
		tx.Inputs = []*types.TxInput{spend}
	case "TxInput.Veto.VetoCommitmentSuffix":
		veto.TypedInput.(*types.VetoInput).VetoCommitmentSuffix = s
		tx.Inputs = []*types.TxInput{veto}
	case "TxInput(spend).CommitmentSuffix":
		spend.CommitmentSuffix = s
		tx.Inputs = []*types.TxInput{spend}
	case "TxInput(spend).WitnessSuffix":
		spend.WitnessSuffix = s
		tx.Inputs = []*types.TxInput{spend}
	case "TxInput(veto).CommitmentSuffix":
		veto.CommitmentSuffix = s
		tx.Inputs = []*types.TxInput{veto}
	case "TxInput(veto).WitnessSuffix":
		veto.WitnessSuffix = s
		tx.Inputs = []*types.TxInput{veto}
	case "TxInput(issuance).CommitmentSuffix":
		iss.CommitmentSuffix = s
		tx.Inputs = []*types.TxInput{iss}
	case "TxInput(issuance).WitnessSuffix":
		iss.WitnessSuffix = s
		tx.Inputs = []*types.TxInput{iss}
	case "TxInput(coinbase).CommitmentSuffix":
		cb.CommitmentSuffix = s
		tx.Inputs = []*types.TxInput{cb}
	case "TxInput(coinbase).WitnessSuffix":
		cb.WitnessSuffix = s
		tx.Inputs = []*types.TxInput{cb}
	case "TxOutput(original).CommitmentSuffix":
		orig.CommitmentSuffix = s
		tx.Outputs = []*types.TxOutput{orig}
	case "TxOutput(vote).CommitmentSuffix":
		vote.CommitmentSuffix = s
		tx.Outputs = []*types.TxOutput{vote}
	}
	if len(tx.Outputs) == 0 {
		tx.Outputs = []*types.TxOutput{orig}
	}
	return tx
}

var suffixValues = [][]byte{{0xaa, 0xbb}, {0x00}, {0x01}, {0x7f}, {0x80, 0x01}, bytes.Repeat([]byte{0xff}, 127), bytes.Repeat([]byte{0x02}, 128), bytes.Repeat([]byte{0xc3}, 300)}

// ---------------------------------------------------------------- the monitor

// refusedEncode: a node also meets values it must refuse to encode (an amount, a source position or a
// VM version above 2^63-1 cannot be written as a varint63).  The refusal itself is not the subject here;
// the well-formed values encoded AFTER it are: an encoder's failure path must leave no trace (pooled
// buffers, partial state) that changes later encodings.
func refusedEncode(c *ev.Case, x *types.TxData) {
	y := txgen.CloneTxData(x)
	big := uint64(1)<<63 + c.Rand.Uint64()>>1
	done := false
	if len(y.Outputs) > 0 && c.Rand.Bool() {
		y.Outputs[c.Rand.Intn(len(y.Outputs))].Amount = big
		done = true
	}
	if !done {
		for _, in := range y.Inputs {
			switch t := in.TypedInput.(type) {
			case *types.SpendInput:
				if c.Rand.Bool() {
					t.Amount = big
				} else {
					t.SourcePosition = big
				}
				done = true
			case *types.VetoInput:
				t.Amount = big
				done = true
			case *types.IssuanceInput:
				t.Amount = big
				done = true
			}
			if done {
				break
			}
		}
	}
	if !done {
		y.TimeRange = big
	}
	if _, err := y.MarshalText(); err != nil {
		c.Count("refused_encodings", 1)
	} else {
		c.Count("out_of_range_value_encoded", 1)
	}
}

// held: values a node decoded earlier and still holds (header cache, sync batches, pool) while it
// goes on encoding and decoding other values.  A decoded value is a value: it must not change when
// the codec works on something else (aliased scratch buffers).
var held struct {
	hdr, hdrSnap *types.BlockHeader
	tx, txSnap   *types.TxData
	blk, blkSnap *types.Block
}

func checkHeld(c *ev.Case) {
	if held.hdr != nil {
		c.Count("held_values_rechecked", 1)
		if d := txgen.DiffHeader(held.hdrSnap, held.hdr); d != nil {
			c.Violation("held:decoded-header-changed:"+symptom(d), "a header decoded earlier changed while other values were encoded / decoded", map[string]interface{}{"diff": d.String()})
		}
	}
	if held.tx != nil {
		c.Count("held_values_rechecked", 1)
		if d := txgen.DiffTxData(held.txSnap, held.tx); d != nil {
			c.Violation("held:decoded-tx-changed:"+symptom(d), "a transaction decoded earlier changed while other values were encoded / decoded", map[string]interface{}{"diff": d.String()})
		}
	}
	if held.blk != nil {
		c.Count("held_values_rechecked", 1)
		if d := txgen.DiffBlock(held.blkSnap, held.blk); d != nil {
			c.Violation("held:decoded-block-changed:"+symptom(d), "a block decoded earlier changed while other values were encoded / decoded", map[string]interface{}{"diff": d.String()})
		}
	}
}

func holdHeader(x *types.BlockHeader) {
	held.hdr, held.hdrSnap = nil, nil
	if b, err := x.MarshalText(); err == nil {
		h := &types.BlockHeader{}
		if h.UnmarshalText(b) == nil {
			held.hdr, held.hdrSnap = h, txgen.CloneHeader(h)
		}
	}
}

func holdTx(x *types.TxData) {
	held.tx, held.txSnap = nil, nil
	if b, err := x.MarshalText(); err == nil {
		t := &types.TxData{}
		if t.UnmarshalText(b) == nil {
			held.tx, held.txSnap = t, txgen.CloneTxData(t)
		}
	}
}

func holdBlock(x *types.Block) {
	held.blk, held.blkSnap = nil, nil
	if b, err := x.MarshalText(); err == nil {
		k := &types.Block{}
		if k.UnmarshalText(b) == nil {
			held.blk, held.blkSnap = k, txgen.CloneBlock(k)
		}
	}
}

func TestC04(t *testing.T) {
	r := ev.Start(t, "C04")
	defer r.Finish()
	r.Rule("seeded well-formed values from verif/internal/txgen: transactions (0-8 inputs of spend/issuance/veto/coinbase, 0-8 outputs original/vote/retirement, 0-300 byte strings, every suffix field, nil and empty slices), headers (0-12 sparse supLinks), sealed blocks (0-6 transactions); plus every suffix field alone with 8 fixed suffix values. Each value goes through every encoding form; one transaction / block in eight is preceded by an encoding the node must refuse (a field above 2^63-1). distinct = (value kind, input-type set, output-kind set, which suffix fields are non-empty, nil/empty class, size buckets) for transactions; (supLink count, signature-slot classes, witness class) for headers; (tx count, header class) for blocks")
	r.Assume("equality is field-by-field with nil ≡ empty; SerializedSize is compared with the byte length, not with the generated value (generated values carry 0)")
	r.Assume("P2P wrappers are exercised through wire.BinaryBytes/ReadBinary of the registered interface struct, exactly as the reactors' send path and decodeMessage do, without a running node")

	r.Cases("suffix-fields", len(suffixFields)*len(suffixValues), func(c *ev.Case) {
		field, s := suffixFields[c.Index/len(suffixValues)], suffixValues[c.Index%len(suffixValues)]
		x := suffixCase(field, s)
		exact := checkTx(c, x)
		c.Count("suffix_field_cases", 1)
		c.Distinct("suffix-field %s len=%d exact=%v", field, len(s), exact)
		if c.Index%len(suffixValues) == 0 {
			c.Sample(map[string]interface{}{"field": field, "suffix": hex.EncodeToString(s), "exact": exact})
		}
	})

	r.Cases("tx", r.N(12000, 600000), func(c *ev.Case) {
		x := txgen.TxData(c.Rand)
		countTxShape(c, x)
		if c.Index%8 == 3 {
			refusedEncode(c, x)
		}
		exact := checkTx(c, x)
		checkHeld(c)
		if c.Index%3 == 0 {
			holdTx(x)
		}
		c.Count("transactions", 1)
		if exact {
			c.Count("transactions_exact", 1)
		}
		c.Distinct("%s exact=%v", classifyTx(x), exact)
		if c.WantSample() {
			b, _ := x.MarshalText()
			c.Sample(map[string]interface{}{"class": classifyTx(x), "bytes": len(b) / 2, "exact": exact})
		}
	})

	r.Cases("header", r.N(4000, 200000), func(c *ev.Case) {
		x := txgen.BlockHeader(c.Rand)
		exact := checkHeader(c, x)
		checkHeld(c)
		if c.Index%3 == 0 {
			holdHeader(x)
		}
		c.Count("headers", 1)
		c.Count("suplinks", int64(len(x.SupLinks)))
		if exact {
			c.Count("headers_exact", 1)
		}
		c.Max("max_suplinks", int64(len(x.SupLinks)))
		c.Distinct("%s exact=%v", classifyHeader(x), exact)
		if c.WantSample() {
			c.Sample(map[string]interface{}{"class": classifyHeader(x), "exact": exact})
		}
	})

	r.Cases("block", r.N(4000, 200000), func(c *ev.Case) {
		x := txgen.Block(c.Rand)
		if c.Index%8 == 5 && len(x.Transactions) > 0 {
			refusedEncode(c, &x.Transactions[0].TxData)
		}
		exact := checkBlock(c, x)
		checkHeld(c)
		if c.Index%3 == 0 {
			holdBlock(x)
		}
		c.Count("blocks", 1)
		c.Count("block_transactions", int64(len(x.Transactions)))
		if exact {
			c.Count("blocks_exact", 1)
		}
		kinds := map[string]bool{}
		for _, t := range x.Transactions {
			for _, in := range t.Inputs {
				kinds[[]string{"i", "s", "c", "v"}[in.InputType()]] = true
			}
		}
		ks := make([]string, 0, 4)
		for s := range kinds {
			ks = append(ks, s)
		}
		sort.Strings(ks)
		nt := "nil"
		if x.Transactions != nil {
			nt = fmt.Sprint(len(x.Transactions))
		}
		c.Distinct("block txs=%s inputs=%s %s exact=%v", nt, strings.Join(ks, ""), classifyHeader(&x.BlockHeader), exact)
		if c.WantSample() {
			c.Sample(map[string]interface{}{"txs": len(x.Transactions), "suplinks": len(x.SupLinks), "exact": exact})
		}
	})

	// every class the monitor claims to cover must have been seen, and most
	// values must have gone through every form without any difference
	for _, f := range []string{"inputs:spend", "inputs:issuance", "inputs:veto", "inputs:coinbase", "outputs:original", "outputs:vote", "outputs:retirement",
		"suffix:input.commitment", "suffix:input.witness", "suffix:spend.commitment", "suffix:veto.commitment", "suffix:output.commitment",
		"tx_without_inputs", "tx_without_outputs"} {
		r.Floor(f, 200)
	}
	r.Floor("refused_encodings", 500)
	r.Floor("held_values_rechecked", 5000)
	r.Floor("transactions_exact", 3000)
	r.Floor("headers_exact", 3000)
	r.Floor("blocks_exact", 500)
	r.Floor("reencode_identical", 6000)
	for _, f := range []string{"tx-text", "tx-json", "p2p-transaction", "header-json", "header-as-block", "store", "block-json", "p2p-block", "p2p-mineblock",
		"p2p-propose", "p2p-blocks", "p2p-headers", "p2p-transactions", "p2p-merkleblock"} {
		r.Floor("form_exact:"+f, 500)
	}
}

func hs(h bc.Hash) string { return h.String() }
