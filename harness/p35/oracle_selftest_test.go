package p35

import (
	"math"
	"testing"
	"time"

	"verif/internal/ev"
)

// fake is a re-implementation of the documented rule with switchable one-line
// bugs, used only to check that workload + oracle of the monitor (a) accept a
// correct implementation and (b) catch realistic mistakes within a small part
// of the quick workload.  Not run by ./check.
type fake struct {
	half        float64
	life        int64
	keepLast    bool // bug: lastUnix not updated
	dropPersist bool // bug: persistent ignored when a transient amount is given
	noDecayInt  bool // bug: Int does not decay
	stale       bool // bug of the real tree: Increase(p, 0) returns the undecayed transient part
	lastUnix    int64
	transient   float64
	persistent  uint32
}

func (s *fake) Reset() { s.lastUnix, s.transient, s.persistent = 0, 0, 0 }

func (s *fake) VerifInt(t time.Time) uint32 {
	dt := t.Unix() - s.lastUnix
	if s.transient < 1 || dt < 0 || dt > s.life {
		return s.persistent
	}
	if s.noDecayInt {
		return s.persistent + uint32(s.transient)
	}
	return s.persistent + uint32(s.transient*math.Exp(-float64(dt)*math.Ln2/s.half))
}

func (s *fake) VerifIncrease(p, a uint32, t time.Time) uint32 {
	if !(s.dropPersist && a > 0) {
		s.persistent += p
	}
	tu := t.Unix()
	dt := tu - s.lastUnix
	if a > 0 {
		if dt > s.life {
			s.transient = 0
		} else if dt > 0 {
			s.transient *= math.Exp(-float64(dt) * math.Ln2 / s.half)
		}
		s.transient += float64(a)
		if !s.keepLast {
			s.lastUnix = tu
		}
	} else if !s.stale {
		return s.VerifInt(t)
	}
	return s.persistent + uint32(s.transient)
}

func TestOracleSelfTest(t *testing.T) {
	cases := []struct {
		name     string
		mk       func() scorer
		wantKeys bool
	}{
		{"correct", func() scorer { return &fake{half: 60, life: 1800} }, false},
		{"halflife-61", func() scorer { return &fake{half: 61, life: 1800} }, true},
		{"halflife-59", func() scorer { return &fake{half: 59, life: 1800} }, true},
		{"lifetime-900", func() scorer { return &fake{half: 60, life: 900} }, true},
		{"lifetime-1790", func() scorer { return &fake{half: 60, life: 1790} }, true},
		{"lastUnix-not-updated", func() scorer { return &fake{half: 60, life: 1800, keepLast: true} }, true},
		{"persistent-dropped", func() scorer { return &fake{half: 60, life: 1800, dropPersist: true} }, true},
		{"int-does-not-decay", func() scorer { return &fake{half: 60, life: 1800, noDecayInt: true} }, true},
		{"stale-return", func() scorer { return &fake{half: 60, life: 1800, stale: true} }, true},
	}
	for _, tc := range cases {
		pk := pkgT{name: "fake", mk: tc.mk}
		found := 0
		for i := 0; i < 2000; i++ { // an eighth of the quick tier
			rng := ev.NewRand(1, "C35", "forward", i)
			steps := genSteps(rng, 24, false)
			if len(runSeq(pk, 1600000000, steps, nil)) > 0 {
				found++
			}
		}
		for _, d := range directed {
			if d.name != "clock-backwards" && len(runSeq(pk, 0, d.steps, nil)) > 0 {
				found++
			}
		}
		if tc.wantKeys && found == 0 {
			t.Errorf("%s: bug not caught", tc.name)
		}
		if !tc.wantKeys && found != 0 {
			t.Errorf("%s: %d false alarms on a correct implementation", tc.name, found)
		}
		t.Logf("%s: %d sequences with findings", tc.name, found)
	}
}
