package p35

import (
	"fmt"
	"math"
	"sync"
	"testing"
	"time"

	"github.com/bytom/bytom/p2p/trust"

	"verif/internal/ev"
)

// TestC35Concurrent: the decay rule per peer, while OTHER peers are scored at the same time (every
// peer has its own score object and its own mutex; the reactors score peers from several goroutines).
// Each goroutine owns one score: it adds a transient amount at t0 and reads it back after its own dt
// (dt >= 64 s leaves the precomputed decay table), many times; every reading must be
// persistent + transient * 2^(-dt/60) within 1, whatever the other goroutines do.  The driver runs
// this function in a race-detector build as an extra run of C35.
func TestC35Concurrent(t *testing.T) {
	r := ev.Start(t, "C35")
	defer r.Finish()
	trust.Init()
	base := time.Unix(1700000000, 0)
	r.Cases("concurrent", r.N(40, 2000), func(c *ev.Case) {
		rng := c.Rand
		p := pkgs[c.Index%len(pkgs)]
		const workers = 4
		type miss struct {
			dt         int64
			got, want  uint32
			tr, pers   uint32
			worker, it int
		}
		var mu sync.Mutex
		var misses []miss
		var checked int64
		var wg sync.WaitGroup
		start := make(chan struct{})
		for w := 0; w < workers; w++ {
			gr := rng.Fork()
			wg.Add(1)
			go func(w int) {
				defer wg.Done()
				dts := []int64{int64(64 + gr.Intn(200)), int64(300 + gr.Intn(1400)), int64(gr.Intn(64))}
				var local []miss
				n := int64(0)
				<-start
				for it := 0; it < 400; it++ {
					s := p.mk()
					pers, tr := uint32(gr.Intn(50)), uint32(100+gr.Intn(100000))
					dt := dts[it%len(dts)]
					s.VerifIncrease(pers, tr, base)
					got := s.VerifInt(base.Add(time.Duration(dt) * time.Second))
					want := float64(pers) + float64(tr)*math.Exp2(-float64(dt)/60)
					n++
					if math.Abs(float64(got)-want) > 1.0001 {
						local = append(local, miss{dt, got, uint32(want), tr, pers, w, it})
					}
				}
				mu.Lock()
				misses = append(misses, local...)
				checked += n
				mu.Unlock()
			}(w)
		}
		close(start)
		wg.Wait()
		c.Eval(checked)
		c.Count("concurrent_readings_checked:"+p.name, checked)
		c.Distinct("concurrent %s", p.name)
		if len(misses) > 0 {
			m := misses[0]
			c.Violation(p.name+".Int:concurrent-peers:differs-from-decay-rule", "a peer's score read while other peers are scored concurrently differs from persistent + decayed transient by more than 1",
				map[string]interface{}{"package": p.name, "dt_seconds": m.dt, "persistent": m.pers, "transient": m.tr, "got": m.got, "want": m.want, "wrong_readings_in_case": len(misses), "of": checked, "workers": workers})
		}
		if c.WantSample() {
			c.Sample(map[string]interface{}{"package": p.name, "workers": workers, "readings": checked, "wrong": len(misses), "note": fmt.Sprintf("dt in {64..263, 300..1699, 0..63} s per worker")})
		}
	})
	r.Floor("concurrent_readings_checked:trust", 10000)
	r.Floor("concurrent_readings_checked:security", 10000)
}
