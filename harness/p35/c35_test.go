// C35 — peer ban scores follow the documented decay rule.
//
// Drives the real DynamicBanScore of p2p/security and p2p/trust through a
// time-parameterised export (the unexported increase / int with the clock
// supplied by the monitor) and compares every returned score with an
// independent reference:
//
//	score(t) = P + floor( sum_i a_i * 2^(-(t-t_i)/60) )
//
// where the transient part counts only while t - (time of the last transient
// update) <= 1800 s and is forgotten afterwards (Halflife / Lifetime doc
// comments of banscore.go).  Tolerance +-1 (truncation).
package p35

import (
	"fmt"
	"math"
	"testing"
	"time"

	"github.com/bytom/bytom/p2p/security"
	"github.com/bytom/bytom/p2p/trust"

	"verif/internal/ev"
)

const (
	halflife = 60.0
	lifetime = 1800
)

type scorer interface {
	VerifIncrease(persistent, transient uint32, t time.Time) uint32
	VerifInt(t time.Time) uint32
	Reset()
}

type pkgT struct {
	name string
	mk   func() scorer
}

var pkgs = []pkgT{
	{"security", func() scorer { return &security.DynamicBanScore{} }},
	{"trust", func() scorer { return &trust.DynamicBanScore{} }},
}

const (
	sInc = iota
	sInt
	sReset
)

type step struct {
	Kind int
	Dt   int64 // seconds since the previous step (negative = the clock went backwards)
	P, T uint32
}

func (s step) String() string {
	switch s.Kind {
	case sInc:
		return fmt.Sprintf("+%ds Increase(persistent=%d, transient=%d)", s.Dt, s.P, s.T)
	case sInt:
		return fmt.Sprintf("+%ds Int()", s.Dt)
	}
	return fmt.Sprintf("+%ds Reset()", s.Dt)
}

// ---- reference model -------------------------------------------------------

type inc struct {
	t int64
	a float64
}

type model struct {
	P     uint64 // persistent total
	sumT  uint64 // every transient amount added since the last reset (upper bound of the transient part)
	incs  []inc  // transient increments that still count
	lastT int64  // time of the last transient update
	hasT  bool
}

// transientAt is the real-valued transient part at time t (t >= lastT).
func (m *model) transientAt(t int64) float64 {
	if !m.hasT || t-m.lastT > lifetime {
		return 0
	}
	s := 0.0
	for _, x := range m.incs {
		s += x.a * math.Exp2(-float64(t-x.t)/halflife)
	}
	return s
}

func (m *model) increase(p, a uint32, t int64) {
	m.P += uint64(p)
	if a > 0 {
		if m.hasT && t-m.lastT > lifetime {
			m.incs = m.incs[:0]
		}
		m.incs = append(m.incs, inc{t, float64(a)})
		m.lastT, m.hasT = t, true
		m.sumT += uint64(a)
	}
}

func (m *model) reset() { *m = model{} }

// within reports got == P + floor(tr) with tolerance +-1 on the floor (and a
// relative 1e-9 for float rounding of large values).
func within(got uint32, P uint64, tr float64) bool {
	lo := math.Floor(tr*(1-1e-9)) - 1
	hi := math.Floor(tr*(1+1e-9)) + 1
	g := float64(got) - float64(P)
	return g >= lo && g <= hi
}

func exact(got uint32, P uint64, tr float64) bool {
	g := float64(got) - float64(P)
	return g >= math.Floor(tr*(1-1e-9)) && g <= math.Floor(tr*(1+1e-9))
}

func dtClass(m *model, t int64) string {
	if !m.hasT {
		return "no-transient"
	}
	d := t - m.lastT
	switch {
	case d < 0:
		return "backwards"
	case d == 0:
		return "0"
	case d < 60:
		return "1-59"
	case d == 60:
		return "60"
	case d < 64:
		return "61-63"
	case d == 64:
		return "64"
	case d < 1800:
		return "65-1799"
	case d == 1800:
		return "1800"
	}
	return ">1800"
}

type finding struct {
	key, what string
	at        int
	detail    map[string]interface{}
	fatal     bool // model and implementation may have diverged: stop the sequence
}

type hooks struct {
	count    func(name string)
	distinct func(format string, a ...interface{})
}

// runSeq feeds steps to a fresh real score object of pk and to the model, and
// returns every finding (stopping at the first fatal one).  base is the unix
// time of the first step.
func runSeq(pk pkgT, base int64, steps []step, h *hooks) []*finding {
	s := pk.mk()
	m := &model{}
	var out []*finding
	t := base
	backwards := false // the clock has gone backwards since the last reset: only bounds are demanded
	cnt := func(n string) {
		if h != nil {
			h.count(n)
		}
	}
	for i, st := range steps {
		t += st.Dt
		tm := time.Unix(t, 0)
		if m.hasT && t < m.lastT {
			backwards = true
		}
		switch st.Kind {
		case sReset:
			s.Reset()
			m.reset()
			backwards = false
			cnt("reset")
			if got := s.VerifInt(tm); got != 0 {
				out = append(out, &finding{key: pk.name + ".Reset:score-not-zero", what: "score after Reset is not 0", at: i,
					detail: map[string]interface{}{"got": got}, fatal: true})
				return out
			}
			continue
		case sInc:
			cls := dtClass(m, t)
			prevP := m.P
			staleTr := 0.0 // transient part as of its last update (what an implementation that forgets to decay would report)
			if m.hasT {
				staleTr = m.transientAt(m.lastT)
			}
			hadLive := m.hasT
			got := s.VerifIncrease(st.P, st.T, tm)
			m.increase(st.P, st.T, t)
			kind := "inc-both"
			switch {
			case st.P == 0 && st.T == 0:
				kind = "inc-zero"
			case st.T == 0:
				kind = "inc-persistent-only"
			case st.P == 0:
				kind = "inc-transient-only"
			}
			cnt("increase")
			cnt(kind)
			det := func(want string) map[string]interface{} {
				return map[string]interface{}{"package": pk.name, "step": st.String(), "got": got, "reference": want,
					"persistent_total": m.P, "seconds_since_last_transient_update": cls}
			}
			// Increase returns at least previous persistent + added persistent; never more than everything ever added.
			if uint64(got) < prevP+uint64(st.P) {
				out = append(out, &finding{key: pk.name + ".Increase:below-persistent", what: "Increase returned less than the persistent score", at: i,
					detail: det(fmt.Sprintf(">= %d", prevP+uint64(st.P))), fatal: true})
				return out
			}
			if uint64(got) > m.P+m.sumT {
				out = append(out, &finding{key: pk.name + ".Increase:above-everything-added", what: "Increase returned more than all persistent and transient amounts ever added", at: i,
					detail: det(fmt.Sprintf("<= %d", m.P+m.sumT)), fatal: true})
				return out
			}
			if backwards {
				cnt("backwards_increase_bounds_only")
				if h != nil {
					h.distinct("%s backwards bounds-only", kind)
				}
				continue
			}
			tr := m.transientAt(t)
			if st.T == 0 && hadLive && math.Floor(staleTr)-math.Floor(tr) > 2 {
				// a return value that ignores the decay since the last transient update would be told apart here
				cnt("persistent_only_increase_where_decay_matters")
			}
			if within(got, m.P, tr) {
				res := "off-by-one"
				if exact(got, m.P, tr) {
					res = "exact"
				}
				cnt("increase_" + res)
				if h != nil {
					h.distinct("%s dt=%s %s", kind, cls, res)
				}
				continue
			}
			want := fmt.Sprintf("%d + floor(%.6f) = %d (+-1)", m.P, tr, m.P+uint64(math.Floor(tr)))
			if st.T == 0 && within(got, m.P, staleTr) {
				// the state is right (Int agrees with the rule), only the returned value is stale: keep going
				cnt("increase_stale_return")
				if h != nil {
					h.distinct("%s dt=%s stale-return", kind, cls)
				}
				out = append(out, &finding{key: pk.name + ".Increase(transient=0):returns-transient-part-undecayed-since-its-last-update",
					what: "Increase with transient 0 returned persistent + the transient score as of its last update, not decayed to (or forgotten at) the time of the call", at: i,
					detail: det(want)})
				continue
			}
			out = append(out, &finding{key: fmt.Sprintf("%s.Increase:%s:differs-from-decay-rule:dt=%s", pk.name, kind, cls),
				what: "score returned by Increase differs from persistent + decayed transient by more than 1", at: i, detail: det(want), fatal: true})
			return out
		case sInt:
			cls := dtClass(m, t)
			got := s.VerifInt(tm)
			cnt("int")
			det := func(want string) map[string]interface{} {
				return map[string]interface{}{"package": pk.name, "step": st.String(), "got": got, "reference": want,
					"persistent_total": m.P, "seconds_since_last_transient_update": cls}
			}
			if uint64(got) < m.P {
				out = append(out, &finding{key: pk.name + ".Int:below-persistent", what: "Int returned less than the persistent score", at: i,
					detail: det(fmt.Sprintf(">= %d", m.P)), fatal: true})
				return out
			}
			if uint64(got) > m.P+m.sumT {
				out = append(out, &finding{key: pk.name + ".Int:above-everything-added", what: "Int returned more than all amounts ever added", at: i,
					detail: det(fmt.Sprintf("<= %d", m.P+m.sumT)), fatal: true})
				return out
			}
			if backwards || cls == "backwards" {
				cnt("backwards_int_bounds_only")
				if h != nil {
					h.distinct("int backwards bounds-only")
				}
				continue
			}
			tr := m.transientAt(t)
			if within(got, m.P, tr) {
				res := "off-by-one"
				if exact(got, m.P, tr) {
					res = "exact"
				}
				cnt("int_" + res)
				cnt("int_dt_" + cls)
				if h != nil {
					mag := "small"
					if m.sumT >= 1<<20 {
						mag = "large"
					}
					h.distinct("int dt=%s %s %s", cls, mag, res)
				}
				continue
			}
			want := fmt.Sprintf("%d + floor(%.6f) = %d (+-1)", m.P, tr, m.P+uint64(math.Floor(tr)))
			out = append(out, &finding{key: fmt.Sprintf("%s.Int:differs-from-decay-rule:dt=%s", pk.name, cls),
				what: "score returned by Int differs from persistent + decayed transient by more than 1", at: i, detail: det(want), fatal: true})
			return out
		}
	}
	return out
}

func hasKey(fs []*finding, key string) *finding {
	for _, f := range fs {
		if f.key == key {
			return f
		}
	}
	return nil
}

// shrink drops steps while the same key is still produced.
func shrink(pk pkgT, base int64, steps []step, key string) []step {
	cur := append([]step(nil), steps...)
	for changed := true; changed; {
		changed = false
		for i := len(cur) - 1; i >= 0; i-- {
			cand := append(append([]step(nil), cur[:i]...), cur[i+1:]...)
			if hasKey(runSeq(pk, base, cand, nil), key) != nil {
				cur, changed = cand, true
			}
		}
	}
	return cur
}

func describe(steps []step) []string {
	out := make([]string, len(steps))
	for i, s := range steps {
		out[i] = s.String()
	}
	return out
}

// ---- generators --------------------------------------------------------------

var dtSet = []int64{0, 1, 59, 60, 61, 63, 64, 65, 1799, 1800, 1801}

func genDt(rng *ev.Rand) int64 {
	switch rng.Intn(10) {
	case 0, 1, 2, 3, 4:
		return dtSet[rng.Intn(len(dtSet))]
	case 5, 6:
		return int64(rng.Range(2, 120))
	case 7:
		return int64(rng.Range(100, 1799))
	case 8:
		return int64(rng.Range(1790, 1810))
	}
	return int64(rng.Range(1801, 7200))
}

// genAmount returns an amount <= *budget and subtracts it.
func genAmount(rng *ev.Rand, budget *uint64, big bool) uint32 {
	var v uint64
	switch rng.Intn(8) {
	case 0:
		v = 1
	case 1:
		v = 2
	case 2:
		v = 20
	case 3:
		v = 100
	case 4:
		v = uint64(rng.Range(1, 1000))
	case 5:
		v = uint64(rng.Range(1, 100000))
	case 6:
		v = uint64(1) << uint(rng.Intn(20))
	default:
		if big {
			v = uint64(rng.Uint32()) >> uint(rng.Intn(8))
		} else {
			v = uint64(rng.Range(1, 50))
		}
	}
	if v > *budget {
		v = *budget
	}
	*budget -= v
	return uint32(v)
}

func genSteps(rng *ev.Rand, n int, backwards bool) []step {
	budget := uint64(1)<<31 - 1 // all amounts of a sequence together stay below 2^31
	big := rng.Chance(1, 3)
	var steps []step
	if big && rng.Bool() {
		// start with a transient amount near 2^31 so that a 2^-30 residue is visible at the lifetime boundary
		a := uint32(1<<31 - 1 - uint32(rng.Intn(1<<20)))
		budget -= uint64(a)
		steps = append(steps, step{Kind: sInc, Dt: 0, T: a})
	}
	for len(steps) < n {
		st := step{Dt: genDt(rng)}
		if backwards && rng.Chance(1, 5) {
			st.Dt = -int64(rng.Range(1, 4000))
		}
		switch k := rng.Intn(20); {
		case k < 11:
			st.Kind = sInc
			switch rng.Intn(6) {
			case 0, 1:
				st.T = genAmount(rng, &budget, big)
			case 2, 3:
				st.P = genAmount(rng, &budget, false)
			case 4:
				st.P = genAmount(rng, &budget, false)
				st.T = genAmount(rng, &budget, big)
			}
		case k < 19:
			st.Kind = sInt
		default:
			st.Kind = sReset
			if rng.Chance(2, 3) {
				st.Kind = sInt
			}
		}
		steps = append(steps, st)
	}
	return steps
}

var bases = []int64{0, 1, 1600000000, 1 << 31, 4102444800}

// directed scenarios: small histories around the documented constants.
var directed = []struct {
	name  string
	steps []step
}{
	{"halflife", []step{{sInc, 0, 0, 1000}, {sInt, 60, 0, 0}, {sInt, 60, 0, 0}, {sInt, 60, 0, 0}}},
	{"lifetime-boundary", []step{{sInc, 0, 0, 1<<31 - 1}, {sInt, 1799, 0, 0}, {sInt, 1, 0, 0}, {sInt, 1, 0, 0}}},
	{"precomputed-table-edge", []step{{sInc, 0, 0, 100000}, {sInt, 63, 0, 0}, {sInt, 1, 0, 0}, {sInt, 1, 0, 0}}},
	{"accumulate", []step{{sInc, 0, 5, 100}, {sInc, 30, 5, 100}, {sInc, 30, 5, 100}, {sInt, 60, 0, 0}}},
	{"forget-then-add", []step{{sInc, 0, 0, 5000}, {sInc, 1801, 0, 7}, {sInt, 0, 0, 0}, {sInt, 60, 0, 0}}},
	{"one-not-decayed-shortcut", []step{{sInc, 0, 0, 1}, {sInc, 600, 0, 1}, {sInt, 0, 0, 0}, {sInc, 60, 0, 3}, {sInt, 0, 0, 0}}},
	// p2p/security/score.go levels: 5 connection exceptions (transient 20 each), one illegal message (persistent 20) an hour later
	{"conn-exceptions-then-illegal-message", []step{{sInc, 0, 0, 20}, {sInc, 1, 0, 20}, {sInc, 1, 0, 20}, {sInc, 1, 0, 20}, {sInc, 1, 0, 20}, {sInc, 3600, 20, 0}, {sInt, 0, 0, 0}}},
	{"persistent-only-after-decay", []step{{sInc, 0, 0, 100}, {sInc, 600, 10, 0}, {sInt, 0, 0, 0}}},
	{"persistent-only-zero-dt", []step{{sInc, 0, 0, 100}, {sInc, 0, 10, 0}, {sInt, 0, 0, 0}}},
	{"clock-backwards", []step{{sInc, 0, 7, 100}, {sInt, -1, 0, 0}, {sInc, -100, 3, 50}, {sInt, 200, 0, 0}, {sInc, 5000, 1, 1}}},
}

func TestC35(t *testing.T) {
	r := ev.Start(t, "C35")
	defer r.Finish()
	trust.Init() // p2p/trust fills its decay table in Init(), p2p/security in init()
	r.Rule("per case one sequence of 24 steps {Increase(p,t) | Int | Reset} at times advancing by dt in {0,1,59,60,61,63,64,65,1799,1800,1801,random}; amounts {0,1,2,20,100,random,2^k, up to 2^31-1} with the sum of all amounts of a sequence < 2^31; the same sequence is fed to p2p/security and p2p/trust; group 'backwards' lets the clock step back. distinct = (step kind, class of seconds since the last transient update, magnitude, exact/off-by-one/stale/bounds-only)")
	r.Assume("documented rule: transient part halves every 60 s (Halflife), counts while its age since the last transient update is <= 1800 s (Lifetime) and is forgotten afterwards; time resolution one second; reference evaluated in float64 with math.Exp2, tolerance +-1 on the integer score")
	r.Assume("after the clock went backwards nothing but the bounds persistent <= score <= everything added is demanded (the behaviour is not documented)")

	reported := map[string]bool{}
	runCase := func(c *ev.Case, base int64, steps []step, twin bool) {
		h := &hooks{count: func(n string) { c.Count(n, 1) }, distinct: c.Distinct}
		for pi, pk := range pkgs {
			hh := h
			if pi > 0 {
				hh = &hooks{count: func(n string) { c.Count(pk.name+"_"+n, 1) }, distinct: func(string, ...interface{}) {}}
			}
			fs := runSeq(pk, base, steps, hh)
			c.Eval(int64(len(steps)))
			for _, f := range fs {
				wit := map[string]interface{}{"base_unix": base, "detail": f.detail, "failing_step_index": f.at}
				if !reported[f.key] {
					reported[f.key] = true
					min := shrink(pk, base, steps[:f.at+1], f.key)
					wit["minimal_history"] = describe(min)
					if mf := hasKey(runSeq(pk, base, min, nil), f.key); mf != nil {
						wit["detail"] = mf.detail
					}
				}
				c.Violation(f.key, f.what, wit)
			}
			if twin {
				checkMonotone(c, pk, base, steps)
			}
		}
	}

	r.Cases("directed", len(directed), func(c *ev.Case) {
		d := directed[c.Index]
		c.Sample(map[string]interface{}{"name": d.name, "steps": describe(d.steps)})
		for _, b := range bases {
			runCase(c, b, d.steps, false)
		}
	})
	r.Cases("forward", r.N(16000, 1600000), func(c *ev.Case) {
		steps := genSteps(c.Rand, 24, false)
		base := bases[c.Rand.Intn(len(bases))] + int64(c.Rand.Intn(100000))
		if c.WantSample() {
			c.Sample(map[string]interface{}{"base_unix": base, "steps": describe(steps[:8])})
		}
		runCase(c, base, steps, c.Index%4 == 0)
	})
	r.Cases("backwards", r.N(4000, 400000), func(c *ev.Case) {
		steps := genSteps(c.Rand, 24, true)
		base := 1600000000 + int64(c.Rand.Intn(100000))
		if c.WantSample() {
			c.Sample(map[string]interface{}{"base_unix": base, "steps": describe(steps[:8])})
		}
		runCase(c, base, steps, false)
	})

	r.Floor("increase", 100000)
	r.Floor("int", 80000)
	r.Floor("inc-persistent-only", 20000)
	r.Floor("inc-transient-only", 20000)
	r.Floor("inc-both", 10000)
	r.Floor("persistent_only_increase_where_decay_matters", 5000)
	r.Floor("int_dt_0", 1000)
	r.Floor("int_dt_1-59", 1000)
	r.Floor("int_dt_60", 500)
	r.Floor("int_dt_64", 300)
	r.Floor("int_dt_65-1799", 1000)
	r.Floor("int_dt_1800", 300)
	r.Floor("int_dt_>1800", 1000)
	r.Floor("backwards_increase_bounds_only", 3000)
	r.Floor("backwards_int_bounds_only", 3000)
	r.Floor("reset", 1000)
	r.Floor("monotone_pairs", 20000)
	r.Floor("trust_increase", 100000)
	r.Floor("trust_int", 80000)
}

// checkMonotone feeds the sequence to two real objects, the second one with
// larger persistent amounts, and demands score2 >= score1 at every step.
func checkMonotone(c *ev.Case, pk pkgT, base int64, steps []step) {
	a, b := pk.mk(), pk.mk()
	t := base
	var extra uint64
	for i, st := range steps {
		t += st.Dt
		tm := time.Unix(t, 0)
		var ga, gb uint32
		switch st.Kind {
		case sReset:
			a.Reset()
			b.Reset()
			extra = 0
			continue
		case sInc:
			d := uint32(0)
			if st.P > 0 || i%3 == 0 {
				d = uint32(1 + i%7)
			}
			if extra+uint64(d) > 1<<20 {
				d = 0
			}
			extra += uint64(d)
			ga = a.VerifIncrease(st.P, st.T, tm)
			gb = b.VerifIncrease(st.P+d, st.T, tm)
		case sInt:
			ga, gb = a.VerifInt(tm), b.VerifInt(tm)
		}
		c.Count("monotone_pairs", 1)
		if uint64(gb) == uint64(ga)+extra {
			c.Count("monotone_pairs_differ_exactly_by_added_persistent", 1)
		}
		if gb < ga {
			c.Violation(pk.name+":not-monotone-in-persistent", "a history with larger persistent amounts produced a smaller score",
				map[string]interface{}{"base_unix": base, "steps": describe(steps[:i+1]), "score": ga, "score_with_more_persistent": gb, "extra_persistent": extra})
			return
		}
	}
}
