package p20

import (
	"fmt"
	"strings"
	"testing"

	"verif/internal/ev"
)

// collectSink records what the oracle reports, for the sensitivity self-check.
type collectSink struct {
	viol   map[string]int
	inconc []string
}

func (s *collectSink) Violation(key, what string, w interface{}) { s.viol[key]++ }
func (s *collectSink) Count(string, int64)                       {}
func (s *collectSink) Distinct(string, ...interface{})           {}
func (s *collectSink) Inconclusive(f string, a ...interface{}) {
	s.inconc = append(s.inconc, fmt.Sprintf(f, a...))
}

// TestC20OracleSelfCheck is not a monitor (./check runs ^TestC20$ only): it shows
// that the C20 workload + oracle catch each single-fault mutant of a correct
// backend within a small fraction of the quick tier, and accuse only the mutant.
func TestC20OracleSelfCheck(t *testing.T) {
	const budget = 25 // cases of 8 sequences; the quick tier runs 250
	for f := faultNone; f <= faultIterUnsorted; f++ {
		s := &collectSink{viol: map[string]int{}}
		found := -1
		for i := 0; i < budget; i++ {
			bs := []*backend{{name: "Mutant", db: newSortedDB(f)}, {name: "Ref", db: newSortedDB(faultNone)}}
			_, _ = runCase(s, ev.NewRand(1, "C20", "selfcheck", i), bs)
			if len(s.viol) > 0 && found < 0 {
				found = i + 1
				break
			}
		}
		for k := range s.viol {
			if !strings.HasPrefix(k, "Mutant.") {
				t.Errorf("fault %q: oracle accused the correct backend: %s", faultNames[f], k)
			}
		}
		if len(s.inconc) > 0 {
			t.Errorf("fault %q: inconclusive: %v", faultNames[f], s.inconc[0])
		}
		switch {
		case f == faultNone && len(s.viol) > 0:
			t.Errorf("no fault injected but violations reported: %v", s.viol)
		case f != faultNone && found < 0:
			t.Errorf("fault %q not detected in %d cases", faultNames[f], budget)
		case f != faultNone:
			keys := []string{}
			for k := range s.viol {
				keys = append(keys, k)
			}
			t.Logf("fault %-22q detected after %3d case(s): %v", faultNames[f], found, keys)
		}
	}
}
