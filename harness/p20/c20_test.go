// C20 — storage backends are interchangeable.
//
// Random operation sequences are applied to MemDB, to GoLevelDB (in a temp
// directory) and to a sorted-map model written here.  Every result a caller
// can observe through the dbm.DB interface, with the access patterns used by
// /repo/database (and the other in-tree callers of dbm iterators), must equal
// the model on both backends; the model says which side is wrong.
//
// Access patterns taken from the callers:
//   - Get(k) == nil means "absent"                                   (store_geter.go, utxo_view.go, contract_view.go)
//   - for it.Next() { it.Key(); it.Value() } over Iterator / IteratorPrefix  (store_checkpoint.go loadCheckpointsFromIter, wallet, account, ...)
//   - the same loop deleting the current key, directly or through a batch    (netsync/chainmgr/storage.go clearData, wallet.go)
//   - IteratorPrefixWithStart(prefix, start != nil, false): read Value() (and Key(), as the repo's own db_test does)
//     at the initial position, THEN the Next() loop                          (store_checkpoint.go CheckpointsFromNode)
//   - IteratorPrefixWithStart(prefix, nil, false): Next() loop only          (db_test.go)
//
// Differences that no caller of /repo/database can observe (reverse iteration,
// Seek misses, Key() after exhaustion, Value() before the first Next() of an
// un-started iterator, nil values, buffer aliasing) are measured by the
// "semantics-info" group and reported as info_* counters, never as violations.
package p20

import (
	"bytes"
	"fmt"
	"os"
	"sort"
	"strings"
	"testing"

	dbm "github.com/bytom/bytom/database/leveldb"

	"verif/internal/ev"
)

var (
	alphabet = []byte{0x00, 'a', 'b', 'c', 0xff}
	letterW  = []int{2, 5, 4, 2, 2}
	lenW     = []int{1, 4, 6, 4, 2} // key length 0..4
)

const opsPerSequence = 60

// sink is the part of *ev.Case the oracle needs (the self-check uses its own).
type sink interface {
	Violation(key, what string, witness interface{})
	Count(name string, n int64)
	Distinct(format string, a ...interface{})
	Inconclusive(format string, a ...interface{})
}

type backend struct {
	name    string
	db      dbm.DB
	reopen  func() (dbm.DB, error) // nil: nothing to re-open
	harness bool                   // harness-owned implementation: a mismatch is a harness defect, not a violation
}

type entry struct{ k, v []byte }

func (e entry) String() string { return fmt.Sprintf("%q=%q", e.k, e.v) }

func renderEntries(es []entry) string {
	s := make([]string, len(es))
	for i, e := range es {
		s[i] = e.String()
	}
	return "[" + strings.Join(s, " ") + "]"
}

// ---------------------------------------------------------------- model

type model struct {
	m    map[string][]byte
	last map[string]string // kind of the last write that touched the key
}

func newModel() *model { return &model{m: map[string][]byte{}, last: map[string]string{}} }

func (m *model) set(kind string, k, v []byte) { m.m[string(k)] = cp(v); m.last[string(k)] = kind }
func (m *model) del(kind string, k []byte)    { delete(m.m, string(k)); m.last[string(k)] = kind }
func (m *model) lastKind(k []byte) string {
	if s, ok := m.last[string(k)]; ok {
		return s
	}
	return "no-write"
}

func (m *model) keys() []string {
	ks := make([]string, 0, len(m.m))
	for k := range m.m {
		ks = append(ks, k)
	}
	sort.Strings(ks)
	return ks
}

// prefixed returns the entries whose key starts with p, in byte order.
func (m *model) prefixed(p []byte) []entry {
	var out []entry
	for _, k := range m.keys() {
		if strings.HasPrefix(k, string(p)) {
			out = append(out, entry{[]byte(k), cp(m.m[k])})
		}
	}
	return out
}

// startBounded is the contract of IteratorPrefixWithStart(prefix, start, false):
// the range is the keys with the prefix; the iterator is positioned at the first
// key of the range that is >= start (a start before the range is the start of
// the range); the Next() loop yields what follows.  With start == nil the
// iterator is un-positioned and the loop yields the whole range.
func (m *model) startBounded(p, start []byte) (init *entry, rest []entry) {
	r := m.prefixed(p)
	if start == nil {
		return nil, r
	}
	for i := range r {
		if bytes.Compare(r[i].k, start) >= 0 {
			return &r[i], r[i+1:]
		}
	}
	return nil, nil
}

// classify names the position of start relative to the prefix range.
func (m *model) classify(p, start []byte) string {
	switch {
	case start == nil:
		return "nil"
	case !bytes.HasPrefix(start, p):
		if bytes.Compare(start, p) < 0 {
			return "before"
		}
		return "beyond"
	case bytes.Equal(start, p):
		return "at"
	}
	if _, ok := m.m[string(start)]; ok {
		return "inside-hit"
	}
	for _, e := range m.prefixed(p) {
		if bytes.Compare(e.k, start) > 0 {
			return "inside-miss"
		}
	}
	return "after"
}

var startClasses = []string{"nil", "before", "at", "inside-hit", "inside-miss", "after", "beyond"}

// ---------------------------------------------------------------- observation

type iterObs struct {
	init entry // Key()/Value() read before the first Next()
	list []entry
}

func (o iterObs) render(withInit bool) string {
	if withInit {
		return "init " + o.init.String() + " then " + renderEntries(o.list)
	}
	return renderEntries(o.list)
}

// consume reads an iterator the way the callers do.  each is called with the
// current key inside the loop (the delete-while-iterating callers).
func consume(it dbm.Iterator, each func(k []byte)) iterObs {
	var o iterObs
	o.init = entry{it.Key(), it.Value()}
	for it.Next() {
		k, v := it.Key(), it.Value()
		o.list = append(o.list, entry{k, v})
		if each != nil {
			each(k)
		}
	}
	it.Release()
	return o
}

func sameEntries(a, b []entry) bool {
	if len(a) != len(b) {
		return false
	}
	for i := range a {
		if !bytes.Equal(a[i].k, b[i].k) || !bytes.Equal(a[i].v, b[i].v) {
			return false
		}
	}
	return true
}

// diffIter returns "" when the observation is what the model expects, else a
// coarse symptom.  withInit: the entry at the initial position is part of the
// contract (start != nil).
func diffIter(p []byte, withInit bool, wantInit *entry, want []entry, got iterObs) string {
	wi := entry{[]byte{}, []byte{}} // nothing at or after start: Key()/Value() are empty
	if wantInit != nil {
		wi = *wantInit
	}
	initOK := !withInit || (bytes.Equal(got.init.k, wi.k) && bytes.Equal(got.init.v, wi.v))
	outside := false
	if !initOK && len(got.init.k) > 0 && !bytes.HasPrefix(got.init.k, p) {
		outside = true
	}
	for _, e := range got.list {
		if !bytes.HasPrefix(e.k, p) {
			outside = true
		}
	}
	switch {
	case outside:
		return "prefix-ignored"
	case !initOK:
		return "initial-read"
	case sameEntries(want, got.list):
		return ""
	}
	if len(want) == len(got.list) {
		same := true
		for i := range want {
			if !bytes.Equal(want[i].k, got.list[i].k) {
				same = false
			}
		}
		if same {
			return "value"
		}
	}
	return "sequence"
}

func sizeClass(n int) string {
	switch {
	case n == 0:
		return "0"
	case n == 1:
		return "1"
	case n <= 3:
		return "2-3"
	}
	return "4+"
}

// ---------------------------------------------------------------- runner

type runner struct {
	s     sink
	rng   *ev.Rand
	bs    []*backend
	mod   *model
	trace []string
	stop  bool
}

func (r *runner) logf(format string, a ...interface{}) {
	r.trace = append(r.trace, fmt.Sprintf(format, a...))
}

func (r *runner) witness(want string, got []string) map[string]interface{} {
	g := map[string]string{}
	for i, b := range r.bs {
		g[b.name] = got[i]
	}
	state := []string{}
	for _, k := range r.mod.keys() {
		state = append(state, fmt.Sprintf("%q=%q", k, r.mod.m[k]))
	}
	tr := r.trace
	if len(tr) > 120 {
		tr = tr[len(tr)-120:]
	}
	failing := ""
	if len(tr) > 0 {
		failing = tr[len(tr)-1]
	}
	return map[string]interface{}{"ops": append([]string{}, tr...), "model_state": state, "failing_op": failing, "expected": want, "observed": g,
		"minimal_repro": "reads do not depend on history: Set every model_state entry into an empty backend, then run failing_op"}
}

// verdict applies the decision rule: a backend that differs from the model is
// wrong, unless both backends under test differ from the model in the same way
// (then the model is suspect and the run is inconclusive rather than accusing).
func (r *runner) verdict(opKey, what string, syms []string, want string, got []string) (mismatch bool) {
	bad := 0
	for _, s := range syms {
		if s != "" {
			bad++
		}
	}
	if bad == 0 {
		return false
	}
	var under []int
	for i, b := range r.bs {
		if !b.harness {
			under = append(under, i)
		}
	}
	allSame := len(under) >= 2
	for _, i := range under {
		if syms[i] == "" || got[i] != got[under[0]] {
			allSame = false
		}
	}
	if allSame {
		r.s.Inconclusive("model disagrees with every backend under test on %s: expected %s observed %s ops=%v", opKey, want, got[under[0]], r.trace)
		r.stop = true
		return true
	}
	for i, b := range r.bs {
		if syms[i] == "" {
			continue
		}
		if b.harness {
			r.s.Inconclusive("harness-owned %s differs from the model on %s (%s): expected %s observed %s ops=%v", b.name, opKey, syms[i], want, got[i], r.trace)
			continue
		}
		r.s.Violation(b.name+"."+opKey+":"+syms[i], b.name+" "+what+" ("+syms[i]+")", r.witness(want, got))
	}
	// A wrong answer to a read does not change any backend's state: the sequence
	// goes on (one defect must not mask the rest of the coverage).  Callers whose
	// operation also writes (iterate-and-delete) stop the sequence themselves.
	return true
}

func (r *runner) letter() byte { return alphabet[r.rng.Pick(letterW)] }

func (r *runner) randomKey() []byte {
	n := r.rng.Pick(lenW)
	k := make([]byte, n)
	for i := range k {
		k[i] = r.letter()
	}
	return k
}

func (r *runner) existingKey() ([]byte, bool) {
	ks := r.mod.keys()
	if len(ks) == 0 {
		return nil, false
	}
	return []byte(ks[r.rng.Intn(len(ks))]), true
}

// key draws a key that shares prefixes with what is stored.
func (r *runner) key() []byte {
	if k, ok := r.existingKey(); ok && r.rng.Chance(1, 2) {
		switch r.rng.Intn(4) {
		case 0:
			return k
		case 1:
			if len(k) > 0 {
				return k[:len(k)-1]
			}
		case 2:
			if len(k) < 4 {
				return append(cp(k), r.letter())
			}
		default:
			if len(k) > 0 {
				s := cp(k)
				s[len(s)-1] = r.letter()
				return s
			}
		}
	}
	return r.randomKey()
}

func (r *runner) value() []byte {
	switch r.rng.Pick([]int{3, 3, 3}) {
	case 0:
		return []byte{}
	case 1:
		return []byte{byte('0' + r.rng.Intn(10))}
	}
	return r.rng.Bytes(r.rng.Range(2, 6))
}

func (r *runner) prefix() []byte {
	switch r.rng.Pick([]int{1, 1, 6, 3}) {
	case 0:
		return nil
	case 1:
		return []byte{}
	case 2:
		if k, ok := r.existingKey(); ok && len(k) > 0 {
			return k[:r.rng.Range(1, len(k))]
		}
	}
	k := r.randomKey()
	if len(k) > 2 {
		k = k[:2]
	}
	return k
}

func (r *runner) opSet(sync bool) {
	k, v := r.key(), r.value()
	kind := "Set"
	if sync {
		kind = "SetSync"
	}
	r.logf("%s(%q,%q)", kind, k, v)
	for _, b := range r.bs {
		if sync {
			b.db.SetSync(cp(k), cp(v))
		} else {
			b.db.Set(cp(k), cp(v))
		}
	}
	r.mod.set(kind, k, v)
	r.s.Count("op:"+kind, 1)
	if len(v) == 0 {
		r.s.Count("write_empty_value", 1)
	}
	if len(k) == 0 {
		r.s.Count("write_empty_key", 1)
	}
}

func (r *runner) opDelete(sync bool) {
	k := r.key()
	if e, ok := r.existingKey(); ok && r.rng.Chance(2, 3) {
		k = e
	}
	kind := "Delete"
	if sync {
		kind = "DeleteSync"
	}
	r.logf("%s(%q)", kind, k)
	if _, ok := r.mod.m[string(k)]; ok {
		r.s.Count("delete_present", 1)
	} else {
		r.s.Count("delete_absent", 1)
	}
	for _, b := range r.bs {
		if sync {
			b.db.DeleteSync(cp(k))
		} else {
			b.db.Delete(cp(k))
		}
	}
	r.mod.del(kind, k)
	r.s.Count("op:"+kind, 1)
}

func (r *runner) getOne(k []byte) {
	want, present := r.mod.m[string(k)]
	wantS := "absent"
	if present {
		wantS = fmt.Sprintf("%q", want)
	}
	syms := make([]string, len(r.bs))
	got := make([]string, len(r.bs))
	for i, b := range r.bs {
		v := b.db.Get(cp(k))
		got[i] = "absent"
		if v != nil {
			got[i] = fmt.Sprintf("%q", v)
		}
		switch {
		case present && v == nil:
			syms[i] = "reported-absent"
		case !present && v != nil:
			syms[i] = "reported-present"
		case present && !bytes.Equal(v, want):
			syms[i] = "wrong-value"
		}
	}
	r.verdict("Get[after-"+r.mod.lastKind(k)+"]", fmt.Sprintf("Get(%q) differs from the model", k), syms, wantS, got)
}

func (r *runner) opGet() {
	k := r.key()
	if e, ok := r.existingKey(); ok && r.rng.Chance(1, 2) {
		k = e
	}
	r.logf("Get(%q)", k)
	v, present := r.mod.m[string(k)]
	cls := "absent"
	if present {
		cls = "present"
		r.s.Count("get_present", 1)
		if len(v) == 0 {
			cls = "present-empty"
			r.s.Count("get_present_empty_value", 1)
		}
	} else {
		r.s.Count("get_absent", 1)
	}
	r.s.Count("op:Get", 1)
	r.s.Distinct("Get %s after-%s", cls, r.mod.lastKind(k))
	r.getOne(k)
}

type batchOp struct {
	del  bool
	k, v []byte
}

func (r *runner) opBatch(n int) {
	var ops []batchOp
	seen := map[string]bool{}
	dup := false
	for i := 0; i < n; i++ {
		k := r.key()
		if len(ops) > 0 && r.rng.Chance(1, 4) {
			k = ops[r.rng.Intn(len(ops))].k // same key again: order inside the batch matters
		}
		if seen[string(k)] {
			dup = true
		}
		seen[string(k)] = true
		if r.rng.Chance(1, 3) {
			ops = append(ops, batchOp{true, k, nil})
		} else {
			ops = append(ops, batchOp{false, k, r.value()})
		}
	}
	desc := []string{}
	for _, o := range ops {
		if o.del {
			desc = append(desc, fmt.Sprintf("Delete(%q)", o.k))
		} else {
			desc = append(desc, fmt.Sprintf("Set(%q,%q)", o.k, o.v))
		}
	}
	batches := make([]dbm.Batch, len(r.bs))
	for i, b := range r.bs {
		batches[i] = b.db.NewBatch()
		for _, o := range ops {
			if o.del {
				batches[i].Delete(cp(o.k))
			} else {
				batches[i].Set(cp(o.k), cp(o.v))
			}
		}
	}
	r.logf("batch{%s}", strings.Join(desc, ";"))
	// a direct write between building and writing the batch: the batch, written later, wins
	if len(ops) > 0 && r.rng.Chance(1, 5) {
		k := ops[r.rng.Intn(len(ops))].k
		if r.rng.Bool() {
			v := r.value()
			r.logf("  (before Write) Set(%q,%q)", k, v)
			for _, b := range r.bs {
				b.db.Set(cp(k), cp(v))
			}
			r.mod.set("Set", k, v)
		} else {
			r.logf("  (before Write) Delete(%q)", k)
			for _, b := range r.bs {
				b.db.Delete(cp(k))
			}
			r.mod.del("Delete", k)
		}
		r.s.Count("batch_interleaved_direct_write", 1)
	}
	if r.rng.Chance(1, 10) {
		r.logf("  batch dropped without Write")
		r.s.Count("batch_dropped", 1)
		r.s.Distinct("batch dropped")
		// what the dropped batch touched must be unchanged
		for _, o := range ops {
			if r.stop {
				return
			}
			r.getOne(o.k)
		}
		return
	}
	r.logf("  batch.Write()")
	for i := range r.bs {
		batches[i].Write()
	}
	for _, o := range ops {
		if o.del {
			r.mod.del("batch.Delete", o.k)
			r.s.Count("batch_delete", 1)
		} else {
			r.mod.set("batch.Set", o.k, o.v)
			r.s.Count("batch_set", 1)
		}
	}
	r.s.Count("op:batch.Write", 1)
	if dup {
		r.s.Count("batch_same_key_twice", 1)
	}
	r.s.Distinct("batch size=%s same-key-twice=%v", sizeClass(len(ops)), dup)
	// the same batch objects written a second time, after one of their keys was changed directly and
	// (sometimes) more operations were added: both backends must do the same with a batch that is reused
	// (in this tree: every accumulated operation is applied again, in order)
	if len(ops) > 0 && r.rng.Chance(1, 5) {
		k := ops[r.rng.Intn(len(ops))].k
		if r.rng.Bool() {
			v := r.value()
			r.logf("  (after Write) Set(%q,%q)", k, v)
			for _, b := range r.bs {
				b.db.Set(cp(k), cp(v))
			}
			r.mod.set("Set", k, v)
		} else {
			r.logf("  (after Write) Delete(%q)", k)
			for _, b := range r.bs {
				b.db.Delete(cp(k))
			}
			r.mod.del("Delete", k)
		}
		all := append([]batchOp{}, ops...)
		for j := r.rng.Intn(3); j > 0; j-- {
			o := batchOp{false, r.key(), r.value()}
			if r.rng.Chance(1, 3) {
				o = batchOp{true, ops[r.rng.Intn(len(ops))].k, nil}
			}
			all = append(all, o)
			for i := range r.bs {
				if o.del {
					batches[i].Delete(cp(o.k))
				} else {
					batches[i].Set(cp(o.k), cp(o.v))
				}
			}
		}
		r.logf("  batch.Write() again (%d operations accumulated)", len(all))
		for i := range r.bs {
			batches[i].Write()
		}
		for _, o := range all {
			if o.del {
				r.mod.del("batch.Delete(rewritten)", o.k)
			} else {
				r.mod.set("batch.Set(rewritten)", o.k, o.v)
			}
		}
		r.s.Count("batch_written_twice", 1)
		for _, o := range all {
			r.getOne(o.k)
		}
	}
}

func (r *runner) iterate(opKey, what string, p []byte, withInit bool, wantInit *entry, want []entry, open func(db dbm.DB) dbm.Iterator, each func(db dbm.DB, k []byte)) (mismatch bool) {
	syms := make([]string, len(r.bs))
	got := make([]string, len(r.bs))
	for i, b := range r.bs {
		db := b.db
		var f func(k []byte)
		if each != nil {
			f = func(k []byte) { each(db, k) }
		}
		o := consume(open(db), f)
		syms[i] = diffIter(p, withInit, wantInit, want, o)
		got[i] = o.render(withInit)
	}
	ws := renderEntries(want)
	if withInit {
		wi := entry{[]byte{}, []byte{}}
		if wantInit != nil {
			wi = *wantInit
		}
		ws = "init " + wi.String() + " then " + ws
	}
	return r.verdict(opKey, what, syms, ws, got)
}

func (r *runner) opIterator(tag string) {
	want := r.mod.prefixed(nil)
	r.logf("Iterator()%s", tag)
	r.s.Count("op:Iterator", 1)
	if len(want) > 0 {
		r.s.Count("iter_nonempty", 1)
	}
	r.s.Distinct("Iterator%s size=%s", tag, sizeClass(len(want)))
	r.iterate("Iterator"+tag, "full iteration differs from the model", nil, false, nil, want,
		func(db dbm.DB) dbm.Iterator { return db.Iterator() }, nil)
}

func (r *runner) opIteratorPrefix() {
	p := r.prefix()
	want := r.mod.prefixed(p)
	r.logf("IteratorPrefix(%q)", p)
	r.s.Count("op:IteratorPrefix", 1)
	if len(want) > 0 {
		r.s.Count("iter_nonempty", 1)
	}
	if len(want) > 0 && len(want) < len(r.mod.m) {
		r.s.Count("prefix_selects_proper_subset", 1)
	}
	r.s.Distinct("IteratorPrefix prefixlen=%d size=%s", len(p), sizeClass(len(want)))
	r.iterate("IteratorPrefix", fmt.Sprintf("IteratorPrefix(%q) differs from the model", p), p, false, nil, want,
		func(db dbm.DB) dbm.Iterator { return db.IteratorPrefix(cp2(p)) }, nil)
}

// cp2 keeps nil as nil (the callers pass nil prefixes and nil starts).
func cp2(b []byte) []byte {
	if b == nil {
		return nil
	}
	return cp(b)
}

// opIterateDelete: iterate a prefix and delete every key seen, either directly
// inside the loop (clearData, deleteNode) or through a batch written after the
// loop (wallet.go).
func (r *runner) opIterateDelete() {
	p := r.prefix()
	want := r.mod.prefixed(p)
	viaBatch := r.rng.Bool()
	name := "IteratorPrefix+Delete"
	if viaBatch {
		name = "IteratorPrefix+batch.Delete"
	}
	r.logf("%s(%q)", name, p)
	r.s.Count("op:"+name, 1)
	r.s.Distinct("%s size=%s", name, sizeClass(len(want)))
	batches := map[dbm.DB]dbm.Batch{}
	bad := r.iterate(name, fmt.Sprintf("%s(%q) differs from the model", name, p), p, false, nil, want,
		func(db dbm.DB) dbm.Iterator {
			if viaBatch {
				batches[db] = db.NewBatch()
			}
			return db.IteratorPrefix(cp2(p))
		},
		func(db dbm.DB, k []byte) {
			if viaBatch {
				batches[db].Delete(cp(k))
			} else {
				db.Delete(cp(k))
			}
		})
	for _, b := range r.bs {
		if viaBatch {
			if bt := batches[b.db]; bt != nil {
				bt.Write()
			}
		}
	}
	// The model deletes what the contract says was seen.  A backend that saw
	// something else has deleted something else: its state has diverged, stop.
	if bad {
		r.stop = true
	}
	for _, e := range want {
		if viaBatch {
			r.mod.del("batch.Delete", e.k)
		} else {
			r.mod.del("Delete", e.k)
		}
	}
}

// startFor tries to build a start key of the wanted class; the class actually
// reported is always computed by classify, never assumed.
func (r *runner) startFor(p []byte, target string) []byte {
	if target == "nil" {
		return nil
	}
	rng := r.rng
	in := r.mod.prefixed(p)
	for try := 0; try < 40; try++ {
		var s []byte
		switch target {
		case "before":
			switch rng.Intn(4) {
			case 0:
				s = []byte{}
			case 1:
				if len(p) > 0 {
					s = cp(p[:rng.Intn(len(p))])
				}
			case 2:
				if len(p) > 0 && p[len(p)-1] > 0 {
					s = cp(p)
					s[len(s)-1]--
					if rng.Bool() {
						s = append(s, r.letter())
					}
				}
			default:
				s = r.randomKey()
			}
		case "at":
			s = cp(p)
		case "inside-hit":
			if len(in) > 0 {
				s = cp(in[rng.Intn(len(in))].k)
			}
		case "inside-miss":
			if len(in) > 0 && rng.Bool() {
				// just below an existing key of the range
				k := cp(in[rng.Intn(len(in))].k)
				if len(k) > len(p) {
					if k[len(k)-1] > 0 && rng.Bool() {
						k[len(k)-1]--
						k = append(k, 0xff)
					} else {
						k = k[:len(k)-1]
						if rng.Bool() {
							k = append(k, 0x00)
						}
					}
					s = k
				}
			}
			if s == nil {
				s = append(cp(p), r.randomKey()...)
			}
		case "after":
			switch rng.Intn(3) {
			case 0:
				s = append(cp(p), 0xff, 0xff, 0xff, 0xff, 0xff)
			case 1:
				if len(in) > 0 {
					s = append(cp(in[len(in)-1].k), r.letter())
				}
			default:
				s = append(cp(p), r.randomKey()...)
			}
		case "beyond":
			switch rng.Intn(3) {
			case 0:
				if len(p) > 0 && p[len(p)-1] < 0xff {
					s = cp(p)
					s[len(s)-1]++
				}
			case 1:
				s = []byte{0xff, 0xff, 0xff, 0xff, 0xff}
			default:
				s = r.randomKey()
			}
		}
		if s == nil {
			continue
		}
		if r.mod.classify(p, s) == target {
			return s
		}
	}
	// not constructible for this prefix/state (e.g. nothing is "before" the empty prefix)
	return r.key()
}

func (r *runner) opIteratorPrefixWithStart() {
	p := r.prefix()
	target := startClasses[r.rng.Intn(len(startClasses))]
	start := r.startFor(p, target)
	if start == nil && target != "nil" {
		start = []byte{}
	}
	class := r.mod.classify(p, start)
	wantInit, want := r.mod.startBounded(p, start)
	withInit := start != nil
	r.logf("IteratorPrefixWithStart(%q,%s,false)", p, renderStart(start))
	r.s.Count("op:IteratorPrefixWithStart", 1)
	r.s.Count("start:"+class, 1)
	n := len(want)
	if wantInit != nil {
		n++
	}
	if n > 0 {
		r.s.Count("iter_nonempty", 1)
	}
	// does the store hold keys that a prefix-blind implementation would also yield?
	all := r.mod.prefixed(nil)
	if last := len(all) - 1; last >= 0 && !bytes.HasPrefix(all[last].k, p) && (start == nil || bytes.Compare(all[last].k, start) >= 0) {
		r.s.Count("start_with_keys_beyond_prefix_present", 1)
	}
	r.s.Distinct("IteratorPrefixWithStart start=%s prefixlen=%d size=%s", class, len(p), sizeClass(n))
	r.iterate("IteratorPrefixWithStart[start="+class+"]",
		fmt.Sprintf("IteratorPrefixWithStart(%q,%s,false) differs from the model", p, renderStart(start)),
		p, withInit, wantInit, want,
		func(db dbm.DB) dbm.Iterator { return db.IteratorPrefixWithStart(cp2(p), cp2(start), false) }, nil)
}

func renderStart(s []byte) string {
	if s == nil {
		return "nil"
	}
	return fmt.Sprintf("%q", s)
}

func (r *runner) opReopen() {
	did := false
	for _, b := range r.bs {
		if b.reopen == nil {
			continue
		}
		b.db.Close()
		db, err := b.reopen()
		if err != nil {
			r.s.Inconclusive("re-opening %s failed: %v", b.name, err)
			r.stop = true
			return
		}
		b.db = db
		did = true
	}
	if !did {
		return
	}
	r.logf("close+reopen")
	r.s.Count("op:reopen", 1)
	r.opIterator("(after-reopen)")
}

var opNames = []string{"Set", "SetSync", "Delete", "DeleteSync", "Get", "batch", "Iterator", "IteratorPrefix", "IteratorPrefixWithStart", "IterateDelete"}
var opWeights = []int{18, 4, 8, 3, 18, 10, 4, 10, 20, 2}

func (r *runner) step() {
	switch opNames[r.rng.Pick(opWeights)] {
	case "Set":
		r.opSet(false)
	case "SetSync":
		r.opSet(true)
	case "Delete":
		r.opDelete(false)
	case "DeleteSync":
		r.opDelete(true)
	case "Get":
		r.opGet()
	case "batch":
		r.opBatch(r.rng.Range(0, 6))
	case "Iterator":
		r.opIterator("")
	case "IteratorPrefix":
		r.opIteratorPrefix()
	case "IteratorPrefixWithStart":
		r.opIteratorPrefixWithStart()
	case "IterateDelete":
		r.opIterateDelete()
	}
}

// sequencesPerCase sequences share one GoLevelDB directory (opening one costs
// more than a whole sequence); between two sequences the store is emptied with
// the clearData pattern (Iterator + Delete of every key), itself checked.
const sequencesPerCase = 8

// clearAll empties every backend by iterating and deleting, and resets the model.
func (r *runner) clearAll(q int) {
	want := r.mod.prefixed(nil)
	r.logf("Iterator()+Delete of every key (start of sequence %d of the case)", q)
	r.s.Count("op:Iterator+Delete(clear)", 1)
	bad := r.iterate("Iterator+Delete", "clearing the store by Iterator()+Delete differs from the model", nil, false, nil, want,
		func(db dbm.DB) dbm.Iterator { return db.Iterator() },
		func(db dbm.DB, k []byte) { db.Delete(cp(k)) })
	if bad {
		r.stop = true
		return
	}
	r.mod = newModel()
	r.trace = []string{fmt.Sprintf("(sequence %d of the case, store emptied)", q)}
}

// sequence: pre-populate, opsPerSequence random operations, and a final complete
// comparison (full scan + Get of every key written during the sequence).
func (r *runner) sequence() (ops int) {
	r.opBatch(r.rng.Range(0, 20))
	// opening a GoLevelDB costs more than a whole sequence (two 4 MiB buffers):
	// close+reopen happens at one random point of about one sequence in ten
	reopenAt := -1
	if r.rng.Chance(1, 10) {
		reopenAt = r.rng.Intn(opsPerSequence)
	}
	for i := 0; i < opsPerSequence && !r.stop; i++ {
		if i == reopenAt {
			r.opReopen()
		}
		r.step()
		ops++
	}
	if !r.stop {
		r.opIterator("(final)")
	}
	touched := make([]string, 0, len(r.mod.last))
	for k := range r.mod.last {
		touched = append(touched, k)
	}
	sort.Strings(touched)
	for _, k := range touched {
		if r.stop {
			break
		}
		r.logf("Get(%q) (final)", k)
		r.getOne([]byte(k))
	}
	if !r.stop {
		r.s.Count("sequences_completed", 1)
	}
	r.s.Count("sequences", 1)
	return ops
}

// runCase is one case: sequencesPerCase sequences over the same backends.
// sample is the beginning of the first sequence, for the evidence file.
func runCase(s sink, rng *ev.Rand, bs []*backend) (ops int, sample []string) {
	r := &runner{s: s, rng: rng, bs: bs, mod: newModel()}
	for q := 0; q < sequencesPerCase && !r.stop; q++ {
		if q > 0 {
			r.clearAll(q + 1)
			if r.stop {
				break
			}
		}
		ops += r.sequence()
		if q == 0 {
			sample = append(sample, r.trace...)
			if len(sample) > 14 {
				sample = sample[:14]
			}
		}
	}
	return ops, sample
}

// ---------------------------------------------------------------- semantics-info

// semanticsInfo measures the differences between the two backends that are NOT
// part of the oracle because no caller in /repo/database can observe them.
// Everything here is a counter (info_same:* / info_diff:*), never a violation.
func semanticsInfo(c *ev.Case, mem, lvl dbm.DB) {
	both := func(name string, f func(db dbm.DB) string) {
		a, b := f(mem), f(lvl)
		if a == b {
			c.Count("info_same:"+name+" both="+a, 1)
		} else {
			c.Count("info_diff:"+name+" MemDB="+a+" GoLevelDB="+b, 1)
		}
	}
	fill := func(db dbm.DB) {
		for _, kv := range [][2]string{{"", "E"}, {"a", "1"}, {"ab", "2"}, {"b", "3"}, {"ba", "4"}, {"c", "5"}} {
			db.Set([]byte(kv[0]), []byte(kv[1]))
		}
	}
	fill(mem)
	fill(lvl)
	isNil := func(v []byte) string {
		if v == nil {
			return "nil"
		}
		return fmt.Sprintf("%q", v)
	}
	both("Set(k,nil);Get(k)", func(db dbm.DB) string {
		db.Set([]byte("n"), nil)
		defer db.Delete([]byte("n"))
		return isNil(db.Get([]byte("n")))
	})
	both("Set(k,[]byte{});Get(k)", func(db dbm.DB) string {
		db.Set([]byte("n"), []byte{})
		defer db.Delete([]byte("n"))
		return isNil(db.Get([]byte("n")))
	})
	both("caller-mutates-value-buffer-after-Set", func(db dbm.DB) string {
		buf := []byte("v1")
		db.Set([]byte("n"), buf)
		buf[0] = 'X'
		defer db.Delete([]byte("n"))
		return isNil(db.Get([]byte("n")))
	})
	both("caller-mutates-Get-result", func(db dbm.DB) string {
		db.Set([]byte("n"), []byte("v1"))
		v := db.Get([]byte("n"))
		v[0] = 'Y'
		defer db.Delete([]byte("n"))
		return isNil(db.Get([]byte("n")))
	})
	both("caller-mutates-key-buffer-between-batch.Set-and-Write", func(db dbm.DB) string {
		kb := []byte("na")
		bt := db.NewBatch()
		bt.Set(kb, []byte("v"))
		kb[1] = 'z'
		bt.Write()
		defer db.Delete([]byte("na"))
		defer db.Delete([]byte("nz"))
		return "na=" + isNil(db.Get([]byte("na"))) + ",nz=" + isNil(db.Get([]byte("nz")))
	})
	kv := func(it dbm.Iterator) string { return fmt.Sprintf("(%q,%q)", it.Key(), it.Value()) }
	both("Iterator():Key/Value-before-first-Next(empty-key-stored)", func(db dbm.DB) string { it := db.Iterator(); defer it.Release(); return kv(it) })
	both("IteratorPrefixWithStart(b,nil):Key/Value-before-first-Next(empty-key-stored)", func(db dbm.DB) string {
		it := db.IteratorPrefixWithStart([]byte("b"), nil, false)
		defer it.Release()
		return kv(it)
	})
	both("IteratorPrefix(b):Key/Value-after-exhaustion", func(db dbm.DB) string {
		it := db.IteratorPrefix([]byte("b"))
		defer it.Release()
		for it.Next() {
		}
		return kv(it) + fmt.Sprintf(",Next-again=%v", it.Next())
	})
	both("Iterator().Seek(hit)", func(db dbm.DB) string {
		it := db.Iterator()
		defer it.Release()
		ok := it.Seek([]byte("b"))
		return fmt.Sprintf("%v,%s", ok, kv(it))
	})
	both("Iterator().Seek(between)", func(db dbm.DB) string {
		it := db.Iterator()
		defer it.Release()
		ok := it.Seek([]byte("aa"))
		return fmt.Sprintf("%v,%s", ok, kv(it))
	})
	both("Iterator().Seek(hit);Seek(miss)", func(db dbm.DB) string {
		it := db.Iterator()
		defer it.Release()
		it.Seek([]byte("b"))
		ok := it.Seek([]byte("zz"))
		return fmt.Sprintf("%v,%s,Next=%v", ok, kv(it), it.Next())
	})
	rev := func(p, s []byte) func(db dbm.DB) string {
		return func(db dbm.DB) string {
			o := consume(db.IteratorPrefixWithStart(p, s, true), nil)
			return o.render(true)
		}
	}
	both("reverse:IteratorPrefixWithStart(a,nil,true)", rev([]byte("a"), nil))
	both("reverse:IteratorPrefixWithStart(a,ab,true)", rev([]byte("a"), []byte("ab")))
	both("reverse:IteratorPrefixWithStart(b,zz,true)", rev([]byte("b"), []byte("zz")))
	both("write-during-iteration:Set-of-a-later-key-is-seen-by-Value()", func(db dbm.DB) string {
		it := db.IteratorPrefix([]byte("b"))
		defer it.Release()
		defer db.Set([]byte("ba"), []byte("4"))
		it.Next()
		db.Set([]byte("ba"), []byte("NEW"))
		it.Next()
		return kv(it)
	})
	both("write-during-iteration:Delete-of-a-later-key", func(db dbm.DB) string {
		it := db.IteratorPrefix([]byte("b"))
		defer it.Release()
		defer db.Set([]byte("ba"), []byte("4"))
		it.Next()
		db.Delete([]byte("ba"))
		ok := it.Next()
		return fmt.Sprintf("Next=%v,%s", ok, kv(it))
	})
}

// ---------------------------------------------------------------- test

func openLevel(dir string) (*dbm.GoLevelDB, error) { return dbm.NewGoLevelDB("c20", dir) }

func TestC20(t *testing.T) {
	r := ev.Start(t, "C20")
	defer r.Finish()
	r.Rule("one case = 8 random sequences of 60 operations on one store, emptied in between by Iterator()+Delete (Get, Set, SetSync, Delete, DeleteSync, batch Set/Delete/Write incl. same key twice, dropped batches and direct writes between build and Write, Iterator, IteratorPrefix, iterate-and-delete, IteratorPrefixWithStart forward with start nil/before/at/inside-hit/inside-miss/after/beyond the prefix range, close+reopen of GoLevelDB) over keys of length <= 4 from the alphabet {00,a,b,c,ff} (empty key included, keys derived from stored keys so prefixes are shared) and values of 0..6 bytes; every sequence ends with a full scan and a Get of every key ever written. distinct = (operation, start-position class / last-write kind / batch shape, prefix length, result-size class)")
	r.Assume("the sorted-map model of this package defines the contract: Get==nil iff absent; iterators yield the keys having the prefix in byte order with their current values; IteratorPrefixWithStart(prefix,start!=nil,false) is positioned at the first key of the prefix range >= start (start before the range = start of the range) and Key()/Value() are empty when there is none; when MemDB and GoLevelDB both differ from the model in the same way the run is inconclusive instead of a violation")
	r.Assume("only access patterns used by callers in /repo are judged (see file comment); reverse iteration, Seek misses, reads before the first Next() of an un-started iterator or after exhaustion, nil values and buffer aliasing are reported as info_* counters only")
	root := t.TempDir()

	// quick 250 cases = 2000 sequences x 60 ops, thorough 25000 cases = 200000 sequences
	r.Cases("sequences", r.N(250, 25000), func(c *ev.Case) {
		dir, err := os.MkdirTemp(root, "seq")
		if err != nil {
			c.Inconclusive("temp dir: %v", err)
			return
		}
		defer os.RemoveAll(dir)
		lvl, err := openLevel(dir)
		if err != nil {
			c.Inconclusive("open GoLevelDB: %v", err)
			return
		}
		lb := &backend{name: "GoLevelDB", db: lvl, reopen: func() (dbm.DB, error) { return openLevel(dir) }}
		defer func() { lb.db.Close() }()
		bs := []*backend{
			{name: "MemDB", db: dbm.NewMemDB()},
			lb,
			{name: "SortedDB", db: newSortedDB(faultNone), harness: true},
		}
		c.Journal("8 random dbm.DB operation sequences on MemDB / GoLevelDB / SortedDB (deterministic in the case index)")
		n, sample := runCase(c, c.Rand, bs)
		c.Eval(int64(n))
		if c.WantSample() {
			c.Sample(map[string]interface{}{"first_operations_of_the_case": sample, "operations_in_case": n})
		}
	})

	r.Cases("semantics-info", 1, func(c *ev.Case) {
		dir, err := os.MkdirTemp(root, "info")
		if err != nil {
			c.Inconclusive("temp dir: %v", err)
			return
		}
		defer os.RemoveAll(dir)
		lvl, err := openLevel(dir)
		if err != nil {
			c.Inconclusive("open GoLevelDB: %v", err)
			return
		}
		defer lvl.Close()
		semanticsInfo(c, dbm.NewMemDB(), lvl)
	})

	nodeHistories(r)


	for _, op := range []string{"Set", "SetSync", "Delete", "DeleteSync", "Get", "batch.Write", "Iterator", "IteratorPrefix", "IteratorPrefixWithStart", "IteratorPrefix+Delete", "IteratorPrefix+batch.Delete", "Iterator+Delete(clear)", "reopen"} {
		r.Floor("op:"+op, 20)
	}
	for _, cl := range startClasses {
		r.Floor("start:"+cl, 100)
	}
	for _, n := range []string{"get_present", "get_absent", "get_present_empty_value", "write_empty_value", "write_empty_key", "delete_present", "delete_absent",
		"batch_set", "batch_delete", "batch_same_key_twice", "batch_dropped", "batch_interleaved_direct_write", "iter_nonempty",
		"prefix_selects_proper_subset", "start_with_keys_beyond_prefix_present"} {
		r.Floor(n, 50)
	}
}
