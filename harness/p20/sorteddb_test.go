// A small, obviously-correct sorted-map implementation of dbm.DB (the contract
// is the one GoLevelDB implements and /repo/database relies on), plus
// single-fault mutants of it.  Two uses:
//   - third backend of the C20 differential ("SortedDB"): the harness's own
//     in-memory store is itself validated against GoLevelDB and the model;
//   - TestC20OracleSelfCheck: every mutant must be caught by the C20 oracle in a
//     quick-tier number of sequences (sensitivity of the monitor).
package p20

import (
	"bytes"
	"sort"
	"strings"
	"sync"

	dbm "github.com/bytom/bytom/database/leveldb"
)

type fault int

const (
	faultNone               fault = iota
	faultStartIgnoresPrefix       // IteratorPrefixWithStart forgets the upper bound of the prefix
	faultStartNoClamp             // start < prefix is not clamped to the prefix
	faultStartSkipsFirst          // start-bounded iterator is positioned one entry too far
	faultPrefixIsContains         // IteratorPrefix matches the prefix anywhere in the key
	faultPrefixDropsExact         // IteratorPrefix drops the key equal to the prefix
	faultBatchDeleteNoop          // Batch.Delete is not applied
	faultBatchOrder               // batch applied in reverse order
	faultDeleteSyncNoop           // DeleteSync does nothing
	faultEmptyValueAbsent         // Get reports nil for an empty value
	faultIterStaleValue           // iterator returns the value of the previous write of that key
	faultSetSyncPrefixOnly        // SetSync truncates values to 1 byte
	faultIterUnsorted             // iterator swaps the first two entries
)

var faultNames = map[fault]string{
	faultStartIgnoresPrefix: "start-ignores-prefix", faultStartNoClamp: "start-no-clamp", faultStartSkipsFirst: "start-skips-first",
	faultPrefixIsContains: "prefix-is-contains", faultPrefixDropsExact: "prefix-drops-exact", faultBatchDeleteNoop: "batch-delete-noop",
	faultBatchOrder: "batch-order", faultDeleteSyncNoop: "deletesync-noop", faultEmptyValueAbsent: "empty-value-absent",
	faultIterStaleValue: "iter-stale-value", faultSetSyncPrefixOnly: "setsync-truncates", faultIterUnsorted: "iter-unsorted",
}

type sortedDB struct {
	mu    sync.Mutex
	m     map[string][]byte
	prev  map[string][]byte
	fault fault
}

func newSortedDB(f fault) *sortedDB {
	return &sortedDB{m: map[string][]byte{}, prev: map[string][]byte{}, fault: f}
}

func cp(b []byte) []byte {
	o := make([]byte, len(b))
	copy(o, b)
	return o
}

func (d *sortedDB) put(k, v []byte) {
	if old, ok := d.m[string(k)]; ok {
		d.prev[string(k)] = old
	}
	d.m[string(k)] = cp(v)
}

func (d *sortedDB) Get(k []byte) []byte {
	d.mu.Lock()
	defer d.mu.Unlock()
	v, ok := d.m[string(k)]
	if !ok {
		return nil
	}
	if d.fault == faultEmptyValueAbsent && len(v) == 0 {
		return nil
	}
	return cp(v)
}

func (d *sortedDB) Set(k, v []byte) { d.mu.Lock(); d.put(k, v); d.mu.Unlock() }
func (d *sortedDB) SetSync(k, v []byte) {
	if d.fault == faultSetSyncPrefixOnly && len(v) > 1 {
		v = v[:1]
	}
	d.Set(k, v)
}
func (d *sortedDB) Delete(k []byte) { d.mu.Lock(); delete(d.m, string(k)); d.mu.Unlock() }
func (d *sortedDB) DeleteSync(k []byte) {
	if d.fault == faultDeleteSyncNoop {
		return
	}
	d.Delete(k)
}
func (d *sortedDB) Close()                   {}
func (d *sortedDB) Print()                   {}
func (d *sortedDB) Stats() map[string]string { return map[string]string{"database.type": "sortedDB"} }

type sortedBatch struct {
	d   *sortedDB
	ops []struct {
		del  bool
		k, v []byte
	}
}

func (d *sortedDB) NewBatch() dbm.Batch { return &sortedBatch{d: d} }
func (b *sortedBatch) Set(k, v []byte) {
	b.ops = append(b.ops, struct {
		del  bool
		k, v []byte
	}{false, cp(k), cp(v)})
}
func (b *sortedBatch) Delete(k []byte) {
	b.ops = append(b.ops, struct {
		del  bool
		k, v []byte
	}{true, cp(k), nil})
}
func (b *sortedBatch) Write() {
	b.d.mu.Lock()
	defer b.d.mu.Unlock()
	ops := b.ops
	if b.d.fault == faultBatchOrder {
		ops = nil
		for i := len(b.ops) - 1; i >= 0; i-- {
			ops = append(ops, b.ops[i])
		}
	}
	for _, o := range ops {
		if o.del {
			if b.d.fault != faultBatchDeleteNoop {
				delete(b.d.m, string(o.k))
			}
		} else {
			b.d.put(o.k, o.v)
		}
	}
}

// sortedIter is a snapshot iterator with the GoLevelDB positioning contract:
// un-positioned after creation (Key/Value empty), positioned AT the first entry
// >= start when a start is given, empty Key/Value once exhausted.
type sortedIter struct {
	keys []string
	vals [][]byte
	pos  int // -1 before first, len(keys) after last
	rev  bool
}

func (d *sortedDB) snapshot(match func(k string) bool) *sortedIter {
	d.mu.Lock()
	defer d.mu.Unlock()
	it := &sortedIter{pos: -1}
	for k := range d.m {
		if match(k) {
			it.keys = append(it.keys, k)
		}
	}
	sort.Strings(it.keys)
	if d.fault == faultIterUnsorted && len(it.keys) >= 2 {
		it.keys[0], it.keys[1] = it.keys[1], it.keys[0]
	}
	for _, k := range it.keys {
		v := d.m[k]
		if p, ok := d.prev[k]; ok && d.fault == faultIterStaleValue {
			v = p
		}
		it.vals = append(it.vals, cp(v))
	}
	return it
}

func (d *sortedDB) Iterator() dbm.Iterator { return d.snapshot(func(string) bool { return true }) }

func (d *sortedDB) IteratorPrefix(p []byte) dbm.Iterator {
	return d.snapshot(func(k string) bool {
		if d.fault == faultPrefixIsContains {
			return strings.Contains(k, string(p))
		}
		if d.fault == faultPrefixDropsExact && k == string(p) {
			return false
		}
		return strings.HasPrefix(k, string(p))
	})
}

func (d *sortedDB) IteratorPrefixWithStart(p, start []byte, rev bool) dbm.Iterator {
	it := d.snapshot(func(k string) bool {
		switch d.fault {
		case faultStartIgnoresPrefix:
			return strings.HasPrefix(k, string(p)) || k > string(p)
		case faultStartNoClamp:
			if start != nil && bytes.Compare(start, p) < 0 {
				return k >= string(start) && (strings.HasPrefix(k, string(p)) || k < string(p))
			}
		}
		return strings.HasPrefix(k, string(p))
	})
	it.rev = rev
	if rev {
		it.pos = len(it.keys)
	}
	if start != nil {
		if !it.Seek(start) && rev {
			it.pos = len(it.keys)
		}
		if d.fault == faultStartSkipsFirst && it.pos >= 0 && it.pos < len(it.keys) {
			it.pos++
		}
	}
	return it
}

func (it *sortedIter) valid() bool { return it.pos >= 0 && it.pos < len(it.keys) }
func (it *sortedIter) Next() bool {
	if it.rev {
		if it.pos >= 0 {
			it.pos--
		}
	} else if it.pos < len(it.keys) {
		it.pos++
	}
	return it.valid()
}
func (it *sortedIter) Key() []byte {
	if !it.valid() {
		return []byte{}
	}
	return []byte(it.keys[it.pos])
}
func (it *sortedIter) Value() []byte {
	if !it.valid() {
		return []byte{}
	}
	return cp(it.vals[it.pos])
}
func (it *sortedIter) Seek(point []byte) bool {
	i := sort.SearchStrings(it.keys, string(point))
	if i >= len(it.keys) {
		it.pos = len(it.keys)
		return false
	}
	it.pos = i
	return true
}
func (it *sortedIter) Release()     {}
func (it *sortedIter) Error() error { return nil }
