package p20

import (
	"encoding/binary"
	"fmt"
	"runtime"
	"sync"
	"sync/atomic"
	"testing"

	dbm "github.com/bytom/bytom/database/leveldb"

	"verif/internal/ev"
)

// TestC20Concurrent: the two backends are interchangeable also for a reader that runs while a
// writer commits batches (the node's store commits SaveChainStatus as one batch while the API, the
// wallet and the peers read).  The same writer/reader program runs on MemDB and on GoLevelDB.  A
// batch is applied as a whole: every batch g sets all keys of a group to the value g (g grows) and
// moves a marker (sets marker[g], deletes marker[g-1]).  A reader reads the keys of the group with
// single Gets IN THE ORDER THE BATCH LISTS THEM.  Whatever the schedule:
//
//	later key never older: if key i shows g, a Get of key j>i issued afterwards shows >= g
//	                       (the batch that wrote g to key i had written g to key j too)
//	moved marker:          if marker[g] is present, a Get of marker[g-1] issued afterwards finds nothing
//
// Only Gets are judged (MemDB's iterators read values live by design; GoLevelDB's are snapshots:
// that difference is recorded by the sequential run's semantics-info, not here).  The driver runs
// this function in a race-detector build as an extra run of C20.
func TestC20Concurrent(t *testing.T) {
	r := ev.Start(t, "C20")
	defer r.Finish()
	base := t.TempDir()
	r.Cases("concurrent", r.N(24, 800), func(c *ev.Case) {
		rng := c.Rand
		backend := []string{"memdb", "goleveldb"}[c.Index%2]
		var db dbm.DB
		if backend == "memdb" {
			db = dbm.NewMemDB()
		} else {
			l, err := openLevel(fmt.Sprintf("%s/c%d", base, c.Index))
			if err != nil {
				c.Inconclusive("leveldb: %v", err)
				return
			}
			db = l
		}
		defer db.Close()
		procs := []int{2, 4, 8, 16}[(c.Index/2)%4]
		defer runtime.GOMAXPROCS(runtime.GOMAXPROCS(procs))
		nkeys := rng.Range(3, 40)
		batches := rng.Range(150, 400)
		key := func(i int) []byte { return []byte(fmt.Sprintf("g/%04d", i)) }
		marker := func(g uint64) []byte { return []byte(fmt.Sprintf("m/%08d", g)) }
		val := func(g uint64) []byte { b := make([]byte, 8); binary.BigEndian.PutUint64(b, g); return b }
		gen := func(b []byte) uint64 {
			if len(b) != 8 {
				return 0
			}
			return binary.BigEndian.Uint64(b)
		}
		// generation 1 is written before any reader starts
		b0 := db.NewBatch()
		for i := 0; i < nkeys; i++ {
			b0.Set(key(i), val(1))
		}
		b0.Set(marker(1), val(1))
		b0.Write()
		type miss struct{ key, detail string }
		var (
			mu     sync.Mutex
			misses []miss
			reads  int64
			mixed  int64 // scans that saw two generations (legitimate: the batch committed in between)
			stop   = make(chan struct{})
			wg     sync.WaitGroup
		)
		report := func(k, d string) {
			mu.Lock()
			misses = append(misses, miss{k, d})
			mu.Unlock()
		}
		for g := 0; g < 4; g++ {
			gr := rng.Fork()
			wg.Add(1)
			go func() {
				defer wg.Done()
				lo := uint64(1) // markers only move up
				for {
					select {
					case <-stop:
						return
					default:
					}
					if gr.Chance(1, 3) {
						// marker: find the present one, then look behind it
						var cur uint64
						for probe := lo; probe <= uint64(batches)+1; probe++ {
							if v := db.Get(marker(probe)); v != nil {
								cur, lo = probe, probe
								break
							}
						}
						atomic.AddInt64(&reads, 1)
						if cur > 1 {
							if v := db.Get(marker(cur - 1)); v != nil {
								report("concurrent:"+backend+":moved-marker-seen-at-both-places", fmt.Sprintf("marker[%d] present, then marker[%d] still present: the batch that set the one deletes the other", cur, cur-1))
							}
						}
						continue
					}
					i := gr.Intn(nkeys - 1)
					gi := gen(db.Get(key(i)))
					j := i + 1 + gr.Intn(nkeys-1-i)
					gj := gen(db.Get(key(j)))
					atomic.AddInt64(&reads, 2)
					if gj < gi {
						report("concurrent:"+backend+":batch-seen-half-applied", fmt.Sprintf("key %d shows generation %d, key %d read afterwards shows the older generation %d (every batch sets both)", i, gi, j, gj))
					} else if gj > gi {
						atomic.AddInt64(&mixed, 1)
					}
				}
			}()
		}
		for g := uint64(2); g <= uint64(batches)+1; g++ {
			b := db.NewBatch()
			for i := 0; i < nkeys; i++ {
				b.Set(key(i), val(g))
			}
			b.Set(marker(g), val(g))
			b.Delete(marker(g - 1))
			b.Write()
			if g%16 == 0 {
				runtime.Gosched()
			}
		}
		close(stop)
		wg.Wait()
		// at rest: everything at the last generation, one marker
		last := uint64(batches) + 1
		for i := 0; i < nkeys; i++ {
			if g := gen(db.Get(key(i))); g != last {
				report("concurrent:"+backend+":final-state-wrong", fmt.Sprintf("key %d shows generation %d at rest, %d written", i, g, last))
			}
		}
		c.Eval(int64(batches))
		c.Count("concurrent_batches:"+backend, int64(batches))
		c.Count("concurrent_reads:"+backend, reads)
		c.Count("concurrent_reads_across_a_commit:"+backend, mixed)
		c.Distinct("concurrent %s procs=%d keys=%s", backend, procs, sizeClass(nkeys))
		seen := map[string]bool{}
		for _, m := range misses {
			if seen[m.key] {
				continue
			}
			seen[m.key] = true
			c.Violation(m.key, "a reader running while a batch is written sees the batch half applied (GoLevelDB applies a batch as a whole; the backends are to be interchangeable)",
				map[string]interface{}{"backend": backend, "detail": m.detail, "keys_per_batch": nkeys, "batches": batches, "gomaxprocs": procs, "occurrences_in_case": len(misses)})
		}
		if c.WantSample() {
			c.Sample(map[string]interface{}{"backend": backend, "keys_per_batch": nkeys, "batches": batches, "reads": reads, "reads_across_a_commit": mixed, "gomaxprocs": procs})
		}
	})
	for _, b := range []string{"memdb", "goleveldb"} {
		r.Floor("concurrent_batches:"+b, 1500)
		r.Floor("concurrent_reads:"+b, 5000)
		r.Floor("concurrent_reads_across_a_commit:"+b, 20)
	}
}
