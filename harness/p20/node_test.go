package p20

import (
	"bytes"
	"crypto/sha256"
	"encoding/hex"
	"fmt"
	"os"
	"sort"

	dbm "github.com/bytom/bytom/database/leveldb"
	"github.com/bytom/bytom/protocol/bc"

	"verif/internal/chainkit"
	"verif/internal/ev"
)

// node-level half of C20: the same history (random forked block tree with spends, votes,
// vetoes, contract registrations; random delivery order; votes of the federation; a
// restart in the middle) is run by a whole node on GoLevelDB and by a whole node on
// MemDB.  After every event the observable states must be identical.

func nodeState(nd *chainkit.Node, ids []bc.Hash) string {
	h := sha256.New()
	best := nd.Chain.BestBlockHeader()
	bh := best.Hash()
	fmt.Fprintf(h, "best %d %x;", best.Height, bh.Bytes())
	for i := uint64(0); i <= best.Height+2; i++ {
		if hdr, err := nd.Chain.GetHeaderByHeight(i); err == nil {
			hh := hdr.Hash()
			fmt.Fprintf(h, "%d:%x;", i, hh.Bytes())
		} else {
			fmt.Fprintf(h, "%d:-;", i)
		}
	}
	for _, id := range ids {
		id := id
		if e, err := nd.Store.GetUtxo(&id); err == nil {
			fmt.Fprintf(h, "%x/%d/%d/%v;", id.Bytes(), e.Type, e.BlockHeight, e.Spent)
		}
	}
	if f, err := nd.Chain.LastFinalizedHeader(); err == nil {
		fh := f.Hash()
		fmt.Fprintf(h, "fin %x;", fh.Bytes())
	}
	if j, err := nd.Chain.LastJustifiedHeader(); err == nil {
		jh := j.Hash()
		fmt.Fprintf(h, "jus %x;", jh.Bytes())
	}
	for _, n := range nd.Chain.VerifCasper().VerifTree() {
		fmt.Fprintf(h, "cp %x %d %d %d;", n.Hash.Bytes(), n.Height, n.Status, len(n.Links))
	}
	return fmt.Sprintf("h%d:%s %s", best.Height, chainkit.HashShort(bh), hex.EncodeToString(h.Sum(nil)[:8]))
}

func nodeHistories(r *ev.Run) {
	net := chainkit.Configure(chainkit.Params{Epoch: 4, Fed: 4, Local: -1, VotePending: 3, NKeys: 6})
	g := net.NewGenesis(14, 4)
	base, _ := os.MkdirTemp("", "c20n")
	defer os.RemoveAll(base)
	r.Cases("node-history", r.N(16, 640), func(c *ev.Case) {
		rng := c.Rand
		tr := net.NewTree(g)
		o := chainkit.DefaultGen(rng.Range(12, 30))
		if _, err := tr.Grow(rng, o); err != nil {
			c.Violation("harness:grow", "tree generator failed", err.Error())
			return
		}
		steps, _ := tr.GenScheduleFFG(rng, chainkit.FFGOpt{Byzantine: -1, VotePct: 85, EarlyVotePct: 10, BlockOrder: c.Index % 3, Duplicates: true, NodeKey: -1})
		var ids []bc.Hash
		for _, b := range tr.All {
			for _, tx := range b.B.Transactions {
				for _, u := range chainkit.Outputs(tx) {
					ids = append(ids, u.ID)
				}
			}
		}
		sort.Slice(ids, func(i, j int) bool { return bytes.Compare(ids[i].Bytes(), ids[j].Bytes()) < 0 })
		lvl, err := net.NewNode(fmt.Sprintf("%s/l%d", base, c.Index), g)
		if err != nil {
			c.Inconclusive("node: %v", err)
			return
		}
		defer func() { lvl.Destroy() }()
		mdb := dbm.NewMemDB()
		mem, err := net.NewNodeOnDB(mdb, g)
		if err != nil {
			c.Violation("node:start:MemDB", "a node cannot start on the in-memory backend", map[string]interface{}{"error": err.Error()})
			return
		}
		c.Distinct("node|%s|%d", tr.Shape(), len(steps))
		restartAt := rng.Intn(len(steps))
		for si, s := range steps {
			e1 := lvl.Deliver(net, s, rng.Fork())
			e2 := mem.Deliver(net, s, rng.Fork())
			if !lvl.Settle(net, tr, nil) || !mem.Settle(net, tr, nil) {
				c.Inconclusive("engine did not settle")
				return
			}
			if (e1 == nil) != (e2 == nil) {
				c.Violation("node:event-result-differs", "the same event is accepted on one backend and refused on the other",
					map[string]interface{}{"event": s.String(), "goleveldb": fmt.Sprint(e1), "memdb": fmt.Sprint(e2), "shape": tr.Shape()})
				return
			}
			a, b := nodeState(lvl, ids), nodeState(mem, ids)
			c.Count("node_states_compared", 1)
			if a != b {
				c.Violation("node:observable-state-differs", "after the same history a node on MemDB and a node on GoLevelDB differ (best block / index / UTXO set / finality / checkpoint tree)",
					map[string]interface{}{"step": si, "event": s.String(), "goleveldb": a, "memdb": b, "shape": tr.Shape()})
				return
			}
			if si == restartAt {
				l2, err := net.Reopen(lvl, g)
				if err != nil {
					c.Violation("node:restart:GoLevelDB", "restart failed", map[string]interface{}{"error": err.Error()})
					return
				}
				lvl = l2
				m2, err := net.NewNodeOnDB(mdb, g)
				if err != nil {
					c.Violation("node:restart:MemDB", "a new chain over the same in-memory database fails to start", map[string]interface{}{"error": err.Error(), "step": si, "shape": tr.Shape()})
					return
				}
				mem = m2
				c.Count("node_restarts", 1)
				if a, b := nodeState(lvl, ids), nodeState(mem, ids); a != b {
					c.Violation("node:observable-state-differs:after-restart", "after a restart the two backends give different node states",
						map[string]interface{}{"step": si, "goleveldb": a, "memdb": b, "shape": tr.Shape()})
					return
				}
			}
		}
		if c.WantSample() {
			c.Sample(map[string]interface{}{"node_history_tree": tr.Shape(), "steps": len(steps), "final": nodeState(lvl, ids)})
		}
	})
	r.Floor("node_states_compared", 200)
	r.Floor("node_restarts", 8)
}
