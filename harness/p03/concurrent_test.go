package p03

import (
	"bytes"
	"fmt"
	"sync"
	"testing"

	"github.com/bytom/bytom/protocol/bc"
	"github.com/bytom/bytom/protocol/bc/types"

	"verif/internal/ev"
	"verif/internal/txgen"
)

// TestC03Concurrent: identity is a function of content for every schedule.  A node maps
// transactions and hashes headers on many goroutines at once (peers, API, proposer, wallet);
// the IDs must be the ones a single-threaded mapping of the same content gives.  The driver
// runs this function in a race-detector build as an extra run of C03: the oracle below
// compares with the sequential reference, the race detector watches the hashing path for
// shared mutable state.
func TestC03Concurrent(t *testing.T) {
	r := ev.Start(t, "C03")
	defer r.Finish()

	const workers = 8
	r.Cases("concurrent", r.N(24, 600), func(c *ev.Case) {
		type obj struct {
			tx     *types.TxData
			raw    []byte // wire form of tx
			bh     *types.BlockHeader
			blk    *types.Block
			id     bc.Hash   // sequential reference
			outIDs []bc.Hash // sequential reference (tx only)
		}
		var objs []*obj
		for i := 0; i < 16; i++ {
			x := txgen.TxData(c.Rand)
			raw, err := x.MarshalText()
			if err != nil {
				continue
			}
			m := types.MapTx(txgen.CloneTxData(x))
			o := &obj{tx: x, raw: raw, id: m.ID}
			for _, id := range m.ResultIds {
				o.outIDs = append(o.outIDs, *id)
			}
			objs = append(objs, o)
		}
		for i := 0; i < 6; i++ {
			x := txgen.BlockHeader(c.Rand)
			objs = append(objs, &obj{bh: x, id: txgen.CloneHeader(x).Hash()})
		}
		for i := 0; i < 2; i++ {
			x := txgen.Block(c.Rand)
			objs = append(objs, &obj{blk: x, id: txgen.CloneBlock(x).Hash()})
		}
		rounds := 6
		type miss struct {
			kind, how string
			want, got bc.Hash
			obj       int
		}
		var (
			mu     sync.Mutex
			misses []miss
			n      = map[string]int64{}
			start  = make(chan struct{})
			wg     sync.WaitGroup
		)
		for w := 0; w < workers; w++ {
			// every worker owns private copies: only state shared inside the code under test is shared
			mine := make([]*obj, len(objs))
			for i, o := range objs {
				cp := &obj{id: o.id, outIDs: o.outIDs, raw: append([]byte{}, o.raw...)}
				switch {
				case o.tx != nil:
					cp.tx = txgen.CloneTxData(o.tx)
				case o.bh != nil:
					cp.bh = txgen.CloneHeader(o.bh)
				default:
					cp.blk = txgen.CloneBlock(o.blk)
				}
				mine[i] = cp
			}
			wg.Add(1)
			go func(w int) {
				defer wg.Done()
				var local []miss
				cnt := map[string]int64{}
				<-start
				for rd := 0; rd < rounds; rd++ {
					for k := range mine {
						i := (k*7 + w*3 + rd) % len(mine)
						o := mine[i]
						switch {
						case o.tx != nil && (w+rd)%2 == 0:
							m := types.MapTx(o.tx)
							cnt["map"]++
							if m.ID != o.id {
								local = append(local, miss{"tx-id", "MapTx", o.id, m.ID, i})
							}
							for j, id := range m.ResultIds {
								if j < len(o.outIDs) && *id != o.outIDs[j] {
									local = append(local, miss{"output-id", "MapTx", o.outIDs[j], *id, i})
								}
							}
						case o.tx != nil:
							// the way a peer's transaction arrives: decode, then map
							tx := &types.Tx{}
							if err := tx.UnmarshalText(o.raw); err != nil {
								local = append(local, miss{"tx-decode", err.Error(), o.id, bc.Hash{}, i})
								continue
							}
							cnt["decode+map"]++
							if tx.ID != o.id {
								local = append(local, miss{"tx-id", "UnmarshalText", o.id, tx.ID, i})
							}
						case o.bh != nil:
							cnt["header"]++
							if h := o.bh.Hash(); h != o.id {
								local = append(local, miss{"header-hash", "Hash", o.id, h, i})
							}
						default:
							cnt["block"]++
							if h := o.blk.Hash(); h != o.id {
								local = append(local, miss{"block-hash", "Hash", o.id, h, i})
							}
							txs := make([]*bc.Tx, len(o.blk.Transactions))
							for j, tx := range o.blk.Transactions {
								txs[j] = types.MapTx(&tx.TxData)
								if txs[j].ID != tx.ID {
									local = append(local, miss{"tx-id", "block transaction remapped", tx.ID, txs[j].ID, i})
								}
							}
							if root, err := types.TxMerkleRoot(txs); err == nil && !bytes.Equal(root.Bytes(), o.blk.TransactionsMerkleRoot.Bytes()) {
								local = append(local, miss{"merkle-root", "TxMerkleRoot", o.blk.TransactionsMerkleRoot, root, i})
							}
						}
					}
				}
				mu.Lock()
				misses = append(misses, local...)
				for k, v := range cnt {
					n[k] += v
				}
				mu.Unlock()
			}(w)
		}
		close(start)
		wg.Wait()
		var total int64
		for k, v := range n {
			c.Count("concurrent_"+k, v)
			total += v
		}
		c.Eval(total)
		c.Count("concurrent_identities_compared", total)
		c.Distinct("concurrent/%d-workers/%d-objects", workers, len(objs))
		seen := map[string]bool{}
		for _, m := range misses {
			key := "concurrent:" + m.kind + "-differs-from-sequential"
			if seen[key] {
				continue
			}
			seen[key] = true
			violate(c, key, "the same content hashed on concurrent goroutines gets an identity different from the single-threaded one",
				map[string]interface{}{"via": m.how, "object": m.obj, "sequential": hs(m.want), "concurrent": hs(m.got), "misses_in_case": len(misses), "workers": workers})
		}
		if c.WantSample() {
			c.Sample(map[string]interface{}{"workers": workers, "objects": len(objs), "rounds": rounds, "compared": total, "mismatches": len(misses), "per_path": fmt.Sprint(n)})
		}
	})
	r.Floor("concurrent_identities_compared", 5000)
	r.Floor("concurrent_map", 1000)
	r.Floor("concurrent_decode+map", 1000)
	r.Floor("concurrent_header", 500)
}
