package p03

import (
	"crypto/sha256"
	"sort"
	"strings"
	"testing"

	"github.com/bytom/bytom/protocol/bc"
	"github.com/bytom/bytom/protocol/bc/types"

	"verif/internal/ev"
	"verif/internal/txgen"
)

// TestOracleSensitivity substitutes deliberately wrong ID functions (the real
// MapTx / Hash applied to a projection of the value, i.e. what a dropped field
// in writeForHash or in the mapping would compute) and requires the quick-tier
// workload + oracle to raise an alarm that is not one of the two findings of the
// unchanged tree; the faithful functions must raise nothing else.
func TestOracleSensitivity(t *testing.T) {
	realTx, realHdr := txID, headerHash
	defer func() { txID, headerHash = realTx, realHdr }()

	mix := func(id bc.Hash, extra ...[]byte) bc.Hash {
		h := sha256.New()
		h.Write(id.Bytes())
		for _, e := range extra {
			h.Write([]byte{byte(len(e))})
			h.Write(e)
		}
		var b [32]byte
		copy(b[:], h.Sum(nil))
		return bc.NewHash(b)
	}
	txBugs := map[string]func(tx *types.TxData) bc.Hash{
		"": realTx,
		"output-statedata-dropped": func(tx *types.TxData) bc.Hash {
			c := txgen.CloneTxData(tx)
			for _, o := range c.Outputs {
				o.StateData = nil
			}
			return realTx(c)
		},
		"statedata-elements-joined": func(tx *types.TxData) bc.Hash {
			c := txgen.CloneTxData(tx)
			for _, o := range c.Outputs {
				var j []byte
				for _, e := range o.StateData {
					j = append(j, e...)
				}
				o.StateData = [][]byte{j}
			}
			return realTx(c)
		},
		"timerange-dropped": func(tx *types.TxData) bc.Hash { c := txgen.CloneTxData(tx); c.TimeRange = 0; return realTx(c) },
		"source-position-dropped": func(tx *types.TxData) bc.Hash {
			c := txgen.CloneTxData(tx)
			for _, in := range c.Inputs {
				switch t := in.TypedInput.(type) {
				case *types.SpendInput:
					t.SourcePosition = 0
				case *types.VetoInput:
					t.SourcePosition = 0
				}
			}
			return realTx(c)
		},
		"output-vote-key-dropped": func(tx *types.TxData) bc.Hash {
			c := txgen.CloneTxData(tx)
			for _, o := range c.Outputs {
				if v, ok := o.TypedOutput.(*types.VoteOutput); ok {
					v.Vote = nil
				}
			}
			return realTx(c)
		},
		"issuance-program-dropped": func(tx *types.TxData) bc.Hash {
			c := txgen.CloneTxData(tx)
			for _, in := range c.Inputs {
				if t, ok := in.TypedInput.(*types.IssuanceInput); ok {
					t.IssuanceProgram = nil
				}
			}
			return realTx(c)
		},
		"coinbase-arbitrary-dropped": func(tx *types.TxData) bc.Hash {
			c := txgen.CloneTxData(tx)
			for _, in := range c.Inputs {
				if t, ok := in.TypedInput.(*types.CoinbaseInput); ok {
					t.Arbitrary = nil
				}
			}
			return realTx(c)
		},
		"input-order-ignored": func(tx *types.TxData) bc.Hash {
			c := txgen.CloneTxData(tx)
			key := func(in *types.TxInput) string {
				d := contentDigest(&types.TxData{Inputs: []*types.TxInput{in}}, true, true)
				return string(d[:])
			}
			sort.SliceStable(c.Inputs, func(i, j int) bool { return key(c.Inputs[i]) < key(c.Inputs[j]) })
			return realTx(c)
		},
		"last-program-byte-dropped": func(tx *types.TxData) bc.Hash {
			c := txgen.CloneTxData(tx)
			for _, o := range c.Outputs {
				if n := len(o.ControlProgram); n > 1 {
					o.ControlProgram[n-1] = 0
				}
			}
			return realTx(c)
		},
		"arguments-hashed": func(tx *types.TxData) bc.Hash {
			var extra [][]byte
			for _, in := range tx.Inputs {
				extra = append(extra, in.Arguments()...)
			}
			return mix(realTx(tx), extra...)
		},
		"serialized-size-hashed": func(tx *types.TxData) bc.Hash {
			return mix(realTx(tx), []byte{byte(tx.SerializedSize), byte(tx.SerializedSize >> 8), byte(tx.SerializedSize >> 16)})
		},
	}
	hdrBugs := map[string]func(bh *types.BlockHeader) bc.Hash{
		"":                         realHdr,
		"header-timestamp-dropped": func(bh *types.BlockHeader) bc.Hash { c := *bh; c.Timestamp = 0; return realHdr(&c) },
		"header-height-timestamp-commute": func(bh *types.BlockHeader) bc.Hash {
			c := *bh
			if c.Height > c.Timestamp {
				c.Height, c.Timestamp = c.Timestamp, c.Height
			}
			return realHdr(&c)
		},
		"block-witness-hashed": func(bh *types.BlockHeader) bc.Hash { return mix(realHdr(bh), bh.BlockWitness) },
		"suplinks-hashed": func(bh *types.BlockHeader) bc.Hash {
			var extra [][]byte
			for _, s := range bh.SupLinks {
				extra = append(extra, s.SourceHash.Bytes(), []byte{byte(s.SourceHeight)})
				extra = append(extra, s.Signatures[:]...)
			}
			return mix(realHdr(bh), extra...)
		},
	}

	run := func(name string) map[string]int {
		alarmMu.Lock()
		alarms = map[string]int{}
		alarmMu.Unlock()
		r := ev.Start(t, "C03-selftest-"+name)
		im, hm := idMap{}, hashMap{}
		r.Cases("directed", 2, func(c *ev.Case) { directed(c, im) })
		r.Cases("tx", 60, func(c *ev.Case) { checkTxMutations(c, im, txgen.TxData(c.Rand)) })
		r.Cases("header", 40, func(c *ev.Case) { checkHeaderMutations(c, hm, txgen.BlockHeader(c.Rand)) })
		out := map[string]int{}
		alarmMu.Lock()
		for k, v := range alarms {
			out[k] = v
		}
		alarmMu.Unlock()
		return out
	}
	unexpected := func(a map[string]int) []string {
		var l []string
		for k := range a {
			if k != keyBCRP && k != keyVote {
				l = append(l, k)
			}
		}
		sort.Strings(l)
		return l
	}
	for name, f := range txBugs {
		txID, headerHash = f, realHdr
		u := unexpected(run(name))
		if name == "" && len(u) != 0 {
			t.Errorf("faithful ID functions raised unexpected alarms: %v", u)
		}
		if name != "" && len(u) == 0 {
			t.Errorf("seeded fault %q not noticed", name)
		}
		t.Logf("tx fault %-28q alarms: %s", name, strings.Join(u, " "))
	}
	for name, f := range hdrBugs {
		if name == "" {
			continue
		}
		txID, headerHash = realTx, f
		u := unexpected(run(name))
		if len(u) == 0 {
			t.Errorf("seeded fault %q not noticed", name)
		}
		t.Logf("header fault %-32q alarms: %s", name, strings.Join(u, " "))
	}
}
