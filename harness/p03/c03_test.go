// C03 — transaction and block identity commit to all consensus content.
//
// Workload: seeded well-formed transactions, headers and blocks from
// verif/internal/txgen and, for each, the enumeration of single-field mutations
// (every field of every input and output in several ways, order and number of
// inputs / outputs, version, time range; arguments, witness suffixes, recorded
// size; header fields, block witness, supLinks; transaction list of a block).
//
// Oracle (observing types.MapTx(..).ID, BlockHeader.Hash(), types.TxMerkleRoot):
//
//	consensus content changed  ⇒ the ID changes
//	only witness data changed  ⇒ the ID does not change
//	run-wide injectivity: one ID never stands for two consensus contents
//
// "Consensus content" is computed by an independent model (contentDigest) that
// fixes the interpretation of DESIGN C03: an output whose program starts with
// OP_FAIL is a retirement; of it only asset and amount are consensus content,
// PLUS the contract bytes when the program is a BCRP registration (they feed the
// contract table, state.ContractViewpoint.ApplyBlock), PLUS type and vote key
// when it is a vote output (they feed the vote tally, state.Checkpoint.applyVotes).
// The free-form tail of a plain retirement, its state data and VM version are
// not consensus content: mutations of those are counted and reported as
// observations, never asserted.  Inputs of a transaction without outputs are
// unreachable from the header entry; such a transaction is invalid under every
// block version that exists (ErrEmptyResults), so these are observations too.
package p03

import (
	"crypto/sha256"
	"encoding/binary"
	"encoding/hex"
	"fmt"
	"io"
	"runtime/debug"
	"sort"
	"strings"
	"sync"
	"testing"

	"github.com/sirupsen/logrus"

	"github.com/bytom/bytom/consensus/bcrp"
	"github.com/bytom/bytom/protocol/bc"
	"github.com/bytom/bytom/protocol/bc/types"
	"github.com/bytom/bytom/protocol/state"
	"github.com/bytom/bytom/protocol/vm/vmutil"

	"verif/internal/ev"
	"verif/internal/txgen"
)

func TestMain(m *testing.M) {
	logrus.SetLevel(logrus.PanicLevel)
	logrus.SetOutput(io.Discard)
	// the workload allocates many short-lived small objects while the live heap
	// is a few MB: the default GC pacing would collect every few milliseconds
	debug.SetGCPercent(1000)
	m.Run()
}

// The observed functions; package variables only so that the sensitivity
// self-test (selftest_test.go) can substitute deliberately wrong ones.
var (
	txID       = func(tx *types.TxData) bc.Hash { return types.MapTx(tx).ID }
	headerHash = func(bh *types.BlockHeader) bc.Hash { return bh.Hash() }
)

// alarms counts oracle alarms per key (read by the self-test only).
var (
	alarmMu sync.Mutex
	alarms  = map[string]int{}
)

// isRetirement is the monitor's OWN definition of an unspendable (retirement) output: the control
// program starts with OP_FAIL.  It deliberately does not call vmutil.IsUnspendable of the tree under
// test: a tree that widens that predicate would widen the set of outputs the ID does not commit to, and
// a monitor that inherited the predicate would not notice.
func isRetirement(prog []byte) bool { return len(prog) > 0 && prog[0] == 0x6a }

func violate(c *ev.Case, key, what string, witness interface{}) {
	alarmMu.Lock()
	alarms[key]++
	alarmMu.Unlock()
	c.Violation(key, what, witness)
}

// ---------------------------------------------------------------- the content model

type dg [8]byte // truncated sha256: run-wide maps hold millions of entries

// hw serialises content unambiguously (every variable-length item is length
// prefixed).  The two optional extras of OP_FAIL-prefixed outputs are kept
// aside as cuts so that the four digest variants come from one pass.
type hw struct {
	buf  []byte
	cuts []cut
}

type cut struct {
	off  int
	mask uint8 // extraBCRP or extraVote
	data []byte
}

const (
	extraBCRP = 1
	extraVote = 2
)

func (w *hw) u64(v uint64)   { w.buf = binary.LittleEndian.AppendUint64(w.buf, v) }
func (w *hw) tag(s string)   { w.buf = append(append(w.buf, byte(len(s))), s...) }
func (w *hw) bytes(b []byte) { w.u64(uint64(len(b))); w.buf = append(w.buf, b...) }
func (w *hw) list(l [][]byte) {
	w.u64(uint64(len(l)))
	for _, e := range l {
		w.bytes(e)
	}
}
func (w *hw) hash(h bc.Hash) {
	w.u64(h.V0)
	w.u64(h.V1)
	w.u64(h.V2)
	w.u64(h.V3)
}
func (w *hw) asset(a *bc.AssetID) {
	if a == nil {
		w.tag("nil")
		return
	}
	w.hash(bc.Hash(*a))
}
func (w *hw) extra(mask uint8, tag string, b []byte) {
	x := &hw{}
	x.tag(tag)
	x.bytes(b)
	w.cuts = append(w.cuts, cut{len(w.buf), mask, x.buf})
}

// sum hashes the stream with the extras selected by enabled.
func (w *hw) sum(enabled uint8) (d dg) {
	h := sha256.New()
	prev := 0
	for _, c := range w.cuts {
		h.Write(w.buf[prev:c.off])
		prev = c.off
		if c.mask&enabled != 0 {
			h.Write(c.data)
		}
	}
	h.Write(w.buf[prev:])
	copy(d[:], h.Sum(nil))
	return d
}

func (w *hw) spendCommitment(sc *types.SpendCommitment) {
	w.hash(sc.SourceID)
	w.asset(sc.AssetId)
	w.u64(sc.Amount)
	w.u64(sc.SourcePosition)
	w.u64(sc.VMVersion)
	w.bytes(sc.ControlProgram)
	w.list(sc.StateData)
}

// contentStream serialises the consensus content of a transaction under the
// interpretation above.
func contentStream(tx *types.TxData) *hw {
	w := &hw{buf: make([]byte, 0, 1024)}
	w.u64(tx.Version)
	w.u64(tx.TimeRange)
	w.u64(uint64(len(tx.Inputs)))
	for _, in := range tx.Inputs {
		switch t := in.TypedInput.(type) {
		case *types.SpendInput:
			w.tag("spend")
			w.spendCommitment(&t.SpendCommitment)
		case *types.VetoInput:
			w.tag("veto")
			w.spendCommitment(&t.SpendCommitment)
			w.bytes(t.Vote)
		case *types.IssuanceInput:
			w.tag("issuance")
			w.bytes(t.Nonce)
			w.u64(t.Amount)
			w.bytes(t.AssetDefinition)
			w.u64(t.VMVersion)
			w.bytes(t.IssuanceProgram)
		case *types.CoinbaseInput:
			w.tag("coinbase")
			w.bytes(t.Arbitrary)
		}
	}
	w.u64(uint64(len(tx.Outputs)))
	for _, o := range tx.Outputs {
		vote, isVote := o.TypedOutput.(*types.VoteOutput)
		if isRetirement(o.ControlProgram) {
			w.tag("retire")
			w.asset(o.AssetId)
			w.u64(o.Amount)
			if bcrp.IsBCRPScript(o.ControlProgram) {
				if contract, err := bcrp.ParseContract(o.ControlProgram); err == nil {
					w.extra(extraBCRP, "bcrp", contract)
				}
			}
			if isVote {
				w.extra(extraVote, "vote", vote.Vote)
			}
			continue
		}
		if isVote {
			w.tag("voteout")
		} else {
			w.tag("output")
		}
		w.asset(o.AssetId)
		w.u64(o.Amount)
		w.u64(o.VMVersion)
		w.bytes(o.ControlProgram)
		w.list(o.StateData)
		if isVote {
			w.bytes(vote.Vote)
		}
	}
	return w
}

// contentDigest is the digest of the consensus content; withBCRP / withVote
// switch the two extras of OP_FAIL-prefixed outputs on and off: comparing the
// variants tells which part of the content two transactions differ in.
func contentDigest(tx *types.TxData, withBCRP, withVote bool) dg {
	var en uint8
	if withBCRP {
		en |= extraBCRP
	}
	if withVote {
		en |= extraVote
	}
	return contentStream(tx).sum(en)
}

type content struct{ full, noBCRP, noVote, neither dg }

func contentOf(tx *types.TxData) content {
	w := contentStream(tx)
	full := w.sum(extraBCRP | extraVote)
	if len(w.cuts) == 0 {
		return content{full, full, full, full}
	}
	return content{full, w.sum(extraVote), w.sum(extraBCRP), w.sum(0)}
}

const (
	keyBCRP = "txid:bcrp-registration-program-not-committed"
	keyVote = "txid:unspendable-vote-output-not-committed"
)

// uncommittedKeys names the defect class(es) when two different contents a, b
// have the same ID; generic is used when the difference is not confined to the
// extras of OP_FAIL-prefixed outputs.
func uncommittedKeys(a, b content, generic string) []string {
	switch {
	case a.noBCRP == b.noBCRP:
		return []string{keyBCRP}
	case a.noVote == b.noVote:
		return []string{keyVote}
	case a.neither == b.neither:
		return []string{keyBCRP, keyVote}
	}
	return []string{generic}
}

const (
	whatBCRP = "the transaction ID does not commit to the contract bytes of a BCRP registration output (OP_FAIL-prefixed outputs are mapped to a retirement entry without program), although ContractViewpoint.ApplyBlock registers exactly these bytes"
	whatVote = "the transaction ID does not commit to type / vote key of a vote output whose program is OP_FAIL-prefixed (mapped to a retirement entry), although Checkpoint.applyVotes adds its amount to that key's votes"
)

func whatOf(key string) string {
	switch key {
	case keyBCRP:
		return whatBCRP
	case keyVote:
		return whatVote
	}
	return "consensus content changed but the ID did not"
}

// ---------------------------------------------------------------- helpers

func txHex(tx *types.TxData) string {
	b, err := tx.MarshalText()
	if err != nil {
		return "unencodable: " + err.Error() // e.g. VM version 2 of a mutant
	}
	if len(b) > 1600 {
		return string(b[:1600]) + fmt.Sprintf("...(%d bytes)", len(b)/2)
	}
	return string(b)
}

func progClass(p []byte) string {
	switch {
	case bcrp.IsBCRPScript(p):
		return "bcrp"
	case isRetirement(p):
		return "retire"
	}
	return "spendable"
}

func outputDesc(o *types.TxOutput) map[string]interface{} {
	m := map[string]interface{}{"program": hex.EncodeToString(o.ControlProgram), "amount": o.Amount, "asset": o.AssetId.String(), "type": o.OutputType(), "class": progClass(o.ControlProgram)}
	if v, ok := o.TypedOutput.(*types.VoteOutput); ok {
		m["vote"] = hex.EncodeToString(v.Vote)
	}
	return m
}

// idMap is the run-wide injectivity oracle for transaction IDs.
type idMap map[bc.Hash]content

func (im idMap) put(c *ev.Case, id bc.Hash, ct content, tx *types.TxData) {
	if len(tx.Outputs) == 0 {
		c.Count("injectivity_skipped_no_output_tx", 1)
		return
	}
	old, ok := im[id]
	if !ok {
		im[id] = ct
		c.Count("injectivity_ids", 1)
		return
	}
	if old.full == ct.full {
		c.Count("injectivity_same_content_again", 1)
		return
	}
	for _, key := range uncommittedKeys(old, ct, "injectivity:txid-two-contents") {
		violate(c, key, "run-wide injectivity: "+whatOf(key), map[string]interface{}{"id": id.String(), "second_tx": txHex(tx)})
	}
}

// ---------------------------------------------------------------- transactions

func checkTxMutations(c *ev.Case, im idMap, x *types.TxData) {
	id0 := txID(x)
	ct0 := contentOf(x)
	im.put(c, id0, ct0, x)
	muts := txgen.TxMutations(c.Rand, x)
	c.Eval(int64(len(muts)))
	c.Max("max_mutations_per_tx", int64(len(muts)))
	noOut := len(x.Outputs) == 0
	for i := range muts {
		m := &muts[i]
		id1 := txID(m.Tx)
		changed := id1 != id0
		chg := "unchanged"
		if changed {
			chg = "changed"
		}
		field := m.Field
		if m.Output >= 0 && m.Output < len(x.Outputs) && strings.HasPrefix(field, "output.") {
			field += "[" + progClass(x.Outputs[m.Output].ControlProgram) + "]"
		}
		c.Distinct("tx %s %s %s", field, m.How, chg)
		w := func() map[string]interface{} {
			wm := map[string]interface{}{"mutation": m.Name, "field": m.Field, "class": string(m.Class), "id": id0.String(), "mutated_id": id1.String(), "tx": txHex(x), "mutated_tx": txHex(m.Tx)}
			if m.Output >= 0 && m.Output < len(x.Outputs) {
				wm["output"] = outputDesc(x.Outputs[m.Output])
				if m.Output < len(m.Tx.Outputs) {
					wm["mutated_output"] = outputDesc(m.Tx.Outputs[m.Output])
				}
			}
			return wm
		}
		switch m.Class {
		case txgen.Witness:
			if changed {
				c.Count("witness_mutation_changed_id", 1)
				violate(c, "txid:witness:"+m.Field+"-changes-id", "a witness-only change altered the transaction ID", w())
			} else {
				c.Count("witness_mutations_id_unchanged", 1)
			}
			continue
		case txgen.Extension:
			c.Count("observed:extension-suffix-"+chg, 1)
			continue
		}
		// consensus-labelled field
		ct1 := contentOf(m.Tx)
		if m.Input >= 0 && noOut {
			// inputs are reachable from the header only through the outputs' sources
			c.Count("observed:no-output-tx-input-"+chg, 1)
			continue
		}
		record := func() { im.put(c, id1, ct1, m.Tx) } // after the verdict: the mutation witness is the clearer one
		if ct1.full == ct0.full {
			record()
			// not consensus content under the interpretation: only possible for
			// the tail / state data / VM version of OP_FAIL-prefixed outputs
			ok := m.Output >= 0 && isRetirement(x.Outputs[m.Output].ControlProgram)
			if ok && m.How != "swap" {
				ok = m.Output < len(m.Tx.Outputs) && isRetirement(m.Tx.Outputs[m.Output].ControlProgram)
			}
			if ok && m.How == "swap" {
				ok = isRetirement(x.Outputs[m.Other].ControlProgram)
			}
			if !ok {
				c.Inconclusive("harness model: consensus-labelled mutation %s leaves the content digest unchanged", m.Name)
				continue
			}
			what := "memo"
			switch {
			case strings.HasSuffix(m.Field, ".statedata"):
				what = "statedata"
			case strings.HasSuffix(m.Field, ".vmversion"):
				what = "vmversion"
			case m.How == "swap":
				what = "swap-of-equal-value"
			}
			c.Count("observed:retirement-"+what+"-id-"+chg, 1)
			if what == "memo" && !changed {
				c.Count("observed:plain-retirement-memo-tail-not-committed", 1)
			}
			continue
		}
		if changed {
			record()
			c.Count("consensus_mutations_id_changed", 1)
			c.Count("consensus_changed:"+strings.SplitN(m.Field, ".", 3)[0]+"."+strings.SplitN(m.Field+"..", ".", 3)[1], 1)
			continue
		}
		c.Count("consensus_mutation_id_unchanged", 1)
		for _, key := range uncommittedKeys(ct0, ct1, "txid:"+m.Field+"-not-committed") {
			c.Count("violations:"+key, 1)
			violate(c, key, whatOf(key), w())
		}
		record()
	}
	// what the workload contained
	for _, o := range x.Outputs {
		cl := progClass(o.ControlProgram)
		c.Count("outputs:"+cl, 1)
		if cl != "spendable" && o.OutputType() == types.VoteOutputType {
			c.Count("outputs:unspendable-vote", 1)
		}
	}
	for _, in := range x.Inputs {
		c.Count("inputs:"+[]string{"issuance", "spend", "coinbase", "veto"}[in.InputType()], 1)
	}
}

// ---------------------------------------------------------------- headers and blocks

func headerDigest(bh *types.BlockHeader) (d dg) {
	w := &hw{}
	w.u64(bh.Version)
	w.u64(bh.Height)
	w.hash(bh.PreviousBlockHash)
	w.u64(bh.Timestamp)
	w.hash(bh.TransactionsMerkleRoot)
	return w.sum(0)
}

type hashMap map[bc.Hash]dg

func (hm hashMap) put(c *ev.Case, what string, id bc.Hash, d dg, witness func() interface{}) {
	old, ok := hm[id]
	if !ok {
		hm[id] = d
		c.Count("injectivity_"+what, 1)
		return
	}
	if old != d {
		violate(c, "injectivity:"+what+"-two-contents", "run-wide injectivity: one "+what+" stands for two different contents", witness())
	}
}

func headerHex(bh *types.BlockHeader) string {
	b, err := bh.MarshalText()
	if err != nil {
		return err.Error()
	}
	if len(b) > 1600 {
		return string(b[:1600]) + "..."
	}
	return string(b)
}

func checkHeaderMutations(c *ev.Case, hm hashMap, x *types.BlockHeader) {
	h0 := headerHash(x)
	hm.put(c, "blockhash", h0, headerDigest(x), func() interface{} { return map[string]string{"header": headerHex(x)} })
	muts := txgen.HeaderMutations(c.Rand, x)
	c.Eval(int64(len(muts)))
	for i := range muts {
		m := &muts[i]
		h1 := headerHash(m.Header)
		changed := h1 != h0
		chg := "unchanged"
		if changed {
			chg = "changed"
		}
		c.Distinct("header %s %s %s", m.Field, m.How, chg)
		w := func() interface{} {
			return map[string]string{"mutation": m.Name, "hash": h0.String(), "mutated_hash": h1.String(), "header": headerHex(x), "mutated_header": headerHex(m.Header)}
		}
		switch {
		case m.Class == txgen.Consensus && !changed:
			violate(c, "blockhash:"+m.Field+"-not-committed", "a header field changed but the block hash did not", w())
		case m.Class == txgen.Consensus:
			c.Count("header_consensus_mutations_hash_changed", 1)
			hm.put(c, "blockhash", h1, headerDigest(m.Header), w)
		case m.Class == txgen.Witness && changed:
			violate(c, "blockhash:witness:"+m.Field+"-changes-hash", "block witness / supLinks changed the block hash", w())
		default:
			c.Count("header_witness_mutations_hash_unchanged", 1)
			c.Count("header_witness_unchanged:"+m.Field, 1)
		}
	}
}

func idList(b *types.Block) []bc.Hash {
	l := make([]bc.Hash, len(b.Transactions))
	for i, t := range b.Transactions {
		l[i] = t.ID
	}
	return l
}

func idListDigest(l []bc.Hash) (d dg) {
	h := sha256.New()
	for _, id := range l {
		h.Write(id.Bytes())
	}
	copy(d[:], h.Sum(nil))
	return d
}

func sameIDList(a, b []bc.Hash) bool {
	if len(a) != len(b) {
		return false
	}
	for i := range a {
		if a[i] != b[i] {
			return false
		}
	}
	return true
}

func idStrings(l []bc.Hash) []string {
	s := make([]string, len(l))
	for i := range l {
		s[i] = l[i].String()
	}
	return s
}

// checkBlock: the block hash commits to the ordered list of transaction IDs
// (through the merkle root the proposer seals) and to nothing else of the
// transactions.
func checkBlock(c *ev.Case, hm, rm hashMap, x *types.Block) {
	h0 := x.Hash()
	ids0 := idList(x)
	root0 := x.TransactionsMerkleRoot
	rm.put(c, "merkleroot", root0, idListDigest(ids0), func() interface{} { return map[string]interface{}{"ids": idStrings(ids0)} })
	checkHeaderMutations(c, hm, &x.BlockHeader)

	judge := func(name, field, how string, y *types.Block) {
		ids1 := idList(y)
		root1 := y.TransactionsMerkleRoot
		h1 := y.Hash()
		same := sameIDList(ids0, ids1)
		c.Eval(1)
		w := func() interface{} {
			return map[string]interface{}{"mutation": name, "ids": idStrings(ids0), "mutated_ids": idStrings(ids1), "root": root0.String(), "mutated_root": root1.String(), "hash": h0.String(), "mutated_hash": h1.String()}
		}
		rm.put(c, "merkleroot", root1, idListDigest(ids1), w)
		switch {
		case same && (root1 != root0 || h1 != h0):
			violate(c, "blockhash:"+field+"-changes-hash-without-id-change", "the list of transaction IDs is unchanged but merkle root / block hash changed", w())
		case same:
			c.Count("block_tx_witness_changes_hash_unchanged", 1)
			c.Distinct("block %s %s ids-same hash-unchanged", field, how)
		case root1 == root0:
			violate(c, "merkleroot:"+field+"/"+how+"-not-committed", "the list of transaction IDs changed but the merkle root did not", w())
		case h1 == h0:
			violate(c, "blockhash:merkleroot-not-committed", "the merkle root changed but the block hash did not", w())
		default:
			c.Count("block_id_list_changes_hash_changed", 1)
			c.Count("block_changed:"+field+"/"+how, 1)
			c.Distinct("block %s %s ids-differ hash-changed", field, how)
		}
	}
	for _, m := range txgen.BlockMutations(c.Rand, x) {
		judge(m.Name, m.Field, m.How, m.Block)
	}
	// single-transaction changes: a few seeded mutations of every transaction
	for i, t := range x.Transactions {
		muts := txgen.TxMutations(c.Rand, &t.TxData)
		for k := 0; k < 4 && len(muts) > 0; k++ {
			m := muts[c.Rand.Intn(len(muts))]
			judge(fmt.Sprintf("transactions[%d]:%s", i, m.Name), "block.transactions[]."+string(m.Class), m.How, txgen.ReplaceTx(x, i, m.Tx))
		}
	}
}

// ---------------------------------------------------------------- directed cases

// directed builds the smallest transactions around the OP_FAIL interpretation,
// so that the canonical witnesses of the known classes are short.
func directed(c *ev.Case, im idMap) {
	asset := bc.AssetID{V0: 7}
	in := types.NewSpendInput(nil, bc.Hash{V0: 1}, asset, 100, 0, []byte{0x51}, nil)
	mk := func(o *types.TxOutput) *types.TxData {
		return &types.TxData{Version: 1, Inputs: []*types.TxInput{txgen.CloneInput(in)}, Outputs: []*types.TxOutput{o}}
	}
	contract := c.Rand.Bytes(c.Rand.Range(1, 90))
	reg, _ := vmutil.RegisterProgram(contract)
	memo, _ := vmutil.RetireProgram(c.Rand.Bytes(c.Rand.Range(1, 60)))
	plain, _ := vmutil.RetireProgram(nil)
	if !bcrp.IsBCRPScript(reg) || bcrp.IsBCRPScript(memo) || !isRetirement(memo) {
		c.Inconclusive("harness: vmutil.RegisterProgram / RetireProgram do not classify as expected")
		return
	}
	c.Count("directed_cases", 1)
	for _, x := range []*types.TxData{
		mk(types.NewOriginalTxOutput(asset, 100, reg, nil)),
		mk(types.NewOriginalTxOutput(asset, 100, memo, nil)),
		mk(types.NewOriginalTxOutput(asset, 100, plain, nil)),
		mk(types.NewVoteOutput(asset, 100, memo, c.Rand.Bytes(64), nil)),
		mk(types.NewVoteOutput(asset, 100, reg, c.Rand.Bytes(64), nil)),
		mk(types.NewOriginalTxOutput(asset, 100, []byte{0x51}, nil)),
		mk(types.NewVoteOutput(asset, 100, []byte{0x51}, c.Rand.Bytes(64), nil)),
	} {
		checkTxMutations(c, im, x)
	}
}

// consumption shows, with the real consumers, that the two kinds of content the
// model counts as consensus content of an OP_FAIL-prefixed output really reach
// consensus state: two sealed blocks that differ only in the contract bytes of a
// BCRP registration (resp. the vote key of an OP_FAIL-prefixed vote output) are
// applied to state.ContractViewpoint (resp. state.Checkpoint.Increase).  Equal
// block hashes with different resulting state is the refutation; if the hashes
// differ the content is committed and there is nothing to report.
func consumption(c *ev.Case) {
	asset := bc.AssetID{V0: 9}
	mkBlock := func(contract, key []byte) *types.Block {
		reg, _ := vmutil.RegisterProgram(contract)
		memo, _ := vmutil.RetireProgram([]byte("memo"))
		first := &types.TxData{Version: 1,
			Inputs:  []*types.TxInput{types.NewSpendInput(nil, bc.Hash{V0: 1}, asset, 10, 0, []byte{0x51}, nil)},
			Outputs: []*types.TxOutput{types.NewOriginalTxOutput(asset, 10, []byte{0x51}, nil)}}
		second := &types.TxData{Version: 1,
			Inputs:  []*types.TxInput{types.NewSpendInput(nil, bc.Hash{V0: 2}, asset, 300, 1, []byte{0x51}, nil)},
			Outputs: []*types.TxOutput{types.NewOriginalTxOutput(asset, 100, reg, nil), types.NewVoteOutput(asset, 200, memo, key, nil)}}
		b := &types.Block{BlockHeader: types.BlockHeader{Version: 1, Height: 5, PreviousBlockHash: bc.Hash{V0: 77}, Timestamp: 1600000000000},
			Transactions: []*types.Tx{types.NewTx(*first), types.NewTx(*second)}}
		txgen.Seal(b)
		return b
	}
	c1, c2 := c.Rand.Bytes(c.Rand.Range(1, 40)), c.Rand.Bytes(c.Rand.Range(41, 80))
	k1, k2 := c.Rand.Bytes(64), c.Rand.Bytes(64)
	base := mkBlock(c1, k1)

	// (a) contract bytes
	other := mkBlock(c2, k1)
	v1, v2 := state.NewContractViewpoint(), state.NewContractViewpoint()
	if err1, err2 := v1.ApplyBlock(base), v2.ApplyBlock(other); err1 != nil || err2 != nil {
		c.Inconclusive("harness: ContractViewpoint.ApplyBlock failed: %v %v", err1, err2)
		return
	}
	tables := func(v *state.ContractViewpoint) []string {
		var l []string
		for h, e := range v.AttachEntries {
			l = append(l, hex.EncodeToString(h[:])+"="+hex.EncodeToString(e))
		}
		sort.Strings(l)
		return l
	}
	t1, t2 := tables(v1), tables(v2)
	c.Count("consumption:contract-table-applied", 1)
	if len(t1) != 1 || len(t2) != 1 {
		c.Inconclusive("harness: expected one registered contract per block, got %d and %d", len(t1), len(t2))
	} else if base.Hash() == other.Hash() && t1[0] != t2[0] {
		c.Count("consumption:same-block-hash-different-contract-table", 1)
		violate(c, keyBCRP, "two blocks with the same hash register different contracts: "+whatBCRP, map[string]interface{}{
			"block_hash": hs(base.Hash()), "contract_1": hex.EncodeToString(c1), "contract_2": hex.EncodeToString(c2), "table_1": t1, "table_2": t2})
	} else {
		c.Count("consumption:contract-committed-by-block-hash", 1)
	}

	// (b) vote key of an OP_FAIL-prefixed vote output
	other = mkBlock(c1, k2)
	cp := func(b *types.Block) (map[string]uint64, error) {
		p := &state.Checkpoint{Height: b.Height - 1, Hash: b.PreviousBlockHash, Rewards: map[string]uint64{}, Votes: map[string]uint64{}}
		err := p.Increase(b)
		return p.Votes, err
	}
	vo1, err1 := cp(base)
	vo2, err2 := cp(other)
	if err1 != nil || err2 != nil {
		c.Inconclusive("harness: Checkpoint.Increase failed: %v %v", err1, err2)
		return
	}
	c.Count("consumption:vote-tally-applied", 1)
	if base.Hash() == other.Hash() && (vo1[hex.EncodeToString(k1)] != vo2[hex.EncodeToString(k1)] || vo1[hex.EncodeToString(k2)] != vo2[hex.EncodeToString(k2)]) {
		c.Count("consumption:same-block-hash-different-vote-tally", 1)
		violate(c, keyVote, "two blocks with the same hash produce different vote tallies: "+whatVote, map[string]interface{}{
			"block_hash": hs(base.Hash()), "votes_1": vo1, "votes_2": vo2})
	} else {
		c.Count("consumption:vote-committed-or-not-counted", 1)
	}
}

// ---------------------------------------------------------------- the monitor

func TestC03(t *testing.T) {
	r := ev.Start(t, "C03")
	defer r.Finish()
	r.Rule("seeded well-formed transactions / headers / sealed blocks (verif/internal/txgen) x the enumeration of single-field mutations: every field of every input and output (bit flip, last-byte flip, append, truncate, increment, high bit, list element added / dropped / changed / re-split, OP_FAIL prefix toggled, type converted), swaps, drop / duplicate of inputs and outputs, version, time range; witness: arguments, witness suffix, recorded size, block witness, supLinks; blocks: swap / drop / duplicate / append / replace a transaction and re-seal. distinct = (value kind, field[program class of the output], how, ID changed / unchanged)")
	r.Assume("interpretation (DESIGN C03): of an OP_FAIL-prefixed output only asset, amount, BCRP contract bytes and vote type / key are consensus content; its memo tail, state data and VM version are observations; inputs of a transaction without outputs are observations (such a transaction is invalid: ErrEmptyResults); commitment-suffix bytes are read by no rule and are observations")
	r.Assume("an output is a retirement iff its program starts with OP_FAIL (the monitor's own predicate, not vmutil.IsUnspendable of the tree); bcrp.IsBCRPScript / ParseContract of the code under test define which of those are contract registrations (they are what the contract table uses)")
	r.Assume("injectivity maps are per process (per shard) and key truncated sha256 content digests (64 bit)")

	im, hm, rm := idMap{}, hashMap{}, hashMap{}

	r.Cases("directed", r.N(40, 1000), func(c *ev.Case) { directed(c, im) })
	r.Cases("consumption", r.N(10, 200), consumption)

	r.Cases("tx", r.N(1200, 60000), func(c *ev.Case) {
		x := txgen.TxData(c.Rand)
		checkTxMutations(c, im, x)
		c.Count("transactions", 1)
		if c.WantSample() {
			c.Sample(map[string]interface{}{"inputs": len(x.Inputs), "outputs": len(x.Outputs), "id": types.MapTx(x).ID.String()})
		}
	})

	r.Cases("header", r.N(1000, 50000), func(c *ev.Case) {
		x := txgen.BlockHeader(c.Rand)
		checkHeaderMutations(c, hm, x)
		c.Count("headers", 1)
		if c.WantSample() {
			c.Sample(map[string]interface{}{"suplinks": len(x.SupLinks), "hash": hs(x.Hash())})
		}
	})

	r.Cases("block", r.N(400, 20000), func(c *ev.Case) {
		x := txgen.Block(c.Rand)
		checkBlock(c, hm, rm, x)
		c.Count("blocks", 1)
		if c.WantSample() {
			c.Sample(map[string]interface{}{"transactions": len(x.Transactions), "hash": hs(x.Hash())})
		}
	})

	r.Floor("consensus_mutations_id_changed", 50000)
	r.Floor("witness_mutations_id_unchanged", 5000)
	for _, f := range []string{"consensus_changed:tx.version", "consensus_changed:tx.timerange", "consensus_changed:tx.inputs", "consensus_changed:tx.outputs",
		"consensus_changed:input.spend", "consensus_changed:input.veto", "consensus_changed:input.issuance", "consensus_changed:input.coinbase",
		"consensus_changed:output.original", "consensus_changed:output.vote"} {
		r.Floor(f, 500)
	}
	r.Floor("consumption:contract-table-applied", 10)
	r.Floor("consumption:vote-tally-applied", 10)
	r.Floor("outputs:bcrp", 100)
	r.Floor("outputs:retire", 100)
	r.Floor("outputs:unspendable-vote", 50)
	r.Floor("observed:plain-retirement-memo-tail-not-committed", 100)
	r.Floor("header_consensus_mutations_hash_changed", 5000)
	r.Floor("header_witness_mutations_hash_unchanged", 3000)
	r.Floor("header_witness_unchanged:header.suplinks", 1000)
	r.Floor("header_witness_unchanged:header.blockwitness", 1000)
	r.Floor("block_id_list_changes_hash_changed", 2000)
	r.Floor("block_tx_witness_changes_hash_unchanged", 200)
	r.Floor("injectivity_ids", 50000)
}

func hs(h bc.Hash) string { return h.String() }
