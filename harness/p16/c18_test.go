// C18 — the node never signs or admits slashable votes.
package p16

import (
	"encoding/hex"
	"fmt"
	"os"
	"testing"

	"github.com/bytom/bytom/crypto/ed25519/chainkd"
	"github.com/bytom/bytom/protocol/bc"

	"verif/internal/chainkit"
	"verif/internal/ev"
)

type bvote struct {
	sh, th uint64
	src    bc.Hash
	tgt    bc.Hash
	origin string
}

// book is the set of votes the node produced or admitted, per validator public key.
type book struct {
	votes map[string][]bvote
	seen  map[string]bool
	// inTree: the checkpoints of the engine's in-memory tree at the current observation.  A finalization
	// re-roots the tree and drops the branches that do not descend from the new root; their votes stay in
	// the store.  The violation key says when the earlier vote of a pair sits on such a dropped branch.
	inTree map[bc.Hash]bool
}

func (b *book) add(c *ev.Case, pub string, v bvote, own bool, ctx map[string]interface{}) bool {
	k := fmt.Sprintf("%s|%x|%x", pub, v.src.Bytes(), v.tgt.Bytes())
	if b.seen[k] {
		return true
	}
	b.seen[k] = true
	who := "admitted"
	if own {
		who = "own"
		c.Count("own_votes_recorded", 1)
	}
	c.Count("votes_recorded", 1)
	for _, o := range b.votes[pub] {
		kind := ""
		switch {
		case o.th == v.th && o.tgt != v.tgt:
			kind = "same-target-height-different-targets"
		case o.sh < v.sh && v.th < o.th:
			kind = "new-vote-inside-earlier-vote"
		case v.sh < o.sh && o.th < v.th:
			kind = "new-vote-surrounds-earlier-vote"
		}
		if kind != "" {
			ctx["validator"] = pub[:16]
			ctx["earlier"] = fmt.Sprintf("%d->%d(%s) via %s", o.sh, o.th, short(o.tgt), o.origin)
			ctx["later"] = fmt.Sprintf("%d->%d(%s) via %s", v.sh, v.th, short(v.tgt), v.origin)
			where := ""
			if b.inTree != nil && !b.inTree[o.tgt] {
				where = ":earlier-vote-on-branch-dropped-from-the-checkpoint-tree-by-finalization"
				ctx["earlier_target_in_engine_tree"] = false
			}
			c.Violation(fmt.Sprintf("slashable-pair:%s:%s%s", who, kind, where), "the node holds two votes of one validator that break a Casper commandment", ctx)
			return false
		}
	}
	b.votes[pub] = append(b.votes[pub], v)
	return true
}

func TestC18(t *testing.T) {
	r := ev.Start(t, "C18")
	defer r.Finish()
	base, _ := os.MkdirTemp("", "c18")
	defer os.RemoveAll(base)
	r.Rule("the node is validator 0 of a 4-validator federation and signs its own verifications; forked block trees with competing checkpoints at equal heights, delivered in creation / random / swapped order; two validators follow the protocol, one is Byzantine (equivocation, surround votes, arbitrary sources); every verification the node posts on its event bus, holds in its checkpoint tree or stores in block headers is entered (if its signature is valid) into a per-validator vote book that must stay free of slashable pairs. distinct = (tree shape, schedule length, order kind)")
	r.Assume("a vote is attributed to a validator only if its signature verifies under that validator's key")
	net := chainkit.Configure(chainkit.Params{Epoch: 4, Fed: 4, Local: 0, VotePending: 3, NKeys: 5})
	g := net.NewGenesis(14, 2)
	ownPub := net.PubHex[0]

	r.Cases("histories", r.N(48, 4800), func(c *ev.Case) {
		tr := genTree(c, net, g, 16, 40)
		if tr == nil {
			return
		}
		fo := chainkit.FFGOpt{Byzantine: 3, VotePct: 85, EarlyVotePct: 12, GarbagePct: 5, BlockOrder: c.Index % 3, Duplicates: true, ByzExtra: 2, NodeKey: 0}
		steps, _ := tr.GenScheduleFFG(c.Rand, fo)
		c.Journal(map[string]interface{}{"shape": tr.Shape(), "steps": len(steps)})
		c.Distinct("%s|%d|%d", tr.Shape(), len(steps), fo.BlockOrder)
		rn, err := newRunner(c, net, g, tr, fmt.Sprintf("%s/n%d", base, c.Index))
		if err != nil {
			c.Inconclusive("node: %v", err)
			return
		}
		defer func() { rn.nd.Destroy() }()
		bk := &book{votes: map[string][]bvote{}, seen: map[string]bool{}}
		nEvents := 0
		rn.run(steps, runOpt{reopenPct: 3, headerVotes: true}, func(si int, s chainkit.Step, err error, ob *obs, restarted bool) bool {
			ctx := map[string]interface{}{"step": si, "event": s.String(), "after_restart": restarted, "shape": tr.Shape(), "trail": rn.trail}
			bk.inTree = map[bc.Hash]bool{}
			for _, n := range ob.nodes {
				bk.inTree[n.Hash] = true
			}
			// 1. the event bus
			rn.mu.Lock()
			evs := append([]struct{}{}, make([]struct{}, 0)...)
			_ = evs
			newEvents := rn.events[nEvents:]
			nEvents = len(rn.events)
			rn.mu.Unlock()
			for _, m := range newEvents {
				src, tgt := tr.ByHash[m.SourceHash], tr.ByHash[m.TargetHash]
				if src == nil || tgt == nil {
					continue
				}
				pk, derr := hex.DecodeString(m.PubKey)
				if derr != nil || len(pk) != 64 {
					continue
				}
				var xpub chainkd.XPub
				copy(xpub[:], pk)
				if !xpub.Verify(voteMsgHash(m.SourceHash, m.TargetHash), m.Signature) {
					c.Count("posted_messages_with_invalid_signature", 1)
					continue
				}
				if !bk.add(c, m.PubKey, bvote{src.Height, tgt.Height, m.SourceHash, m.TargetHash, "event"}, m.PubKey == ownPub, ctx) {
					return false
				}
			}
			// 2. the engine's checkpoint tree
			for _, n := range ob.nodes {
				tgt := tr.ByHash[n.Hash]
				if tgt == nil || tgt.Height == 0 || tgt.Height%net.P.Epoch != 0 {
					continue
				}
				for _, l := range n.Links {
					src := tr.ByHash[l.SourceHash]
					if src == nil {
						continue
					}
					valid, _ := validSigners(net, tr, tgt, l)
					for _, k := range valid {
						if !bk.add(c, net.PubHex[k], bvote{src.Height, tgt.Height, l.SourceHash, n.Hash, "engine-tree"}, k == 0, ctx) {
							return false
						}
					}
				}
			}
			// 3. stored block headers of checkpoint blocks
			for _, cp := range tr.Checkpoints() {
				if !ob.stored[cp.Hash] {
					continue
				}
				h := cp.Hash
				hdr, herr := rn.nd.Chain.GetHeaderByHash(&h)
				if herr != nil {
					continue
				}
				vals := tr.ValidatorsOf(cp)
				for _, l := range hdr.SupLinks {
					src := tr.ByHash[l.SourceHash]
					if src == nil {
						continue
					}
					for slot, sig := range l.Signatures {
						if len(sig) == 0 || slot >= len(vals) || vals[slot] < 0 {
							continue
						}
						var xpub chainkd.XPub = net.Pub[vals[slot]]
						if xpub.Verify(voteMsgHash(l.SourceHash, cp.Hash), sig) {
							if !bk.add(c, net.PubHex[vals[slot]], bvote{src.Height, cp.Height, l.SourceHash, cp.Hash, "stored-header"}, vals[slot] == 0, ctx) {
								return false
							}
						}
					}
				}
			}
			if s.Vote != nil && s.Vote.Byz {
				c.Count("byzantine_votes_sent", 1)
			}
			c.Count("states_checked", 1)
			return true
		})
		if c.WantSample() {
			own := 0
			for _, v := range bk.votes[ownPub] {
				_ = v
				own++
			}
			c.Sample(map[string]interface{}{"tree_shape": tr.Shape(), "steps": len(steps), "own_votes": own, "validators_in_book": len(bk.votes), "trail_tail": tail(rn.trail, 5)})
		}
	})
	r.Floor("states_checked", 800)
	r.Floor("own_votes_recorded", 30)
	r.Floor("votes_recorded", 300)
	r.Floor("byzantine_votes_rejected", 20)
}
