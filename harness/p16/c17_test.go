// C17 — justification needs a supermajority of distinct valid validator votes; finalization
// needs a justified direct child; both across restarts.
package p16

import (
	"fmt"
	"github.com/bytom/bytom/consensus"
	"os"
	"testing"

	"github.com/bytom/bytom/protocol/bc"
	"github.com/bytom/bytom/protocol/bc/types"
	"github.com/bytom/bytom/protocol/casper"
	"github.com/bytom/bytom/protocol/state"

	"verif/internal/chainkit"
	"verif/internal/ev"
)

// justCheck verifies, for every checkpoint whose engine status rose since the previous
// observation, that the evidence the engine holds supports it.
type justCheck struct {
	net      *chainkit.Net
	tr       *chainkit.Tree
	prev     map[bc.Hash]state.CheckpointStatus
	justFrom map[bc.Hash]bc.Hash // target -> source of the supermajority link that justified it
	node     func() *chainkit.Node
}

func statusOf(ob *obs, h bc.Hash) (state.CheckpointStatus, bool) {
	if n, ok := ob.tree[h]; ok {
		return n.Status, true
	}
	if s, ok := ob.store[h]; ok {
		return s, true
	}
	return 0, false
}

func (j *justCheck) check(c *ev.Case, ob *obs, ctx map[string]interface{}) bool {
	if j.prev == nil {
		j.prev = map[bc.Hash]state.CheckpointStatus{j.tr.Root.Hash: state.Justified}
		j.justFrom = map[bc.Hash]bc.Hash{}
	}
	cur := map[bc.Hash]state.CheckpointStatus{}
	for _, cp := range append([]*chainkit.Blk{j.tr.Root}, j.tr.Checkpoints()...) {
		if st, ok := statusOf(ob, cp.Hash); ok {
			cur[cp.Hash] = st
		}
	}
	// newly justified
	for _, cp := range j.tr.Checkpoints() {
		st, ok := cur[cp.Hash]
		if !ok || st < state.Justified || j.prev[cp.Hash] >= state.Justified {
			continue
		}
		var links []casper.VerifLink
		if node := ob.tree[cp.Hash]; node != nil {
			links = node.Links
		} else if j.node != nil {
			// already below the engine's root (a cascade justified and finalized several checkpoints in
			// one step): the verifications are the ones persisted in the checkpoint's block header
			h := cp.Hash
			if hdr, err := j.node().Chain.GetHeaderByHash(&h); err == nil {
				for _, sl := range hdr.SupLinks {
					vl := casper.VerifLink{SourceHash: sl.SourceHash, SourceHeight: sl.SourceHeight}
					for i, sig := range sl.Signatures {
						if len(sig) != 0 {
							vl.Signed = append(vl.Signed, i)
							vl.Signatures = append(vl.Signatures, sig)
						}
					}
					links = append(links, vl)
				}
			}
		}
		n := len(j.tr.ValidatorsOf(cp))
		okLink := false
		var detail []string
		for _, l := range links {
			valid, invalid := validSigners(j.net, j.tr, cp, l)
			distinct := map[int]bool{}
			for _, k := range valid {
				distinct[k] = true
			}
			src := j.tr.ByHash[l.SourceHash]
			srcSt, srcKnown := cur[l.SourceHash]
			if ps, ok := j.prev[l.SourceHash]; ok && ps > srcSt {
				srcSt = ps
			}
			srcJust := srcKnown && srcSt >= state.Justified
			anc := src != nil && src.IsAncestorOf(cp) && src.Height < cp.Height
			detail = append(detail, fmt.Sprintf("link from h%d %s: %d valid distinct of n=%d, %d invalid/unused slots, source justified=%v ancestor=%v", l.SourceHeight, short(l.SourceHash), len(distinct), n, len(invalid), srcJust, anc))
			if 3*len(distinct) > 2*n && srcJust && anc {
				okLink = true
				j.justFrom[cp.Hash] = l.SourceHash
			}
			// classify the most telling failure
			if !okLink && 3*(len(distinct)+len(invalid)) > 2*n && 3*len(distinct) <= 2*n {
				ctx["class"] = "invalid-signatures-counted"
			} else if !okLink && 3*len(distinct) > 2*n && !srcJust {
				ctx["class"] = "source-not-justified"
			}
		}
		c.Count("justifications_checked", 1)
		if !okLink {
			class, _ := ctx["class"].(string)
			if class == "" {
				class = "no-supermajority-link"
			}
			ctx["checkpoint"] = fmt.Sprintf("h%d %s", cp.Height, short(cp.Hash))
			ctx["links"] = detail
			c.Violation("justified-without-valid-supermajority:"+class, "a checkpoint is justified although no link from a justified source carries valid signatures of more than two thirds of the validators", ctx)
			return false
		}
	}
	// newly finalized: a direct child checkpoint must be justified from it
	for _, cp := range append([]*chainkit.Blk{j.tr.Root}, j.tr.Checkpoints()...) {
		st, ok := cur[cp.Hash]
		if !ok || st != state.Finalized || j.prev[cp.Hash] == state.Finalized {
			continue
		}
		found := false
		for tgt, src := range j.justFrom {
			t := j.tr.ByHash[tgt]
			if src == cp.Hash && t != nil && j.tr.PrevCP(t).Hash == cp.Hash {
				found = true
			}
		}
		c.Count("finalizations_checked", 1)
		if !found {
			ctx["checkpoint"] = fmt.Sprintf("h%d %s", cp.Height, short(cp.Hash))
			c.Violation("finalized-without-justified-direct-child", "a checkpoint is finalized although no direct child checkpoint was justified from it", ctx)
			return false
		}
	}
	for h, s := range cur {
		if s > j.prev[h] {
			j.prev[h] = s
		}
	}
	return true
}

func TestC17(t *testing.T) {
	r := ev.Start(t, "C17")
	defer r.Finish()
	base, _ := os.MkdirTemp("", "c17")
	defer os.RemoveAll(base)
	r.Rule("(a) federation sizes n=1..10: every subset of signers (n<=5 quick, n<=8 thorough; random subsets above) votes 0->4 then 4->8, as messages or in block headers, together with forged / non-validator / unused-slot signatures, checked before and after a restart and after one more vote on the restarted node; (b) random forked schedules with a Byzantine validator, forged header links and restarts: every rise of a checkpoint status is checked against the evidence the engine holds (valid distinct signatures verified by the monitor). distinct = (n, |S1|, |S2|, delivery, phase) and (tree shape, schedule)")
	r.Assume("signatures are verified by the monitor with chainkd against sha3(source||target); validator sets come from the harness's reference ledger")

	type sub struct{ n, s1, s2 int }
	var subs []sub
	maxAll := r.N(5, 8)
	for n := 1; n <= 10; n++ {
		if n <= maxAll {
			for s1 := 0; s1 < 1<<uint(n); s1++ {
				subs = append(subs, sub{n, s1, -1})
			}
		} else {
			for i := 0; i < r.N(12, 400); i++ {
				subs = append(subs, sub{n, -1, -1})
			}
		}
	}
	r.Cases("subsets", len(subs), func(c *ev.Case) {
		sb := subs[c.Index]
		rng := c.Rand
		n := sb.n
		net := chainkit.Configure(chainkit.Params{Epoch: 4, Fed: n, Local: -1, VotePending: 3, NKeys: n + 2})
		g := net.NewGenesis(4, 0)
		tr := net.NewTree(g)
		p := tr.Root
		var chain []*chainkit.Blk
		for i := 0; i < 9; i++ {
			b, err := tr.Build(p, []*types.Tx{}, chainkit.BlockOpt{})
			if err != nil {
				c.Violation("harness:build", "cannot build chain", err.Error())
				return
			}
			chain = append(chain, b)
			p = b
		}
		cp4, cp8 := chain[3], chain[7]
		s1 := sb.s1
		if s1 < 0 {
			s1 = rng.Intn(1 << uint(n))
		}
		s2 := rng.Intn(1 << uint(n))
		if rng.Chance(1, 2) {
			s2 = (1 << uint(n)) - 1
		}
		inHeader := rng.Chance(1, 3)
		cnt := func(m int) int {
			k := 0
			for i := 0; i < n; i++ {
				if m>>uint(i)&1 == 1 {
					k++
				}
			}
			return k
		}
		// two links in one header: the votes for checkpoint 8 are split over the links 4->8 (s2) and 0->8 (s2b);
		// each link counts on its own, and only the direct link 4->8 can finalize checkpoint 4
		twoLinks := inHeader && rng.Chance(1, 2)
		s2b := 0
		if twoLinks {
			all := s2
			s2 = all & rng.Intn(1<<uint(n))
			s2b = all &^ s2
			c.Count("headers_with_two_links", 1)
		}
		want4 := 3*cnt(s1) > 2*n
		want8via4 := want4 && 3*cnt(s2) > 2*n
		want8 := want8via4 || 3*cnt(s2b) > 2*n
		c.Distinct("n=%d|s1=%d|s2=%d|s2b=%d|hdr=%v", n, cnt(s1), cnt(s2), cnt(s2b), inHeader)
		c.Journal(map[string]interface{}{"n": n, "s1": s1, "s2": s2, "s2b": s2b, "in_header": inHeader})
		rn, err := newRunner(c, net, g, tr, fmt.Sprintf("%s/s%d", base, c.Index))
		if err != nil {
			c.Inconclusive("node: %v", err)
			return
		}
		defer func() { rn.nd.Destroy() }()
		vals := tr.ValidatorsOf(cp4) // federation order
		link := func(src, tgt *chainkit.Blk, mask int, forged bool) types.SupLinks {
			l := &types.SupLink{SourceHeight: src.Height, SourceHash: src.Hash}
			for i := 0; i < n; i++ {
				if mask>>uint(i)&1 == 1 {
					l.Signatures[i] = net.SignVote(net.Prv[vals[i]], src.Hash, tgt.Hash)
				} else if forged {
					switch rng.Intn(3) {
					case 0:
						l.Signatures[i] = rng.Bytes(64)
					case 1:
						l.Signatures[i] = net.SignVote(net.Prv[n+1], src.Hash, tgt.Hash) // a non-validator's valid signature in a validator's slot
					}
				}
			}
			if forged {
				for i := n; i < len(l.Signatures); i++ {
					if rng.Chance(1, 2) {
						l.Signatures[i] = net.SignVote(net.Prv[rng.Intn(n)], src.Hash, tgt.Hash) // unused slot
					}
				}
			}
			return types.SupLinks{l}
		}
		var steps []chainkit.Step
		deliverVotes := func(src, tgt *chainkit.Blk, mask int) {
			for i := 0; i < n; i++ {
				if mask>>uint(i)&1 == 1 {
					steps = append(steps, chainkit.Step{Vote: &chainkit.VoteSpec{Key: vals[i], Source: src, Target: tgt}})
				} else if rng.Chance(1, 2) {
					steps = append(steps, chainkit.Step{Vote: &chainkit.VoteSpec{Key: vals[i], Source: src, Target: tgt, Garbage: true}})
				}
			}
			// a non-validator votes too
			steps = append(steps, chainkit.Step{Vote: &chainkit.VoteSpec{Key: n + 1, Source: src, Target: tgt}})
		}
		hdr := map[bc.Hash]types.SupLinks{}
		for i, b := range chain {
			steps = append(steps, chainkit.Step{Blk: b})
			if i == 3 {
				if inHeader {
					hdr[cp4.Hash] = link(tr.Root, cp4, s1, true)
				} else {
					deliverVotes(tr.Root, cp4, s1)
				}
			}
			if i == 7 {
				if twoLinks {
					a, b := link(cp4, cp8, s2, rng.Chance(1, 2)), link(tr.Root, cp8, s2b, rng.Chance(1, 2))
					if rng.Chance(1, 2) {
						a, b = b, a
					}
					hdr[cp8.Hash] = append(a, b...)
				} else if inHeader {
					hdr[cp8.Hash] = link(cp4, cp8, s2, true)
				} else {
					deliverVotes(cp4, cp8, s2)
				}
			}
		}
		jc := &justCheck{net: net, tr: tr}
		jc.node = func() *chainkit.Node { return rn.nd }
		expect := func(ob *obs, phase string) bool {
			st4, _ := statusOf(ob, cp4.Hash)
			st8, _ := statusOf(ob, cp8.Hash)
			ctx := map[string]interface{}{"n": n, "signers_0->4": cnt(s1), "signers_4->8": cnt(s2), "signers_0->8": cnt(s2b), "in_header": inHeader, "two_links": twoLinks, "phase": phase, "status4": st4, "status8": st8, "trail": rn.trail}
			if st4 >= state.Justified && !want4 {
				c.Violation(fmt.Sprintf("justified-without-supermajority:%s:hdr=%v", phase, inHeader), "checkpoint 4 is justified with at most two thirds of the validators' valid votes", ctx)
				return false
			}
			if st8 >= state.Justified && !want8 {
				c.Violation(fmt.Sprintf("justified-without-supermajority-or-justified-source:%s:hdr=%v", phase, inHeader), "checkpoint 8 is justified although its source is unjustified or the valid votes are at most two thirds", ctx)
				return false
			}
			if st4 == state.Finalized && !want8via4 {
				c.Violation(fmt.Sprintf("finalized-without-justified-child:%s:hdr=%v", phase, inHeader), "checkpoint 4 is finalized although its direct child is not justified from it", ctx)
				return false
			}
			if want4 && st4 >= state.Justified {
				c.Count("supermajority_justified", 1)
			}
			if want4 && st4 < state.Justified {
				c.Count("supermajority_not_justified(liveness only)", 1)
			}
			if want8via4 && st4 == state.Finalized {
				c.Count("finalized_as_expected", 1)
			}
			return true
		}
		// deliver, attaching header links at delivery time
		origRun := steps
		rn.stored = nil
		okAll := true
		rn.run(origRunWithHeaders(origRun, hdr), runOpt{}, func(si int, s chainkit.Step, err error, ob *obs, restarted bool) bool {
			ctx := map[string]interface{}{"n": n, "step": si, "event": s.String(), "in_header": inHeader, "trail": rn.trail}
			if !jc.check(c, ob, ctx) || !expect(ob, "live") {
				okAll = false
				return false
			}
			return true
		})
		if !okAll {
			return
		}
		// restart, compare, then one more valid vote
		before := rn.observe()
		nd2, err := net.Reopen(rn.nd, g)
		if err != nil {
			c.Violation("restart-failed", "the node does not start from its own store after a clean stop", map[string]interface{}{"error": err.Error(), "trail": rn.trail})
			return
		}
		rn.nd = nd2
		after := rn.observe()
		c.Count("restarts", 1)
		for _, cp := range []*chainkit.Blk{cp4, cp8} {
			a, _ := statusOf(before, cp.Hash)
			b, _ := statusOf(after, cp.Hash)
			if a != b {
				c.Violation(fmt.Sprintf("status-changes-across-restart:%v->%v", a, b), "a checkpoint's status differs before and after a clean restart",
					map[string]interface{}{"n": n, "checkpoint_height": cp.Height, "before": a, "after": b, "in_header": inHeader, "trail": rn.trail})
				return
			}
		}
		if !expect(after, "after-restart") {
			return
		}
		// one more valid vote by a validator that has not voted for cp8 (if any): may complete a supermajority only with valid votes
		for i := 0; i < n; i++ {
			if (s2|s2b)>>uint(i)&1 == 0 {
				if twoLinks && rng.Chance(1, 2) {
					rn.nd.Chain.ProcessBlockVerification(net.VoteMsg(vals[i], tr.Root.Hash, cp8.Hash))
					s2b |= 1 << uint(i)
				} else {
					rn.nd.Chain.ProcessBlockVerification(net.VoteMsg(vals[i], cp4.Hash, cp8.Hash))
					s2 |= 1 << uint(i)
				}
				want8via4 = want4 && 3*cnt(s2) > 2*n
				want8 = want8via4 || 3*cnt(s2b) > 2*n
				break
			}
		}
		ob := rn.observe()
		ctx := map[string]interface{}{"n": n, "phase": "after-restart+1", "in_header": inHeader, "trail": rn.trail}
		jc2 := &justCheck{net: net, tr: tr, prev: jc.prev, justFrom: jc.justFrom, node: jc.node}
		if !jc2.check(c, ob, ctx) {
			return
		}
		expect(ob, "after-restart+1vote")
		if c.WantSample() {
			c.Sample(map[string]interface{}{"n": n, "signers_0->4": cnt(s1), "signers_4->8": cnt(s2), "in_header": inHeader, "trail": rn.trail})
		}
	})

	// (b) random schedules
	netB := func() *chainkit.Net {
		return chainkit.Configure(chainkit.Params{Epoch: 4, Fed: 4, Local: -1, VotePending: 3, NKeys: 5})
	}
	r.Cases("schedules", r.N(32, 3200), func(c *ev.Case) {
		net := netB()
		g := net.NewGenesis(14, 2)
		tr := genTree(c, net, g, 18, 40)
		if tr == nil {
			return
		}
		fo := chainkit.FFGOpt{Byzantine: 3, VotePct: 85, EarlyVotePct: 12, GarbagePct: 10, BlockOrder: c.Index % 3, Duplicates: true, ByzExtra: 2, NodeKey: -1, VotesLastDescending: c.Index%4 == 3, SkipEpochPct: []int{0, 25}[c.Index%2]}
		steps, _ := tr.GenScheduleFFG(c.Rand, fo)
		c.Distinct("%s|%d|%d", tr.Shape(), len(steps), fo.BlockOrder)
		c.Journal(map[string]interface{}{"shape": tr.Shape(), "steps": len(steps)})
		rn, err := newRunner(c, net, g, tr, fmt.Sprintf("%s/r%d", base, c.Index))
		if err != nil {
			c.Inconclusive("node: %v", err)
			return
		}
		defer func() { rn.nd.Destroy() }()
		jc := &justCheck{net: net, tr: tr}
		jc.node = func() *chainkit.Node { return rn.nd }
		var last *obs
		rn.run(steps, runOpt{reopenPct: 5, headerVotes: true}, func(si int, s chainkit.Step, err error, ob *obs, restarted bool) bool {
			ctx := map[string]interface{}{"step": si, "event": s.String(), "after_restart": restarted, "shape": tr.Shape(), "trail": rn.trail}
			if restarted && last != nil {
				for _, cp := range tr.Checkpoints() {
					a, oka := statusOf(last, cp.Hash)
					b, okb := statusOf(ob, cp.Hash)
					if oka && okb && a != b {
						ctx["checkpoint"] = fmt.Sprintf("h%d %s", cp.Height, short(cp.Hash))
						c.Violation(fmt.Sprintf("status-changes-across-restart:%v->%v", a, b), "a checkpoint's status differs before and after a clean restart", ctx)
						return false
					}
				}
			}
			last = ob
			c.Count("states_checked", 1)
			return jc.check(c, ob, ctx)
		})
	})
	// (c) validator sets that change from epoch to epoch: vote outputs elect 1..6 validators (the
	// federation of 2 only rules until somebody is voted in), vetoes shrink the set again; skip links
	// and votes delivered last by descending target height record links before their sources are
	// justified, so that the cascades run over checkpoints with DIFFERENT numbers of validators.
	r.Cases("voted-validators", r.N(20, 3200), func(c *ev.Case) {
		net := chainkit.Configure(chainkit.Params{Epoch: 4, Fed: 2, Local: -1, VotePending: 3, NKeys: 6})
		g := net.NewGenesis(14, 2)
		tr := net.NewTree(g)
		o := chainkit.DefaultGen(c.Rand.Range(20, 40))
		o.MaxTxs, o.ForkPct, o.MaxBranch = 2, 15, 2
		o.Contracts, o.CoinbaseSp, o.Chained = false, false, false
		if _, err := tr.Grow(c.Rand, o); err != nil {
			c.Violation("harness:grow", "tree generator failed", err.Error())
			return
		}
		sizes := map[int]bool{}
		for _, cp := range tr.Checkpoints() {
			sizes[len(tr.ValidatorsOf(cp))] = true
		}
		c.Count("voted_trees", 1)
		if len(sizes) >= 2 {
			c.Count("voted_trees_with_changing_validator_count", 1)
		}
		// low participation on purpose: the number of signatures of a link then lies between two thirds of
		// one epoch's validator count and two thirds of another's
		fo := chainkit.FFGOpt{Byzantine: -1, VotePct: []int{90, 65, 50}[c.Index%3], EarlyVotePct: 10, GarbagePct: 5, BlockOrder: c.Index / 3 % 3, Duplicates: true, NodeKey: -1,
			VotesLastDescending: c.Index%2 == 0, SkipEpochPct: []int{30, 50}[c.Index/2%2]}
		steps, _ := tr.GenScheduleFFG(c.Rand, fo)
		c.Distinct("voted|%s|%d|%d", tr.Shape(), len(steps), len(sizes))
		c.Journal(map[string]interface{}{"shape": tr.Shape(), "steps": len(steps), "validator_counts": len(sizes)})
		rn, err := newRunner(c, net, g, tr, fmt.Sprintf("%s/v%d", base, c.Index))
		if err != nil {
			c.Inconclusive("node: %v", err)
			return
		}
		defer func() { rn.nd.Destroy() }()
		jc := &justCheck{net: net, tr: tr}
		jc.node = func() *chainkit.Node { return rn.nd }
		rn.run(steps, runOpt{reopenPct: 3, headerVotes: true}, func(si int, s chainkit.Step, err error, ob *obs, restarted bool) bool {
			ctx := map[string]interface{}{"step": si, "event": s.String(), "after_restart": restarted, "shape": tr.Shape(), "trail": rn.trail}
			c.Count("states_checked", 1)
			return jc.check(c, ob, ctx)
		})
	})
	// (d) a cascade over checkpoints whose validator counts differ.  Chain G..A(4)..B(8)..C(12): vote
	// outputs in epoch 1 elect k1 validators (they vote on B), more vote outputs in epoch 2 raise the set
	// to k2 > k1 (they vote on C).  s of the k2 validators sign the skip link A->C while A is still
	// unjustified; then the federation justifies A and the engine walks A's descendants.  C may become
	// justified only if 3s > 2*k2, whatever k1 is.
	r.Cases("cascade-growing-set", r.N(36, 1800), func(c *ev.Case) {
		rng := c.Rand
		net := chainkit.Configure(chainkit.Params{Epoch: 4, Fed: 2, Local: -1, VotePending: 3, NKeys: 8})
		g := net.NewGenesis(14, 0)
		tr := net.NewTree(g)
		k1 := 1 + c.Index%3
		k2 := k1 + 1 + (c.Index/3)%4
		vote := func(fund int, keys []int, amt uint64) *types.Tx {
			f := g.Funds[fund]
			var outs []chainkit.Out
			left := f.Amount - chainkit.DefaultFee
			for _, k := range keys {
				outs = append(outs, chainkit.Out{Asset: chainkit.BTM, Amount: amt, Program: chainkit.RandProg(rng), Vote: net.VoteKey(k)})
				left -= amt
			}
			outs = append(outs, chainkit.Out{Asset: chainkit.BTM, Amount: left, Program: chainkit.RandProg(rng)})
			return chainkit.MakeTx([]*chainkit.UTXO{f}, outs, 0)
		}
		seq := func(a, b int) []int {
			var l []int
			for i := a; i < b; i++ {
				l = append(l, i)
			}
			return l
		}
		p := tr.Root
		var chain []*chainkit.Blk
		for h := 1; h <= 12; h++ {
			var txs []*types.Tx
			switch h {
			case 2:
				txs = append(txs, vote(0, seq(0, k1), 3*consensus.MinVoteOutputAmount))
			case 6:
				txs = append(txs, vote(1, seq(k1, k2), 2*consensus.MinVoteOutputAmount))
			}
			b, err := tr.Build(p, txs, chainkit.BlockOpt{})
			if err != nil {
				c.Violation("harness:build", "reference ledger rejects a generated block", err.Error())
				return
			}
			chain = append(chain, b)
			p = b
		}
		A, B, C := chain[3], chain[7], chain[11]
		valsB, valsC := tr.ValidatorsOf(B), tr.ValidatorsOf(C)
		if len(valsB) != k1 || len(valsC) != k2 {
			c.Inconclusive("case %d: reference validator counts %d/%d, wanted %d/%d", c.Index, len(valsB), len(valsC), k1, k2)
			return
		}
		sN := 1 + rng.Intn(k2)
		if rng.Chance(1, 2) { // the interesting band: more than two thirds of k1, at most two thirds of k2
			if lo, hi := 2*k1/3+1, 2*k2/3; hi >= lo {
				sN = lo + rng.Intn(hi-lo+1)
			}
		}
		signers := append([]int{}, valsC...)
		rng.Shuffle(len(signers), func(i, j int) { signers[i], signers[j] = signers[j], signers[i] })
		signers = signers[:sN]
		wantC := 3*sN > 2*k2
		c.Distinct("cascade k1=%d k2=%d s=%d", k1, k2, sN)
		c.Journal(map[string]interface{}{"k1": k1, "k2": k2, "signers_A->C": sN})
		var steps []chainkit.Step
		for _, b := range chain {
			steps = append(steps, chainkit.Step{Blk: b})
		}
		for _, k := range signers {
			steps = append(steps, chainkit.Step{Vote: &chainkit.VoteSpec{Key: k, Source: A, Target: C}})
		}
		// in half of the cases the node is restarted between the skip-link votes and the votes that justify
		// A: the tree rebuilt from the store must give C its own parent epoch's validators, too
		restartAt := map[int]bool{}
		if c.Index%2 == 1 {
			restartAt[len(steps)-1] = true
			c.Count("cascades_with_restart_before_justification", 1)
		}
		for _, k := range tr.ValidatorsOf(A) { // the federation justifies A
			steps = append(steps, chainkit.Step{Vote: &chainkit.VoteSpec{Key: k, Source: tr.Root, Target: A}})
		}
		rn, err := newRunner(c, net, g, tr, fmt.Sprintf("%s/d%d", base, c.Index))
		if err != nil {
			c.Inconclusive("node: %v", err)
			return
		}
		defer func() { rn.nd.Destroy() }()
		jc := &justCheck{net: net, tr: tr}
		jc.node = func() *chainkit.Node { return rn.nd }
		rn.run(steps, runOpt{reopenAfter: restartAt}, func(si int, s chainkit.Step, err error, ob *obs, restarted bool) bool {
			ctx := map[string]interface{}{"k1": k1, "k2": k2, "signers_A->C": sN, "step": si, "event": s.String(), "after_restart": restarted, "trail": rn.trail}
			if !jc.check(c, ob, ctx) {
				return false
			}
			stA, _ := statusOf(ob, A.Hash)
			stC, _ := statusOf(ob, C.Hash)
			if stC >= state.Justified && !(wantC && stA >= state.Justified) {
				c.Violation("cascade:justified-with-at-most-two-thirds-of-its-own-validators", "a checkpoint reached through a cascade is justified although the link carries at most two thirds of the validators of ITS epoch",
					ctx)
				return false
			}
			return true
		})
		c.Count("cascades_checked", 1)
		if wantC {
			c.Count("cascades_with_supermajority", 1)
		} else if 3*sN > 2*k1 {
			c.Count("cascades_between_the_two_thresholds", 1)
		}
		_ = B
	})
	r.Floor("cascades_checked", 30)
	r.Floor("cascades_between_the_two_thresholds", 5)
	r.Floor("cascades_with_restart_before_justification", 10)
	r.Floor("voted_trees_with_changing_validator_count", 8)
	r.Floor("justifications_checked", 30)
	r.Floor("finalizations_checked", 10)
	r.Floor("supermajority_justified", 10)
	r.Floor("restarts", 20)
	r.Floor("blocks_with_forged_header_links", 10)
	r.Floor("headers_with_two_links", 5)
}

func origRunWithHeaders(steps []chainkit.Step, hdr map[bc.Hash]types.SupLinks) []chainkit.Step {
	out := make([]chainkit.Step, len(steps))
	for i, s := range steps {
		if s.Blk != nil {
			if l, ok := hdr[s.Blk.Hash]; ok {
				nb := *s.Blk
				cl := chainkit.CloneBlock(s.Blk.B)
				cl.SupLinks = l
				nb.B = cl
				s = chainkit.Step{Blk: &nb}
			}
		}
		out[i] = s
	}
	return out
}
