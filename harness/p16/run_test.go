// Shared scenario runner of the finality monitors C16, C17, C18.
package p16

import (
	"encoding/hex"
	"fmt"
	"sync"

	"golang.org/x/crypto/sha3"

	"github.com/bytom/bytom/crypto/ed25519/chainkd"
	"github.com/bytom/bytom/protocol/bc"
	"github.com/bytom/bytom/protocol/bc/types"
	"github.com/bytom/bytom/protocol/casper"
	"github.com/bytom/bytom/protocol/state"

	"verif/internal/chainkit"
	"verif/internal/ev"
)

// obs is what the monitors see after a step, at quiescence.
type obs struct {
	nodes   []casper.VerifNode
	tree    map[bc.Hash]*casper.VerifNode      // engine tree by hash
	store   map[bc.Hash]state.CheckpointStatus // persisted status of every stored checkpoint block of the harness tree
	lastFin bc.Hash
	lastJus bc.Hash
	best    bc.Hash
	stored  map[bc.Hash]bool
}

type runOpt struct {
	reopenPct   int          // percent chance to restart the node after a step
	reopenAfter map[int]bool // restart the node after these steps (directed scenarios)
	headerVotes bool         // deliver some votes inside block headers, plus forged header signatures
}

type runner struct {
	c      *ev.Case
	net    *chainkit.Net
	g      *chainkit.Genesis
	tr     *chainkit.Tree
	nd     *chainkit.Node
	stored map[bc.Hash]bool
	mu     sync.Mutex
	events []casper.ValidCasperSignMsg // verification messages the node posted (own and admitted)
	stop   chan struct{}
	trail  []string
}

func (r *runner) subscribe() {
	sub, err := r.nd.Disp.Subscribe(casper.ValidCasperSignMsg{})
	if err != nil {
		return
	}
	stop := make(chan struct{})
	r.stop = stop
	go func() {
		for {
			select {
			case e, ok := <-sub.Chan():
				if !ok {
					return
				}
				if m, ok := e.Data.(casper.ValidCasperSignMsg); ok {
					r.mu.Lock()
					r.events = append(r.events, m)
					r.mu.Unlock()
				}
			case <-stop:
				return
			}
		}
	}()
}

func (r *runner) observe() *obs {
	o := &obs{tree: map[bc.Hash]*casper.VerifNode{}, store: map[bc.Hash]state.CheckpointStatus{}, stored: r.stored}
	o.nodes = r.nd.Chain.VerifCasper().VerifTree()
	for i := range o.nodes {
		o.tree[o.nodes[i].Hash] = &o.nodes[i]
	}
	for _, cp := range append([]*chainkit.Blk{r.tr.Root}, r.tr.Checkpoints()...) {
		if !r.stored[cp.Hash] {
			continue
		}
		h := cp.Hash
		if c, err := r.nd.Store.GetCheckpoint(&h); err == nil {
			o.store[h] = c.Status
		}
	}
	if h, err := r.nd.Chain.LastFinalizedHeader(); err == nil {
		o.lastFin = h.Hash()
	}
	if h, err := r.nd.Chain.LastJustifiedHeader(); err == nil {
		o.lastJus = h.Hash()
	}
	o.best = r.nd.Best()
	return o
}

// forgedLinks: header supLinks with signatures that must never count: garbage bytes, a
// signature by a non-validator key, a signature in a slot >= n.
func (r *runner) forgedLinks(rng *ev.Rand, cp *chainkit.Blk) types.SupLinks {
	src := r.tr.PrevCP(cp)
	l := &types.SupLink{SourceHeight: src.Height, SourceHash: src.Hash}
	n := len(r.tr.ValidatorsOf(cp))
	for i := 0; i < len(l.Signatures); i++ {
		switch rng.Intn(5) {
		case 0:
			l.Signatures[i] = rng.Bytes(64)
		case 1:
			if i >= n {
				l.Signatures[i] = r.net.SignVote(r.net.Prv[rng.Intn(r.net.P.NKeys)], src.Hash, cp.Hash)
			} else {
				// valid signature of ANOTHER validator placed in this slot
				l.Signatures[i] = r.net.SignVote(r.net.Stranger, src.Hash, cp.Hash)
			}
		}
	}
	links := types.SupLinks{l}
	// links that cannot even be checked: an unknown source, a known source with the wrong height.  The
	// supLinks are not covered by the block hash or the proposer's signature: whoever relays the block
	// can attach them.
	if rng.Chance(1, 3) {
		bad := &types.SupLink{SourceHeight: src.Height, SourceHash: bc.NewHash([32]byte(rng.Bytes(32)))}
		if rng.Bool() {
			bad = &types.SupLink{SourceHeight: src.Height + r.net.P.Epoch, SourceHash: src.Hash}
		}
		bad.Signatures[rng.Intn(n)] = r.net.SignVote(r.net.Prv[rng.Intn(r.net.P.NKeys)], bad.SourceHash, cp.Hash)
		if rng.Bool() {
			links = append(links, bad)
		} else {
			links = append(types.SupLinks{bad}, links...)
		}
		r.c.Count("blocks_with_uncheckable_header_links", 1)
	}
	return links
}

func (r *runner) markStored(b *chainkit.Blk, delivered map[bc.Hash]bool) {
	delivered[b.Hash] = true
	for changed := true; changed; {
		changed = false
		for _, x := range r.tr.All {
			if delivered[x.Hash] && !r.stored[x.Hash] && x.Parent != nil && r.stored[x.Parent.Hash] {
				r.stored[x.Hash] = true
				changed = true
			}
		}
	}
}

// run drives the schedule and calls check after every step (and after every restart, with restarted=true).
func (r *runner) run(steps []chainkit.Step, o runOpt, check func(si int, s chainkit.Step, err error, ob *obs, restarted bool) bool) {
	c, rng := r.c, r.c.Rand
	delivered := map[bc.Hash]bool{r.tr.Root.Hash: true}
	r.stored = map[bc.Hash]bool{r.tr.Root.Hash: true}
	var parked []*chainkit.VoteSpec
	r.subscribe()
	for si := 0; si < len(steps); si++ {
		s := steps[si]
		var err error
		if s.Blk != nil {
			b := chainkit.CloneBlock(s.Blk.B)
			if o.headerVotes && s.Blk.Height%r.net.P.Epoch == 0 {
				if rng.Chance(1, 3) {
					b.SupLinks = r.forgedLinks(rng, s.Blk)
					c.Count("blocks_with_forged_header_links", 1)
				}
				// move later scheduled votes for this target into the header: up to two, or (one block in four)
				// all of them, so that a header alone can justify its checkpoint and finalize the parent, also
				// when the block is connected as a waiting orphan
				moved, maxMove, pick := 0, 2, 3
				if rng.Chance(1, 4) {
					maxMove, pick = 4, 1
					c.Count("blocks_carrying_all_their_votes", 1)
				}
				for sj := si + 1; sj < len(steps) && moved < maxMove; sj++ {
					v := steps[sj].Vote
					if v == nil || v.Target.Hash != s.Blk.Hash || v.Garbage || !rng.Chance(1, pick) {
						continue
					}
					order := -1
					for i, k := range r.tr.ValidatorsOf(s.Blk) {
						if k == v.Key {
							order = i
						}
					}
					if order < 0 {
						continue
					}
					b.SupLinks.AddSupLink(v.Source.Height, v.Source.Hash, r.net.SignVote(r.net.Prv[v.Key], v.Source.Hash, v.Target.Hash), order)
					steps = append(steps[:sj], steps[sj+1:]...)
					sj--
					moved++
					c.Count("votes_delivered_in_block_header", 1)
				}
			}
			_, err = r.nd.Chain.ProcessBlock(b)
			if err != nil {
				root := r.tr.ByHash[r.nd.Chain.VerifCasper().VerifTree()[0].Hash]
				if root != nil && root.Height > 0 && !root.IsAncestorOf(s.Blk) {
					c.Count("blocks_refused_off_finalized_branch", 1)
				} else {
					c.Violation("valid-block-rejected", "ProcessBlock returned an error for a valid block", map[string]interface{}{"step": si, "event": s.String(), "error": err.Error(), "shape": r.tr.Shape(), "trail": r.trail})
					return
				}
			} else {
				r.markStored(s.Blk, delivered)
			}
			c.Count("blocks_delivered", 1)
		} else {
			err = r.nd.Chain.ProcessBlockVerification(r.net.Msg(s.Vote, rng))
			if err == nil {
				c.Count("votes_accepted_or_parked", 1)
			} else {
				c.Count("votes_rejected", 1)
				if s.Vote.Byz {
					c.Count("byzantine_votes_rejected", 1)
				}
			}
			if !r.stored[s.Vote.Target.Hash] {
				parked = append(parked, s.Vote)
			}
		}
		if !r.nd.Settle(r.net, r.tr, parked) {
			c.Inconclusive("case %d: engine did not settle after step %d (%s)", c.Index, si, s.String())
			return
		}
		ob := r.observe()
		r.trail = append(r.trail, fmt.Sprintf("%s => err=%v fin=%s jus=%s best=%s", s.String(), err != nil, chainkit.HashShort(ob.lastFin), chainkit.HashShort(ob.lastJus), chainkit.HashShort(ob.best)))
		if !check(si, s, err, ob, false) {
			return
		}
		// a peer sends a block the node already has, with other header links (forged ones included): the
		// links are not part of the block's identity, the copy must change nothing that was verified
		if o.headerVotes && s.Blk != nil && rng.Chance(1, 8) {
			var cps []*chainkit.Blk
			for _, cp := range r.tr.Checkpoints() {
				if r.stored[cp.Hash] {
					cps = append(cps, cp)
				}
			}
			if len(cps) > 0 {
				cp := cps[rng.Intn(len(cps))]
				b := chainkit.CloneBlock(cp.B)
				b.SupLinks = r.forgedLinks(rng, cp)
				_, rerr := r.nd.Chain.ProcessBlock(b)
				c.Count("stored_blocks_delivered_again_with_forged_links", 1)
				if !r.nd.Settle(r.net, r.tr, parked) {
					c.Inconclusive("case %d: engine did not settle after a re-delivered block", c.Index)
					return
				}
				ob2 := r.observe()
				r.trail = append(r.trail, fmt.Sprintf("AGAIN block h%d %s with forged links => err=%v fin=%s jus=%s best=%s", cp.Height, chainkit.HashShort(cp.Hash), rerr != nil, chainkit.HashShort(ob2.lastFin), chainkit.HashShort(ob2.lastJus), chainkit.HashShort(ob2.best)))
				if !check(si, s, nil, ob2, false) {
					return
				}
			}
		}
		if (o.reopenPct > 0 && rng.Intn(100) < o.reopenPct) || o.reopenAfter[si] {
			close(r.stop)
			nd2, rerr := r.net.Reopen(r.nd, r.g)
			if rerr != nil {
				c.Violation("restart-failed", "the node does not start from its own store after a clean stop", map[string]interface{}{"error": rerr.Error(), "step": si, "trail": r.trail})
				return
			}
			r.nd = nd2
			r.subscribe()
			c.Count("restarts", 1)
			ob2 := r.observe()
			r.trail = append(r.trail, fmt.Sprintf("RESTART => fin=%s jus=%s best=%s", chainkit.HashShort(ob2.lastFin), chainkit.HashShort(ob2.lastJus), chainkit.HashShort(ob2.best)))
			if !check(si, s, nil, ob2, true) {
				return
			}
		}
	}
}

func voteMsgHash(src, tgt bc.Hash) []byte {
	m := sha3.Sum256(append(append([]byte{}, src.Bytes()...), tgt.Bytes()...))
	return m[:]
}

// validSigners returns the validator key indexes whose signature in the engine's link is valid
// for (source -> target) in the slot that belongs to them.
func validSigners(net *chainkit.Net, tr *chainkit.Tree, tgt *chainkit.Blk, l casper.VerifLink) (valid []int, invalidSlots []int) {
	vals := tr.ValidatorsOf(tgt)
	msg := voteMsgHash(l.SourceHash, tgt.Hash)
	for i, slot := range l.Signed {
		if slot >= len(vals) || vals[slot] < 0 {
			invalidSlots = append(invalidSlots, slot)
			continue
		}
		var xpub chainkd.XPub = net.Pub[vals[slot]]
		if xpub.Verify(msg, l.Signatures[i]) {
			valid = append(valid, vals[slot])
		} else {
			invalidSlots = append(invalidSlots, slot)
		}
	}
	return
}

func short(h bc.Hash) string { return hex.EncodeToString(h.Bytes()[:4]) }

func newRunner(c *ev.Case, net *chainkit.Net, g *chainkit.Genesis, tr *chainkit.Tree, dir string) (*runner, error) {
	nd, err := net.NewNode(dir, g)
	if err != nil {
		return nil, err
	}
	return &runner{c: c, net: net, g: g, tr: tr, nd: nd}, nil
}
