// C16 — finality is safe and irreversible (random long schedules against the real engine).
package p16

import (
	"fmt"
	"os"
	"testing"

	"github.com/bytom/bytom/protocol/bc"
	"github.com/bytom/bytom/protocol/bc/types"
	"github.com/bytom/bytom/protocol/state"

	"verif/internal/chainkit"
	"verif/internal/ev"
)

func genTree(c *ev.Case, net *chainkit.Net, g *chainkit.Genesis, lo, hi int) *chainkit.Tree {
	tr := net.NewTree(g)
	o := chainkit.DefaultGen(c.Rand.Range(lo, hi))
	o.MaxTxs = 1
	o.ForkPct = 30
	o.Votes, o.Vetoes = false, false // validator set = federation (the fault bound is stated for it)
	if _, err := tr.Grow(c.Rand, o); err != nil {
		c.Violation("harness:grow", "tree generator failed", err.Error())
		return nil
	}
	return tr
}

func TestC16(t *testing.T) {
	r := ev.Start(t, "C16")
	defer r.Finish()
	base, _ := os.MkdirTemp("", "c16")
	defer os.RemoveAll(base)
	r.Rule("4 federation validators (3 follow the protocol: one vote per target height, no surround votes, justified sources; 1 Byzantine equivocates, surround-votes and uses arbitrary sources); forked block trees over 4-10 epochs delivered in creation / random / swapped order, votes as messages, early (parked), duplicated, in block headers, with forged header signatures, random clean restarts; after every step finality invariants are checked on the engine tree, the store and the chain. distinct = (tree shape, schedule length, order kind, local-validator flag)")
	r.Assume("the fault bound: at most one of four validators deviates; honest validators' sources are justified by votes that exist (possibly delivered later)")
	local := -1
	if os.Getenv("VERIF_SHARD") != "" {
		var a, b int
		fmt.Sscanf(os.Getenv("VERIF_SHARD"), "%d/%d", &a, &b)
		if a%2 == 1 {
			local = 0 // odd shards: the node is validator 0 and signs itself (process-global configuration)
		}
	}
	net := chainkit.Configure(chainkit.Params{Epoch: 4, Fed: 4, Local: local, VotePending: 3, NKeys: 5})
	g := net.NewGenesis(14, 2)

	runCase := func(c *ev.Case, tr *chainkit.Tree, steps []chainkit.Step, tag string) {
		runC16(c, net, g, tr, steps, base, tag, local)
	}
	// crafted: several branches above a common checkpoint S; every honest validator votes skip links S -> T_i to
	// checkpoints at different heights on different branches BEFORE S is justified, then S gets justified: the
	// links take effect late, all at once
	r.Cases("late-skip-links", r.N(16, 800), func(c *ev.Case) {
		rng := c.Rand
		tr := net.NewTree(g)
		E := int(net.P.Epoch)
		p := tr.Root
		var steps []chainkit.Step
		for i := 0; i < E; i++ {
			b, err := tr.Build(p, []*types.Tx{}, chainkit.BlockOpt{})
			if err != nil {
				c.Violation("harness:build", "cannot build", err.Error())
				return
			}
			steps = append(steps, chainkit.Step{Blk: b})
			p = b
		}
		S := p
		nbr := rng.Range(2, 3)
		var targets []*chainkit.Blk
		for k := 0; k < nbr; k++ {
			q := S
			epochs := 2 + k + rng.Intn(2)
			for i := 0; i < epochs*E; i++ {
				bo := chainkit.BlockOpt{}
				if i == 0 {
					bo.SkipSlots = k
				}
				b, err := tr.Build(q, []*types.Tx{}, bo)
				if err != nil {
					c.Violation("harness:build", "cannot build", err.Error())
					return
				}
				steps = append(steps, chainkit.Step{Blk: b})
				q = b
			}
			targets = append(targets, q) // the last checkpoint of the branch: at least two epochs above S
		}
		// distinct target heights (a validator may not vote twice for one height)
		seen := map[uint64]bool{}
		var votes []chainkit.Step
		for _, t := range targets {
			for seen[t.Height] && t.Height > S.Height+2*uint64(E) {
				t = tr.PrevCP(t)
			}
			if seen[t.Height] {
				continue
			}
			seen[t.Height] = true
			for k := 0; k < 4; k++ {
				if k == local {
					continue
				}
				votes = append(votes, chainkit.Step{Vote: &chainkit.VoteSpec{Key: k, Source: S, Target: t}})
			}
		}
		rng.Shuffle(len(votes), func(i, j int) { votes[i], votes[j] = votes[j], votes[i] })
		steps = append(steps, votes...)
		for k := 0; k < 4; k++ {
			if k != local {
				steps = append(steps, chainkit.Step{Vote: &chainkit.VoteSpec{Key: k, Source: tr.Root, Target: S}})
			}
		}
		c.Count("late_skip_link_cases", 1)
		runCase(c, tr, steps, "late-skip-links")
	})
	// crafted: the main chain is on branch A; every block of branch B but the first waits as an orphan, the
	// headers of B's checkpoint blocks carry a supermajority of votes (root -> bE, bE -> b2E).  When b1 arrives
	// the whole branch connects at once and its headers finalize bE: the main chain must move to B with it.
	r.Cases("orphans-that-finalize", r.N(16, 800), func(c *ev.Case) {
		rng := c.Rand
		tr := net.NewTree(g)
		E := int(net.P.Epoch)
		build := func(p *chainkit.Blk, n, skip int) []*chainkit.Blk {
			var l []*chainkit.Blk
			for i := 0; i < n; i++ {
				bo := chainkit.BlockOpt{}
				if i == 0 {
					bo.SkipSlots = skip
				}
				b, err := tr.Build(p, []*types.Tx{}, bo)
				if err != nil {
					c.Violation("harness:build", "cannot build", err.Error())
					return nil
				}
				l = append(l, b)
				p = b
			}
			return l
		}
		A := build(tr.Root, rng.Range(2, E+2), 0)
		B := build(tr.Root, 2*E+rng.Intn(2), 1)
		if A == nil || B == nil {
			return
		}
		link := func(src, tgt *chainkit.Blk) types.SupLinks {
			l := &types.SupLink{SourceHeight: src.Height, SourceHash: src.Hash}
			for order, k := range tr.ValidatorsOf(tgt) {
				if k != local && k != 0 { // three of the four validators (never the node's own key)
					l.Signatures[order] = net.SignVote(net.Prv[k], src.Hash, tgt.Hash)
				}
			}
			return types.SupLinks{l}
		}
		bE, b2E := B[E-1], B[2*E-1]
		hdr := map[bc.Hash]types.SupLinks{bE.Hash: link(tr.Root, bE), b2E.Hash: link(bE, b2E)}
		var steps []chainkit.Step
		for _, b := range A {
			steps = append(steps, chainkit.Step{Blk: b})
		}
		rest := append([]*chainkit.Blk{}, B[1:]...)
		if rng.Bool() {
			rng.Shuffle(len(rest), func(i, j int) { rest[i], rest[j] = rest[j], rest[i] })
		}
		for _, b := range rest {
			steps = append(steps, chainkit.Step{Blk: b})
		}
		steps = append(steps, chainkit.Step{Blk: B[0]})
		c.Count("orphans_that_finalize_cases", 1)
		runCase(c, tr, origRunWithHeaders(steps, hdr), "orphans-that-finalize")
	})
	r.Cases("schedules", r.N(48, 4800), func(c *ev.Case) {
		tr := genTree(c, net, g, 18, 42)
		if tr == nil {
			return
		}
		fo := chainkit.FFGOpt{Byzantine: 3, VotePct: 85, EarlyVotePct: 12, GarbagePct: 5, BlockOrder: c.Index % 3, Duplicates: true, ByzExtra: 2, NodeKey: local, VotesLastDescending: c.Index%4 == 3, SkipEpochPct: []int{0, 25}[c.Index%2]}
		steps, _ := tr.GenScheduleFFG(c.Rand, fo)
		runCase(c, tr, steps, fmt.Sprintf("order%d", fo.BlockOrder))
	})
	r.Floor("states_checked", 1000)
	r.Floor("finalizations_observed", 20)
	r.Floor("byzantine_votes_sent", 50)
	r.Floor("restarts", 10)
	r.Floor("late_skip_link_cases", 8)
	r.Floor("orphans_that_finalize_cases", 8)
}

// runC16 drives one schedule and checks the finality invariants after every step.
func runC16(c *ev.Case, net *chainkit.Net, g *chainkit.Genesis, tr *chainkit.Tree, steps []chainkit.Step, base, tag string, local int) {
	c.Journal(map[string]interface{}{"shape": tr.Shape(), "steps": len(steps)})
	c.Distinct("%s|%d|%s|%d", tr.Shape(), len(steps), tag, local)
	rn, err := newRunner(c, net, g, tr, fmt.Sprintf("%s/n%d", base, c.Index))
	if err != nil {
		c.Inconclusive("node: %v", err)
		return
	}
	defer func() { rn.nd.Destroy() }()
	prevFin := tr.Root
	everFinal := map[bc.Hash]bool{}
	rn.run(steps, runOpt{reopenPct: 4, headerVotes: true}, func(si int, s chainkit.Step, err error, ob *obs, restarted bool) bool {
		ctx := map[string]interface{}{"step": si, "event": s.String(), "after_restart": restarted, "shape": tr.Shape(), "trail": rn.trail}
		fin := tr.ByHash[ob.lastFin]
		if fin == nil {
			c.Violation("last-finalized-unknown-block", "LastFinalized is not a block of the tree", ctx)
			return false
		}
		// 1. the last finalized checkpoint only moves to descendants of itself
		if fin.Hash != prevFin.Hash {
			if !prevFin.IsAncestorOf(fin) {
				kind := "moved-to-non-descendant"
				if fin.IsAncestorOf(prevFin) {
					kind = "moved-back-to-ancestor"
				}
				if restarted {
					kind += ":after-restart"
				}
				ctx["from"] = fmt.Sprintf("h%d %s", prevFin.Height, short(prevFin.Hash))
				ctx["to"] = fmt.Sprintf("h%d %s", fin.Height, short(fin.Hash))
				c.Violation("last-finalized:"+kind, "the last finalized checkpoint moved to a block that is not its descendant", ctx)
				return false
			}
			c.Count("finalizations_observed", 1)
			prevFin = fin
		}
		// 2. all checkpoints with status Finalized (engine tree and store) lie on one chain
		var finals []*chainkit.Blk
		seen := map[bc.Hash]bool{}
		for h, st := range ob.store {
			if st == state.Finalized && tr.ByHash[h] != nil && !seen[h] {
				finals = append(finals, tr.ByHash[h])
				seen[h] = true
			}
		}
		for h, n := range ob.tree {
			if n.Status == state.Finalized && tr.ByHash[h] != nil && !seen[h] {
				finals = append(finals, tr.ByHash[h])
				seen[h] = true
			}
		}
		for i := range finals {
			everFinal[finals[i].Hash] = true
			for j := i + 1; j < len(finals); j++ {
				a, b := finals[i], finals[j]
				if !a.IsAncestorOf(b) && !b.IsAncestorOf(a) {
					ctx["a"] = fmt.Sprintf("h%d %s", a.Height, short(a.Hash))
					ctx["b"] = fmt.Sprintf("h%d %s", b.Height, short(b.Hash))
					c.Violation("two-finalized-checkpoints-not-on-one-chain", "two checkpoints that are not on one chain both have status Finalized", ctx)
					return false
				}
			}
		}
		// 3. the main chain contains the last finalized checkpoint and every block ever reported finalized
		best := tr.ByHash[ob.best]
		if best == nil || !fin.IsAncestorOf(best) {
			ctx["best"] = short(ob.best)
			ctx["finalized"] = fmt.Sprintf("h%d %s", fin.Height, short(fin.Hash))
			c.Violation("best-does-not-descend-from-last-finalized", "the best block does not descend from the last finalized checkpoint", ctx)
			return false
		}
		for h := range everFinal {
			if !rn.nd.Chain.InMainChain(h) {
				ctx["block"] = short(h)
				c.Violation("finalized-block-left-main-chain", "a block once reported finalized is no longer on the main chain", ctx)
				return false
			}
		}
		if s.Vote != nil && s.Vote.Byz {
			c.Count("byzantine_votes_sent", 1)
		}
		c.Count("states_checked", 1)
		return true
	})
	if c.WantSample() {
		c.Sample(map[string]interface{}{"tree_shape": tr.Shape(), "steps": len(steps), "final_finalized_height": prevFin.Height, "trail_tail": tail(rn.trail, 6)})
	}
}

func tail(s []string, n int) []string {
	if len(s) > n {
		return s[len(s)-n:]
	}
	return s
}
