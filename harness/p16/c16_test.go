// C16 — finality is safe and irreversible (random long schedules against the real engine).
package p16

import (
	"fmt"
	"os"
	"testing"

	"github.com/bytom/bytom/protocol/bc"
	"github.com/bytom/bytom/protocol/state"

	"verif/internal/chainkit"
	"verif/internal/ev"
)

func genTree(c *ev.Case, net *chainkit.Net, g *chainkit.Genesis, lo, hi int) *chainkit.Tree {
	tr := net.NewTree(g)
	o := chainkit.DefaultGen(c.Rand.Range(lo, hi))
	o.MaxTxs = 1
	o.ForkPct = 30
	o.Votes, o.Vetoes = false, false // validator set = federation (the fault bound is stated for it)
	if _, err := tr.Grow(c.Rand, o); err != nil {
		c.Violation("harness:grow", "tree generator failed", err.Error())
		return nil
	}
	return tr
}

func TestC16(t *testing.T) {
	r := ev.Start(t, "C16")
	defer r.Finish()
	base, _ := os.MkdirTemp("", "c16")
	defer os.RemoveAll(base)
	r.Rule("4 federation validators (3 follow the protocol: one vote per target height, no surround votes, justified sources; 1 Byzantine equivocates, surround-votes and uses arbitrary sources); forked block trees over 4-10 epochs delivered in creation / random / swapped order, votes as messages, early (parked), duplicated, in block headers, with forged header signatures, random clean restarts; after every step finality invariants are checked on the engine tree, the store and the chain. distinct = (tree shape, schedule length, order kind, local-validator flag)")
	r.Assume("the fault bound: at most one of four validators deviates; honest validators' sources are justified by votes that exist (possibly delivered later)")
	local := -1
	if os.Getenv("VERIF_SHARD") != "" {
		var a, b int
		fmt.Sscanf(os.Getenv("VERIF_SHARD"), "%d/%d", &a, &b)
		if a%2 == 1 {
			local = 0 // odd shards: the node is validator 0 and signs itself (process-global configuration)
		}
	}
	net := chainkit.Configure(chainkit.Params{Epoch: 4, Fed: 4, Local: local, VotePending: 3, NKeys: 5})
	g := net.NewGenesis(14, 2)

	r.Cases("schedules", r.N(48, 4800), func(c *ev.Case) {
		tr := genTree(c, net, g, 18, 42)
		if tr == nil {
			return
		}
		fo := chainkit.FFGOpt{Byzantine: 3, VotePct: 85, EarlyVotePct: 12, GarbagePct: 5, BlockOrder: c.Index % 3, Duplicates: true, ByzExtra: 2, NodeKey: local}
		steps, _ := tr.GenScheduleFFG(c.Rand, fo)
		c.Journal(map[string]interface{}{"shape": tr.Shape(), "steps": len(steps)})
		c.Distinct("%s|%d|%d|%d", tr.Shape(), len(steps), fo.BlockOrder, local)
		rn, err := newRunner(c, net, g, tr, fmt.Sprintf("%s/n%d", base, c.Index))
		if err != nil {
			c.Inconclusive("node: %v", err)
			return
		}
		defer func() { rn.nd.Destroy() }()
		prevFin := tr.Root
		everFinal := map[bc.Hash]bool{}
		rn.run(steps, runOpt{reopenPct: 4, headerVotes: true}, func(si int, s chainkit.Step, err error, ob *obs, restarted bool) bool {
			ctx := map[string]interface{}{"step": si, "event": s.String(), "after_restart": restarted, "shape": tr.Shape(), "trail": rn.trail}
			fin := tr.ByHash[ob.lastFin]
			if fin == nil {
				c.Violation("last-finalized-unknown-block", "LastFinalized is not a block of the tree", ctx)
				return false
			}
			// 1. the last finalized checkpoint only moves to descendants of itself
			if fin.Hash != prevFin.Hash {
				if !prevFin.IsAncestorOf(fin) {
					kind := "moved-to-non-descendant"
					if fin.IsAncestorOf(prevFin) {
						kind = "moved-back-to-ancestor"
					}
					if restarted {
						kind += ":after-restart"
					}
					ctx["from"] = fmt.Sprintf("h%d %s", prevFin.Height, short(prevFin.Hash))
					ctx["to"] = fmt.Sprintf("h%d %s", fin.Height, short(fin.Hash))
					c.Violation("last-finalized:"+kind, "the last finalized checkpoint moved to a block that is not its descendant", ctx)
					return false
				}
				c.Count("finalizations_observed", 1)
				prevFin = fin
			}
			// 2. all checkpoints with status Finalized (engine tree and store) lie on one chain
			var finals []*chainkit.Blk
			seen := map[bc.Hash]bool{}
			for h, st := range ob.store {
				if st == state.Finalized && tr.ByHash[h] != nil && !seen[h] {
					finals = append(finals, tr.ByHash[h])
					seen[h] = true
				}
			}
			for h, n := range ob.tree {
				if n.Status == state.Finalized && tr.ByHash[h] != nil && !seen[h] {
					finals = append(finals, tr.ByHash[h])
					seen[h] = true
				}
			}
			for i := range finals {
				everFinal[finals[i].Hash] = true
				for j := i + 1; j < len(finals); j++ {
					a, b := finals[i], finals[j]
					if !a.IsAncestorOf(b) && !b.IsAncestorOf(a) {
						ctx["a"] = fmt.Sprintf("h%d %s", a.Height, short(a.Hash))
						ctx["b"] = fmt.Sprintf("h%d %s", b.Height, short(b.Hash))
						c.Violation("two-finalized-checkpoints-not-on-one-chain", "two checkpoints that are not on one chain both have status Finalized", ctx)
						return false
					}
				}
			}
			// 3. the main chain contains the last finalized checkpoint and every block ever reported finalized
			best := tr.ByHash[ob.best]
			if best == nil || !fin.IsAncestorOf(best) {
				ctx["best"] = short(ob.best)
				ctx["finalized"] = fmt.Sprintf("h%d %s", fin.Height, short(fin.Hash))
				c.Violation("best-does-not-descend-from-last-finalized", "the best block does not descend from the last finalized checkpoint", ctx)
				return false
			}
			for h := range everFinal {
				if !rn.nd.Chain.InMainChain(h) {
					ctx["block"] = short(h)
					c.Violation("finalized-block-left-main-chain", "a block once reported finalized is no longer on the main chain", ctx)
					return false
				}
			}
			if s.Vote != nil && s.Vote.Byz {
				c.Count("byzantine_votes_sent", 1)
			}
			c.Count("states_checked", 1)
			return true
		})
		if c.WantSample() {
			c.Sample(map[string]interface{}{"tree_shape": tr.Shape(), "steps": len(steps), "final_finalized_height": prevFin.Height, "trail_tail": tail(rn.trail, 6)})
		}
	})
	r.Floor("states_checked", 1000)
	r.Floor("finalizations_observed", 20)
	r.Floor("byzantine_votes_sent", 50)
	r.Floor("restarts", 10)
}

func tail(s []string, n int) []string {
	if len(s) > n {
		return s[len(s)-n:]
	}
	return s
}
