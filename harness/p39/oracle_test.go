package p39

import (
	"fmt"
	"sort"
	"strings"
	"sync"
	"testing"
	"time"

	"github.com/sirupsen/logrus"

	"github.com/bytom/bytom/event"

	"verif/internal/ev"
)

// Sensitivity of the oracles: the same case bodies are run against a simple
// dispatcher with a selectable defect; every defect must be reported, the
// defect-free one must pass.  (Plain `go test`; not part of ./check.)

type fakeSub struct {
	d      *fakeDisp
	ch     chan *event.TypeMuxEvent
	types  [3]bool
	closed bool
	held   *event.TypeMuxEvent
}

type fakeDisp struct {
	mu      sync.Mutex
	subs    []*fakeSub
	stopped bool
	cap     int
	defect  string
	n       int
	dead    sync.Mutex
}

func newFake(defect string, capacity int) *fakeDisp {
	d := &fakeDisp{cap: capacity, defect: defect}
	d.dead.Lock()
	return d
}

func (d *fakeDisp) Subscribe(types ...interface{}) (subscription, error) {
	d.mu.Lock()
	defer d.mu.Unlock()
	realCap := d.cap
	if d.defect == "cap-1" {
		realCap--
	}
	s := &fakeSub{d: d, ch: make(chan *event.TypeMuxEvent, realCap)}
	if d.stopped {
		s.closed = true
		close(s.ch)
		return s, nil
	}
	for _, t := range types {
		id, _ := decode(t)
		if s.types[id.typ] {
			return nil, event.ErrDuplicateSubscribe
		}
		s.types[id.typ] = true
	}
	d.subs = append(d.subs, s)
	return s, nil
}

func (s *fakeSub) send(e *event.TypeMuxEvent) {
	select {
	case s.ch <- e:
	default:
	}
}

func (d *fakeDisp) Post(x interface{}) error {
	d.mu.Lock()
	defer d.mu.Unlock()
	if d.stopped && d.defect != "post-after-stop-ok" {
		return event.ErrMuxClosed
	}
	if d.stopped {
		return nil
	}
	id, _ := decode(x)
	e := &event.TypeMuxEvent{Time: time.Now(), Data: x}
	for _, s := range d.subs {
		d.n++
		hit := d.n%7 == 0
		if !s.types[id.typ] {
			if d.defect == "foreign" && hit {
				s.send(e)
			}
			continue
		}
		switch {
		case d.defect == "drop" && hit:
		case d.defect == "dup" && hit:
			s.send(e)
			s.send(e)
		case d.defect == "reorder" && hit && s.held == nil:
			s.held = e
		default:
			s.send(e)
			if s.held != nil {
				s.send(s.held)
				s.held = nil
			}
		}
	}
	return nil
}

func (d *fakeDisp) Stop() {
	d.mu.Lock()
	defer d.mu.Unlock()
	for _, s := range d.subs {
		s.close()
	}
	d.subs = nil
	d.stopped = true
}

func (s *fakeSub) close() {
	if !s.closed {
		s.closed = true
		if s.held != nil {
			s.send(s.held)
			s.held = nil
		}
		close(s.ch)
	}
}

func (s *fakeSub) Chan() <-chan *event.TypeMuxEvent { return s.ch }
func (s *fakeSub) Closed() bool                     { s.d.mu.Lock(); defer s.d.mu.Unlock(); return s.closed }

func (s *fakeSub) Unsubscribe() {
	if s.d.defect == "deadlock" {
		s.d.dead.Lock() // never released
	}
	s.d.mu.Lock()
	defer s.d.mu.Unlock()
	if s.d.defect == "leave-registered" {
		return // neither removed nor closed: events posted after Unsubscribe still arrive
	}
	for i, x := range s.d.subs {
		if x == s {
			s.d.subs = append(s.d.subs[:i:i], s.d.subs[i+1:]...)
			break
		}
	}
	s.close()
}

type collect struct {
	mu     sync.Mutex
	keys   map[string]int
	counts map[string]int64
}

func (c *collect) Violation(key, what string, w interface{}) {
	c.mu.Lock()
	c.keys[key]++
	c.mu.Unlock()
}
func (c *collect) Count(name string, n int64)      { c.mu.Lock(); c.counts[name] += n; c.mu.Unlock() }
func (c *collect) Distinct(string, ...interface{}) {}

func fakeCtx(rep *collect, group string, i int, inconcl *[]string) *ctx {
	return &ctx{reporter: rep, Rand: ev.NewRand(1, "C39", group, i), Group: group, Index: i,
		Journal: func(interface{}) {}, WantSample: func() bool { return false }, Sample: func(interface{}) {},
		Inconclusive: func(f string, a ...interface{}) { *inconcl = append(*inconcl, fmt.Sprintf(f, a...)) }}
}

func runAll(defect string) (*collect, []string) {
	rep := &collect{keys: map[string]int{}, counts: map[string]int64{}}
	var inconcl []string
	const smallCap = 64
	mk := func() (dispatcher, int) { return newFake(defect, smallCap), smallCap }
	for i := 0; i < 150; i++ {
		runSequential(fakeCtx(rep, "seq", i, &inconcl), mk, seqRandom)
	}
	for i := 0; i < 8; i++ {
		runSequential(fakeCtx(rep, "full", 2*i, &inconcl), mk, seqFull)
	}
	for i := 0; i < 60; i++ {
		// few events, so that the small buffer is never full
		runConcurrent(fakeCtx(rep, "conc", i, &inconcl), mk, concParams{posters: 4, perPoster: [2]int{5, 14}, subs: 4, sessions: [2]int{1, 3}, stop: true})
	}
	for i := 0; i < 30; i++ {
		late := i%2 == 0
		runConcurrent(fakeCtx(rep, "full", 2*i+1, &inconcl), mk, concParams{posters: 4, perPoster: [2]int{20, 60}, subs: 3, sessions: [2]int{1, 1}, lazyOnly: true, crowdOne: true,
			presub: true, prefill: smallCap - i%5, stop: !late, lateUnsub: late, typeBias: []int{6, 1, 1}})
	}
	return rep, inconcl
}

func keysOf(c *collect) []string {
	var ks []string
	for k, n := range c.keys {
		ks = append(ks, fmt.Sprintf("%s x%d", k, n))
	}
	sort.Strings(ks)
	return ks
}

func TestOracleSensitivity(t *testing.T) {
	rep, inc := runAll("")
	if len(rep.keys) != 0 || len(inc) != 0 {
		t.Fatalf("defect-free dispatcher flagged: %v %v", keysOf(rep), inc)
	}
	for _, f := range []string{"seq_events_checked", "seq_model_drops", "conc_mandatory_delivered", "conc_optional_delivered", "conc_sessions_buffer_full", "conc_legal_buffer_full_drops",
		"conc_posts_after_stop_returned", "conc_unsubscribe_overlaps_post"} {
		if rep.counts[f] == 0 {
			t.Errorf("counter %s stayed 0 on the reference run", f)
		}
	}
	for defect, want := range map[string][]string{
		"drop":               {"seq:lost-event", "conc:lost-event"},
		"dup":                {"seq:duplicate-or-reordered", "conc:duplicate"},
		"foreign":            {"seq:foreign-type", "conc:foreign-type"},
		"reorder":            {"seq:", "conc:per-poster-order"},
		"post-after-stop-ok": {"Post:succeeds-after-Stop"},
		"cap-1":              {"seq:lost-event", "conc:"},
		"leave-registered":   {"seq:", "Unsubscribe:channel-left-open"},
	} {
		rep, _ := runAll(defect)
		for _, w := range want {
			found := false
			for k := range rep.keys {
				if strings.HasPrefix(k, w) {
					found = true
				}
			}
			if !found {
				t.Errorf("defect %q: no violation with prefix %q; got %v", defect, w, keysOf(rep))
			}
		}
		t.Logf("defect %-20s -> %v", defect, keysOf(rep))
	}
}

func TestStallDetector(t *testing.T) {
	ob, og, oc := stallBound, stallGap, caseBound
	stallBound, stallGap, caseBound = 400*time.Millisecond, 200*time.Millisecond, 20*time.Second
	defer func() { stallBound, stallGap, caseBound = ob, og, oc }()
	// a blocked Unsubscribe inside "the package under test" (here: this package) is a deadlock
	rep := &collect{keys: map[string]int{}, counts: map[string]int64{}}
	var inc []string
	g := newGuard("verif/p39.(*fakeSub)")
	d := newFake("deadlock", 8)
	sub, _ := d.Subscribe(mkEvent(evID{}))
	sl := g.newSlot()
	done := make(chan struct{})
	go func() { sl.do("Unsubscribe", func() { sub.Unsubscribe() }); close(done) }()
	if awaitCase(fakeCtx(rep, "stall", 0, &inc), g, done) || rep.keys["stall:Unsubscribe"] != 1 {
		t.Fatalf("deadlocked Unsubscribe not reported: %v %v", keysOf(rep), inc)
	}
	g.close()
	// a slow but running call is not
	rep = &collect{keys: map[string]int{}, counts: map[string]int64{}}
	inc = nil
	g = newGuard("verif/p39.(*spinner)")
	sl = g.newSlot()
	done = make(chan struct{})
	stop := make(chan struct{})
	go func() { sl.do("Unsubscribe", func() { (&spinner{}).Unsubscribe(stop) }); close(done) }()
	ok := awaitCase(fakeCtx(rep, "stall", 1, &inc), g, done)
	close(stop)
	if ok || len(rep.keys) != 0 || len(inc) != 1 {
		t.Fatalf("busy call misjudged: ok=%v %v %v", ok, keysOf(rep), inc)
	}
	g.close()
}

type spinner struct{ n uint64 }

func (s *spinner) Unsubscribe(stop chan struct{}) {
	for {
		select {
		case <-stop:
			return
		default:
			s.n++
		}
	}
}

// blockHook parks whoever logs (the dispatcher logs inside Subscribe, holding
// its mutex, when a type is repeated): a way to wedge the real package from
// outside and check the detector against real frames.
type blockHook struct{ release chan struct{} }

func (h blockHook) Levels() []logrus.Level   { return logrus.AllLevels }
func (h blockHook) Fire(*logrus.Entry) error { <-h.release; return nil }

func TestStallDetectorRealFrames(t *testing.T) {
	ob, og, oc := stallBound, stallGap, caseBound
	stallBound, stallGap, caseBound = 400*time.Millisecond, 200*time.Millisecond, 20*time.Second
	defer func() { stallBound, stallGap, caseBound = ob, og, oc }()
	std := logrus.StandardLogger()
	oldHooks := std.ReplaceHooks(make(logrus.LevelHooks))
	oldLevel := std.GetLevel()
	h := blockHook{release: make(chan struct{})}
	std.AddHook(h)
	std.SetLevel(logrus.ErrorLevel)
	defer func() { std.SetLevel(oldLevel); std.ReplaceHooks(oldHooks) }()

	d := event.NewDispatcher()
	sub, err := d.Subscribe(evA{})
	if err != nil {
		t.Fatal(err)
	}
	go d.Subscribe(evB{}, evB{}) // logs under d.mutex -> parked in the hook
	time.Sleep(100 * time.Millisecond)
	rep := &collect{keys: map[string]int{}, counts: map[string]int64{}}
	var inc []string
	g := newGuard(eventPkg)
	sl := g.newSlot()
	done := make(chan struct{})
	go func() { sl.do("Unsubscribe", func() { sub.Unsubscribe() }); close(done) }()
	ok := awaitCase(fakeCtx(rep, "stall", 2, &inc), g, done)
	close(h.release)
	g.close()
	if ok || rep.keys["stall:Unsubscribe"] != 1 {
		t.Fatalf("wedged real Unsubscribe not reported: ok=%v %v %v", ok, keysOf(rep), inc)
	}
	<-done
}
