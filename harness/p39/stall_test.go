package p39

import (
	"fmt"
	"regexp"
	"runtime"
	"strings"
	"sync"
	"sync/atomic"
	"time"
)

// Progress watchdog for calls into the dispatcher.
//
// Every dispatcher call of a case runs inside slot.do.  A monitor goroutine
// looks for a call that has not returned for stallBound; it then takes two
// goroutine dumps (runtime.Stack, all goroutines) stallGap apart.  Verdict
// "deadlock" needs all of:  the call is still in flight after the second dump;
// a goroutine with the call's frame (e.g. event.(*Subscription).Unsubscribe) is
// present in both dumps; every goroutine that is inside the package under test
// is in a blocked state (not running / runnable / syscall) with an identical
// stack in both dumps.  Anything else (slow machine, starved goroutine) is
// inconclusive.  This is the only place where wall-clock time leads to a
// verdict (DESIGN §2 "Determinism").

var (
	stallBound = 20 * time.Second
	stallGap   = 2 * time.Second
	caseBound  = 150 * time.Second // without any progress of the case
)

const eventPkg = "github.com/bytom/bytom/event."

type slot struct {
	g     *guard
	name  atomic.Value // string
	since atomic.Int64
	busy  atomic.Bool
}

func (s *slot) do(name string, fn func()) {
	s.name.Store(name)
	s.since.Store(time.Now().UnixNano())
	s.busy.Store(true)
	fn()
	s.busy.Store(false)
	s.g.progress.Add(1)
}

type stallVerdict struct {
	deadlock bool
	op       string
	reason   string
	dump     string
}

type guard struct {
	pkg     string
	mu      sync.Mutex
	slots   []*slot
	verdict chan stallVerdict
	quit    chan struct{}
	aborted atomic.Bool
	once    sync.Once
	// bumped by every completed dispatcher call and every event taken from a
	// channel: the case watchdog only fires when this stands still
	progress atomic.Int64
}

func newGuard(pkg string) *guard {
	g := &guard{pkg: pkg, verdict: make(chan stallVerdict, 1), quit: make(chan struct{})}
	go g.monitor()
	return g
}

func (g *guard) newSlot() *slot {
	s := &slot{g: g}
	g.mu.Lock()
	g.slots = append(g.slots, s)
	g.mu.Unlock()
	return s
}

func (g *guard) close() { g.once.Do(func() { close(g.quit) }) }

func (g *guard) oldest() (*slot, string) {
	g.mu.Lock()
	defer g.mu.Unlock()
	now := time.Now().UnixNano()
	for _, s := range g.slots {
		if s.busy.Load() && now-s.since.Load() > int64(stallBound) {
			n, _ := s.name.Load().(string)
			return s, n
		}
	}
	return nil, ""
}

func (g *guard) monitor() {
	tick := time.NewTicker(stallBound / 40)
	defer tick.Stop()
	for {
		select {
		case <-g.quit:
			return
		case <-tick.C:
		}
		s, name := g.oldest()
		if s == nil {
			continue
		}
		started := s.since.Load()
		d1 := allStacks()
		select {
		case <-g.quit:
			return
		case <-time.After(stallGap):
		}
		d2 := allStacks()
		v := stallVerdict{op: name}
		if !s.busy.Load() || s.since.Load() != started {
			v.reason = fmt.Sprintf("%s took longer than %s but returned", name, stallBound)
		} else {
			v.deadlock, v.reason, v.dump = analyzeStall(d1, d2, g.pkg, name)
		}
		g.aborted.Store(true)
		g.verdict <- v
		return
	}
}

func allStacks() string {
	buf := make([]byte, 1<<20)
	for {
		n := runtime.Stack(buf, true)
		if n < len(buf) {
			return string(buf[:n])
		}
		buf = make([]byte, 2*len(buf))
	}
}

type gInfo struct {
	id, state string
	frames    string // stack text without the header and without argument values / pc offsets
	raw       string
}

var gHeader = regexp.MustCompile(`^goroutine (\d+) \[([^\],]+)[^\]]*\]:`)

// pkgGoroutines returns the goroutines of a dump that have a frame inside pkg.
func pkgGoroutines(dump, pkg string) map[string]gInfo {
	out := map[string]gInfo{}
	for _, blk := range strings.Split(dump, "\n\n") {
		blk = strings.TrimSpace(blk)
		lines := strings.Split(blk, "\n")
		m := gHeader.FindStringSubmatch(lines[0])
		if m == nil {
			continue
		}
		inPkg := false
		var fr []string
		for _, l := range lines[1:] {
			if strings.HasPrefix(l, "\t") {
				continue // file:line +pc
			}
			if strings.HasPrefix(l, "created by") {
				break
			}
			if i := strings.LastIndex(l, "("); i > 0 && strings.HasSuffix(l, ")") {
				l = l[:i] // drop the argument words
			}
			if strings.HasPrefix(l, pkg) {
				inPkg = true
			}
			fr = append(fr, l)
		}
		if inPkg {
			out[m[1]] = gInfo{id: m[1], state: m[2], frames: strings.Join(fr, " < "), raw: blk}
		}
	}
	return out
}

func blockedState(s string) bool {
	switch s {
	case "running", "runnable", "syscall", "sleep", "GC assist wait", "GC assist marking", "preempted", "copystack":
		return false
	}
	return true
}

// analyzeStall decides from two dumps whether the in-flight call op (a method
// name such as "Unsubscribe") is deadlocked inside pkg.
func analyzeStall(d1, d2, pkg, op string) (deadlock bool, reason, witness string) {
	g1, g2 := pkgGoroutines(d1, pkg), pkgGoroutines(d2, pkg)
	opSeen := false
	var raws []string
	for id, a := range g2 {
		b, ok := g1[id]
		if !ok {
			return false, "a goroutine entered " + pkg + " between the two dumps: still making progress", ""
		}
		if !blockedState(a.state) || !blockedState(b.state) {
			return false, fmt.Sprintf("goroutine %s inside %s is %s: not blocked", id, pkg, a.state), ""
		}
		if a.frames != b.frames {
			return false, fmt.Sprintf("goroutine %s inside %s moved between the two dumps", id, pkg), ""
		}
		for _, f := range strings.Split(a.frames, " < ") {
			if strings.HasPrefix(f, pkg) && strings.HasSuffix(f, "."+op) {
				opSeen = true
			}
		}
		raws = append(raws, a.raw)
	}
	for id := range g1 {
		if _, ok := g2[id]; !ok {
			return false, "a goroutine left " + pkg + " between the two dumps: still making progress", ""
		}
	}
	if !opSeen {
		return false, "no goroutine is inside " + op + " of " + pkg, ""
	}
	w := strings.Join(raws, "\n\n")
	if len(w) > 12000 {
		w = w[:12000]
	}
	return true, fmt.Sprintf("%s has not returned for %s; every goroutine inside %s is blocked with an identical stack in two dumps %s apart", op, stallBound, pkg, stallGap), w
}
