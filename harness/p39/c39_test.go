// C39 — event subscribers see posted events in order, once each.
//
// Sequential histories are checked against an exact model (queue per
// subscription, capacity 65536); concurrent histories are recorded at the
// client boundary (call / return stamps from one atomic counter) and checked
// by an interval oracle.  Every dispatcher call runs under a progress watchdog
// (stall_test.go).
package p39

import (
	"fmt"
	"hash/fnv"
	"io"
	"os"
	"runtime"
	"runtime/debug"
	"sort"
	"sync"
	"sync/atomic"
	"testing"
	"time"

	"github.com/sirupsen/logrus"

	"github.com/bytom/bytom/event"

	"verif/internal/ev"
)

// Every Subscribe allocates a 65536-slot channel (512 KiB).  First-touch page
// faults are the dominant cost of that in this sandbox, so the collector is
// driven by hand: automatic GC off (which also parks the scavenger), one
// collection per ~24 subscriptions.  The heap stays at a few tens of MiB of
// already-touched pages that are reused.
var subsSinceGC atomic.Int64

func maybeGC(force bool) {
	if force || subsSinceGC.Load() >= 24 {
		subsSinceGC.Store(0)
		runtime.GC()
	}
}

func TestMain(m *testing.M) {
	logrus.SetLevel(logrus.PanicLevel)
	logrus.SetOutput(io.Discard)
	debug.SetGCPercent(-1)
	os.Exit(m.Run())
}

// realBufCap mirrors event.maxEventChSize (unexported).  Group full checks
// it exactly: the model keeps the first realBufCap undelivered events and the
// channel must agree event by event.
const realBufCap = 65536

// three event types + identity (poster, sequence)
type evA struct{ P, S int32 }
type evB struct{ P, S int32 }
type evC struct{ P, S int32 }

type evID struct {
	typ  int8
	p, s int32
}

func (e evID) String() string { return fmt.Sprintf("%c(p%d,#%d)", 'A'+e.typ, e.p, e.s) }

func mkEvent(id evID) interface{} {
	switch id.typ {
	case 0:
		return evA{id.p, id.s}
	case 1:
		return evB{id.p, id.s}
	default:
		return evC{id.p, id.s}
	}
}

func decode(x interface{}) (evID, bool) {
	switch v := x.(type) {
	case evA:
		return evID{0, v.P, v.S}, true
	case evB:
		return evID{1, v.P, v.S}, true
	case evC:
		return evID{2, v.P, v.S}, true
	}
	return evID{}, false
}

func typeArgs(ts []int) []interface{} {
	out := make([]interface{}, len(ts))
	for i, t := range ts {
		out[i] = mkEvent(evID{typ: int8(t)})
	}
	return out
}

// The dispatcher behind an interface, so the oracles can be run against
// deliberately broken dispatchers (oracle_test.go).
type subscription interface {
	Chan() <-chan *event.TypeMuxEvent
	Unsubscribe()
	Closed() bool
}

type dispatcher interface {
	Subscribe(types ...interface{}) (subscription, error)
	Post(ev interface{}) error
	Stop()
}

type realDisp struct{ d *event.Dispatcher }

func (r realDisp) Subscribe(types ...interface{}) (subscription, error) {
	subsSinceGC.Add(1)
	s, err := r.d.Subscribe(types...)
	if s == nil {
		return nil, err
	}
	return s, err
}
func (r realDisp) Post(e interface{}) error { return r.d.Post(e) }
func (r realDisp) Stop()                    { r.d.Stop() }

func newReal() (dispatcher, int) { return realDisp{event.NewDispatcher()}, realBufCap }

// ctx is what a case body needs from *ev.Case (a struct so that the same bodies
// can be run against broken dispatchers with a collecting reporter).
type ctx struct {
	reporter
	Rand         *ev.Rand
	Group        string
	Index        int
	Journal      func(interface{})
	Inconclusive func(format string, a ...interface{})
	WantSample   func() bool
	Sample       func(interface{})
}

func fromCase(c *ev.Case) *ctx {
	return &ctx{reporter: c, Rand: c.Rand, Group: c.Group, Index: c.Index, Journal: c.Journal, Inconclusive: c.Inconclusive, WantSample: c.WantSample, Sample: c.Sample}
}

type reporter interface {
	Violation(key, what string, witness interface{})
	Count(name string, n int64)
	Distinct(format string, a ...interface{})
}

// ===========================================================================
// sequential histories: exact model

type mSub struct {
	types   [3]bool
	q       []evID
	head    int
	closed  bool
	sub     subscription
	lastSeq int32
}

func (m *mSub) pending() int { return len(m.q) - m.head }

type seqRun struct {
	rep     reporter
	d       dispatcher
	sl      *slot
	bufCap  int
	stopped bool
	subs    []*mSub
	next    int32
	trace   []opNote // last operations, for witnesses (formatted only when needed)
	sig     []byte
	failed  bool
	drops   int64
	variant int // scripted histories: which ending
}

type opNote struct {
	kind    byte
	a, b, c int32
	types   []int
}

func (o opNote) String() string {
	switch o.kind {
	case 'S':
		return fmt.Sprintf("Subscribe%v -> sub%d", o.types, o.a)
	case 'P':
		return "Post " + evID{int8(o.a), 0, o.b}.String()
	case 'R':
		return fmt.Sprintf("Read sub%d x%d", o.a, o.b)
	case 'U':
		return fmt.Sprintf("Unsubscribe sub%d (pending %d, closed %v)", o.a, o.b, o.c != 0)
	case 'X':
		return "Stop"
	}
	return "?"
}

func (s *seqRun) note(o opNote) {
	if len(s.trace) >= 120 {
		s.trace = append(s.trace[:0], s.trace[60:]...)
	}
	s.trace = append(s.trace, o)
}

func (s *seqRun) traceStrings() []string {
	t := s.trace
	if len(t) > 60 {
		t = t[len(t)-60:]
	}
	out := make([]string, len(t))
	for i, o := range t {
		out[i] = o.String()
	}
	return out
}

func (s *seqRun) fail(key, what string, w map[string]interface{}) {
	if w == nil {
		w = map[string]interface{}{}
	}
	w["last_operations"] = s.traceStrings()
	s.rep.Violation(key, what, w)
	s.failed = true
}

func (s *seqRun) subscribe(ts []int) {
	s.sig = append(s.sig, 'S', byte(len(ts)))
	for _, t := range ts {
		s.sig = append(s.sig, byte(t))
	}
	s.note(opNote{kind: 'S', a: int32(len(s.subs)), types: ts})
	var sub subscription
	var err error
	s.sl.do("Subscribe", func() { sub, err = s.d.Subscribe(typeArgs(ts)...) })
	s.rep.Count("seq_subscribe", 1)
	dup := false
	seen := [3]bool{}
	for _, t := range ts {
		if seen[t] {
			dup = true
		}
		seen[t] = true
	}
	m := &mSub{lastSeq: -1}
	switch {
	case s.stopped:
		// a subscription on a stopped dispatcher is born closed
		s.rep.Count("seq_subscribe_after_stop", 1)
		if err != nil || sub == nil {
			s.fail("Subscribe:fails-after-Stop", "Subscribe on a stopped dispatcher did not return a (closed) subscription", map[string]interface{}{"err": fmt.Sprint(err)})
			return
		}
		m.closed = true
	case dup:
		s.rep.Count("seq_subscribe_duplicate_type", 1)
		if err != event.ErrDuplicateSubscribe || sub != nil {
			s.fail("Subscribe:duplicate-type-accepted", "Subscribe with a repeated type did not return ErrDuplicateSubscribe", map[string]interface{}{"types": ts, "err": fmt.Sprint(err)})
		}
		return // no subscription handed out: nothing observable
	default:
		if err != nil || sub == nil {
			s.fail("Subscribe:unexpected-error", "Subscribe failed on a running dispatcher", map[string]interface{}{"types": ts, "err": fmt.Sprint(err)})
			return
		}
		m.types = seen
	}
	m.sub = sub
	s.subs = append(s.subs, m)
}

func (s *seqRun) post(t int) {
	id := evID{int8(t), 0, s.next}
	s.next++
	s.sig = append(s.sig, 'P', byte(t))
	s.note(opNote{kind: 'P', a: int32(t), b: id.s})
	var err error
	s.sl.do("Post", func() { err = s.d.Post(mkEvent(id)) })
	s.rep.Count("seq_post", 1)
	if s.stopped {
		s.rep.Count("seq_post_after_stop", 1)
		if err != event.ErrMuxClosed {
			s.fail("Post:succeeds-after-Stop", "Post after Stop returned did not fail with ErrMuxClosed", map[string]interface{}{"err": fmt.Sprint(err)})
		}
		return
	}
	if err != nil {
		s.fail("Post:unexpected-error", "Post failed on a running dispatcher", map[string]interface{}{"err": fmt.Sprint(err)})
		return
	}
	for _, m := range s.subs {
		if m.closed || !m.types[t] {
			continue
		}
		if m.pending() < s.bufCap {
			m.q = append(m.q, id)
		} else {
			s.drops++
		}
	}
}

// read takes up to k events from the subscription without blocking and
// compares each step with the model (event, empty-and-open, closed).
func (s *seqRun) read(i, k int) {
	m := s.subs[i]
	s.sig = append(s.sig, 'R', byte(i))
	s.note(opNote{kind: 'R', a: int32(i), b: int32(k)})
	ch := m.sub.Chan()
	for j := 0; j < k && !s.failed; j++ {
		s.sl.g.progress.Add(1)
		var e *event.TypeMuxEvent
		got, ok := false, false
		select {
		case e, ok = <-ch:
			got = true
		default:
		}
		wit := func() map[string]interface{} {
			w := map[string]interface{}{"sub": i, "model_pending": m.pending(), "model_closed": m.closed, "received_so_far": m.head}
			if m.pending() > 0 {
				w["model_next"] = m.q[m.head].String()
			}
			if got && ok && e != nil {
				w["got"] = fmt.Sprintf("%v", e.Data)
			}
			return w
		}
		switch {
		case !got || !ok:
			state := "open and empty"
			if got {
				state = "closed and drained"
			}
			w := wit()
			w["channel"] = state
			switch {
			case m.pending() > 0:
				s.fail("seq:lost-event", "an event posted while subscribed (buffer not full) is not in the subscription channel", w)
			case !got && m.closed:
				s.fail("seq:channel-left-open", "subscription channel still open after Unsubscribe / Stop", w)
			case got && !m.closed:
				s.fail("seq:channel-closed-early", "subscription channel closed although neither Unsubscribe nor Stop was called", w)
			}
			return
		}
		if e == nil {
			s.fail("seq:foreign-data", "a nil event was delivered", wit())
			return
		}
		id, okd := decode(e.Data)
		switch {
		case !okd:
			s.fail("seq:foreign-data", "delivered Data is not a posted event value", wit())
		case m.pending() > 0 && id == m.q[m.head]:
			m.head++
			m.lastSeq = id.s
			s.rep.Count("seq_events_checked", 1)
			if m.closed {
				s.rep.Count("seq_events_read_after_close", 1)
			}
		case !m.types[id.typ]:
			s.fail("seq:foreign-type", "event of a type the subscription did not ask for", wit())
		case id.s <= m.lastSeq:
			s.fail("seq:duplicate-or-reordered", "event delivered twice or after a later one", wit())
		default:
			later := false
			for _, x := range m.q[m.head:] {
				if x == id {
					later = true
				}
			}
			if later {
				s.fail("seq:lost-event", "an event posted while subscribed (buffer not full) was skipped", wit())
			} else {
				s.fail("seq:unexpected-event", "event delivered that was posted outside the subscription (before Subscribe, after Unsubscribe/Stop) or beyond the buffer capacity", wit())
			}
		}
	}
}

func (s *seqRun) unsubscribe(i int) {
	m := s.subs[i]
	s.sig = append(s.sig, 'U', byte(i))
	s.note(opNote{kind: 'U', a: int32(i), b: int32(m.pending()), c: int32(b2i(m.closed))})
	s.sl.do("Unsubscribe", func() { m.sub.Unsubscribe() })
	s.rep.Count("seq_unsubscribe", 1)
	if m.closed {
		s.rep.Count("seq_unsubscribe_again_or_after_stop", 1)
	}
	if m.pending() > 0 {
		s.rep.Count("seq_unsubscribe_with_unread_events", 1)
	}
	if m.pending() >= s.bufCap {
		s.rep.Count("seq_unsubscribe_with_full_buffer", 1)
	}
	m.closed = true
}

func (s *seqRun) stop() {
	s.sig = append(s.sig, 'X')
	s.note(opNote{kind: 'X'})
	s.sl.do("Stop", func() { s.d.Stop() })
	s.rep.Count("seq_stop", 1)
	s.stopped = true
	for _, m := range s.subs {
		m.closed = true
	}
}

func (s *seqRun) closedCheck(i int) {
	m := s.subs[i]
	s.sig = append(s.sig, 'C', byte(i))
	var c bool
	s.sl.do("Closed", func() { c = m.sub.Closed() })
	s.rep.Count("seq_closed_query", 1)
	if c != m.closed {
		s.fail("Closed:wrong-answer", "Subscription.Closed disagrees with the history", map[string]interface{}{"sub": i, "got": c, "model": m.closed})
	}
}

// finale drains every subscription completely (checking the exact content),
// unsubscribes, checks the closed channel, stops.
func (s *seqRun) finale() {
	for i := range s.subs {
		if s.failed {
			return
		}
		s.read(i, s.subs[i].pending()+1)
	}
	for i := range s.subs {
		if s.failed {
			return
		}
		s.unsubscribe(i)
		s.read(i, 1)
		s.closedCheck(i)
	}
	if !s.failed {
		s.stop()
		s.post(0)
	}
}

func randTypes(r *ev.Rand) []int {
	mask := r.Range(1, 7)
	var ts []int
	for t := 0; t < 3; t++ {
		if mask&(1<<uint(t)) != 0 {
			ts = append(ts, t)
		}
	}
	r.Shuffle(len(ts), func(i, j int) { ts[i], ts[j] = ts[j], ts[i] })
	return ts
}

func seqRandom(s *seqRun, r *ev.Rand) {
	n := r.Range(6, 40)
	stops := 0
	for i := 0; i < n && !s.failed; i++ {
		switch r.Pick([]int{3, 9, 5, 2, 1, 1}) {
		case 0:
			if len(s.subs) >= 5 {
				s.post(r.Intn(3))
				continue
			}
			ts := randTypes(r)
			if r.Chance(1, 12) {
				ts = append(ts, ts[r.Intn(len(ts))]) // repeated type
			}
			s.subscribe(ts)
		case 1:
			for k := r.Range(1, 4); k > 0 && !s.failed; k-- {
				s.post(r.Intn(3))
			}
		case 2:
			if len(s.subs) > 0 {
				s.read(r.Intn(len(s.subs)), r.Range(1, 6))
			}
		case 3:
			if len(s.subs) > 0 {
				s.unsubscribe(r.Intn(len(s.subs)))
			}
		case 4:
			if len(s.subs) > 0 {
				s.closedCheck(r.Intn(len(s.subs)))
			}
		case 5:
			if stops < 2 && r.Chance(1, 3) {
				stops++
				s.stop()
			}
		}
	}
	if !s.failed {
		s.finale()
	}
}

// seqFull drives subscriptions over their buffer capacity with full control
// of consumption: drops are legal exactly when the model queue holds bufCap.
func seqFull(s *seqRun, r *ev.Rand) {
	s.subscribe([]int{0})    // sub0: the crowded type; reads nothing until the buffer overflowed
	s.subscribe([]int{1})    // sub1: other type only
	s.subscribe([]int{2, 1}) // sub2: other types only
	if s.failed {
		return
	}
	margin := r.Range(0, 3)
	for i := 0; i < s.bufCap-margin && !s.failed; i++ {
		s.post(0)
	}
	for i := r.Range(margin+1, margin+6); i > 0 && !s.failed; i-- {
		s.post(r.Pick([]int{6, 1, 1})) // crosses the capacity: the first bufCap stay, the rest is dropped
	}
	v := s.variant % 4
	switch v {
	case 0:
		s.unsubscribe(0) // full buffer, nothing read
		s.post(0)
	case 3:
		s.stop() // full buffer, nothing read
	default:
		maxK := 0
		for round := r.Range(1, 3); round > 0 && !s.failed; round-- {
			k := r.Range(1, 300)
			if k > maxK {
				maxK = k
			}
			s.read(0, k) // k slots become free: exactly k more events fit
			for i := r.Range(1, k+40); i > 0 && !s.failed; i-- {
				s.post(r.Pick([]int{6, 1, 1}))
			}
			s.closedCheck(0)
			s.read(1, r.Range(0, 3))
		}
		if s.failed {
			return
		}
		if v == 1 {
			s.stop()
		} else {
			for i := 0; i < maxK+5 && !s.failed; i++ {
				s.post(0) // full again
			}
			s.unsubscribe(0)
			s.post(0)
		}
	}
	if s.failed {
		return
	}
	s.finale()
}

func runSequential(c *ctx, mk func() (dispatcher, int), script func(*seqRun, *ev.Rand)) {
	g := newGuard(eventPkg)
	defer g.close()
	defer maybeGC(false)
	d, capacity := mk()
	s := &seqRun{rep: c, d: d, sl: g.newSlot(), bufCap: capacity, variant: c.Index / 2}
	c.Journal(map[string]interface{}{"group": c.Group, "case": c.Index})
	done := make(chan struct{})
	go func() {
		defer close(done)
		script(s, c.Rand)
	}()
	if !awaitCase(c, g, done) {
		return
	}
	h := fnv.New64a()
	h.Write(s.sig)
	c.Distinct("%s ops=%016x", c.Group, h.Sum64())
	c.Count("seq_histories", 1)
	c.Count("seq_model_drops", s.drops)
	if c.WantSample() {
		c.Sample(map[string]interface{}{"last_operations": s.traceStrings(), "subscriptions": len(s.subs), "events_posted": s.next, "model_drops": s.drops})
	}
}

// awaitCase waits for the case body; a stall verdict or the case watchdog
// abandon it (the body goroutines stay blocked; they only touch their own state).
func awaitCase(c *ctx, g *guard, done chan struct{}) bool {
	tick := time.NewTicker(caseBound / 50)
	defer tick.Stop()
	last, lastChange := g.progress.Load(), time.Now()
	for {
		select {
		case <-done:
			return true
		case v := <-g.verdict:
			if v.deadlock {
				c.Violation("stall:"+v.op, v.reason, map[string]interface{}{"goroutines_inside_event_package": v.dump})
			} else {
				c.Inconclusive("%s case %d: %s stalled (%s)", c.Group, c.Index, v.op, v.reason)
			}
			return false
		case <-tick.C:
			if p := g.progress.Load(); p != last {
				last, lastChange = p, time.Now()
			} else if time.Since(lastChange) > caseBound {
				g.aborted.Store(true)
				c.Inconclusive("%s case %d: case watchdog fired (no progress for %s)", c.Group, c.Index, caseBound)
				return false
			}
		}
	}
}

// ===========================================================================
// concurrent histories

type postRec struct {
	typ       int8
	call, ret uint64
	err       error
}

type sessRec struct {
	actor, idx int
	types      [3]bool
	mode       string
	sc, sr     uint64
	subErr     error
	nilSub     bool
	uc, ur     uint64 // 0: Unsubscribe never called
	recv       []evID
	badData    int
	readEarly  int  // events taken before the end of the subscription (Unsubscribe call / close seen)
	closedSeen bool // the reader saw the channel closed without having unsubscribed
	leftOpen   bool // after Unsubscribe returned the channel was empty but not closed
}

type stopRec struct{ call, ret uint64 }

type history struct {
	posts  [][]postRec // by poster
	sess   []*sessRec
	stop   *stopRec
	bufCap int
}

type concParams struct {
	posters   int
	perPoster [2]int // range
	subs      int
	sessions  [2]int
	lazyOnly  bool // subscribers never read before Unsubscribe / Stop
	crowdOne  bool // only subscriber 0 takes the crowded type A (others: B / C)
	lateUnsub bool // subscriber 0 waits for all posts before Unsubscribe (buffer certainly full)
	prefill   int  // events posted by one extra poster before the concurrent phase (subscribers pre-subscribed)
	presub    bool
	stop      bool
	typeBias  []int
}

type concEnv struct {
	d        dispatcher
	g        *guard
	clock    atomic.Uint64
	progress atomic.Int64
	postDone atomic.Bool
}

func (e *concEnv) stamp() uint64 { return e.clock.Add(1) }

func perturb(r *ev.Rand) {
	switch v := r.Intn(32); {
	case v < 6:
		runtime.Gosched()
	case v == 6:
		time.Sleep(time.Duration(r.Range(1, 60)) * time.Microsecond)
	}
}

func (e *concEnv) waitUntil(r *ev.Rand, cond func() bool) {
	for !cond() && !e.g.aborted.Load() {
		if r.Chance(1, 4) {
			time.Sleep(20 * time.Microsecond)
		} else {
			runtime.Gosched()
		}
	}
}

func (e *concEnv) poster(p int, n int, bias []int, r *ev.Rand, sl *slot, quiet bool) []postRec {
	recs := make([]postRec, 0, n)
	for s := 0; s < n; s++ {
		if e.g.aborted.Load() {
			break
		}
		t := int8(r.Pick(bias))
		evt := mkEvent(evID{t, int32(p), int32(s)})
		rec := postRec{typ: t}
		rec.call = e.stamp()
		sl.do("Post", func() { rec.err = e.d.Post(evt) })
		rec.ret = e.stamp()
		recs = append(recs, rec)
		e.progress.Add(1)
		if !quiet {
			perturb(r)
		}
	}
	return recs
}

func (e *concEnv) subscribe(se *sessRec, sl *slot) subscription {
	var ts []int
	for t := 0; t < 3; t++ {
		if se.types[t] {
			ts = append(ts, t)
		}
	}
	var sub subscription
	se.sc = e.stamp()
	sl.do("Subscribe", func() { sub, se.subErr = e.d.Subscribe(typeArgs(ts)...) })
	se.sr = e.stamp()
	se.nilSub = sub == nil
	return sub
}

func (se *sessRec) take(g *guard, x *event.TypeMuxEvent) {
	g.progress.Add(1)
	if x == nil {
		se.badData++
		return
	}
	id, ok := decode(x.Data)
	if !ok {
		se.badData++
		return
	}
	se.recv = append(se.recv, id)
}

// runSession: the life of one subscription inside a subscriber goroutine.
func (e *concEnv) runSession(se *sessRec, sub subscription, r *ev.Rand, sl *slot, base, total int64, late bool) {
	ch := sub.Chan()
	thr := base + int64(r.Intn(int(total-base)+1))
	if late {
		thr = total
	}
	switch se.mode {
	case "reader":
		quota, budget := r.Range(1, 80), r.Range(20, 3000)
		for polls := 0; len(se.recv) < quota && !se.closedSeen && !e.g.aborted.Load(); {
			select {
			case x, ok := <-ch:
				if !ok {
					se.closedSeen = true
				} else {
					se.take(e.g, x)
				}
			default:
				polls++
				if polls > budget || e.postDone.Load() {
					quota = 0
				}
				perturb(r)
			}
		}
	case "lazy":
		e.waitUntil(r, func() bool { return e.progress.Load() >= thr || e.postDone.Load() })
	case "until-closed": // only with a stopper: blocking receive until Stop closes the channel
		for x := range ch {
			se.take(e.g, x)
		}
		se.closedSeen = true
	}
	se.readEarly = len(se.recv)
	if e.g.aborted.Load() {
		return
	}
	if !se.closedSeen || r.Bool() {
		se.uc = e.stamp()
		sl.do("Unsubscribe", func() { sub.Unsubscribe() })
		se.ur = e.stamp()
	}
	// drain: after Unsubscribe returned (or close was seen) nothing is sent any more
	for !se.closedSeen {
		select {
		case x, ok := <-ch:
			if !ok {
				se.closedSeen = true
			} else {
				se.take(e.g, x)
			}
		default:
			se.leftOpen = true
			return
		}
	}
}

func runConcurrent(c *ctx, mk func() (dispatcher, int), p concParams) {
	r := c.Rand
	g := newGuard(eventPkg)
	defer g.close()
	defer maybeGC(p.prefill > 0)
	d, capacity := mk()
	e := &concEnv{d: d, g: g}
	h := &history{bufCap: capacity, posts: make([][]postRec, p.posters+1)}
	withStop := p.stop && r.Bool()
	// plan (all PRNG forks and slots before any goroutine starts)
	nPer := make([]int, p.posters)
	var total int64 = int64(p.prefill)
	for i := range nPer {
		nPer[i] = r.Range(p.perPoster[0], p.perPoster[1])
		total += int64(nPer[i])
	}
	bias := p.typeBias
	if bias == nil {
		bias = []int{1, 1, 1}
	}
	type subPlan struct {
		sess []*sessRec
		rng  *ev.Rand
		sl   *slot
		pre  subscription
	}
	plans := make([]*subPlan, p.subs)
	for a := range plans {
		pl := &subPlan{rng: r.Fork(), sl: g.newSlot()}
		for i, n := 0, r.Range(p.sessions[0], p.sessions[1]); i < n; i++ {
			se := &sessRec{actor: a, idx: i}
			for _, t := range randTypes(r) {
				se.types[t] = true
			}
			if p.lazyOnly {
				se.types[0] = true // the crowded type
			}
			if p.crowdOne && a > 0 {
				se.types[0] = false
				if !se.types[1] && !se.types[2] {
					se.types[1+r.Intn(2)] = true
				}
			}
			switch {
			case p.lazyOnly:
				se.mode = "lazy"
				if withStop && r.Chance(1, 3) {
					se.mode = "until-closed"
				}
			case withStop && r.Chance(1, 5):
				se.mode = "until-closed"
			case r.Chance(1, 3):
				se.mode = "lazy"
			default:
				se.mode = "reader"
			}
			pl.sess = append(pl.sess, se)
			h.sess = append(h.sess, se)
		}
		plans[a] = pl
	}
	posterRng := make([]*ev.Rand, p.posters+1)
	posterSl := make([]*slot, p.posters+1)
	for i := range posterRng {
		posterRng[i], posterSl[i] = r.Fork(), g.newSlot()
	}
	stopRng, stopSl := r.Fork(), g.newSlot()
	stopAt := int64(p.prefill) + int64(r.Intn(int(total)-p.prefill+1))
	c.Journal(map[string]interface{}{"group": c.Group, "case": c.Index, "posts": total, "stop": withStop})

	done := make(chan struct{})
	go func() {
		defer close(done)
		if p.presub {
			for _, pl := range plans {
				pl.pre = e.subscribe(pl.sess[0], pl.sl)
			}
		}
		if p.prefill > 0 {
			h.posts[p.posters] = e.poster(p.posters, p.prefill, []int{1, 0, 0}, posterRng[p.posters], posterSl[p.posters], true)
		}
		var pw, aw sync.WaitGroup
		for i := 0; i < p.posters; i++ {
			i := i
			pw.Add(1)
			go func() {
				defer pw.Done()
				h.posts[i] = e.poster(i, nPer[i], bias, posterRng[i], posterSl[i], false)
			}()
		}
		for _, pl := range plans {
			pl := pl
			aw.Add(1)
			go func() {
				defer aw.Done()
				for i, se := range pl.sess {
					if e.g.aborted.Load() {
						return
					}
					var sub subscription
					if i == 0 && p.presub {
						sub = pl.pre
					} else {
						perturb(pl.rng)
						sub = e.subscribe(se, pl.sl)
					}
					if sub == nil || se.subErr != nil {
						continue
					}
					e.runSession(se, sub, pl.rng, pl.sl, int64(p.prefill), total, p.lateUnsub && se.actor == 0)
				}
			}()
		}
		if withStop {
			aw.Add(1)
			go func() {
				defer aw.Done()
				e.waitUntil(stopRng, func() bool { return e.progress.Load() >= stopAt || e.postDone.Load() })
				st := &stopRec{}
				st.call = e.stamp()
				stopSl.do("Stop", func() { e.d.Stop() })
				st.ret = e.stamp()
				h.stop = st
			}()
		}
		pw.Wait()
		e.postDone.Store(true)
		aw.Wait()
	}()
	if !awaitCase(c, g, done) {
		return
	}
	checkConcurrent(c, c.Group, h)
	if !withStop {
		d.Stop() // release whatever is still registered
	}
	if c.WantSample() {
		var ss []string
		for _, se := range h.sess {
			ss = append(ss, fmt.Sprintf("actor%d/%d types=%v mode=%s received=%d", se.actor, se.idx, se.types, se.mode, len(se.recv)))
		}
		c.Sample(map[string]interface{}{"posts": total, "stop": withStop, "sessions": ss})
	}
}

var (
	interMu   sync.Mutex
	interSeen = map[uint64]struct{}{}
)

func b2i(b bool) int {
	if b {
		return 1
	}
	return 0
}

// checkConcurrent is the oracle over a recorded concurrent history.
//
// Stamps: call stamps are taken before the call, return stamps after it, from
// one atomic counter; ret(A) < call(B) therefore implies A returned before B
// was called (the converse need not hold, which only loosens the oracle).
func checkConcurrent(rep reporter, group string, h *history) {
	const inf = ^uint64(0)
	lookup := func(id evID) *postRec {
		if id.p < 0 || int(id.p) >= len(h.posts) || id.s < 0 || int(id.s) >= len(h.posts[id.p]) {
			return nil
		}
		return &h.posts[id.p][id.s]
	}
	var totalOK, nClosed, nAfterStop int64
	stopOverlapsPost, postAfterStop := false, false
	for p, recs := range h.posts {
		for s := range recs {
			pr := &recs[s]
			p, s := p, s
			wit := func() map[string]interface{} {
				w := map[string]interface{}{"event": evID{pr.typ, int32(p), int32(s)}.String(), "post_call": pr.call, "post_ret": pr.ret, "err": fmt.Sprint(pr.err)}
				if h.stop != nil {
					w["stop_call"], w["stop_ret"] = h.stop.call, h.stop.ret
				}
				return w
			}
			if h.stop != nil && pr.call < h.stop.ret && pr.ret > h.stop.call {
				stopOverlapsPost = true
			}
			switch {
			case pr.err == nil:
				totalOK++
				if h.stop != nil && pr.call > h.stop.ret {
					rep.Violation("Post:succeeds-after-Stop", "a Post that began after Stop had returned did not fail with ErrMuxClosed", wit())
				}
			case pr.err == event.ErrMuxClosed:
				nClosed++
				if h.stop != nil && pr.call > h.stop.ret {
					postAfterStop = true
					nAfterStop++
				}
				if h.stop == nil || h.stop.call > pr.ret {
					rep.Violation("Post:ErrMuxClosed-before-Stop", "Post returned ErrMuxClosed although Stop had not been called", wit())
				}
			default:
				rep.Violation("Post:unexpected-error", "Post returned an error other than ErrMuxClosed", wit())
			}
		}
	}
	rep.Count("conc_posts_ok", totalOK)
	rep.Count("conc_posts_errmuxclosed", nClosed)
	rep.Count("conc_posts_after_stop_returned", nAfterStop)
	if h.stop != nil {
		rep.Count("conc_stops", 1)
		if stopOverlapsPost {
			rep.Count("conc_stop_overlaps_post", 1)
		}
	}
	for _, se := range h.sess {
		if se.sc == 0 {
			continue // never reached (case aborted earlier)
		}
		desc := func() map[string]interface{} {
			w := map[string]interface{}{"subscriber": fmt.Sprintf("actor%d session %d", se.actor, se.idx), "types": se.types, "mode": se.mode,
				"subscribe_call": se.sc, "subscribe_ret": se.sr, "unsubscribe_call": se.uc, "unsubscribe_ret": se.ur, "received": len(se.recv),
				"read_before_end": se.readEarly}
			if h.stop != nil {
				w["stop_call"], w["stop_ret"] = h.stop.call, h.stop.ret
			}
			return w
		}
		if se.subErr != nil || se.nilSub {
			w := desc()
			w["err"] = fmt.Sprint(se.subErr)
			rep.Violation("Subscribe:unexpected-error", "Subscribe with distinct types failed", w)
			continue
		}
		rep.Count("conc_sessions", 1)
		if se.badData > 0 {
			rep.Violation("conc:foreign-data", "delivered Data is not a posted event value", desc())
		}
		if se.leftOpen {
			rep.Violation("Unsubscribe:channel-left-open", "after Unsubscribe returned the subscription channel was empty but not closed", desc())
		}
		endCall, endRet := inf, inf
		endKind := "none"
		if se.uc != 0 {
			endCall, endRet, endKind = se.uc, se.ur, "unsub"
			rep.Count("conc_unsubscribes_returned", 1)
		}
		if h.stop != nil {
			if h.stop.call < endCall {
				endCall = h.stop.call
			}
			if h.stop.ret < endRet {
				endRet = h.stop.ret
				endKind = "stop"
			}
			if se.sc > h.stop.ret {
				endKind = "born-closed"
				rep.Count("conc_subscribe_after_stop", 1)
			}
		}
		seen := make([][]bool, len(h.posts))
		for p := range seen {
			seen[p] = make([]bool, len(h.posts[p]))
		}
		lastSeq := make([]int32, len(h.posts))
		for p := range lastSeq {
			lastSeq[p] = -1
		}
		var maxCall uint64
		var maxCallEv evID
		optDelivered, mandDelivered := 0, 0
		bad := false
		for i, id := range se.recv {
			pr := lookup(id)
			w := func() map[string]interface{} {
				w := desc()
				w["event"], w["position_in_received"] = id.String(), i
				if pr != nil {
					w["post_call"], w["post_ret"], w["post_err"] = pr.call, pr.ret, fmt.Sprint(pr.err)
				}
				return w
			}
			if pr == nil || pr.typ != id.typ {
				rep.Violation("conc:unknown-event", "delivered an event nobody posted", w())
				bad = true
				continue
			}
			if seen[id.p][id.s] {
				rep.Violation("conc:duplicate", "the same event was delivered twice to one subscription", w())
				bad = true
				continue
			}
			seen[id.p][id.s] = true
			switch {
			case !se.types[id.typ]:
				rep.Violation("conc:foreign-type", "event of a type the subscription did not ask for", w())
				bad = true
			case pr.err != nil:
				rep.Violation("conc:delivered-although-Post-failed", "an event whose Post returned an error was delivered", w())
				bad = true
			case pr.ret < se.sc:
				rep.Violation("conc:delivered-event-posted-before-Subscribe", "an event whose Post had returned before Subscribe was called was delivered", w())
				bad = true
			case pr.call > endRet:
				rep.Violation("conc:delivered-event-posted-after-end", "an event whose Post began after Unsubscribe / Stop had returned was delivered", w())
				bad = true
			}
			if id.s <= lastSeq[id.p] {
				rep.Violation("conc:per-poster-order", "events of one poster delivered out of posting order", w())
				bad = true
			}
			lastSeq[id.p] = id.s
			if pr.ret < maxCall {
				ww := w()
				ww["delivered_earlier"] = maxCallEv.String()
				ww["earlier_post_call"] = maxCall
				rep.Violation("conc:realtime-order", "event e2 delivered after e1 although Post(e2) had returned before Post(e1) was called", ww)
				bad = true
			}
			if pr.call > maxCall {
				maxCall, maxCallEv = pr.call, id
			}
			if pr.call > se.sr && pr.ret < endCall {
				mandDelivered++
			} else {
				optDelivered++
			}
		}
		rep.Count("conc_events_received", int64(len(se.recv)))
		rep.Count("conc_events_drained_after_end", int64(len(se.recv)-se.readEarly))
		if se.uc != 0 && len(se.recv) > se.readEarly {
			rep.Count("conc_unsubscribe_with_unread_events", 1)
		}
		// every mandatory event must have arrived
		full := se.readEarly == 0 && len(se.recv) >= h.bufCap
		roomAlways := totalOK < int64(h.bufCap)
		if full {
			rep.Count("conc_sessions_buffer_full", 1)
		}
		mand, optMissed, dropsOK, unsubOverlap := 0, 0, 0, false
		for p, recs := range h.posts {
			for s := range recs {
				pr := &recs[s]
				if se.uc != 0 && pr.call < se.ur && pr.ret > se.uc {
					unsubOverlap = true
				}
				if pr.err != nil || !se.types[pr.typ] {
					continue
				}
				id := evID{pr.typ, int32(p), int32(s)}
				got := seen[p][s]
				if !(pr.call > se.sr && pr.ret < endCall) {
					if !got && pr.ret > se.sc && pr.call < endRet {
						optMissed++
					}
					continue
				}
				mand++
				if got {
					continue
				}
				w := desc()
				w["event"], w["post_call"], w["post_ret"] = id.String(), pr.call, pr.ret
				switch {
				case full:
					// a subscription that never read keeps the first bufCap events; a dropped one cannot
					// precede (in real time) any event that was kept
					if pr.ret < maxCall {
						w["kept_event_posted_later"], w["its_post_call"] = maxCallEv.String(), maxCall
						rep.Violation("conc:dropped-while-buffer-had-room", "an event was dropped although an event posted strictly later was kept: the buffer was not full when it was dropped", w)
						bad = true
					} else {
						dropsOK++
					}
				case roomAlways || se.readEarly == 0:
					rep.Violation("conc:lost-event", "an event whose Post began after Subscribe returned and returned before Unsubscribe/Stop was called never reached the subscriber (buffer never full)", w)
					bad = true
				default:
					rep.Count("conc_missing_undecided_buffer_state", 1)
				}
			}
		}
		rep.Count("conc_mandatory_events", int64(mand))
		rep.Count("conc_mandatory_delivered", int64(mandDelivered))
		rep.Count("conc_optional_delivered", int64(optDelivered))
		rep.Count("conc_optional_not_delivered", int64(optMissed))
		rep.Count("conc_legal_buffer_full_drops", int64(dropsOK))
		if unsubOverlap {
			rep.Count("conc_unsubscribe_overlaps_post", 1)
		}
		if endKind == "stop" {
			rep.Count("conc_sessions_closed_by_stop", 1)
		}
		if !bad {
			rep.Count("conc_sessions_consistent", 1)
		}
		nt := b2i(se.types[0]) + b2i(se.types[1]) + b2i(se.types[2])
		rep.Distinct("%s types=%d mode=%s end=%s mandatory=%d optDelivered=%d optMissed=%d unsubOverlapsPost=%d unread=%d full=%d", group, nt, se.mode, endKind,
			b2i(mand > 0), b2i(optDelivered > 0), b2i(optMissed > 0), b2i(unsubOverlap), b2i(len(se.recv) > se.readEarly), b2i(full))
	}
	if h.stop != nil {
		rep.Distinct("%s stop overlapsPost=%d postAfterStop=%d", group, b2i(stopOverlapsPost), b2i(postAfterStop))
	}
	// interleaving signature: actors and operations ordered by call stamp
	type opx struct {
		at   uint64
		code uint16
	}
	var ops []opx
	for p, recs := range h.posts {
		for s := range recs {
			ops = append(ops, opx{recs[s].call, uint16(p)<<4 | 1}, opx{recs[s].ret, uint16(p)<<4 | 2})
		}
	}
	for _, se := range h.sess {
		if se.sc != 0 {
			ops = append(ops, opx{se.sc, uint16(16+se.actor)<<4 | 3}, opx{se.sr, uint16(16+se.actor)<<4 | 4})
		}
		if se.uc != 0 {
			ops = append(ops, opx{se.uc, uint16(16+se.actor)<<4 | 5}, opx{se.ur, uint16(16+se.actor)<<4 | 6})
		}
	}
	if h.stop != nil {
		ops = append(ops, opx{h.stop.call, 0xff7}, opx{h.stop.ret, 0xff8})
	}
	sort.Slice(ops, func(i, j int) bool { return ops[i].at < ops[j].at })
	hs := fnv.New64a()
	for _, o := range ops {
		hs.Write([]byte{byte(o.code >> 8), byte(o.code)})
	}
	sum := hs.Sum64()
	interMu.Lock()
	if _, ok := interSeen[sum]; !ok {
		interSeen[sum] = struct{}{}
		rep.Count("conc_distinct_interleavings", 1)
	}
	interMu.Unlock()
	rep.Count("conc_histories", 1)
}

func TestC39(t *testing.T) {
	r := ev.Start(t, "C39")
	defer r.Finish()
	r.Rule("seq: random single-goroutine histories of Subscribe (1-3 of 3 types, sometimes a repeated type or none) / Post / non-blocking Read / Unsubscribe / Stop / Closed checked step by step against an exact queue model; " +
		"full (even cases): scripted sequential histories that exceed the 65536 buffer, read k, post more, Unsubscribe / Stop on a full buffer; conc: 4 posters x 20-160 events, 4 subscriber goroutines x 1-3 subscriptions (reading / not reading / blocking until closed), optional Stop at a seeded progress point; " +
		"conc-noread: subscribers that never read call Unsubscribe (or Stop hits) while 4 posters are posting; full (odd cases): the same after a prefill to the edge of the buffer. " +
		"distinct = (group, op-sequence hash) for sequential histories; for concurrent ones (group, #types, reader mode, how the subscription ended, had mandatory events, overlapping events delivered / not delivered, " +
		"Unsubscribe overlapped a Post, unread events at Unsubscribe, buffer full) per subscription and (Stop overlapped a Post, Post after Stop) per history; conc_distinct_interleavings counts distinct call/return orders")
	r.Assume("stamps from one atomic counter taken before each call and after each return: ret(A) < call(B) implies A returned before B was called")
	r.Assume("subscription buffer capacity is 65536 (event.maxEventChSize); checked exactly by group full")
	r.Assume("a stall is reported as a violation only when the call has not returned for 20 s and every goroutine inside the event package is blocked with an identical stack in two dumps 2 s apart; otherwise inconclusive")
	r.Assume("the documented 'channel is closed when unsubscribed or the mux is closed' is checked too (keys *:channel-left-open / seq:channel-closed-early)")

	timed := func(name string) func() {
		t0 := time.Now()
		return func() {
			if os.Getenv("VERIF_DEBUG_TIMING") != "" {
				fmt.Printf("group %s: %.2fs\n", name, time.Since(t0).Seconds())
			}
		}
	}
	done := timed("seq")
	r.Cases("seq", r.N(1500, 60000), func(c *ev.Case) { runSequential(fromCase(c), newReal, seqRandom) })
	done()
	done = timed("conc")
	r.Cases("conc", r.N(300, 12000), func(c *ev.Case) {
		runConcurrent(fromCase(c), newReal, concParams{posters: 4, perPoster: [2]int{20, 160}, subs: 4, sessions: [2]int{1, 3}, stop: true})
	})
	done()
	done = timed("conc-noread")
	r.Cases("conc-noread", r.N(150, 6000), func(c *ev.Case) {
		runConcurrent(fromCase(c), newReal, concParams{posters: 4, perPoster: [2]int{50, 400}, subs: 4, sessions: [2]int{1, 2}, lazyOnly: true, presub: c.Rand.Bool(), stop: true, typeBias: []int{4, 1, 1}})
	})
	done()
	done = timed("full")
	// buffer overflow, even index: sequential script, odd index: concurrent (one case costs ~10 s under -race:
	// every channel slot gets its own synchronisation object in the race runtime)
	r.Cases("full", r.N(4, 48), func(c *ev.Case) {
		if c.Index%2 == 0 {
			runSequential(fromCase(c), newReal, seqFull)
			return
		}
		late := (c.Index/2)%2 == 0 // alternate: Unsubscribe certainly after the overflow / racing with it (or Stop)
		runConcurrent(fromCase(c), newReal, concParams{posters: 4, perPoster: [2]int{100, 400}, subs: 3, sessions: [2]int{1, 1}, lazyOnly: true, crowdOne: true, presub: true,
			prefill: realBufCap - c.Rand.Range(0, 150), stop: !late, lateUnsub: late, typeBias: []int{6, 1, 1}})
	})
	done()

	r.Floor("seq_histories", 1000)
	r.Floor("seq_events_checked", 5000)
	r.Floor("seq_post_after_stop", 100)
	r.Floor("seq_subscribe_after_stop", 20)
	r.Floor("seq_subscribe_duplicate_type", 50)
	r.Floor("seq_unsubscribe_with_unread_events", 100)
	r.Floor("seq_unsubscribe_again_or_after_stop", 50)
	r.Floor("seq_events_read_after_close", 200)
	r.Floor("seq_model_drops", 2)
	r.Floor("conc_legal_buffer_full_drops", 1)
	r.Floor("conc_histories", 300)
	r.Floor("conc_sessions_consistent", 800)
	r.Floor("conc_mandatory_delivered", 20000)
	r.Floor("conc_optional_delivered", 50)
	r.Floor("conc_optional_not_delivered", 100)
	r.Floor("conc_unsubscribes_returned", 500)
	r.Floor("conc_unsubscribe_overlaps_post", 100)
	r.Floor("conc_unsubscribe_with_unread_events", 100)
	r.Floor("conc_stop_overlaps_post", 10)
	r.Floor("conc_posts_after_stop_returned", 100)
	r.Floor("conc_sessions_closed_by_stop", 50)
	r.Floor("conc_sessions_buffer_full", 1)
	r.Floor("seq_unsubscribe_with_full_buffer", 1)
	r.Floor("conc_distinct_interleavings", 200)
}
