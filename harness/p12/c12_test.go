// C12 — blocks delivered in any order are all connected, without crashing.
//
// Exhaustive part: every rooted tree shape with k blocks above genesis
// (branching <= 4) x every permutation of its blocks, each permutation on a
// fresh real node.  Random part: random orders of larger random trees.
// Oracle: no process death (driver journal), no error from ProcessBlock for a
// valid block, every block stored, no orphan left, best block equal to the
// order-independent fork choice (max height, then largest hash) which the
// in-order run must reproduce too.
package p12

import (
	"fmt"
	"os"
	"sort"
	"strings"
	"testing"

	"github.com/bytom/bytom/protocol/bc/types"

	"verif/internal/chainkit"
	"verif/internal/ev"
)

// shapes enumerates canonical rooted trees with k nodes below the root 0
// (parent[i] < i), deduplicated by an AHU-style canonical form, branching <= 4.
func shapes(k int) [][]int {
	var out [][]int
	seen := map[string]bool{}
	par := make([]int, k+1)
	var rec func(i int)
	canon := func() string {
		ch := make([][]int, k+1)
		for i := 1; i <= k; i++ {
			ch[par[i]] = append(ch[par[i]], i)
		}
		for _, c := range ch {
			if len(c) > 4 {
				return ""
			}
		}
		var enc func(v int) string
		enc = func(v int) string {
			var ss []string
			for _, c := range ch[v] {
				ss = append(ss, enc(c))
			}
			sort.Strings(ss)
			return "(" + strings.Join(ss, "") + ")"
		}
		return enc(0)
	}
	rec = func(i int) {
		if i > k {
			c := canon()
			if c != "" && !seen[c] {
				seen[c] = true
				out = append(out, append([]int{}, par...))
			}
			return
		}
		for p := 0; p < i; p++ {
			par[i] = p
			rec(i + 1)
		}
	}
	rec(1)
	return out
}

func factorial(n int) int {
	f := 1
	for i := 2; i <= n; i++ {
		f *= i
	}
	return f
}

// nthPerm returns the idx-th permutation of [0,n) in lexicographic order.
func nthPerm(n, idx int) []int {
	el := make([]int, n)
	for i := range el {
		el[i] = i
	}
	out := make([]int, 0, n)
	for i := n; i >= 1; i-- {
		f := factorial(i - 1)
		k := idx / f
		idx %= f
		out = append(out, el[k])
		el = append(el[:k], el[k+1:]...)
	}
	return out
}

type built struct {
	tree   *chainkit.Tree
	blocks []*chainkit.Blk // index i-1 = node i of the shape
	best   *chainkit.Blk
}

func expectBest(t *chainkit.Tree) *chainkit.Blk {
	// no votes are cast: only genesis is justified, so fork choice = max height, then largest hash string
	var best *chainkit.Blk
	for _, b := range t.All {
		if best == nil || b.Height > best.Height || (b.Height == best.Height && b.Hash.String() > best.Hash.String()) {
			best = b
		}
	}
	return best
}

func buildShape(net *chainkit.Net, g *chainkit.Genesis, par []int) (*built, error) {
	t := net.NewTree(g)
	nodes := []*chainkit.Blk{t.Root}
	for i := 1; i < len(par); i++ {
		p := nodes[par[i]]
		b, err := t.Build(p, []*types.Tx{}, chainkit.BlockOpt{SkipSlots: len(p.Children)})
		if err != nil {
			return nil, err
		}
		nodes = append(nodes, b)
	}
	return &built{tree: t, blocks: nodes[1:], best: expectBest(t)}, nil
}

func deliver(c *ev.Case, net *chainkit.Net, g *chainkit.Genesis, bt *built, order []int, dir string, tag string) {
	nd, err := net.NewNode(dir, g)
	if err != nil {
		c.Inconclusive("cannot start node: %v", err)
		return
	}
	defer nd.Destroy()
	maxSib := 0
	for step, i := range order {
		b := bt.blocks[i]
		_, err := nd.Chain.ProcessBlock(chainkit.CloneBlock(b.B))
		if err != nil {
			c.Violation("ProcessBlock-error:valid-block:"+tag, "ProcessBlock returned an error for a valid block",
				map[string]interface{}{"shape": tag, "order": order, "step": step, "height": b.Height, "error": err.Error()})
			return
		}
		_, idx := nd.Orphans.VerifOrphanHashes()
		for _, hs := range idx {
			if len(hs) > maxSib {
				maxSib = len(hs)
			}
		}
	}
	c.Max("max_sibling_orphans_waiting_on_one_parent", int64(maxSib))
	if maxSib >= 3 {
		c.Count("runs_with_3plus_sibling_orphans", 1)
	}
	for _, b := range bt.blocks {
		h := b.Hash
		if _, err := nd.Chain.GetHeaderByHash(&h); err != nil {
			c.Violation("block-not-connected:all-ancestors-arrived", "a block whose ancestors all arrived is not stored",
				map[string]interface{}{"shape": tag, "order": order, "height": b.Height, "hash": h.String(), "is_orphan": nd.Orphans.BlockExist(&h)})
			return
		}
	}
	if orphans, _ := nd.Orphans.VerifOrphanHashes(); len(orphans) != 0 {
		c.Violation("orphan-left-behind", "orphan pool not empty although every parent is known",
			map[string]interface{}{"shape": tag, "order": order, "orphans": orphans})
		return
	}
	if best := nd.Best(); best != bt.best.Hash {
		c.Violation("best-differs-from-in-order", "best block after out-of-order delivery differs from the fork choice over the same block set",
			map[string]interface{}{"shape": tag, "order": order, "best": best.String(), "want": bt.best.Hash.String()})
		return
	}
	c.Count("runs_all_connected", 1)
}

func TestC12(t *testing.T) {
	r := ev.Start(t, "C12")
	defer r.Finish()
	net := chainkit.Configure(chainkit.Params{Epoch: 4, Fed: 3, Local: -1, VotePending: 3, NKeys: 4})
	g := net.NewGenesis(8, 0)
	base, _ := os.MkdirTemp("", "c12")
	defer os.RemoveAll(base)
	r.Rule("exhaustive: every rooted tree shape with k blocks above genesis (branching<=4) x every delivery permutation, each on a fresh GoLevelDB node; random: random orders of random trees of 20-60 blocks. distinct = (shape, permutation)")
	r.Assume("blocks are valid by construction (reference model chooses proposer/coinbase; the in-order delivery of every shape is the positive control)")

	run := func(group string, k int, stride int) {
		shp := shapes(k)
		np := factorial(k)
		cache := map[int]*built{}
		total := len(shp) * np
		r.Cases(group, total/stride, func(c *ev.Case) {
			idx := c.Index * stride
			if stride > 1 {
				idx += c.Rand.Intn(stride)
			}
			si, pi := idx/np, idx%np
			bt := cache[si]
			if bt == nil {
				var err error
				if bt, err = buildShape(net, g, shp[si]); err != nil {
					c.Inconclusive("shape %v: %v", shp[si], err)
					return
				}
				cache = map[int]*built{si: bt}
			}
			order := nthPerm(k, pi)
			tag := fmt.Sprint(shp[si][1:])
			c.Journal(map[string]interface{}{"shape_parents": shp[si][1:], "order": order})
			c.Distinct("%s|%v", tag, order)
			if pi == 0 {
				c.Count("in_order_controls", 1)
			}
			if c.WantSample() {
				c.Sample(map[string]interface{}{"shape_parents": shp[si][1:], "delivery_order": order})
			}
			deliver(c, net, g, bt, order, fmt.Sprintf("%s/%s-%d", base, group, c.Index), tag)
		})
	}
	if r.Thorough() {
		run("k5", 5, 1)
		run("k6", 6, 1)
		run("k7", 7, 1)
	} else {
		run("k4", 4, 1)
		run("k5", 5, 1)
		run("k6-sampled", 6, 6)
	}
	r.Cases("random-large", r.N(24, 2400), func(c *ev.Case) {
		t := net.NewTree(g)
		o := chainkit.DefaultGen(c.Rand.Range(20, 60))
		o.MaxTxs = 1
		o.MaxBranch = 4
		o.ForkPct = 45
		if _, err := t.Grow(c.Rand, o); err != nil {
			c.Inconclusive("grow: %v", err)
			return
		}
		bt := &built{tree: t, blocks: t.All[1:], best: expectBest(t)}
		order := c.Rand.Perm(len(bt.blocks))
		switch c.Index % 4 {
		case 1: // reverse creation order: children before parents
			for i := range order {
				order[i] = len(order) - 1 - i
			}
		case 2: // in order (control)
			for i := range order {
				order[i] = i
			}
			c.Count("in_order_controls", 1)
		}
		c.Journal(map[string]interface{}{"random_tree": t.Shape(), "order": order})
		c.Distinct("%s|%v", t.Shape(), order)
		c.Count("random_large_runs", 1)
		if c.WantSample() {
			c.Sample(map[string]interface{}{"tree_shape": t.Shape(), "blocks": len(bt.blocks), "delivery_order": order})
		}
		deliver(c, net, g, bt, order, fmt.Sprintf("%s/rl-%d", base, c.Index), "random-large")
	})
	r.Exhaustive(true)
	r.Floor("runs_all_connected", 100)
	r.Floor("in_order_controls", 10)
	r.Floor("runs_with_3plus_sibling_orphans", 5)
}
