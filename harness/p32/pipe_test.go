package p32

import (
	"io"
	"sync"

	"verif/internal/ev"
)

// halfPipe is one direction of the in-memory transport: a byte queue with a
// bounded capacity (back-pressure on the writer) whose Read hands out
// 1..maxFrag bytes per call, the count chosen by a seeded PRNG, so the
// ciphertext reaches the SecretConnection arbitrarily fragmented / coalesced.
//
// It is a correct stream: Read blocks until at least one byte or close, bytes
// leave in the order they entered, none is dropped or repeated, Write never
// keeps or modifies the caller's slice.  One reader and one writer goroutine
// may use it concurrently (everything is under mu).
type halfPipe struct {
	mu      sync.Mutex
	cond    *sync.Cond
	buf     []byte
	cap     int // max queued bytes; writer blocks beyond
	maxFrag int
	rng     *ev.Rand
	closed  bool

	written int64 // total bytes accepted from the writer
	read    int64 // total bytes handed to the reader
	reads   int64 // number of Read calls that returned data

	corruptAt   int64 // absolute offset (in bytes written) whose byte is XORed; -1 = none
	corruptMask byte
	corrupted   bool
	origByte    byte
}

func newHalfPipe(rng *ev.Rand, maxFrag, capacity int) *halfPipe {
	h := &halfPipe{cap: capacity, maxFrag: maxFrag, rng: rng, corruptAt: -1}
	h.cond = sync.NewCond(&h.mu)
	return h
}

func (h *halfPipe) Write(p []byte) (int, error) {
	h.mu.Lock()
	defer h.mu.Unlock()
	n := 0
	for n < len(p) {
		for len(h.buf) >= h.cap && !h.closed {
			h.cond.Wait()
		}
		if h.closed {
			return n, io.ErrClosedPipe
		}
		k := h.cap - len(h.buf)
		if k > len(p)-n {
			k = len(p) - n
		}
		start := len(h.buf)
		h.buf = append(h.buf, p[n:n+k]...) // copies: the caller's slice is never touched
		if h.corruptAt >= h.written && h.corruptAt < h.written+int64(k) {
			i := start + int(h.corruptAt-h.written)
			h.origByte = h.buf[i]
			h.buf[i] ^= h.corruptMask
			h.corrupted = true
		}
		h.written += int64(k)
		n += k
		h.cond.Broadcast()
	}
	return n, nil
}

func (h *halfPipe) Read(p []byte) (int, error) {
	h.mu.Lock()
	defer h.mu.Unlock()
	if len(p) == 0 {
		return 0, nil
	}
	for len(h.buf) == 0 && !h.closed {
		h.cond.Wait()
	}
	if len(h.buf) == 0 {
		return 0, io.EOF
	}
	n := h.rng.Range(1, h.maxFrag)
	if n > len(p) {
		n = len(p)
	}
	if n > len(h.buf) {
		n = len(h.buf)
	}
	copy(p, h.buf[:n])
	h.buf = h.buf[n:]
	if len(h.buf) == 0 {
		h.buf = nil // let the backing array go
	}
	h.read += int64(n)
	h.reads++
	h.cond.Broadcast()
	return n, nil
}

// close makes blocked and future Writes fail and lets Reads drain what is
// queued and then report io.EOF.
func (h *halfPipe) close() {
	h.mu.Lock()
	h.closed = true
	h.cond.Broadcast()
	h.mu.Unlock()
}

func (h *halfPipe) stats() (written, read, reads int64) {
	h.mu.Lock()
	defer h.mu.Unlock()
	return h.written, h.read, h.reads
}

// setCorruption arms a one-byte corruption at absolute stream offset off.
// It must be armed before the byte at off is written.
func (h *halfPipe) setCorruption(off int64, mask byte) bool {
	h.mu.Lock()
	defer h.mu.Unlock()
	if off < h.written || mask == 0 {
		return false
	}
	h.corruptAt, h.corruptMask = off, mask
	return true
}

func (h *halfPipe) wasCorrupted() bool {
	h.mu.Lock()
	defer h.mu.Unlock()
	return h.corrupted
}

// end is one endpoint of the duplex: reads from in, writes to out.
type end struct {
	in, out *halfPipe
}

func (e *end) Read(p []byte) (int, error)  { return e.in.Read(p) }
func (e *end) Write(p []byte) (int, error) { return e.out.Write(p) }
func (e *end) Close() error                { e.in.close(); e.out.close(); return nil }

// duplex returns the two endpoints and the two directions (a→b, b→a).
func duplex(ab, ba *halfPipe) (a, b *end) {
	return &end{in: ba, out: ab}, &end{in: ab, out: ba}
}
