package p32

import (
	"bytes"
	"fmt"
	"io"
	"sync"

	"github.com/bytom/bytom/crypto/ed25519/chainkd"

	"verif/internal/ev"
)

// frames group: the transport (a man in the middle) does not flip bytes, it moves WHOLE sealed
// frames: it delivers one twice, swaps two, drops one, or hands a frame of the opposite direction
// back.  Every frame is individually authentic; only its position in the stream is wrong.  "The
// receiver reads exactly the bytes the sender wrote, in order, without loss or duplication" and
// "any modification of ciphertext in transit is detected": the reader may deliver the plaintext of
// the frames that are still in their place and must then fail; it must never deliver a byte of a
// frame that is out of place.

// gate is one direction of a transport: bytes written are either passed on at once or held back.
type gate struct {
	mu      sync.Mutex
	cond    *sync.Cond
	buf     []byte // readable by the other end
	held    []byte // written while holding
	holding bool
	closed  bool
}

func newGate() *gate { g := &gate{}; g.cond = sync.NewCond(&g.mu); return g }

func (g *gate) Write(p []byte) (int, error) {
	g.mu.Lock()
	defer g.mu.Unlock()
	if g.closed {
		return 0, io.ErrClosedPipe
	}
	if g.holding {
		g.held = append(g.held, p...)
	} else {
		g.buf = append(g.buf, p...)
		g.cond.Broadcast()
	}
	return len(p), nil
}

func (g *gate) Read(p []byte) (int, error) {
	g.mu.Lock()
	defer g.mu.Unlock()
	for len(g.buf) == 0 && !g.closed {
		g.cond.Wait()
	}
	if len(g.buf) == 0 {
		return 0, io.EOF
	}
	n := copy(p, g.buf)
	g.buf = g.buf[n:]
	return n, nil
}

func (g *gate) hold() { g.mu.Lock(); g.holding = true; g.mu.Unlock() }
func (g *gate) take() []byte {
	g.mu.Lock()
	defer g.mu.Unlock()
	b := g.held
	g.held = nil
	return b
}
func (g *gate) inject(b []byte) {
	g.mu.Lock()
	g.buf = append(g.buf, b...)
	g.cond.Broadcast()
	g.mu.Unlock()
}
func (g *gate) close() { g.mu.Lock(); g.closed = true; g.cond.Broadcast(); g.mu.Unlock() }

type gatedEnd struct{ in, out *gate }

func (e *gatedEnd) Read(p []byte) (int, error)  { return e.in.Read(p) }
func (e *gatedEnd) Write(p []byte) (int, error) { return e.out.Write(p) }
func (e *gatedEnd) Close() error                { e.in.close(); e.out.close(); return nil }

const sealedFrame = 1042 // 2 length + 1024 data, sealed with a 16-byte tag (validated below)

func framesCase(c *ev.Case) {
	r := c.Rand
	ab, ba := newGate(), newGate()
	endA, endB := &gatedEnd{in: ba, out: ab}, &gatedEnd{in: ab, out: ba}
	defer endA.Close()
	prvA, prvB := chainkd.RootXPrv(r.Bytes(32)), chainkd.RootXPrv(r.Bytes(32))
	scA, scB, ok := handshake(c, endA, endB, prvA, prvB, func() bool { return false }, 0, 0)
	if !ok {
		return
	}
	// A and B each write n messages of at most 1024 bytes: one sealed frame per message
	n := r.Range(3, 6)
	ab.hold()
	ba.hold()
	var msgsA, msgsB [][]byte
	for i := 0; i < n; i++ {
		mA, mB := r.Bytes(r.Range(1, 1024)), r.Bytes(r.Range(1, 1024))
		mA[0], mB[0] = byte(i), byte(0x80+i)
		if _, err := scA.Write(mA); err != nil {
			c.Inconclusive("frames case %d: write: %v", c.Index, err)
			return
		}
		if _, err := scB.Write(mB); err != nil {
			c.Inconclusive("frames case %d: write: %v", c.Index, err)
			return
		}
		msgsA, msgsB = append(msgsA, mA), append(msgsB, mB)
	}
	rawA, rawB := ab.take(), ba.take()
	if len(rawA) != n*sealedFrame || len(rawB) != n*sealedFrame {
		c.Count("frame_model_mismatch", 1)
		c.Inconclusive("frames case %d: %d messages produced %d / %d transport bytes, not %d-byte frames", c.Index, n, len(rawA), len(rawB), sealedFrame)
		return
	}
	frame := func(raw []byte, i int) []byte { return raw[i*sealedFrame : (i+1)*sealedFrame] }
	// the manipulated A->B stream: `good` frames in place, then one frame that is out of place, then the rest
	kind := []string{"duplicated", "swapped", "dropped", "reflected", "none"}[c.Index%5]
	good := r.Intn(n - 1) // frames 0..good-1 are delivered in place
	var stream []byte
	for i := 0; i < good; i++ {
		stream = append(stream, frame(rawA, i)...)
	}
	wantPrefix := bytes.Join(msgsA[:good], nil)
	var rest [][]byte // what follows the manipulation point
	switch kind {
	case "duplicated": // frame `good` twice (when good == 0: the first frame twice)
		stream = append(stream, frame(rawA, good)...)
		wantPrefix = append(wantPrefix, msgsA[good]...)
		stream = append(stream, frame(rawA, good)...)
		rest = msgsA[good:]
	case "swapped": // frame good+1 before frame good
		stream = append(stream, frame(rawA, good+1)...)
		stream = append(stream, frame(rawA, good)...)
		rest = msgsA[good:]
	case "dropped": // frame `good` missing
		for i := good + 1; i < n; i++ {
			stream = append(stream, frame(rawA, i)...)
		}
		rest = msgsA[good:]
	case "reflected": // B's own frame `good` comes back to B in place of A's
		stream = append(stream, frame(rawB, good)...)
		rest = append([][]byte{msgsB[good]}, msgsA[good:]...)
	case "none": // control: everything in place
		for i := good; i < n; i++ {
			stream = append(stream, frame(rawA, i)...)
		}
		wantPrefix = bytes.Join(msgsA, nil)
	}
	ab.mu.Lock()
	ab.holding = false
	ab.mu.Unlock()
	ab.inject(stream)
	ab.close()
	// B reads until error / EOF
	var got []byte
	var rerr error
	buf := make([]byte, r.Range(1, 2048))
	for {
		k, err := scB.Read(buf)
		got = append(got, buf[:k]...)
		if err != nil {
			rerr = err
			break
		}
		if len(got) > 8*1024 {
			break
		}
	}
	c.Eval(1)
	c.Count("frame_sessions", 1)
	c.Count("frame_manipulation:"+kind, 1)
	c.Distinct("frames %s good=%d of %d", kind, good, n)
	w := map[string]interface{}{"manipulation": kind, "frames_in_place_before_it": good, "frames": n, "read_error": fmt.Sprint(rerr),
		"plaintext_delivered": len(got), "plaintext_of_frames_in_place": len(wantPrefix)}
	switch {
	case kind == "none":
		if !bytes.Equal(got, wantPrefix) {
			c.Violation("frames:control-stream-differs", "with every frame in place the reader does not get the bytes written", w)
		} else {
			c.Count("frame_control_exact", 1)
		}
	case !bytes.HasPrefix(wantPrefix, got) && !bytes.HasPrefix(got, wantPrefix):
		c.Violation("frames:"+kind+":wrong-bytes-before-the-manipulation", "the reader delivered bytes that differ from the plaintext of the frames that were in place", w)
	case len(got) > len(wantPrefix):
		// bytes beyond the frames that were in place: of which frame?
		extra := got[len(wantPrefix):]
		src := "unknown"
		for _, m := range rest {
			if bytes.HasPrefix(m, extra) || bytes.HasPrefix(extra, m) {
				src = fmt.Sprintf("message starting with %02x", m[0])
				break
			}
		}
		w["extra_bytes_from"] = src
		c.Violation("frames:"+kind+":out-of-place-frame-delivered", "the reader delivered plaintext of a sealed frame that was duplicated, swapped, dropped-before or reflected by the transport", w)
	default:
		c.Count("frame_manipulations_refused", 1)
	}
}

func framesGroup(r *ev.Run) {
	r.Cases("frames", r.N(300, 12000), framesCase)
	r.Floor("frame_sessions", 250)
	r.Floor("frame_manipulations_refused", 180)
	r.Floor("frame_control_exact", 40)
}
