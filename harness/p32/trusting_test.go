package p32

import (
	"bufio"
	"bytes"
	"fmt"
	"io"
	"sync"
	"time"

	"github.com/bytom/bytom/crypto/ed25519/chainkd"

	"verif/internal/ev"
)

// Group "trusting": what a consumer that relies on the io.Reader contract gets.
//
// The stream group reads with its own loop and re-synchronises after a
// (0, nil) return, so it shows the contract breach but not its consequence.
// Here the consumer is library code that trusts n — io.ReadFull, or a
// bufio.Reader — reading through a spy that watches the raw return values of
// SecretConnection.Read.  The writer half-closes the transport after its last
// message, so a consumer that lost bytes ends with an EOF instead of hanging.

type n0Event struct {
	StreamPos int    `json:"stream_pos"`
	LenBuf    int    `json:"len_buf"`
	Copied    int    `json:"bytes_copied_into_buf"`
	Bytes     string `json:"copied"`
}

// spy forwards Read and tracks the position of the underlying stream with the
// same canary technique as readStream: before the call every byte of p is set
// to the complement of the stream byte that belongs there, so bytes that match
// the stream afterwards were written by the callee.
type spy struct {
	rd      io.Reader
	want    []byte
	tpos    int
	lost    bool // bytes returned through p[:n] differ from the stream: tracking stops
	calls   int
	n0      int
	n0bytes int
	first   *n0Event
}

func (s *spy) Read(p []byte) (int, error) {
	s.calls++
	if s.lost || len(p) == 0 {
		return s.rd.Read(p)
	}
	for i := range p {
		if s.tpos+i < len(s.want) {
			p[i] = ^s.want[s.tpos+i]
		} else {
			p[i] = 0xA5
		}
	}
	n, err := s.rd.Read(p)
	switch {
	case n > 0:
		if n > len(p) || s.tpos+n > len(s.want) || !bytes.Equal(p[:n], s.want[s.tpos:s.tpos+n]) {
			s.lost = true
		} else {
			s.tpos += n
		}
	case n == 0 && err == nil:
		k := 0
		for k < len(p) && s.tpos+k < len(s.want) && p[k] == s.want[s.tpos+k] {
			k++
		}
		s.n0++
		s.n0bytes += k
		if s.first == nil && k > 0 {
			s.first = &n0Event{StreamPos: s.tpos, LenBuf: len(p), Copied: k, Bytes: hexClip(p[:k])}
		}
		s.tpos += k
	}
	return n, err
}

var consumers = []string{"io.ReadFull", "bufio.Reader"}

func trustingSession(c *ev.Case) {
	r := c.Rand
	prvA, errA := chainkd.NewXPrv(r)
	prvB, errB := chainkd.NewXPrv(r)
	if errA != nil || errB != nil {
		c.Inconclusive("key generation failed: %v %v", errA, errB)
		return
	}
	d := genDirection(r, "a>b", 1)
	if d.regime == 0 {
		d.regime = 1 + r.Intn(5)
	}
	back := newHalfPipe(r.Fork(), pickFrag(r), 1<<30)
	d.pipe = newHalfPipe(r.Fork(), d.frag, r.Range(1, 3*frameWire))
	consumer := consumers[r.Intn(len(consumers))]
	bufioSize := r.Pick([]int{1, 1, 1})
	switch bufioSize {
	case 0:
		bufioSize = r.Range(16, dataMax-1) // smaller than a frame payload
	case 1:
		bufioSize = dataMax // what MConnection uses (minReadBufferSize)
	default:
		bufioSize = r.Range(dataMax+1, 4096)
	}
	sizer := bufSizer(r.Fork(), d.regime)
	pert := perturber(r.Fork())
	endA, endB := duplex(d.pipe, back)
	closeAll := func() { endA.Close(); endB.Close() }
	defer closeAll()
	c.Journal(map[string]interface{}{"kind": "trusting", "consumer": consumer, "bytes": len(d.want)})

	var wdMu sync.Mutex
	fired := false
	wd := time.AfterFunc(caseWatchdog, func() {
		wdMu.Lock()
		fired = true
		wdMu.Unlock()
		closeAll()
	})
	defer wd.Stop()
	watchdogFired := func() bool { wdMu.Lock(); defer wdMu.Unlock(); return fired }

	scA, scB, ok := handshake(c, endA, endB, prvA, prvB, watchdogFired, d.frag, back.maxFrag)
	if !ok {
		return
	}

	var wErr error
	var wg sync.WaitGroup
	wg.Add(1)
	go func() {
		defer wg.Done()
		for _, m := range d.msgs {
			if _, err := scA.Write(m); err != nil {
				wErr = err
				break
			}
			pert()
		}
		d.pipe.close() // end of stream: the reader drains what is queued, then gets io.EOF
	}()

	sp := &spy{rd: scB, want: d.want}
	got := make([]byte, 0, len(d.want))
	var rerr error
	zeroRun := 0
	switch consumer {
	case "io.ReadFull":
		for len(got) < len(d.want) {
			sz := sizer()
			if rest := len(d.want) - len(got); sz > rest {
				sz = rest
			}
			buf := make([]byte, sz)
			n, err := io.ReadFull(sp, buf)
			got = append(got, buf[:n]...)
			if err != nil {
				rerr = err
				break
			}
		}
	default:
		br := bufio.NewReaderSize(sp, bufioSize)
		buf := make([]byte, 2048)
		for len(got) < len(d.want) {
			n, err := br.Read(buf[:sizer()])
			got = append(got, buf[:n]...)
			if err != nil {
				rerr = err
				break
			}
			if n == 0 {
				if zeroRun++; zeroRun > 1000 {
					rerr = fmt.Errorf("monitor: 1000 consecutive (0, nil) from bufio.Reader.Read")
					break
				}
			} else {
				zeroRun = 0
			}
		}
	}
	if rerr != nil {
		d.pipe.close() // unblock the writer if the consumer gave up early
	}
	wg.Wait()
	if watchdogFired() {
		c.Inconclusive("%s case %d: watchdog (%s) fired (consumer %s got %d/%d)", c.Group, c.Index, caseWatchdog, consumer, len(got), len(d.want))
		return
	}

	c.Count("trusting_sessions", 1)
	c.Count("trusting_consumer_"+consumer, 1)
	c.Count("trusting_bytes_sent", int64(len(d.want)))
	c.Count("trusting_raw_reads", int64(sp.calls))
	c.Count("read_n0_nil", int64(sp.n0))
	c.Count("read_n0_nil_bytes_copied_but_unreported", int64(sp.n0bytes))
	bufClass := bufRegimes[d.regime]
	if consumer == "bufio.Reader" {
		switch {
		case bufioSize < dataMax:
			bufClass += "/bufio<F"
		case bufioSize == dataMax:
			bufClass += "/bufio=F"
		default:
			bufClass += "/bufio>F"
		}
	}
	for _, m := range d.msgs {
		c.Distinct("trusting %s msg=%s frag=%s buf=%s", consumer, msgClass(len(m)), fragClass(d.frag), bufClass)
	}
	exact := rerr == nil && bytes.Equal(got, d.want)
	firstDiff := 0
	for firstDiff < len(got) && firstDiff < len(d.want) && got[firstDiff] == d.want[firstDiff] {
		firstDiff++
	}
	w := map[string]interface{}{"consumer": consumer, "message_sizes": sizesOf(d.msgs), "max_fragment": d.frag, "reader_buffers": bufRegimes[d.regime],
		"sent": len(d.want), "consumer_got": len(got), "consumer_err": fmt.Sprint(rerr), "consumer_exact": exact,
		"raw_reads": sp.calls, "raw_reads_returning_0_nil": sp.n0, "bytes_copied_by_those_reads": sp.n0bytes, "write_err": fmt.Sprint(wErr)}
	if consumer == "bufio.Reader" {
		w["bufio_size"] = bufioSize
	}
	if !exact {
		w["consumer_first_diff_at"] = firstDiff
		if firstDiff < len(got) {
			w["consumer_got_there"] = hexClip(got[firstDiff:])
		}
		if firstDiff < len(d.want) {
			w["sent_there"] = hexClip(d.want[firstDiff:])
		}
		c.Count("trusting_consumer_corrupted_stream", 1)
		c.Count("trusting_consumer_bytes_missing", int64(len(d.want)-len(got)))
	} else {
		c.Count("trusting_consumer_exact", 1)
	}
	switch {
	case sp.n0bytes > 0:
		w["first_0_nil_read"] = sp.first
		c.Violation("Read:returns-n=0-after-copying-from-buffer",
			"SecretConnection.Read on a non-empty buffer returned (0, nil) although it copied the next stream bytes into the caller's buffer and consumed them: a caller that trusts n loses them", w)
	case sp.n0 > 0:
		c.Violation("Read:returns-n=0-nil-without-data", "Read on a non-empty buffer returned (0, nil) and copied nothing", w)
	case !exact:
		c.Violation("trusting:stream-differs", "a consumer using "+consumer+" over an unmodified transport did not obtain the bytes that were written", w)
	}
	if c.WantSample() {
		c.Sample(w)
	}
}

func sizesOf(msgs [][]byte) []int {
	out := make([]int, len(msgs))
	for i, m := range msgs {
		out[i] = len(m)
	}
	return out
}
