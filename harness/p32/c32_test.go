// C32 — encrypted peer connections deliver the exact byte stream.
//
// Two real MakeSecretConnection ends talk over an in-memory duplex (pipe_test.go)
// that fragments / coalesces the ciphertext with a seeded PRNG.  Both directions
// run concurrently.  The oracle is a streaming comparison at the io.Reader
// boundary of SecretConnection.Read.
package p32

import (
	"bytes"
	"encoding/hex"
	"fmt"
	"io"
	"os"
	"runtime"
	"sync"
	"sync/atomic"
	"testing"
	"time"

	"github.com/sirupsen/logrus"

	"github.com/bytom/bytom/crypto/ed25519/chainkd"
	"github.com/bytom/bytom/p2p/connection"

	"verif/internal/ev"
)

func TestMain(m *testing.M) {
	logrus.SetLevel(logrus.PanicLevel)
	logrus.SetOutput(io.Discard)
	os.Exit(m.Run())
}

// Wire model of the code under test (secret_connection.go constants).  It is
// used to pick boundary sizes and to locate the plaintext boundary of a
// corrupted frame; the session checks it against the transport byte counts
// and only relies on it when it matches.
const (
	dataMax   = 1024
	frameWire = dataMax + 2 + 16 // length prefix + payload + secretbox overhead
)

const caseWatchdog = 120 * time.Second

// set when a clean direction's transport byte count contradicts the frame
// model; the plaintext boundary of a corrupted frame is then not trusted
var frameModelBroken atomic.Bool

// reporter is the part of *ev.Case the stream oracle needs (so the oracle can
// be exercised against deliberately broken readers in oracle_test.go).
type reporter interface {
	Violation(key, what string, witness interface{})
	Count(name string, n int64)
}

type readOutcome struct {
	delivered int   // bytes the reader was given (incl. bytes re-synchronised after an n=0 return)
	err       error // first error returned by Read
	aborted   bool  // oracle gave up (violation that makes further comparison meaningless)
	reads     int
	n0        int // Read returned (0, nil) on a non-empty buffer
	n0lost    int // bytes copied into the caller's buffer by such reads
}

func hexClip(b []byte) string {
	if len(b) > 48 {
		return hex.EncodeToString(b[:48]) + "..."
	}
	return hex.EncodeToString(b)
}

// readStream reads from rd until len(want) bytes were delivered or Read fails,
// and checks every return value against the io.Reader contract and the sent
// stream.  nextBuf yields the caller buffer size (1..2000) of each Read.
func readStream(rep reporter, kind string, rd io.Reader, want []byte, nextBuf func() int, perturb func()) readOutcome {
	var out readOutcome
	scratch := make([]byte, 2048)
	pos := 0
	zeroRun := 0
	for pos < len(want) {
		sz := nextBuf()
		if sz < 1 {
			sz = 1
		}
		if sz > len(scratch) {
			sz = len(scratch)
		}
		buf := scratch[:sz]
		// canary: every byte differs from the byte the stream would put there
		for i := range buf {
			if pos+i < len(want) {
				buf[i] = ^want[pos+i]
			} else {
				buf[i] = 0xA5
			}
		}
		n, err := rd.Read(buf)
		out.reads++
		if n < 0 || n > sz {
			rep.Violation("Read:n-out-of-range", "Read returned n outside [0,len(buf)]",
				map[string]interface{}{"n": n, "len_buf": sz, "pos": pos, "session": kind})
			out.aborted = true
			break
		}
		if n > 0 {
			zeroRun = 0
			got := buf[:n]
			if pos+n > len(want) {
				rep.Violation(kind+":more-bytes-than-sent", "receiver was given more bytes than the sender wrote",
					map[string]interface{}{"pos": pos, "n": n, "sent_total": len(want), "got": hexClip(got)})
				out.aborted = true
				break
			}
			if !bytes.Equal(got, want[pos:pos+n]) {
				// classify: is it the stream at another offset (loss / repetition) or foreign bytes?
				class, at := "wrong-byte", -1
				if n >= 8 {
					if q := bytes.Index(want, got); q >= 0 {
						at = q
						if q > pos {
							class = "bytes-skipped"
						} else {
							class = "bytes-repeated"
						}
					}
				}
				first := 0
				for first < n && got[first] == want[pos+first] {
					first++
				}
				rep.Violation(kind+":"+class, "bytes delivered by Read differ from the bytes written at that stream position",
					map[string]interface{}{"pos": pos, "n": n, "len_buf": sz, "first_diff": pos + first, "matches_stream_at": at,
						"got": hexClip(got[first:]), "want": hexClip(want[pos+first : pos+n]), "read_err": fmt.Sprint(err)})
				out.aborted = true
				out.delivered = pos + first
				out.err = err
				return out
			}
			pos += n
		}
		if err != nil {
			out.err = err
			break
		}
		if n == 0 {
			// io.Reader: a non-empty buffer must get n > 0 or an error.
			k := 0
			for k < sz && pos+k < len(want) && buf[k] == want[pos+k] {
				k++
			}
			touched := 0
			for i := range buf {
				canary := byte(0xA5)
				if pos+i < len(want) {
					canary = ^want[pos+i]
				}
				if buf[i] != canary {
					touched++
				}
			}
			out.n0++
			out.n0lost += k
			rep.Count("read_n0_nil", 1)
			rep.Count("read_n0_nil_bytes_copied_but_unreported", int64(k))
			if k > 0 {
				rep.Violation("Read:returns-n=0-after-copying-from-buffer",
					"SecretConnection.Read on a non-empty buffer returned (0, nil) although it copied the next stream bytes into the caller's buffer and consumed them: a caller that trusts n loses them",
					map[string]interface{}{"session": kind, "stream_pos": pos, "len_buf": sz, "bytes_copied_into_buf": k, "bytes_touched": touched,
						"copied": hexClip(buf[:k]), "expected_next": hexClip(want[pos : pos+k]),
						"note": "the monitor re-synchronises by the copied count; the following reads continue at stream_pos+bytes_copied, so the bytes were consumed"})
				pos += k
				zeroRun = 0
			} else {
				zeroRun++
				rep.Violation("Read:returns-n=0-nil-without-data", "Read on a non-empty buffer returned (0, nil) and copied nothing",
					map[string]interface{}{"session": kind, "stream_pos": pos, "len_buf": sz, "bytes_touched": touched})
				if zeroRun >= 100 {
					out.aborted = true
					break
				}
			}
		}
		if perturb != nil {
			perturb()
		}
	}
	out.delivered = pos
	return out
}

// ---------------------------------------------------------------------------

var msgBoundary = []int{0, 1, 2, 100, dataMax - 2, dataMax - 1, dataMax, dataMax + 1, dataMax + 2, 2*dataMax - 1, 2 * dataMax, 2*dataMax + 1,
	3*dataMax - 1, 3 * dataMax, 3*dataMax + 1, 4 * dataMax, 4*dataMax + 1, 4999, 5000}

func msgClass(n int) string {
	switch {
	case n == 0:
		return "0"
	case n < dataMax-1:
		return "<F-1"
	case n == dataMax-1:
		return "F-1"
	case n == dataMax:
		return "F"
	case n == dataMax+1:
		return "F+1"
	case n%dataMax == 0:
		return "kF"
	case n%dataMax == 1:
		return "kF+1"
	case n%dataMax == dataMax-1:
		return "kF-1"
	default:
		return ">F"
	}
}

func fragClass(k int) string {
	switch {
	case k == 1:
		return "1"
	case k <= 16:
		return "2-16"
	case k < frameWire:
		return "17-1041"
	case k == frameWire:
		return "frame"
	default:
		return ">frame"
	}
}

func pickFrag(r *ev.Rand) int {
	switch r.Pick([]int{2, 3, 4, 2, 3}) {
	case 0:
		return 1
	case 1:
		return r.Range(2, 16)
	case 2:
		return r.Range(17, frameWire-1)
	case 3:
		return frameWire
	default:
		return r.Range(frameWire+1, 4*frameWire)
	}
}

var bufRegimes = []string{"1", "tiny", "small", "edge", "large", "mixed"}

func bufSizer(r *ev.Rand, regime int) func() int {
	var f func(reg int) int
	f = func(reg int) int {
		switch reg {
		case 0:
			return 1
		case 1:
			return r.Range(1, 16)
		case 2:
			return r.Range(17, dataMax-2)
		case 3:
			return dataMax - 1 + r.Intn(3)
		case 4:
			return r.Range(dataMax+2, 2000)
		default:
			return f(r.Intn(5))
		}
	}
	return func() int { return f(regime) }
}

func perturber(r *ev.Rand) func() {
	return func() {
		switch v := r.Intn(64); {
		case v < 8:
			runtime.Gosched()
		case v == 8:
			time.Sleep(time.Duration(r.Range(1, 80)) * time.Microsecond)
		}
	}
}

type direction struct {
	name    string
	msgs    [][]byte
	want    []byte
	frames  []int // predicted payload size of each sealed frame, in order
	regime  int
	frag    int
	pipe    *halfPipe
	hsBytes int64 // transport bytes of this direction consumed by the handshake
}

func genDirection(r *ev.Rand, name string, minBytes int) *direction {
	d := &direction{name: name, regime: r.Intn(len(bufRegimes)), frag: pickFrag(r)}
	if d.regime == 0 && r.Chance(1, 2) {
		d.regime = 1 + r.Intn(5) // one-byte buffers are slow: keep them but rarer
	}
	for {
		n := r.Range(1, 6)
		for i := 0; i < n; i++ {
			var sz int
			if r.Chance(2, 3) {
				sz = msgBoundary[r.Intn(len(msgBoundary))]
			} else {
				sz = r.Range(0, 5000)
			}
			m := r.Bytes(sz)
			d.msgs = append(d.msgs, m)
			d.want = append(d.want, m...)
			for rest := sz; rest > 0; rest -= dataMax {
				if rest > dataMax {
					d.frames = append(d.frames, dataMax)
				} else {
					d.frames = append(d.frames, rest)
				}
			}
		}
		if len(d.want) >= minBytes {
			return d
		}
	}
}

type corruption struct {
	dir      int // 0 = a→b, 1 = b→a
	frame    int
	region   string
	within   int
	mask     byte
	boundary int // plaintext bytes carried by the frames before the corrupted one
}

func genCorruption(r *ev.Rand, dirs [2]*direction) corruption {
	co := corruption{dir: r.Intn(2)}
	d := dirs[co.dir]
	nf := len(d.frames)
	switch r.Intn(4) {
	case 0:
		co.frame = 0
	case 1:
		co.frame = nf - 1
	default:
		co.frame = r.Intn(nf)
	}
	chunk := d.frames[co.frame]
	for {
		switch r.Intn(4) {
		case 0:
			co.region, co.within = "tag", r.Intn(16)
		case 1:
			co.region, co.within = "len", 16+r.Intn(2)
		case 2:
			co.region, co.within = "data", 18+r.Intn(chunk)
		default:
			if chunk == dataMax {
				continue
			}
			co.region, co.within = "padding", 18+chunk+r.Intn(dataMax-chunk)
		}
		break
	}
	if r.Bool() {
		co.mask = 1 << uint(r.Intn(8))
	} else {
		co.mask = byte(r.Range(1, 255))
	}
	for i := 0; i < co.frame; i++ {
		co.boundary += d.frames[i]
	}
	return co
}

func framePos(f, n int) string {
	switch {
	case f == 0 && n == 1:
		return "only"
	case f == 0:
		return "first"
	case f == n-1:
		return "last"
	default:
		return "middle"
	}
}

// handshake runs MakeSecretConnection on both ends concurrently and checks the
// authenticated keys.  ok = false: verdict already recorded, the caller cleans up.
func handshake(c *ev.Case, endA, endB io.ReadWriteCloser, prvA, prvB chainkd.XPrv, watchdogFired func() bool, fragAB, fragBA int) (scA, scB *connection.SecretConnection, ok bool) {
	var hsErrA, hsErrB error
	var wg sync.WaitGroup
	wg.Add(2)
	go func() { defer wg.Done(); scA, hsErrA = connection.MakeSecretConnection(endA, prvA) }()
	go func() { defer wg.Done(); scB, hsErrB = connection.MakeSecretConnection(endB, prvB) }()
	wg.Wait()
	if watchdogFired() {
		c.Inconclusive("%s case %d: watchdog fired during the handshake", c.Group, c.Index)
		return nil, nil, false
	}
	if hsErrA != nil || hsErrB != nil || scA == nil || scB == nil {
		c.Violation("handshake:fails-on-clean-transport", "MakeSecretConnection failed between two honest ends over a loss-free transport",
			map[string]interface{}{"errA": fmt.Sprint(hsErrA), "errB": fmt.Sprint(hsErrB), "frag_ab": fragAB, "frag_ba": fragBA})
		return nil, nil, false
	}
	c.Count("handshakes", 1)
	pubA, pubB := prvA.XPub().PublicKey(), prvB.XPub().PublicKey()
	if !bytes.Equal(scA.RemotePubKey(), pubB) || !bytes.Equal(scB.RemotePubKey(), pubA) {
		c.Violation("RemotePubKey:mismatch", "RemotePubKey differs from the key the peer authenticated with",
			map[string]interface{}{"pubA": hex.EncodeToString(pubA), "pubB": hex.EncodeToString(pubB),
				"A.RemotePubKey": hex.EncodeToString(scA.RemotePubKey()), "B.RemotePubKey": hex.EncodeToString(scB.RemotePubKey())})
	} else {
		c.Count("remote_pubkey_checked", 2)
	}
	return scA, scB, true
}

// session runs one connected pair.  corrupt = nil: clean transport.
func session(c *ev.Case, withCorruption bool) {
	r := c.Rand
	prvA, errA := chainkd.NewXPrv(r)
	prvB, errB := chainkd.NewXPrv(r)
	if errA != nil || errB != nil {
		c.Inconclusive("key generation failed: %v %v", errA, errB)
		return
	}
	minBytes := 0
	if withCorruption {
		minBytes = 1
	}
	dirs := [2]*direction{genDirection(r, "a>b", minBytes), genDirection(r, "b>a", minBytes)}
	capOf := func() int {
		if r.Chance(1, 3) {
			return 1 << 30
		}
		return r.Range(1, 3*frameWire)
	}
	for _, d := range dirs {
		d.pipe = newHalfPipe(r.Fork(), d.frag, capOf())
	}
	var co corruption
	kind := "clean"
	if withCorruption {
		co = genCorruption(r, dirs)
		kind = "corrupt"
	}
	rdSizer := [2]func() int{bufSizer(r.Fork(), dirs[0].regime), bufSizer(r.Fork(), dirs[1].regime)}
	pert := [4]func(){perturber(r.Fork()), perturber(r.Fork()), perturber(r.Fork()), perturber(r.Fork())}
	endA, endB := duplex(dirs[0].pipe, dirs[1].pipe)
	closeAll := func() { endA.Close(); endB.Close() }

	c.Journal(map[string]interface{}{"kind": kind, "a>b": len(dirs[0].want), "b>a": len(dirs[1].want)})

	// watchdog: firing is inconclusive, never a verdict
	var wdMu sync.Mutex
	fired := false
	wd := time.AfterFunc(caseWatchdog, func() {
		wdMu.Lock()
		fired = true
		wdMu.Unlock()
		closeAll()
	})
	defer wd.Stop()
	watchdogFired := func() bool { wdMu.Lock(); defer wdMu.Unlock(); return fired }

	// --- handshake -------------------------------------------------------
	scA, scB, ok := handshake(c, endA, endB, prvA, prvB, watchdogFired, dirs[0].frag, dirs[1].frag)
	if !ok {
		closeAll()
		return
	}
	for _, d := range dirs {
		d.hsBytes, _, _ = d.pipe.stats()
	}
	if withCorruption {
		d := dirs[co.dir]
		if !d.pipe.setCorruption(d.hsBytes+int64(co.frame)*frameWire+int64(co.within), co.mask) {
			c.Inconclusive("%s case %d: could not arm the corruption", c.Group, c.Index)
			closeAll()
			return
		}
	}

	// --- both directions concurrently -------------------------------------
	conns := [2]*connection.SecretConnection{scA, scB} // writer of direction i is conns[i], reader is conns[1-i]
	var outs [2]readOutcome
	var wErr [2]error
	var wShort [2]string
	var readerGone [2]bool
	var afterErr [2]int
	var afterGot [2]string
	var rgMu sync.Mutex
	var wg sync.WaitGroup
	wg.Add(4)
	for i := 0; i < 2; i++ {
		i := i
		d := dirs[i]
		go func() { // writer
			defer wg.Done()
			for mi, m := range d.msgs {
				n, err := conns[i].Write(m)
				if err != nil {
					wErr[i] = err
					return
				}
				if n != len(m) {
					wShort[i] = fmt.Sprintf("message %d: Write returned n=%d for %d bytes", mi, n, len(m))
					return
				}
				pert[i]()
			}
		}()
		go func() { // reader
			defer wg.Done()
			outs[i] = readStream(c, kind, conns[1-i], d.want, rdSizer[i], pert[2+i])
			if outs[i].err != nil || outs[i].aborted {
				// the application would drop the connection: unblock the writer of this direction
				rgMu.Lock()
				readerGone[i] = true
				rgMu.Unlock()
				d.pipe.close()
				if withCorruption && co.dir == i && outs[i].err != nil && !outs[i].aborted {
					// A connection that reported an error must not hand out plaintext afterwards (the
					// rejected frame's bytes would be missing in front of it).  The transport is closed
					// for writing and drains what is queued, so these reads cannot block.
					buf := make([]byte, 2048)
					for k := 0; k < 4; k++ {
						n, err := conns[1-i].Read(buf)
						c.Count("reads_after_error", 1)
						if n > 0 {
							afterErr[i] += n
							afterGot[i] = hexClip(buf[:n])
						}
						if err == io.EOF || (n == 0 && err == nil) {
							break
						}
					}
				}
			}
		}()
	}
	wg.Wait()
	if watchdogFired() {
		c.Inconclusive("%s case %d: watchdog (%s) fired before both directions completed (delivered %d/%d and %d/%d)", c.Group, c.Index, caseWatchdog,
			outs[0].delivered, len(dirs[0].want), outs[1].delivered, len(dirs[1].want))
		return
	}

	// --- verdicts ----------------------------------------------------------
	c.Count("sessions_"+kind, 1)
	for i, d := range dirs {
		o := outs[i]
		corruptedDir := withCorruption && co.dir == i
		written, _, treads := d.pipe.stats()
		wire := written - d.hsBytes
		modelOK := wire == int64(len(d.frames))*frameWire
		c.Count("bytes_delivered", int64(o.delivered))
		c.Count("reads", int64(o.reads))
		c.Count("transport_reads", treads)
		c.Count("messages", int64(len(d.msgs)))
		for _, m := range d.msgs {
			c.Distinct("msg=%s frag=%s buf=%s", msgClass(len(m)), fragClass(d.frag), bufRegimes[d.regime])
			if len(m) == 0 {
				c.Count("messages_empty", 1)
			}
			if len(m) > dataMax {
				c.Count("messages_multi_frame", 1)
			}
		}
		if d.regime <= 2 {
			c.Count("directions_buffer_smaller_than_frame", 1)
		}
		if d.frag < frameWire {
			c.Count("directions_ciphertext_fragmented", 1)
		} else if d.frag > frameWire {
			c.Count("directions_ciphertext_coalesced", 1)
		}
		rgMu.Lock()
		gone := readerGone[i]
		rgMu.Unlock()
		if wShort[i] != "" {
			c.Violation("Write:short-count", "Write reported fewer bytes than given without an error", map[string]interface{}{"dir": d.name, "detail": wShort[i]})
		}
		if wErr[i] != nil && !gone {
			c.Violation("Write:error-on-clean-transport", "Write failed although the transport accepted everything",
				map[string]interface{}{"dir": d.name, "err": fmt.Sprint(wErr[i])})
		}
		if !corruptedDir {
			if wErr[i] == nil && wShort[i] == "" && !gone {
				if modelOK {
					c.Count("frames", int64(len(d.frames)))
				} else {
					c.Count("frame_model_mismatch", 1)
					frameModelBroken.Store(true)
				}
			}
			switch {
			case o.aborted:
				// already reported by the stream oracle
			case o.err != nil:
				c.Violation("clean:read-error", "Read failed on an unmodified ciphertext stream",
					map[string]interface{}{"dir": d.name, "err": fmt.Sprint(o.err), "delivered": o.delivered, "sent": len(d.want),
						"frag": d.frag, "buf": bufRegimes[d.regime]})
			case o.delivered != len(d.want):
				c.Violation("clean:incomplete", "reader stopped before all bytes", map[string]interface{}{"delivered": o.delivered, "sent": len(d.want)})
			case o.n0 > 0:
				// complete only because the monitor re-synchronised after (0, nil) returns (each one is a violation)
				c.Count("directions_complete_after_resync", 1)
			default:
				c.Count("directions_exact", 1)
			}
			continue
		}
		// corrupted direction
		c.Distinct("corrupt region=%s frame=%s frag=%s buf=%s", co.region, framePos(co.frame, len(d.frames)), fragClass(d.frag), bufRegimes[d.regime])
		c.Count("corrupt_region_"+co.region, 1)
		w := map[string]interface{}{"dir": d.name, "frame": co.frame, "frames": len(d.frames), "region": co.region, "offset_in_frame": co.within,
			"mask": fmt.Sprintf("%02x", co.mask), "plaintext_boundary": co.boundary, "delivered": o.delivered, "sent": len(d.want),
			"read_err": fmt.Sprint(o.err), "frag": d.frag, "buf": bufRegimes[d.regime]}
		if !d.pipe.wasCorrupted() {
			// the writer never reached the armed offset (it can only stop early after a reader error)
			if o.err == nil && !o.aborted {
				c.Inconclusive("%s case %d: corruption offset never written", c.Group, c.Index)
			}
			continue
		}
		switch {
		case o.aborted:
			// wrong byte etc. already reported with the "corrupt:" prefix
		case o.err == nil:
			c.Violation("corrupt:not-detected", "one ciphertext byte was modified in transit, yet the receiver read the whole stream without an error", w)
		default:
			c.Count("corruptions_detected", 1)
			if afterErr[i] > 0 {
				w["bytes_after_error"] = afterErr[i]
				w["got_after_error"] = afterGot[i]
				c.Violation("corrupt:bytes-delivered-after-the-error", "after Read reported the modified frame, a further Read on the same connection delivered plaintext: the rejected frame's bytes are lost in front of it", w)
			}
			// modelOK cannot be evaluated here (the writer may have been cut short); the per-frame model
			// was validated by the clean directions of this run (counter frame_model_mismatch).
			if frameModelBroken.Load() {
				c.Count("corrupt_boundary_unchecked", 1)
			} else if o.delivered > co.boundary {
				c.Violation("corrupt:bytes-of-modified-frame-delivered", "bytes carried by the modified frame (or later ones) reached the reader before the error", w)
			} else if o.delivered == co.boundary {
				c.Count("corrupt_prefix_complete", 1)
			} else {
				c.Count("corrupt_prefix_short", 1)
			}
		}
	}

	// nothing may follow the end of the stream: close the transport and read once more
	if !withCorruption && !outs[0].aborted && !outs[1].aborted && outs[0].err == nil && outs[1].err == nil {
		closeAll()
		for i := 0; i < 2; i++ {
			buf := make([]byte, 64)
			n, err := conns[1-i].Read(buf)
			switch {
			case n > 0:
				c.Violation("clean:more-bytes-than-sent", "after the whole stream was delivered and the transport closed, Read produced further bytes",
					map[string]interface{}{"dir": dirs[i].name, "n": n, "got": hexClip(buf[:n]), "err": fmt.Sprint(err)})
			case err == nil:
				c.Violation("Read:returns-n=0-nil-at-eof", "Read on a closed, drained transport returned (0, nil)", map[string]interface{}{"dir": dirs[i].name})
			default:
				c.Count("eof_reads", 1)
			}
		}
	} else {
		closeAll()
	}
	if c.WantSample() {
		s := map[string]interface{}{"kind": kind}
		for _, d := range dirs {
			sizes := []int{}
			for _, m := range d.msgs {
				sizes = append(sizes, len(m))
			}
			s[d.name] = map[string]interface{}{"message_sizes": sizes, "max_fragment": d.frag, "reader_buffers": bufRegimes[d.regime]}
		}
		if withCorruption {
			s["corruption"] = map[string]interface{}{"dir": dirs[co.dir].name, "frame": co.frame, "region": co.region, "mask": fmt.Sprintf("%02x", co.mask),
				"read_err": fmt.Sprint(outs[co.dir].err), "delivered": outs[co.dir].delivered, "boundary": co.boundary}
		}
		c.Sample(s)
	}
}

// transportSelfCheck pushes raw bytes through the duplex without any
// SecretConnection: if the harness transport itself loses or reorders bytes
// nothing below means anything.
func transportSelfCheck(c *ev.Case) {
	r := c.Rand
	p := newHalfPipe(r.Fork(), pickFrag(r), r.Range(1, 4000))
	data := r.Bytes(r.Range(1, 40000))
	wr := r.Fork()
	done := make(chan error, 1)
	go func() {
		for off := 0; off < len(data); {
			k := wr.Range(1, 3000)
			if off+k > len(data) {
				k = len(data) - off
			}
			if n, err := p.Write(data[off : off+k]); err != nil || n != k {
				done <- fmt.Errorf("write n=%d err=%v", n, err)
				return
			}
			off += k
		}
		p.close()
		done <- nil
	}()
	got, err := io.ReadAll(readerFunc(func(b []byte) (int, error) {
		k := r.Range(1, 2000)
		if k > len(b) {
			k = len(b)
		}
		return p.Read(b[:k])
	}))
	werr := <-done
	if err != nil || werr != nil || !bytes.Equal(got, data) {
		c.Inconclusive("harness transport self-check failed (case %d): err=%v werr=%v len %d/%d", c.Index, err, werr, len(got), len(data))
		return
	}
	c.Count("transport_selfcheck_ok", 1)
}

type readerFunc func([]byte) (int, error)

func (f readerFunc) Read(b []byte) (int, error) { return f(b) }

func TestC32(t *testing.T) {
	r := ev.Start(t, "C32")
	defer r.Finish()
	r.Rule("one case = one session of two real MakeSecretConnection ends over a seeded fragmenting duplex, both directions concurrently, 1-6 messages per direction " +
		"with sizes around the 1024-byte frame payload (0, 1, F-1, F, F+1, kF-1, kF, kF+1, 5000, random), reader buffers 1..2000 in six regimes, transport reads of 1..k bytes; " +
		"corrupt sessions flip one ciphertext byte (tag / length / data / padding region of a chosen frame) after the handshake; " +
		"trusting sessions read one direction through io.ReadFull or a bufio.Reader (consumers that trust n) behind a spy on the raw Read return values. " +
		"distinct = (message size class, ciphertext fragment class, reader buffer regime) per message, and (corrupted region, frame position, fragment class, buffer regime) per corruption, (consumer, message size class, fragment class, buffer class) per trusting message")
	r.Assume("the harness transport is a loss-free ordered byte stream (self-checked in group transport-selfcheck)")
	r.Assume("frame model used only to place the corruption and its plaintext boundary: Write seals <=1024-byte chunks in order into 1042-byte frames (validated against transport byte counts: counter frame_model_mismatch must stay 0)")
	r.Assume("io.Reader contract: Read on a non-empty buffer returns n > 0 or a non-nil error; bytes are delivered only through buf[:n]")

	r.Cases("transport-selfcheck", r.N(40, 400), transportSelfCheck)
	r.Cases("trusting", r.N(300, 6000), trustingSession)
	r.Cases("stream", r.N(1400, 80000), func(c *ev.Case) { session(c, false) })
	r.Cases("corrupt", r.N(600, 30000), func(c *ev.Case) { session(c, true) })
	framesGroup(r)

	r.Floor("transport_selfcheck_ok", 40)
	r.Floor("sessions_clean", 1200)
	r.Floor("sessions_corrupt", 500)
	r.Floor("trusting_sessions", 250)
	r.Floor("trusting_consumer_io.ReadFull", 80)
	r.Floor("trusting_consumer_bufio.Reader", 80)
	r.Floor("remote_pubkey_checked", 1000)
	r.Floor("directions_exact", 200)
	r.Floor("frames", 2000)
	r.Floor("bytes_delivered", 1000000)
	r.Floor("directions_buffer_smaller_than_frame", 200)
	r.Floor("directions_ciphertext_fragmented", 200)
	r.Floor("directions_ciphertext_coalesced", 100)
	r.Floor("messages_multi_frame", 500)
	r.Floor("messages_empty", 50)
	r.Floor("corruptions_detected", 500)
	r.Floor("reads_after_error", 500)
	for _, reg := range []string{"tag", "len", "data", "padding"} {
		r.Floor("corrupt_region_"+reg, 20)
	}
}
