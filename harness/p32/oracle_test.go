package p32

import (
	"bytes"
	"strings"
	"testing"

	"verif/internal/ev"
)

// Sensitivity of the stream oracle: deliberately broken readers must be
// caught, a correct one must pass.  (Plain `go test`; not part of ./check.)

type fakeRep struct{ keys []string }

func (f *fakeRep) Violation(key, what string, w interface{}) { f.keys = append(f.keys, key) }
func (f *fakeRep) Count(string, int64)                       {}

// frameReader serves data in "frames" of up to 1024 bytes with an internal
// buffer, like SecretConnection.Read, with a selectable defect.
type frameReader struct {
	data   []byte
	buf    []byte
	defect string
	calls  int
}

func (f *frameReader) Read(p []byte) (int, error) {
	f.calls++
	if len(f.buf) > 0 {
		n := copy(p, f.buf)
		f.buf = f.buf[n:]
		if f.defect == "n0" {
			return 0, nil
		}
		return n, nil
	}
	if len(f.data) == 0 {
		return 0, bytes.ErrTooLarge // any error
	}
	k := 1024
	if k > len(f.data) {
		k = len(f.data)
	}
	chunk := append([]byte(nil), f.data[:k]...)
	f.data = f.data[k:]
	switch {
	case f.defect == "flip" && f.calls > 1:
		chunk[len(chunk)/2] ^= 0x10
		f.defect = ""
	case f.defect == "drop" && f.calls > 1 && len(chunk) > 20:
		chunk = append(chunk[:10], chunk[11:]...)
		f.defect = ""
	case f.defect == "dup" && f.calls > 1 && len(chunk) > 40:
		chunk = append(chunk[:30:30], chunk[10:]...)
		f.defect = ""
	case f.defect == "replay-frame" && f.calls > 1:
		f.data = append(append([]byte(nil), chunk...), f.data...)
		f.defect = ""
	}
	n := copy(p, chunk)
	f.buf = chunk[n:]
	return n, nil
}

func TestOracleSensitivity(t *testing.T) {
	for _, tc := range []struct{ defect, wantKey string }{
		{"", ""},
		{"n0", "Read:returns-n=0-after-copying-from-buffer"},
		{"flip", "clean:wrong-byte"},
		{"drop", "clean:"},
		{"dup", "clean:"},
		{"replay-frame", "clean:"},
	} {
		for seed := int64(1); seed <= 20; seed++ {
			r := ev.NewRand(seed, "C32", "oracle", 0)
			want := r.Bytes(r.Range(3000, 9000))
			rep := &fakeRep{}
			out := readStream(rep, "clean", &frameReader{data: append([]byte(nil), want...), defect: tc.defect}, want, bufSizer(r.Fork(), int(seed)%len(bufRegimes)), nil)
			if tc.wantKey == "" {
				if len(rep.keys) != 0 || out.delivered != len(want) || out.err != nil {
					t.Fatalf("correct reader flagged: %v %+v", rep.keys, out)
				}
				continue
			}
			if tc.defect == "n0" && int(seed)%len(bufRegimes) >= 3 {
				continue // buffers >= frame (or only by chance smaller) need not hit the buffered path
			}
			found := false
			for _, k := range rep.keys {
				if strings.HasPrefix(k, tc.wantKey) {
					found = true
				}
			}
			if !found {
				t.Fatalf("defect %q seed %d not caught: keys=%v out=%+v", tc.defect, seed, rep.keys, out)
			}
		}
	}
}
