// Generator side of the C01 monitor: an abstract transaction description
// (txSpec), the builder that turns it into the node's types.TxData / bc.Tx,
// the generator of well-formed balanced controls and the single-field mutations.
package p01

import (
	"bytes"
	"encoding/binary"
	"fmt"
	"math"
	"sort"
	"strings"

	"github.com/bytom/bytom/consensus"
	"github.com/bytom/bytom/crypto/sha3pool"
	"github.com/bytom/bytom/protocol/bc"
	"github.com/bytom/bytom/protocol/bc/types"
	"github.com/bytom/bytom/protocol/vm"

	"verif/internal/ev"
)

const (
	kSpend = iota
	kIssue
	kVeto
	kCoinbase
)

const (
	oOrig = iota
	oVote
	oRetire
)

// Assets: 0 = BTM, 1..3 = issuable assets (issuance program OP_TRUE, asset
// definition {k}), 4 = an asset that can only be spent (no issuance program known).
const nAssetIdx = 5

var (
	progTrue   = []byte{byte(vm.OP_TRUE)}
	progRetire = []byte{byte(vm.OP_FAIL)}
	assetIDs   [nAssetIdx]bc.AssetID
	vote64     = bytes.Repeat([]byte{0xaf}, 64)
)

func init() {
	assetIDs[0] = *consensus.BTMAssetID
	for k := 1; k <= 3; k++ {
		var h [32]byte
		sha3pool.Sum256(h[:], []byte{byte(k)})
		dh := bc.NewHash(h)
		assetIDs[k] = bc.ComputeAssetID(progTrue, 1, &dh)
	}
	assetIDs[4] = bc.NewAssetID([32]byte{0xa4, 1, 2, 3})
}

type inSpec struct {
	Kind  int    `json:"kind"`
	Asset int    `json:"asset"`
	Amt   uint64 `json:"amount"`
	ID    uint32 `json:"id"` // source id (spend, veto), nonce (issuance), arbitrary (coinbase)
}

type outSpec struct {
	Kind  int    `json:"kind"`
	Asset int    `json:"asset"`
	Amt   uint64 `json:"amount"`
}

// blockMode: 0 = the block's first transaction is the candidate, 1 = block
// without transactions, 2 = block whose first transaction is another one.
type txSpec struct {
	Ins   []inSpec  `json:"inputs"`
	Outs  []outSpec `json:"outputs"`
	Block int       `json:"block_mode"`
}

func (s *txSpec) clone() *txSpec {
	return &txSpec{Ins: append([]inSpec(nil), s.Ins...), Outs: append([]outSpec(nil), s.Outs...), Block: s.Block}
}

func (s *txSpec) nextID() uint32 {
	m := uint32(0)
	for _, in := range s.Ins {
		if in.ID > m {
			m = in.ID
		}
	}
	return m + 1
}

func (s *txSpec) hasCoinbase() bool {
	for _, in := range s.Ins {
		if in.Kind == kCoinbase {
			return true
		}
	}
	return false
}

var inKindName = [...]string{"spend", "issue", "veto", "coinbase"}
var outKindName = [...]string{"orig", "vote", "retire"}
var assetName = [...]string{"BTM", "A1", "A2", "A3", "A4"}

func (s *txSpec) String() string {
	var b strings.Builder
	for i, in := range s.Ins {
		if i > 0 {
			b.WriteString(" ")
		}
		if in.Kind == kCoinbase {
			fmt.Fprintf(&b, "coinbase#%d", in.ID)
		} else {
			fmt.Fprintf(&b, "%s(%s,%d)#%d", inKindName[in.Kind], assetName[in.Asset], in.Amt, in.ID)
		}
	}
	b.WriteString(" ->")
	for _, o := range s.Outs {
		fmt.Fprintf(&b, " %s(%s,%d)", outKindName[o.Kind], assetName[o.Asset], o.Amt)
	}
	fmt.Fprintf(&b, " [block=%d]", s.Block)
	return b.String()
}

func idHash(id uint32) bc.Hash {
	var b [32]byte
	binary.BigEndian.PutUint32(b[0:4], id)
	b[31] = 0x5c
	return bc.NewHash(b)
}

func buildData(s *txSpec, clamp bool) *types.TxData {
	amt := func(a uint64) uint64 {
		if clamp && a > math.MaxInt64 {
			return math.MaxInt64
		}
		return a
	}
	d := &types.TxData{Version: 1}
	for _, in := range s.Ins {
		switch in.Kind {
		case kSpend:
			d.Inputs = append(d.Inputs, types.NewSpendInput(nil, idHash(in.ID), assetIDs[in.Asset], amt(in.Amt), uint64(in.ID&7), progTrue, nil))
		case kVeto:
			d.Inputs = append(d.Inputs, types.NewVetoInput(nil, idHash(in.ID), assetIDs[in.Asset], amt(in.Amt), uint64(in.ID&7), progTrue, vote64, nil))
		case kIssue:
			var nonce [8]byte
			binary.BigEndian.PutUint32(nonce[:4], in.ID)
			d.Inputs = append(d.Inputs, types.NewIssuanceInput(nonce[:], amt(in.Amt), progTrue, nil, []byte{byte(in.Asset)}))
		case kCoinbase:
			d.Inputs = append(d.Inputs, types.NewCoinbaseInput([]byte{byte(in.ID), byte(in.ID >> 8)}))
		}
	}
	for _, o := range s.Outs {
		switch o.Kind {
		case oOrig:
			d.Outputs = append(d.Outputs, types.NewOriginalTxOutput(assetIDs[o.Asset], amt(o.Amt), progTrue, nil))
		case oVote:
			d.Outputs = append(d.Outputs, types.NewVoteOutput(assetIDs[o.Asset], amt(o.Amt), progTrue, vote64, nil))
		case oRetire:
			d.Outputs = append(d.Outputs, types.NewOriginalTxOutput(assetIDs[o.Asset], amt(o.Amt), progRetire, nil))
		}
	}
	return d
}

type countWriter struct{ n int }

func (c *countWriter) Write(p []byte) (int, error) { c.n += len(p); return len(p), nil }

// build maps the description to the node's transaction.  SerializedSize is the
// length of the wire encoding, as the node's decoder sets it; amounts above
// 2^63-1 have no wire encoding (Varint63), for those the size of the same
// transaction with the amounts clamped is used.
func build(s *txSpec) (*types.Tx, error) {
	d := buildData(s, false)
	var cw countWriter
	if _, err := d.WriteTo(&cw); err != nil {
		cw.n = 0
		if _, err := buildData(s, true).WriteTo(&cw); err != nil {
			return nil, err
		}
	}
	d.SerializedSize = uint64(cw.n)
	return types.NewTx(*d), nil
}

func blockFor(s *txSpec, tx *types.Tx) *bc.Block {
	b := &bc.Block{BlockHeader: &bc.BlockHeader{Version: 1, Height: 666}}
	switch s.Block {
	case 0:
		if s.hasCoinbase() {
			b.Transactions = []*bc.Tx{tx.Tx}
		}
	case 2:
		other := types.MapTx(&types.TxData{Version: 1, SerializedSize: 1,
			Inputs:  []*types.TxInput{types.NewCoinbaseInput([]byte{0xee})},
			Outputs: []*types.TxOutput{types.NewOriginalTxOutput(*consensus.BTMAssetID, 0, progTrue, nil)}})
		b.Transactions = []*bc.Tx{other, tx.Tx}
	}
	return b
}

// ---------------------------------------------------------------------------
// amounts

const maxI64 = uint64(math.MaxInt64)

// feeFloor pays for the storage gas (1 gas per byte; the largest generated
// transaction is < 3000 bytes) and the OP_TRUE runs of up to 11 inputs at 200
// neu per gas: 1e6 neu = 5000 gas.
const feeFloor = uint64(1000000)

var totalPool = []uint64{0, 1, 2, 3, 1<<31 - 1, 1 << 31, 1<<31 + 1, 1<<32 - 1, 1 << 32, 1<<32 + 1,
	1<<62 - 1, 1 << 62, 1<<62 + 1, 1<<63 - 2, 1<<63 - 1}

func pickTotal(r *ev.Rand) uint64 {
	switch r.Intn(5) {
	case 0, 1:
		return totalPool[r.Intn(len(totalPool))]
	case 2:
		return maxI64 - uint64(r.Intn(4))
	case 3:
		return uint64(r.Intn(100000))
	default:
		return (r.Uint64() >> 1) >> uint(r.Intn(63))
	}
}

// split cuts total into n parts (order random) with boundary-biased cuts.
func split(r *ev.Rand, total uint64, n int) []uint64 {
	parts := make([]uint64, n)
	rest := total
	for i := 0; i < n-1; i++ {
		var p uint64
		switch r.Intn(10) {
		case 0:
			p = 0
		case 1:
			p = 1
		case 2, 3:
			p = rest / 2
		case 4:
			if rest > 0 {
				p = rest - 1
			}
		case 5:
			p = rest
		default:
			if rest > 0 {
				p = r.Uint64() % (rest + 1)
			}
		}
		if p > rest {
			p = rest
		}
		parts[i] = p
		rest -= p
	}
	parts[n-1] = rest
	r.Shuffle(n, func(i, j int) { parts[i], parts[j] = parts[j], parts[i] })
	return parts
}

// ---------------------------------------------------------------------------
// controls

// genControl returns a well-formed balanced transaction: every amount and every
// per-asset input total is <= 2^63-1, every non-BTM asset has in == out, BTM
// in - out >= feeFloor, vote outputs are BTM of at least MinVoteOutputAmount.
// Such a transaction must be accepted.
func genControl(r *ev.Rand) *txSpec {
	s := &txSpec{}
	// asset set: BTM + 0..3 others
	others := r.Perm(4)[:r.Pick([]int{2, 3, 3, 2})]
	nAssets := 1 + len(others)
	nIn := r.Range(nAssets, 8)
	nOut := r.Range(nAssets, 8)
	if r.Chance(1, 4) {
		nIn, nOut = 8, 8
	}
	assets := []int{0}
	for _, o := range others {
		assets = append(assets, o+1)
	}
	inCnt := make([]int, nAssets)
	outCnt := make([]int, nAssets)
	for i := range assets {
		inCnt[i], outCnt[i] = 1, 1
	}
	// pile the spare slots preferably on one asset: several inputs of the same asset
	fav := r.Intn(nAssets)
	for k := nAssets; k < nIn; k++ {
		if r.Chance(1, 2) {
			inCnt[fav]++
		} else {
			inCnt[r.Intn(nAssets)]++
		}
	}
	for k := nAssets; k < nOut; k++ {
		if r.Chance(1, 2) {
			outCnt[fav]++
		} else {
			outCnt[r.Intn(nAssets)]++
		}
	}
	id := uint32(1)
	for ai, a := range assets {
		if a == 0 {
			// BTM: total in, fee
			tin := pickTotal(r)
			if tin < feeFloor {
				tin = feeFloor + tin
			}
			var fee uint64
			switch r.Intn(6) {
			case 0:
				fee = feeFloor
			case 1:
				fee = feeFloor + uint64(r.Intn(1000))
			case 2:
				fee = tin
			case 3:
				if tin-feeFloor > 0 {
					fee = feeFloor + r.Uint64()%(tin-feeFloor+1)
				} else {
					fee = feeFloor
				}
			case 4:
				fee = tin - uint64(r.Intn(3))
				if fee < feeFloor {
					fee = tin
				}
			default:
				fee = feeFloor + uint64(r.Intn(400000000))
			}
			if fee > tin {
				fee = tin
			}
			for _, p := range split(r, tin, inCnt[ai]) {
				k := kSpend
				if r.Chance(1, 3) {
					k = kVeto
				}
				s.Ins = append(s.Ins, inSpec{Kind: k, Asset: 0, Amt: p, ID: id})
				id++
			}
			for _, p := range split(r, tin-fee, outCnt[ai]) {
				k := oOrig
				switch {
				case p >= consensus.MinVoteOutputAmount && r.Chance(1, 2):
					k = oVote
				case r.Chance(1, 5):
					k = oRetire
				}
				s.Outs = append(s.Outs, outSpec{Kind: k, Asset: 0, Amt: p})
			}
			continue
		}
		t := pickTotal(r)
		for _, p := range split(r, t, inCnt[ai]) {
			k := kSpend
			switch r.Intn(4) {
			case 0:
				k = kVeto
			case 1:
				if a <= 3 {
					k = kIssue
				}
			}
			s.Ins = append(s.Ins, inSpec{Kind: k, Asset: a, Amt: p, ID: id})
			id++
		}
		for _, p := range split(r, t, outCnt[ai]) {
			k := oOrig
			if r.Chance(1, 4) {
				k = oRetire
			}
			s.Outs = append(s.Outs, outSpec{Kind: k, Asset: a, Amt: p})
		}
	}
	r.Shuffle(len(s.Ins), func(i, j int) { s.Ins[i], s.Ins[j] = s.Ins[j], s.Ins[i] })
	r.Shuffle(len(s.Outs), func(i, j int) { s.Outs[i], s.Outs[j] = s.Outs[j], s.Outs[i] })
	return s
}

// genCoinbaseControl: a coinbase transaction as a block carries it: one
// coinbase input, 1..8 BTM outputs whose total is <= 2^63-1, first in its block.
func genCoinbaseControl(r *ev.Rand) *txSpec {
	s := &txSpec{Ins: []inSpec{{Kind: kCoinbase, ID: uint32(r.Intn(60000))}}}
	n := r.Range(1, 8)
	for _, p := range split(r, pickTotal(r), n) {
		s.Outs = append(s.Outs, outSpec{Kind: oOrig, Asset: 0, Amt: p})
	}
	return s
}

// ---------------------------------------------------------------------------
// mutations

type mutant struct {
	kind string // bounded class name of the mutation
	desc string
	s    *txSpec
}

var hugePool = []uint64{maxI64, maxI64 + 1, math.MaxUint64}

func removeIn(s *txSpec, i int)  { s.Ins = append(s.Ins[:i], s.Ins[i+1:]...) }
func removeOut(s *txSpec, j int) { s.Outs = append(s.Outs[:j], s.Outs[j+1:]...) }
func insertIn(s *txSpec, at int, in inSpec) {
	s.Ins = append(s.Ins, inSpec{})
	copy(s.Ins[at+1:], s.Ins[at:])
	s.Ins[at] = in
}

// three amounts <= 2^63-1 whose exact sum is 2^64
func threeTo2p64(r *ev.Rand) [3]uint64 {
	a := maxI64 - uint64(r.Intn(3))*uint64(r.Intn(1<<20))
	b := maxI64 - uint64(r.Intn(3))*uint64(r.Intn(1<<20))
	// a + b + c = 2^64  =>  c = 2^64 - a - b  (computed modulo 2^64; 2 <= c < 2^22)
	c := -(a + b)
	v := [3]uint64{a, b, c}
	r.Shuffle(3, func(i, j int) { v[i], v[j] = v[j], v[i] })
	return v
}

// mutations returns every single-field mutation of s, plus the modulo-2^64
// aliases (unbalanced by exactly 2^64 in one asset, which only wrapping
// arithmetic could take for balanced).
func mutations(r *ev.Rand, s *txSpec) []mutant {
	var ms []mutant
	add := func(kind, desc string, m *txSpec) { ms = append(ms, mutant{kind, desc, m}) }
	for i, in := range s.Ins {
		if in.Kind == kCoinbase {
			continue
		}
		tag := fmt.Sprintf("in%d", i)
		if in.Amt < math.MaxUint64 {
			m := s.clone()
			m.Ins[i].Amt++
			add("in.amount+1", tag, m)
		}
		if in.Amt > 0 {
			m := s.clone()
			m.Ins[i].Amt--
			add("in.amount-1", tag, m)
		}
		for _, h := range hugePool {
			if h != in.Amt {
				m := s.clone()
				m.Ins[i].Amt = h
				add("in.huge", tag, m)
			}
		}
		for a := 0; a < nAssetIdx; a++ {
			if a == in.Asset || (in.Kind == kIssue && (a == 0 || a == 4)) {
				continue
			}
			m := s.clone()
			m.Ins[i].Asset = a
			add("in.asset", tag, m)
		}
		{
			m := s.clone()
			removeIn(m, i)
			if len(m.Ins) > 0 {
				add("in.drop", tag, m)
			}
		}
		{
			m := s.clone()
			insertIn(m, r.Intn(len(m.Ins)+1), in)
			add("in.dup-exact", tag, m)
		}
		{
			m := s.clone()
			d := in
			d.ID = s.nextID()
			insertIn(m, r.Intn(len(m.Ins)+1), d)
			add("in.dup-fresh", tag, m)
		}
		{
			m := s.clone()
			switch in.Kind {
			case kSpend:
				m.Ins[i].Kind = kVeto
			case kVeto:
				m.Ins[i].Kind = kSpend
			case kIssue:
				m.Ins[i].Kind = kSpend
			}
			add("in.retype", tag, m)
		}
	}
	for j, o := range s.Outs {
		tag := fmt.Sprintf("out%d", j)
		if o.Amt < math.MaxUint64 {
			m := s.clone()
			m.Outs[j].Amt++
			add("out.amount+1", tag, m)
		}
		if o.Amt > 0 {
			m := s.clone()
			m.Outs[j].Amt--
			add("out.amount-1", tag, m)
		}
		for _, h := range hugePool {
			if h != o.Amt {
				m := s.clone()
				m.Outs[j].Amt = h
				add("out.huge", tag, m)
			}
		}
		for a := 0; a < nAssetIdx; a++ {
			if a == o.Asset {
				continue
			}
			m := s.clone()
			m.Outs[j].Asset = a
			add("out.asset", tag, m)
		}
		{
			m := s.clone()
			removeOut(m, j)
			add("out.drop", tag, m) // may leave no outputs: ErrEmptyResults
		}
		{
			m := s.clone()
			m.Outs = append(m.Outs, o)
			add("out.dup", tag, m)
		}
		for k := 0; k < 3; k++ {
			if k != o.Kind {
				m := s.clone()
				m.Outs[j].Kind = k
				add("out.retype", tag, m)
			}
		}
	}

	// coinbase position / block
	if s.hasCoinbase() {
		ci := 0
		for i, in := range s.Ins {
			if in.Kind == kCoinbase {
				ci = i
			}
		}
		for _, bm := range []int{1, 2} {
			m := s.clone()
			m.Block = bm
			add("coinbase.block", fmt.Sprint(bm), m)
		}
		// a payer in front of / behind the coinbase
		payer := inSpec{Kind: kSpend, Asset: 0, Amt: feeFloor + uint64(r.Intn(1000)), ID: s.nextID()}
		{
			m := s.clone()
			insertIn(m, ci, payer)
			add("coinbase.not-first", "payer before", m)
		}
		{
			m := s.clone()
			insertIn(m, ci+1, payer)
			add("coinbase.with-btm-input", "payer after", m)
		}
		{
			m := s.clone()
			insertIn(m, ci+1, s.Ins[ci])
			add("coinbase.dup-exact", "", m)
		}
		{
			m := s.clone()
			insertIn(m, ci+1, inSpec{Kind: kCoinbase, ID: s.Ins[ci].ID + 1})
			add("coinbase.second-distinct", "", m)
		}
	} else {
		cb := inSpec{Kind: kCoinbase, ID: s.nextID()}
		{
			m := s.clone()
			insertIn(m, 0, cb)
			add("coinbase.insert-first", "", m)
		}
		{
			m := s.clone()
			insertIn(m, 1+r.Intn(len(m.Ins)), cb)
			add("coinbase.insert-not-first", "", m)
		}
		{
			m := s.clone()
			insertIn(m, 0, cb)
			m.Block = 1 + r.Intn(2)
			add("coinbase.insert-wrong-block", "", m)
		}
	}

	// modulo-2^64 aliases, per asset present
	present := map[int]bool{}
	for _, in := range s.Ins {
		if in.Kind != kCoinbase {
			present[in.Asset] = true
		}
	}
	if s.hasCoinbase() {
		present[0] = true
	}
	var as []int
	for a := range present {
		as = append(as, a)
	}
	sort.Ints(as)
	for _, a := range as {
		kindFor := func() int {
			if a >= 1 && a <= 3 && r.Chance(1, 3) {
				return kIssue
			}
			if r.Chance(1, 3) {
				return kVeto
			}
			return kSpend
		}
		// (a) one input of 2^64-d, one output of that asset reduced by d
		var outsA, insA []int
		for j, o := range s.Outs {
			if o.Asset == a && o.Amt > 0 {
				outsA = append(outsA, j)
			}
		}
		for i, in := range s.Ins {
			if in.Kind != kCoinbase && in.Asset == a && in.Amt > 0 {
				insA = append(insA, i)
			}
		}
		if len(outsA) > 0 {
			j := outsA[r.Intn(len(outsA))]
			d := 1 + r.Uint64()%s.Outs[j].Amt
			if r.Chance(1, 2) {
				d = 1
			}
			m := s.clone()
			m.Outs[j].Amt -= d
			m.Ins = append(m.Ins, inSpec{Kind: kindFor(), Asset: a, Amt: -d, ID: s.nextID()})
			add("alias.in-2^64-d", assetName[a], m)
		}
		// (b) one output of 2^64-d, one input reduced by d
		if len(insA) > 0 {
			i := insA[r.Intn(len(insA))]
			d := 1 + r.Uint64()%s.Ins[i].Amt
			if r.Chance(1, 2) {
				d = 1
			}
			m := s.clone()
			m.Ins[i].Amt -= d
			m.Outs = append(m.Outs, outSpec{Kind: oOrig, Asset: a, Amt: -d})
			add("alias.out-2^64-d", assetName[a], m)
		}
		// (c) three more inputs that add exactly 2^64
		{
			m := s.clone()
			id := s.nextID()
			for _, v := range threeTo2p64(r) {
				insertIn(m, r.Intn(len(m.Ins)+1), inSpec{Kind: kindFor(), Asset: a, Amt: v, ID: id})
				id++
			}
			if m.hasCoinbase() && m.Ins[0].Kind != kCoinbase {
				// keep the coinbase first: the alias, not the position, is under test
				for i, in := range m.Ins {
					if in.Kind == kCoinbase {
						m.Ins[0], m.Ins[i] = m.Ins[i], m.Ins[0]
					}
				}
			}
			add("alias.in+2^64", assetName[a], m)
		}
		// (d) three more outputs that take exactly 2^64
		{
			m := s.clone()
			for _, v := range threeTo2p64(r) {
				m.Outs = append(m.Outs, outSpec{Kind: oOrig, Asset: a, Amt: v})
			}
			add("alias.out+2^64", assetName[a], m)
		}
	}
	return ms
}
