// Self-test of the C01 generator + oracle (not run by ./check, which selects
// ^TestC01$):  a re-implementation of the value checks of the validator and of
// TxData.Fee() with switchable one-line bugs.  With no bug the oracle must be
// silent on the quick-tier workload; with each bug it must raise a finding
// within the quick-tier workload.
//
//	go test -tags verif -vet=off -count=1 -run TestOracleSensitivity -v ./p01
package p01

import (
	"math"
	"testing"

	"github.com/bytom/bytom/consensus"

	"verif/internal/ev"
)

type bugSet map[string]bool

func wrapAdd(a, b int64) int64 { return int64(uint64(a) + uint64(b)) }
func wrapSub(a, b int64) int64 { return int64(uint64(a) - uint64(b)) }

func chkAdd(a, b int64) (int64, bool) {
	if (b > 0 && a > math.MaxInt64-b) || (b < 0 && a < math.MinInt64-b) {
		return 0, false
	}
	return a + b, true
}

func chkSub(a, b int64) (int64, bool) {
	if (b > 0 && a < math.MinInt64+b) || (b < 0 && a > math.MaxInt64+b) {
		return 0, false
	}
	return a - b, true
}

// modelValidate mirrors checkValid's mux case + setGas + the cheap structural
// rules, for transactions without a coinbase.
func modelValidate(s *txSpec, bug bugSet) observed {
	var o observed
	o.fee = modelFee(s, bug)
	if s.hasCoinbase() || len(s.Outs) == 0 {
		return o
	}
	seen := map[inSpec]bool{}
	for _, in := range s.Ins {
		if seen[in] { // same entry id twice: double spend
			return o
		}
		seen[in] = true
	}
	for _, out := range s.Outs {
		if out.Kind == oVote && (out.Asset != 0 || out.Amt < consensus.MinVoteOutputAmount) {
			return o
		}
	}
	parity := map[int]int64{}
	ins := s.Ins
	if bug["src-skip-first"] {
		ins = ins[1:]
	}
	for _, in := range ins {
		if !bug["no-src-maxint-check"] && in.Amt > math.MaxInt64 {
			return o
		}
		if bug["add-unchecked"] {
			parity[in.Asset] = wrapAdd(parity[in.Asset], int64(in.Amt))
			continue
		}
		sum, ok := chkAdd(parity[in.Asset], int64(in.Amt))
		if !ok {
			return o
		}
		parity[in.Asset] = sum
	}
	outs := s.Outs
	if bug["dest-skip-last"] {
		outs = outs[:len(outs)-1]
	}
	for _, out := range outs {
		sum, ok := parity[out.Asset]
		if !ok && !bug["no-source-check"] {
			return o
		}
		if !bug["no-dest-maxint-check"] && out.Amt > math.MaxInt64 {
			return o
		}
		if bug["sub-unchecked"] {
			parity[out.Asset] = wrapSub(sum, int64(out.Amt))
			continue
		}
		d, ok := chkSub(sum, int64(out.Amt))
		if !ok {
			return o
		}
		parity[out.Asset] = d
	}
	gas := int64(0)
	for a, amount := range parity {
		if a == 0 {
			if amount < 0 && !bug["setgas-no-negative-check"] {
				return o
			}
			o.btmValue = uint64(amount)
			if bug["btmvalue-rounded-to-gas"] {
				o.btmValue = uint64(amount / consensus.VMGasRate * consensus.VMGasRate)
			}
			if bug["btmvalue-capped"] && amount/consensus.VMGasRate > consensus.MaxGasAmount {
				o.btmValue = uint64(consensus.MaxGasAmount * consensus.VMGasRate)
			}
			gas = amount / consensus.VMGasRate
			if gas > consensus.MaxGasAmount {
				gas = consensus.MaxGasAmount
			}
			continue
		}
		switch {
		case bug["parity-skip-A3"] && a == 3:
		case bug["parity-only-positive"] && amount < 0:
		case bug["parity-only-negative"] && amount > 0:
		case amount != 0:
			return o
		}
	}
	// storage gas + OP_TRUE runs, roughly
	if gas < int64(150*len(s.Ins)+110*len(s.Outs)) {
		return o
	}
	o.accepted = true
	return o
}

func modelFee(s *txSpec, bug bugSet) uint64 {
	var in, out uint64
	for _, x := range s.Ins {
		if x.Kind == kCoinbase || x.Asset != 0 {
			continue
		}
		if bug["fee-ignores-veto-input"] && x.Kind == kVeto {
			continue
		}
		in += x.Amt
	}
	for _, x := range s.Outs {
		if x.Asset != 0 {
			continue
		}
		if bug["fee-ignores-vote-output"] && x.Kind == oVote {
			continue
		}
		if bug["fee-ignores-retirement"] && x.Kind == oRetire {
			continue
		}
		out += x.Amt
	}
	if in > out {
		return in - out
	}
	return 0
}

func TestOracleSensitivity(t *testing.T) {
	bugs := []string{"", "add-unchecked", "sub-unchecked", "no-src-maxint-check", "no-dest-maxint-check",
		"parity-skip-A3", "parity-only-positive", "parity-only-negative", "src-skip-first", "dest-skip-last",
		"btmvalue-rounded-to-gas", "btmvalue-capped", "fee-ignores-veto-input", "fee-ignores-vote-output", "fee-ignores-retirement"}
	const cases = 300 // the quick tier of group "tx"
	for _, b := range bugs {
		bug := bugSet{b: true}
		keys := map[string]int{}
		first := -1
		for i := 0; i < cases; i++ {
			r := ev.NewRand(1, "C01", "tx", i)
			ctl := genControl(r)
			o := modelValidate(ctl, bug)
			if !o.accepted {
				keys["control-rejected"]++
				if first < 0 {
					first = i
				}
			}
			all := append([]mutant{{"control", "", ctl}}, mutations(r, ctl)...)
			for _, m := range all {
				for _, f := range judge(m.s, modelValidate(m.s, bug)) {
					keys[f.key]++
					if first < 0 {
						first = i
					}
				}
			}
		}
		if b == "" {
			if len(keys) != 0 {
				t.Errorf("no bug injected but the oracle raised %v", keys)
			}
			t.Logf("bug=none: silent on %d control families", cases)
			continue
		}
		if len(keys) == 0 {
			t.Errorf("bug %q NOT detected in %d quick-tier cases", b, cases)
			continue
		}
		t.Logf("bug=%-26s first at case %3d, findings %v", b, first, keys)
	}
}
