// C01 — validated transactions conserve value and report the true fee.
//
// Drives validation.ValidateTx with well-formed balanced transactions (which
// must be accepted) and every single-field mutation of them, and judges each
// ACCEPTED transaction with exact big-integer accounting over the description
// it was built from (oracle_test.go).
package p01

import (
	"fmt"
	"runtime/debug"
	"strings"
	"testing"

	"github.com/bytom/bytom/errors"
	"github.com/bytom/bytom/protocol/bc"
	"github.com/bytom/bytom/protocol/bc/types"
	"github.com/bytom/bytom/protocol/validation"
	"github.com/bytom/bytom/protocol/vm"

	"verif/internal/ev"
)

var errNames = []struct {
	err  error
	name string
}{
	{validation.ErrOverflow, "overflow"},
	{validation.ErrUnbalanced, "unbalanced"},
	{validation.ErrNoSource, "no-source"},
	{validation.ErrGasCalculate, "gas-calculate"},
	{validation.ErrOverGasCredit, "over-gas-credit"},
	{validation.ErrInputDoubleSend, "double-spend"},
	{validation.ErrMismatchedValue, "mismatched-value"},
	{validation.ErrMismatchedReference, "mismatched-reference"},
	{validation.ErrMismatchedPosition, "mismatched-position"},
	{validation.ErrMismatchedAssetID, "mismatched-asset-id"},
	{validation.ErrWrongCoinbaseTransaction, "wrong-coinbase-tx"},
	{validation.ErrWrongCoinbaseAsset, "wrong-coinbase-asset"},
	{validation.ErrEmptyResults, "empty-results"},
	{validation.ErrVotePubKey, "vote-pubkey"},
	{validation.ErrVoteOutputAmount, "vote-amount"},
	{validation.ErrVoteOutputAseet, "vote-asset"},
	{validation.ErrMissingField, "missing-field"},
	{validation.ErrPosition, "position"},
	{validation.ErrTxVersion, "tx-version"},
	{validation.ErrWrongTransactionSize, "tx-size"},
	{validation.ErrBadTimeRange, "time-range"},
	{vm.ErrRunLimitExceeded, "vm-run-limit"},
	{vm.ErrFalseVMResult, "vm-false"},
	{vm.ErrReturn, "vm-return"},
}

func errClass(err error) string {
	if err == nil {
		return "accepted"
	}
	root := errors.Root(err)
	for _, e := range errNames {
		if root == e.err {
			return e.name
		}
	}
	return "other"
}

var nilConverter = func(prog []byte) ([]byte, error) { return nil, nil }

// validate builds the transaction and calls the code under test.  A panic inside
// ValidateTx / Fee() is reported with the panic site as key and the input as
// witness, and the remaining transactions of the case still run.
func validate(c *ev.Case, s *txSpec) (o observed, cls string, verr error, size uint64, gasUsed int64, ok bool) {
	tx, err := build(s)
	if err != nil {
		c.Count("harness.unbuildable", 1)
		return o, "", nil, 0, 0, false
	}
	defer func() {
		if p := recover(); p != nil {
			st := string(debug.Stack())
			c.Count("panics", 1)
			c.Violation("panic:"+ev.PanicSite(st), fmt.Sprintf("panic while validating: %v", p), witness(s, nil, observed{}))
			ok = false
		}
	}()
	var gs *validation.GasState
	gs, verr = validation.ValidateTx(tx.Tx, blockFor(s, tx), nilConverter)
	o.accepted = verr == nil
	o.fee = tx.TxData.Fee()
	if verr == nil {
		if gs == nil {
			o.gsNil = true
		} else {
			o.btmValue = gs.BTMValue
			gasUsed = gs.GasUsed
		}
	}
	if batchOn && s.Block == 0 && !s.hasCoinbase() {
		batch = append(batch, batchItem{s: s, tx: tx, cls: errClass(verr), o: o, gasUsed: gasUsed})
	}
	return o, errClass(verr), verr, tx.SerializedSize, gasUsed, true
}

// The block path: ValidateBlock and the proposer validate the transactions of a block through
// validation.ValidateTxs (a pool of worker goroutines).  Every control and mutant that does not
// need a special block context is collected and the whole family is validated once more as ONE
// batch: a family is a transaction and its single-field mutants, i.e. many siblings with the same
// inputs and different outputs (and the reverse), the hostile case for anything a worker keeps
// between transactions.  Each batch result must be the result the single call gave.
type batchItem struct {
	s       *txSpec
	tx      *types.Tx
	cls     string
	o       observed
	gasUsed int64
}

var (
	batch   []batchItem
	batchOn bool
)

func checkBatch(c *ev.Case) {
	items := batch
	batch = nil
	if len(items) < 2 {
		return
	}
	// siblings next to each other and far apart
	if c.Rand.Bool() {
		c.Rand.Shuffle(len(items), func(i, j int) { items[i], items[j] = items[j], items[i] })
	}
	txs := make([]*bc.Tx, len(items))
	for i, it := range items {
		txs[i] = it.tx.Tx
	}
	block := &bc.Block{BlockHeader: &bc.BlockHeader{Version: 1, Height: 666}}
	results := validation.ValidateTxs(txs, block, nilConverter)
	c.Count("batches", 1)
	c.Count("batch_transactions", int64(len(items)))
	c.Eval(int64(len(items)))
	for i, res := range results {
		it := items[i]
		cls := errClass(res.GetError())
		key, detail := "", ""
		switch {
		case (cls == "accepted") != (it.cls == "accepted"):
			key = "batch-differs-from-single:single=" + it.cls + ",batch=" + cls
			detail = fmt.Sprintf("ValidateTx: %s, ValidateTxs[%d of %d]: %s", it.cls, i, len(items), cls)
		case cls != it.cls:
			// a transaction that breaks two rules may be refused for either (the checks walk Go maps): both verdicts are "rejected"
			c.Count("batch_rejected_for_another_reason_than_single", 1)
		case res.GetError() == nil && res.GetGasState() == nil:
			key = "batch-differs-from-single:gas-state-nil"
		case res.GetError() == nil && (res.GetGasState().BTMValue != it.o.btmValue || res.GetGasState().GasUsed != it.gasUsed):
			key = "batch-differs-from-single:fee-or-gas"
			detail = fmt.Sprintf("ValidateTx: BTMValue %d gas %d, ValidateTxs: BTMValue %d gas %d", it.o.btmValue, it.gasUsed, res.GetGasState().BTMValue, res.GetGasState().GasUsed)
		}
		if key != "" {
			w := witness(it.s, res.GetError(), it.o)
			w["oracle"], w["batch_size"], w["index_in_batch"] = detail, len(items), i
			c.Violation(key, "a transaction validated as part of a batch (the block path) gets another verdict, fee or gas than when validated alone", w)
		} else if cls == "accepted" {
			c.Count("batch_accepted_same_as_single", 1)
		} else {
			c.Count("batch_rejected_same_as_single", 1)
		}
	}
}

func witness(s *txSpec, verr error, o observed) map[string]interface{} {
	w := map[string]interface{}{"tx": s.String(), "spec": s, "accepted": o.accepted, "BTMValue": o.btmValue, "Fee()": o.fee}
	if verr != nil {
		w["error"] = verr.Error()
	}
	if d := buildData(s, false); d != nil {
		if b, err := d.MarshalText(); err == nil {
			w["tx_hex"] = string(b)
		} else {
			w["tx_hex"] = "not serializable (an amount exceeds 2^63-1); rebuild from spec"
		}
	}
	return w
}

// check validates one transaction, judges it, and records the evidence.
// role is "control", "control-coinbase" or the mutation kind.
func check(c *ev.Case, s *txSpec, role, desc string) (observed, string, error) {
	o, cls, verr, size, gasUsed, ok := validate(c, s)
	if !ok {
		return o, "", nil
	}
	a := account(s)
	c.Distinct("%s max=%s %s", shape(s), amountClass(a.maxAmt), cls)
	c.Max("serialized_size_max", int64(size))
	c.Max("gas_used_max", gasUsed)
	if o.accepted {
		c.Count("accepted", 1)
		if a.cb == 0 {
			c.Count("accepted.fee-checked-exactly", 1)
			if a.maxAmt >= 1<<62 {
				c.Count("accepted.amount>=2^62", 1)
			}
			multi, nAssets := false, 0
			var perAsset [nAssetIdx]int
			for _, in := range s.Ins {
				perAsset[in.Asset]++
			}
			for k, n := range perAsset {
				if n > 0 {
					nAssets++
				}
				if n >= 2 && a.in[k].BitLen() >= 62 {
					multi = true
				}
			}
			if multi {
				c.Count("accepted.same-asset-several-inputs-sum>=2^61", 1)
			}
			if nAssets >= 3 {
				c.Count("accepted.3+assets", 1)
			}
		} else {
			c.Count("accepted.coinbase-bearing", 1)
		}
	} else {
		c.Count("rejected", 1)
		c.Count("rejected."+cls, 1)
	}
	for _, f := range judge(s, o) {
		w := witness(s, nil, o)
		w["role"], w["mutation"], w["oracle"] = role, desc, f.detail
		c.Violation(f.key, f.what, w)
	}
	return o, cls, verr
}

func runFamily(c *ev.Case, ctl *txSpec, role string) {
	batch, batchOn = nil, true
	defer func() {
		batchOn = false
		checkBatch(c)
	}()
	o, cls, verr := check(c, ctl, role, "")
	c.Count(role, 1)
	if cls == "" {
		return
	}
	if o.accepted {
		c.Count(role+".accepted", 1)
	} else {
		// positive control: a well-formed balanced transaction was refused
		c.Violation(role+"-rejected:"+cls, "a well-formed balanced transaction (all amounts and per-asset totals <= 2^63-1, fee >= 1e6 neu) was rejected", witness(ctl, verr, o))
	}
	if c.WantSample() {
		c.Sample(map[string]interface{}{"role": role, "tx": ctl.String(), "result": cls, "BTMValue": o.btmValue, "Fee()": o.fee})
	}
	ms := mutations(c.Rand, ctl)
	c.Eval(int64(len(ms)))
	for _, m := range ms {
		mo, mcls, _ := check(c, m.s, m.kind, m.desc)
		if mcls == "" {
			continue
		}
		c.Count("mutants", 1)
		fam := m.kind
		if i := strings.IndexByte(fam, '.'); i > 0 && strings.HasPrefix(fam, "alias") {
			fam = "alias"
		}
		if mo.accepted {
			c.Count("mutants.accepted", 1)
			c.Count("mut."+m.kind+".accepted", 1)
			if !m.s.hasCoinbase() && mo.btmValue != o.btmValue {
				c.Count("mutants.accepted.fee-changed", 1)
			}
		} else {
			c.Count("mutants.rejected", 1)
			c.Count("mut."+m.kind+".rejected", 1)
			if fam == "alias" {
				c.Count("mutants.alias.rejected", 1)
			}
		}
	}
}

func TestC01(t *testing.T) {
	r := ev.Start(t, "C01")
	defer r.Finish()
	r.Rule("controls: well-formed balanced TxData, 1-8 inputs (spend/issuance/veto) and 1-8 outputs (original/vote/retirement), BTM + 0-3 other assets, per-asset totals from a boundary pool up to 2^63-1 split with boundary-biased cuts (several inputs of one asset whose sum only just fits), fee from {floor, floor+k, all of BTM in, random, in-k}; coinbase controls: one coinbase input, 1-8 BTM outputs, first in its block. " +
		"Each control is followed by EVERY single-field mutation: per input amount+1/-1, amount:=2^63-1/2^63/2^64-1, asset:=each other asset, drop, exact duplicate, duplicate with a fresh source, type change; per output amount+1/-1, huge, asset swap, drop, duplicate, type change; coinbase inserted first / not first / wrong block / payer before or after a coinbase; and per asset four modulo-2^64 aliases (an input or output of 2^64-d compensated by d, three inputs / three outputs adding exactly 2^64). " +
		"distinct = (input-type multiset with counts saturating at 3, number of assets, magnitude class of the largest amount, accepted or rejection error class)")
	r.Assume("math/big over the generated description is the exact accounting; OP_TRUE control and issuance programs make the VM irrelevant; a fee of 1e6 neu (5000 gas) always covers storage gas (< 3000 bytes) plus the OP_TRUE runs, so balanced controls must be accepted")
	r.Assume("coinbase-bearing transactions: only 'non-BTM in == out' and 'BTMValue == Fee()' are demanded, because 'BTM in >= out' has no implementation-independent reading for a transaction that mints")

	r.Cases("tx", r.N(300, 20000), func(c *ev.Case) {
		runFamily(c, genControl(c.Rand), "control")
	})
	r.Cases("coinbase", r.N(100, 6000), func(c *ev.Case) {
		runFamily(c, genCoinbaseControl(c.Rand), "control-coinbase")
	})

	scale := int64(1)
	if r.Thorough() {
		scale = 40
	}
	r.Floor("batches", 300*scale)
	r.Floor("batch_accepted_same_as_single", 5000*scale)
	r.Floor("batch_rejected_same_as_single", 10000*scale)
	r.Floor("control.accepted", 250*scale)
	r.Floor("control-coinbase.accepted", 80*scale)
	r.Floor("mutants.accepted", 6000*scale)
	r.Floor("mutants.accepted.fee-changed", 1500*scale)
	r.Floor("mutants.rejected", 18000*scale)
	r.Floor("mutants.alias.rejected", 2000*scale)
	r.Floor("accepted.amount>=2^62", 2500*scale)
	r.Floor("accepted.same-asset-several-inputs-sum>=2^61", 2000*scale)
	r.Floor("accepted.3+assets", 2000*scale)
	for _, cls := range []string{"overflow", "unbalanced", "no-source", "gas-calculate", "double-spend", "mismatched-reference", "wrong-coinbase-tx", "vote-amount", "vote-asset"} {
		r.Floor("rejected."+cls, 50*scale)
	}
}
