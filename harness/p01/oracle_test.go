// Oracle of the C01 monitor: exact big-integer accounting over the transaction
// description, compared with what validation reported.
package p01

import (
	"fmt"
	"math/big"
)

// observed is what the code under test said about one transaction.
type observed struct {
	accepted bool
	gsNil    bool   // accepted with a nil *GasState
	btmValue uint64 // GasState.BTMValue
	fee      uint64 // TxData.Fee()
}

type finding struct {
	key, what string
	detail    map[string]interface{}
}

var two64 = new(big.Int).Lsh(big.NewInt(1), 64)

type sums struct {
	in, out  [nAssetIdx]*big.Int
	cb       int  // number of coinbase inputs
	nonBTMOu bool // some non-BTM output with amount > 0
	maxAmt   uint64
}

func account(s *txSpec) *sums {
	a := &sums{}
	for i := range a.in {
		a.in[i], a.out[i] = new(big.Int), new(big.Int)
	}
	for _, in := range s.Ins {
		if in.Kind == kCoinbase {
			a.cb++
			continue
		}
		a.in[in.Asset].Add(a.in[in.Asset], new(big.Int).SetUint64(in.Amt))
		if in.Amt > a.maxAmt {
			a.maxAmt = in.Amt
		}
	}
	for _, o := range s.Outs {
		a.out[o.Asset].Add(a.out[o.Asset], new(big.Int).SetUint64(o.Amt))
		if o.Amt > a.maxAmt {
			a.maxAmt = o.Amt
		}
		if o.Asset != 0 && o.Amt > 0 {
			a.nonBTMOu = true
		}
	}
	return a
}

// aliasTag says whether a non-zero difference is a multiple of 2^64, i.e. would
// vanish in wrapping 64-bit arithmetic (different defect class than a plain
// missing comparison).
func aliasTag(diff *big.Int) string {
	if new(big.Int).Mod(diff, two64).Sign() == 0 {
		return "mod2^64"
	}
	return "plain"
}

// judge applies the property to one accepted transaction.  Rejected
// transactions are not judged here (the control check is separate).
//
// Without a coinbase input:  every non-BTM asset in == out;  BTM in >= out;
// BTMValue == in - out;  Fee() == in - out.
//
// With a coinbase input the transaction mints BTM, so "BTM in >= out" has no
// reading that does not come from the implementation.  What the property still
// says without interpretation: non-BTM assets are neither minted nor burned
// (in == out over spends/issuances/vetoes), and the fee validation reports
// equals the transaction's own fee computation.
func judge(s *txSpec, o observed) []finding {
	if !o.accepted {
		return nil
	}
	var fs []finding
	if o.gsNil {
		return []finding{{"accepted:nil-gas-state", "ValidateTx returned no error and a nil *GasState", nil}}
	}
	a := account(s)
	for k := 1; k < nAssetIdx; k++ {
		if c := a.in[k].Cmp(a.out[k]); c != 0 {
			diff := new(big.Int).Sub(a.in[k], a.out[k])
			dir := "in>out"
			if c < 0 {
				dir = "in<out"
			}
			fs = append(fs, finding{fmt.Sprintf("accepted:non-btm-unbalanced:%s:%s", dir, aliasTag(diff)),
				"accepted transaction does not conserve a non-BTM asset",
				map[string]interface{}{"asset": assetName[k], "in": a.in[k].String(), "out": a.out[k].String()}})
		}
	}
	if a.cb > 0 {
		if o.btmValue != o.fee {
			cls := "coinbase-other"
			switch {
			case a.nonBTMOu:
				cls = "coinbase+non-btm-output"
			case a.in[0].Sign() > 0:
				cls = "coinbase+btm-input"
			}
			fs = append(fs, finding{"fee-disagree:" + cls,
				"accepted coinbase-bearing transaction: fee reported by validation differs from TxData.Fee()",
				map[string]interface{}{"BTMValue": o.btmValue, "Fee()": o.fee, "btm_in_without_coinbase": a.in[0].String(), "btm_out": a.out[0].String()}})
		}
		return fs
	}
	diff := new(big.Int).Sub(a.in[0], a.out[0])
	if diff.Sign() < 0 {
		fs = append(fs, finding{"accepted:btm-in<out:" + aliasTag(diff), "accepted transaction pays out more BTM than it takes in",
			map[string]interface{}{"in": a.in[0].String(), "out": a.out[0].String()}})
		return fs
	}
	if new(big.Int).SetUint64(o.btmValue).Cmp(diff) != 0 {
		fs = append(fs, finding{"btmvalue!=in-out:" + aliasTag(new(big.Int).Sub(diff, new(big.Int).SetUint64(o.btmValue))),
			"GasState.BTMValue differs from the exact BTM in - out",
			map[string]interface{}{"BTMValue": o.btmValue, "in": a.in[0].String(), "out": a.out[0].String(), "in-out": diff.String()}})
	}
	if new(big.Int).SetUint64(o.fee).Cmp(diff) != 0 {
		fs = append(fs, finding{"fee()!=in-out:" + feeClass(s, o.fee),
			"TxData.Fee() differs from the exact BTM in - out of an accepted transaction",
			map[string]interface{}{"Fee()": o.fee, "in": a.in[0].String(), "out": a.out[0].String(), "in-out": diff.String()}})
	}
	return fs
}

// feeClass diagnoses a wrong Fee(): if leaving out the BTM of exactly one kind
// of input or output explains the value, that kind names the key ("Fee()
// ignores veto inputs" and "Fee() ignores vote outputs" are different defects);
// otherwise "other".
func feeClass(s *txSpec, got uint64) string {
	type sel struct {
		name string
		in   bool
		kind int
	}
	for _, c := range []sel{{"in.spend", true, kSpend}, {"in.veto", true, kVeto}, {"out.orig", false, oOrig}, {"out.vote", false, oVote}, {"out.retire", false, oRetire}} {
		in, out := new(big.Int), new(big.Int)
		for _, x := range s.Ins {
			if x.Kind != kCoinbase && x.Asset == 0 && !(c.in && x.Kind == c.kind) {
				in.Add(in, new(big.Int).SetUint64(x.Amt))
			}
		}
		for _, x := range s.Outs {
			if x.Asset == 0 && !(!c.in && x.Kind == c.kind) {
				out.Add(out, new(big.Int).SetUint64(x.Amt))
			}
		}
		d := in.Sub(in, out)
		if d.Sign() < 0 {
			d.SetInt64(0)
		}
		if d.IsUint64() && d.Uint64() == got {
			return "ignores-" + c.name
		}
	}
	return "other"
}

func amountClass(v uint64) string {
	switch {
	case v == 0:
		return "0"
	case v < 1<<31:
		return "<2^31"
	case v < 1<<62:
		return "<2^62"
	case v < maxI64:
		return "<2^63-1"
	case v == maxI64:
		return "=2^63-1"
	case v == 1<<63:
		return "=2^63"
	case v == 1<<64-1:
		return "=2^64-1"
	default:
		return ">2^63"
	}
}

// shape: input-type multiset (counts saturate at 3) and number of assets.
func shape(s *txSpec) string {
	var n [4]int
	as := map[int]bool{}
	for _, in := range s.Ins {
		n[in.Kind]++
		if in.Kind == kCoinbase {
			as[0] = true
		} else {
			as[in.Asset] = true
		}
	}
	for _, o := range s.Outs {
		as[o.Asset] = true
	}
	sat := func(x int) string {
		if x >= 3 {
			return "3+"
		}
		return fmt.Sprint(x)
	}
	return fmt.Sprintf("s%s.i%s.v%s.c%s assets=%d", sat(n[kSpend]), sat(n[kIssue]), sat(n[kVeto]), sat(n[kCoinbase]), len(as))
}
