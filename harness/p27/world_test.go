package p27

import (
	"encoding/json"
	"fmt"
	"os"
	"path/filepath"
	"sync"
	"testing"

	"github.com/bytom/bytom/account"
	"github.com/bytom/bytom/blockchain/signers"
	"github.com/bytom/bytom/common"
	"github.com/bytom/bytom/consensus"
	"github.com/bytom/bytom/consensus/segwit"
	"github.com/bytom/bytom/crypto/ed25519/chainkd"
	"github.com/bytom/bytom/crypto/sha3pool"
	"github.com/bytom/bytom/database"
	dbm "github.com/bytom/bytom/database/leveldb"
	"github.com/bytom/bytom/event"
	"github.com/bytom/bytom/protocol"
	"github.com/bytom/bytom/protocol/bc"
	"github.com/bytom/bytom/protocol/bc/types"
	"github.com/bytom/bytom/protocol/vm/vmutil"

	"verif/internal/ev"
)

var btm = *consensus.BTMAssetID

// One real chain per process (fresh GoLevelDB store, repository genesis, height 0).  The account
// manager only asks it for BestBlockHeight (maturity); validation uses its best header and its
// program converter, exactly as Chain.ValidateTx does.
var (
	chainOnce sync.Once
	theChain  *protocol.Chain
	chainErr  error
)

func sharedChain(t *testing.T) (*protocol.Chain, error) {
	chainOnce.Do(func() {
		dir := filepath.Join(t.TempDir(), "chain")
		db := dbm.NewDB("chain", "leveldb", dir)
		store := database.NewStore(db)
		disp := event.NewDispatcher()
		pool := protocol.NewTxPool(store, disp)
		theChain, chainErr = protocol.NewChain(store, pool, disp)
	})
	return theChain, chainErr
}

type acct struct {
	idx   int
	kind  string // 1of1, 2of3, 1of2, 3of3
	nkeys int
	quo   int
	rule  uint8
	acc   *account.Account
	xpubs []chainkd.XPub
	progs []*account.CtrlProgram
	votes [][]byte // vote keys this account holds vote utxos for
}

func (a *acct) bip32() bool { return a.rule == signers.BIP0032 }

func (a *acct) class() string {
	if a.nkeys == 1 {
		return "single"
	}
	return "multi"
}

type utxoRec struct {
	u        *account.UTXO
	acct     int
	unconf   bool
	reserved bool // spent by an earlier successful build of this case (model of the wallet's reservation)
}

type world struct {
	db     dbm.DB
	mgr    *account.Manager
	prv    map[chainkd.XPub]chainkd.XPrv
	accts  []*acct
	byID   map[string]int
	assets []bc.AssetID // [0] = BTM
	utxos  map[bc.Hash]*utxoRec
	order  []bc.Hash
	shapes []string
	unconf bool // the wallet has unconfirmed outputs
}

// The wallet store is a GoLevelDB that is emptied at the start of every case and replaced by a fresh one
// every 16 cases: opening a GoLevelDB allocates and clears its write buffer (which would dominate the cost
// of a case), while deleting leaves tombstones that every later prefix scan of the keeper has to skip.
var (
	walletDB   dbm.DB
	walletDir  string
	walletUses int
)

// wrapWalletDB (optional) wraps the wallet store handed to the account manager (the concurrent run adds scheduling points).
var wrapWalletDB func(dbm.DB) dbm.DB

func freshWalletDB(base string) dbm.DB {
	if walletDB != nil && walletUses%16 == 0 {
		walletDB.Close()
		os.RemoveAll(walletDir)
		walletDB = nil
	}
	if walletDB == nil {
		walletDir = filepath.Join(base, fmt.Sprintf("wallet%d", walletUses))
		walletDB = dbm.NewDB("wallet", "leveldb", walletDir)
	}
	walletUses++
	var keys [][]byte
	it := walletDB.Iterator()
	for it.Next() {
		keys = append(keys, append([]byte(nil), it.Key()...))
	}
	it.Release()
	if len(keys) > 0 {
		b := walletDB.NewBatch()
		for _, k := range keys {
			b.Delete(k)
		}
		b.Write()
	}
	return walletDB
}

func (w *world) close() {}

// owner looks a control program up the way the wallet recognises its own outputs
// (wallet.filterAccountUtxo): the CtrlProgram record under ContractKey(sha3(program)).
func (w *world) owner(prog []byte) (int, bool) {
	if !segwit.IsP2WScript(prog) {
		return -1, false
	}
	var h common.Hash
	sha3pool.Sum256(h[:], prog)
	raw := w.db.Get(account.ContractKey(h))
	if raw == nil {
		return -1, false
	}
	cp := &account.CtrlProgram{}
	if json.Unmarshal(raw, cp) != nil {
		return -1, false
	}
	i, ok := w.byID[cp.AccountID]
	if !ok {
		return -1, false
	}
	// cross-check with the manager's own address lookup
	if cp2, err := w.mgr.GetLocalCtrlProgramByAddress(cp.Address); err != nil || cp2.AccountID != cp.AccountID {
		return -1, false
	}
	return i, true
}

func voteKey(v []byte) string { return string(v) }

// recs returns the unreserved (or all) records of a funding class.
func (w *world) recs(a int, asset bc.AssetID, vote []byte, unconf, inclReserved bool) []*utxoRec {
	var out []*utxoRec
	for _, id := range w.order {
		r := w.utxos[id]
		if r.acct != a || r.u.AssetID != asset || voteKey(r.u.Vote) != voteKey(vote) {
			continue
		}
		if r.unconf && !unconf {
			continue
		}
		if r.reserved && !inclReserved {
			continue
		}
		out = append(out, r)
	}
	return out
}

func sum(rs []*utxoRec) uint64 {
	var s uint64
	for _, r := range rs {
		s += r.u.Amount
	}
	return s
}

var kinds = []struct {
	name    string
	n, q, w int
}{{"1of1", 1, 1, 4}, {"2of3", 3, 2, 4}, {"1of2", 2, 1, 1}, {"3of3", 3, 3, 1}}

func newWorld(base string, chain *protocol.Chain, rng *ev.Rand) (*world, error) {
	w := &world{prv: map[chainkd.XPub]chainkd.XPrv{}, byID: map[string]int{}, utxos: map[bc.Hash]*utxoRec{}}
	w.db = freshWalletDB(base)
	if wrapWalletDB != nil {
		w.db = wrapWalletDB(w.db)
	}
	w.mgr = account.NewManager(w.db, chain)

	nacc := rng.Pick([]int{3, 4, 3}) + 1
	weights := make([]int, len(kinds))
	for i, k := range kinds {
		weights[i] = k.w
	}
	for i := 0; i < nacc; i++ {
		k := kinds[rng.Pick(weights)]
		a := &acct{idx: i, kind: k.name, nkeys: k.n, quo: k.q, rule: signers.BIP0044}
		if rng.Chance(1, 5) {
			a.rule = signers.BIP0032
		}
		for j := 0; j < k.n; j++ {
			xprv, xpub, err := chainkd.NewXKeys(rng)
			if err != nil {
				return w, err
			}
			w.prv[xpub] = xprv
			a.xpubs = append(a.xpubs, xpub)
		}
		acc, err := w.mgr.Create(a.xpubs, k.q, fmt.Sprintf("acct%d", i), a.rule)
		if err != nil {
			return w, fmt.Errorf("create account: %v", err)
		}
		a.acc = acc
		w.byID[acc.ID] = i
		for n := rng.Range(1, 4); n > 0; n-- {
			cp, err := w.mgr.CreateAddress(acc.ID, rng.Chance(1, 3))
			if err != nil {
				return w, fmt.Errorf("create address: %v", err)
			}
			a.progs = append(a.progs, cp)
		}
		w.accts = append(w.accts, a)
	}

	w.assets = []bc.AssetID{btm}
	for n := rng.Range(1, 3); n > 0; n-- {
		var b [32]byte
		copy(b[:], rng.Bytes(32))
		w.assets = append(w.assets, bc.NewAssetID(b))
	}

	// Funding: the account UTXO records are derived from the outputs of funding transactions the way
	// wallet.txOutToUtxos + filterAccountUtxo do it, so OutputID/SourceID/SourcePos are consistent.
	type plan struct {
		a      int
		cp     *account.CtrlProgram
		asset  bc.AssetID
		amount uint64
		vote   []byte
		unconf bool
	}
	var plans []plan
	// The keeper iterates its unconfirmed outputs in map order and sorts by amount only: amounts of a class
	// that has unconfirmed outputs are kept distinct, so that the selection (and this run) is deterministic.
	type ck struct {
		a     int
		asset bc.AssetID
	}
	amounts := map[ck]map[uint64]bool{}
	add := func(a *acct, asset bc.AssetID, amount uint64, vote []byte, unconf bool) {
		k := ck{a.idx, asset}
		if vote == nil {
			if amounts[k] == nil {
				amounts[k] = map[uint64]bool{}
			}
			for unconf && amounts[k][amount] {
				amount++
			}
			amounts[k][amount] = true
		}
		plans = append(plans, plan{a.idx, a.progs[rng.Intn(len(a.progs))], asset, amount, vote, unconf})
	}
	withUnconf := rng.Chance(1, 2)
	w.unconf = withUnconf
	for _, a := range w.accts {
		for ai, asset := range w.assets {
			isBTM := ai == 0
			small := func() uint64 {
				if isBTM {
					return uint64(rng.Range(2000000, 30000000))
				}
				return uint64(rng.Range(1, 1000))
			}
			big := func() uint64 {
				if isBTM {
					return uint64(rng.Range(300000000, 2000000000)) * uint64(rng.Range(1, 50))
				}
				return uint64(rng.Range(1000, 1000000000)) * uint64(rng.Range(1, 1000))
			}
			shape := []string{"big", "small", "mixed", "equal", "none"}[rng.Pick([]int{3, 3, 3, 2, 1})]
			if isBTM && shape == "none" {
				shape = "mixed"
			}
			w.shapes = append(w.shapes, fmt.Sprintf("%d/%d:%s", a.idx, ai, shape))
			switch shape {
			case "big":
				add(a, asset, big(), nil, false)
			case "small":
				for n := rng.Range(4, 30); n > 0; n-- {
					add(a, asset, small(), nil, false)
				}
			case "mixed":
				for n := rng.Range(1, 3); n > 0; n-- {
					add(a, asset, big(), nil, false)
				}
				for n := rng.Range(2, 12); n > 0; n-- {
					add(a, asset, small(), nil, false)
				}
			case "equal":
				v := small()
				if rng.Bool() {
					v = big()
				}
				for n := rng.Range(2, 10); n > 0; n-- {
					add(a, asset, v, nil, false)
				}
			}
			if isBTM { // a few medium outputs so that several consecutive builds can pay their fee
				for n := rng.Range(2, 6); n > 0; n-- {
					add(a, asset, uint64(rng.Range(100000000, 400000000)), nil, false)
				}
			}
			if withUnconf && shape != "none" && shape != "equal" && rng.Chance(1, 2) {
				for n := rng.Range(1, 3); n > 0; n-- {
					if rng.Bool() {
						add(a, asset, big(), nil, true)
					} else {
						add(a, asset, small(), nil, true)
					}
				}
			}
		}
		// vote outputs (BTM locked for a validator key), mature
		for n := rng.Pick([]int{2, 2, 1}); n > 0; n-- {
			vote := rng.Bytes(64)
			a.votes = append(a.votes, vote)
			for k := rng.Range(1, 3); k > 0; k-- {
				add(a, btm, consensus.MinVoteOutputAmount*uint64(rng.Range(1, 40))+uint64(rng.Intn(1000)), vote, false)
			}
		}
	}
	rng.Shuffle(len(plans), func(i, j int) { plans[i], plans[j] = plans[j], plans[i] })

	for start := 0; start < len(plans); {
		end := start + rng.Range(1, 40)
		if end > len(plans) {
			end = len(plans)
		}
		var src [32]byte
		copy(src[:], rng.Bytes(32))
		data := types.TxData{Version: 1, Inputs: []*types.TxInput{
			types.NewSpendInput(nil, bc.NewHash(src), btm, 1<<62, uint64(rng.Intn(5)), []byte{0x51}, nil)}}
		for _, p := range plans[start:end] {
			if p.vote != nil {
				data.Outputs = append(data.Outputs, types.NewVoteOutput(p.asset, p.amount, p.cp.ControlProgram, p.vote, nil))
			} else {
				data.Outputs = append(data.Outputs, types.NewOriginalTxOutput(p.asset, p.amount, p.cp.ControlProgram, nil))
			}
		}
		tx := types.NewTx(data)
		var unconfirmed []*account.UTXO
		for i, p := range plans[start:end] {
			u := &account.UTXO{OutputID: *tx.OutputID(i), AssetID: p.asset, Amount: p.amount, ControlProgram: p.cp.ControlProgram,
				AccountID: p.cp.AccountID, Address: p.cp.Address, ControlProgramIndex: p.cp.KeyIndex, Change: p.cp.Change, ValidHeight: 0}
			switch e := tx.Entries[*tx.ResultIds[i]].(type) {
			case *bc.OriginalOutput:
				u.SourceID, u.SourcePos = *e.Source.Ref, e.Source.Position
			case *bc.VoteOutput:
				u.SourceID, u.SourcePos, u.Vote = *e.Source.Ref, e.Source.Position, e.Vote
			default:
				return w, fmt.Errorf("funding output mapped to %T", e)
			}
			w.utxos[u.OutputID] = &utxoRec{u: u, acct: p.a, unconf: p.unconf}
			w.order = append(w.order, u.OutputID)
			if p.unconf {
				unconfirmed = append(unconfirmed, u)
				continue
			}
			raw, err := json.Marshal(u)
			if err != nil {
				return w, err
			}
			w.db.Set(account.StandardUTXOKey(u.OutputID), raw)
		}
		if len(unconfirmed) > 0 {
			w.mgr.AddUnconfirmedUtxo(unconfirmed)
		}
		start = end
	}
	return w, nil
}

// externalP2WPKH / externalP2WSH: a recipient outside the wallet, with the program computed here
// (not by the code under test).
func externalAddr(rng *ev.Rand) (string, []byte, error) {
	if rng.Bool() {
		h := rng.Bytes(20)
		a, err := common.NewAddressWitnessPubKeyHash(h, &consensus.ActiveNetParams)
		if err != nil {
			return "", nil, err
		}
		p, err := vmutil.P2WPKHProgram(h)
		return a.EncodeAddress(), p, err
	}
	h := rng.Bytes(32)
	a, err := common.NewAddressWitnessScriptHash(h, &consensus.ActiveNetParams)
	if err != nil {
		return "", nil, err
	}
	p, err := vmutil.P2WSHProgram(h)
	return a.EncodeAddress(), p, err
}
