package p27

import (
	"fmt"
	"runtime"
	"strings"
	"sync"
	"sync/atomic"
	"testing"
	"time"

	"github.com/bytom/bytom/account"
	dbm "github.com/bytom/bytom/database/leveldb"
	"github.com/bytom/bytom/protocol/bc"

	"verif/internal/ev"
)

// TestC27Concurrent: build-transaction requests are served on one goroutine each; a wallet user (an
// exchange paying out) fires several at once.  Per case a fresh wallet gets a burst of two to four
// action lists, each fundable on its own, built AT THE SAME TIME; most of them spend plain BTM of the
// same account.  A build may be refused (another build of the burst holds the outputs: reserved /
// insufficient are legitimate answers).  Every template that IS built is taken through sign and
// consensus validation and the single-transaction oracle (recipients, change, fee), and the built
// transactions of one burst must pass consensus validation TOGETHER: all of them are handed to the
// node, which accepts each only if the outputs it spends are unspent, so no output may fund two of
// them.  The wallet store pauses when a scan is released (a scheduling point, as a disk is).  The
// driver runs this function in a race-detector build as an extra run of C27.

type pausingDB struct {
	dbm.DB
	pause func()
}

type pausingIter struct {
	dbm.Iterator
	pause func()
}

func (d *pausingDB) IteratorPrefix(p []byte) dbm.Iterator {
	return &pausingIter{Iterator: d.DB.IteratorPrefix(p), pause: d.pause}
}

func (it *pausingIter) Release() {
	it.Iterator.Release()
	it.pause()
}

func TestC27Concurrent(t *testing.T) {
	r := ev.Start(t, "C27")
	defer r.Finish()
	chain, err := sharedChain(t)
	if err != nil {
		t.Fatal(err)
	}
	base := t.TempDir()
	var mode int32
	var jit uint64
	wrapWalletDB = func(db dbm.DB) dbm.DB {
		return &pausingDB{DB: db, pause: func() {
			switch atomic.LoadInt32(&mode) {
			case 0:
				x := (atomic.AddUint64(&jit, 1)) * 0x9e3779b97f4a7c15
				time.Sleep(time.Duration(20+x>>57) * time.Microsecond)
			case 1:
				runtime.Gosched()
			}
		}}
	}
	defer func() { wrapWalletDB = nil }()
	r.Cases("concurrent", r.N(60, 3000), func(c *ev.Case) {
		rng := c.Rand
		atomic.StoreInt32(&mode, int32(c.Index%3))
		w, err := newWorld(base, chain, rng)
		defer w.close()
		if err != nil {
			c.Violation("setup:"+strings.SplitN(err.Error(), ":", 2)[0], "wallet set-up failed: "+err.Error(), nil)
			return
		}
		g := &gen{w: w, rng: rng}
		// the hot account: the one with most confirmed plain BTM outputs
		hot, most := -1, 0
		for _, a := range w.accts {
			if n := len(w.recs(a.idx, btm, nil, false, false)); n > most {
				hot, most = a.idx, n
			}
		}
		if hot < 0 || most < 2 {
			c.Count("concurrent/skipped:no-account-with-two-outputs", 1)
			return
		}
		total := sum(w.recs(hot, btm, nil, false, false))
		k := rng.Range(2, 4)
		var plans []*plan
		for i := 0; i < k; i++ {
			var p *plan
			var err error
			if rng.Chance(4, 5) {
				amt := total/uint64(2*k) + rng.Uint64()%(total/uint64(2*k)+1)
				p, err = g.positive(&inReq{typ: "spend_account", acct: hot, asset: btm, amount: amt})
			} else {
				p, err = g.positive(nil)
			}
			if err != nil {
				c.Violation("generator", "generator error: "+err.Error(), nil)
				return
			}
			if p != nil {
				plans = append(plans, p)
			}
		}
		if len(plans) < 2 {
			c.Count("concurrent/skipped:fewer-than-two-plans", 1)
			return
		}
		for i, p := range plans {
			c.Journal(map[string]interface{}{"burst_plan": i, "actions": w.describe(p.acts), "fee": p.fee})
		}
		results := make([]*result, len(plans))
		start := make(chan struct{})
		var wg sync.WaitGroup
		for i := range plans {
			wg.Add(1)
			go func(i int) {
				defer wg.Done()
				res := &result{}
				<-start
				res.tpl, res.buildErr, res.panicked = w.build(plans[i])
				results[i] = res
			}(i)
		}
		close(start)
		wg.Wait()
		c.Eval(int64(len(plans)))
		c.Count("concurrent/bursts", 1)
		c.Count("concurrent/builds", int64(len(plans)))
		type spender struct {
			plan int
			txid string
		}
		spentBy := map[bc.Hash][]spender{}
		built := 0
		for i, res := range results {
			p := plans[i]
			witness := func(extra map[string]interface{}) map[string]interface{} {
				m := map[string]interface{}{"burst_plan": i, "plans_in_burst": len(plans), "actions": w.describe(p.acts), "intended_fee": p.fee, "utxo_shapes(acct/asset)": w.shapes}
				for k, v := range extra {
					m[k] = v
				}
				return m
			}
			if res.panicked != "" {
				c.Violation("concurrent:panic:"+strings.SplitN(res.panicked, ": ", 2)[0], "building an action list (together with others) panicked: "+res.panicked, witness(nil))
				return
			}
			if res.buildErr != nil {
				roots := innerRoots(res.buildErr)
				legit := true
				for _, x := range roots {
					if x != account.ErrReserved.Error() && x != account.ErrInsufficient.Error() {
						legit = false
					}
				}
				if !legit {
					c.Violation("concurrent:build:fundable-rejected:"+strings.Join(roots, "|"), "an action list fundable on its own, built together with others, is refused for a reason other than reserved / insufficient funds: "+res.buildErr.Error(), witness(nil))
					return
				}
				c.Count("concurrent/refused:"+roots[len(roots)-1], 1)
				continue
			}
			w.signAndValidate(chain, rng.Fork(), res)
			payer := w.accts[p.payer]
			fs := w.oracle(p, res)
			for _, f := range fs {
				f.key = strings.Replace(f.key, "{in}", p.inputTypes(), 1)
				f.key = strings.Replace(f.key, "{kind}", payer.class(), 1)
				c.Violation("concurrent:"+f.key, f.what, witness(f.extra))
			}
			if len(fs) > 0 || res.tx == nil {
				return
			}
			built++
			c.Count("concurrent/built", 1)
			for _, in := range res.tx.Inputs {
				if id, err := in.SpentOutputID(); err == nil {
					spentBy[id] = append(spentBy[id], spender{i, res.tx.ID.String()})
				}
			}
		}
		if built >= 2 {
			c.Count("concurrent/bursts_with_two_or_more_built", 1)
		}
		for id, sp := range spentBy {
			if len(sp) < 2 {
				continue
			}
			var who []string
			for _, s := range sp {
				who = append(who, fmt.Sprintf("plan %d tx %s: %v", s.plan, s.txid[:8], w.describe(plans[s.plan].acts)))
			}
			amount := uint64(0)
			if rec := w.utxos[id]; rec != nil {
				amount = rec.u.Amount
			}
			c.Violation("concurrent:one-output-funds-two-built-transactions",
				"two transactions built at the same time spend the same output: whichever is submitted second fails consensus validation (the output is spent), although the wallet could fund both",
				map[string]interface{}{"output": id.String(), "output_amount": amount, "spent_by": who, "plans_in_burst": len(plans), "utxo_shapes(acct/asset)": w.shapes})
			return
		}
		c.Distinct("concurrent plans=%d built=%d hot-outputs=%s", len(plans), built, bucket(most))
		if c.WantSample() {
			c.Sample(map[string]interface{}{"plans": len(plans), "built": built, "hot_account_outputs": most})
		}
	})
	r.Floor("concurrent/bursts", 30)
	r.Floor("concurrent/built", 50)
	r.Floor("concurrent/bursts_with_two_or_more_built", 12)
}
